import CrabModel.Num.ZNum
import CrabModel.Scalar.Bound
import CrabModel.Scalar.Interval
import CrabModel.Fix.Semantics
