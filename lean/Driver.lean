import Driver.Main
