/-
  The widening of crab's zone domains as the code does it
  (`split_dbm_domain::operator||` + `split_widen`, split_dbm.hpp;
   `sparse_dbm_domain::operator||` + `GrOps::widen`, sparse_dbm.hpp / graphs/graph_ops.hpp)
  and the inclusion test on which the fixpoint iterator stops (`operator<=` of both domains).

  Representation.  The weighted graph of a DBM value is a `Zone n = Mat (n+1)` (Dbm.lean /
  Zones.lean): matrix index 0 is the zero vertex, index `x+1` is variable `x`, and the entry
  `(i, j) = some k` is the constraint `v i - v j ≤ k`, i.e. crab's graph edge `j → i` of weight
  `k` (crab: edge `s → d` of weight `w` means `d - s ≤ w`).  `none` = no edge.  Crab's graphs have
  no self loops: the diagonal of the matrix is not an edge and every operation below ignores it.
  The `_is_bottom` flag is the `none` of `ZVal n = Option (Zone n)`.
  Variables of the left operand that the right operand does not know lose all their edges in the
  code (only common variables get a vertex of the result); in the matrix model such a variable has
  no entry in the right operand, its right weight is `+∞`, and the same edges are dropped.

  What the code does (both domains):
  * the LEFT operand is used as it is — `// Do not normalize left operand`;
  * the RIGHT operand is normalised first (a copy: `right.normalize()` when
    `need_normalization()`);
  * the result has exactly the edges `(i, j)` of the left operand, with the LEFT weight, for which
    the right operand has a weight `≤` the left weight; every other edge is dropped.
    `split_widen` reads the right weight of an edge between two variables as the minimum of the
    explicit edge (second loop, "stable explicit relationships") and of the path through the zero
    vertex (first loop, "stable implicit relationships": `edge_pred.val + edge_succ.val`), and the
    weight of a bound edge (to / from the zero vertex) as the explicit edge only;
    `GrOps::widen` reads the explicit edge only.
  * `widening_thresholds(o, ts)` is `*this || o` in both domains (`// TODO: use thresholds`).
  * `operator<=` (this = `y`, o = `x`): normalises a copy of `y` and answers true iff every edge of
    `x` is covered by the same right-weight reading of `y` — the very test of the widening.

  The normalisation of the right operand is modelled by the shortest-path closure `Zones.close`
  (Floyd–Warshall); the theorems on termination hold for an arbitrary reading function `ew`, so
  they do not depend on which of `close_johnson` / `close_after_widen` the code runs.
  (Measured on the real code: with `zones.widen_restabilize=false` — `close_johnson` — both domains
  behave as this model on the two-counter chains below.  With the default `close_after_widen`,
  `sparse_dbm_domain::normalize` does not restore closure after a widening — `vert_set_wrap_t`
  answers membership in `unstable` where `close_after_widen` expects `is_stable` — which loses
  precision but only ever yields implied edges, so `SoundEw` still describes it.)
-/
import CrabModel.Dom.Zones

namespace Crab
namespace Zones
open Dbm

variable {n : Nat}

/-- values of `split_dbm_domain` / `sparse_dbm_domain`: `none` = `_is_bottom` -/
abbrev ZVal (n : Nat) := Option (Zone n)

/-- concretisation of a value: no state for bottom, the states satisfying every edge otherwise -/
def γv : ZVal n → State n → Prop
  | none, _ => False
  | some z, σ => γ z σ

/-- weight of `(i, j)` as `split_widen` / `split_dbm::operator<=` read it off a graph in split
    normal form: bound edges (one end is the zero vertex) explicit only, edges between two
    variables the minimum of the explicit edge and of the path through the zero vertex -/
def splitW (r : Zone n) (i j : Fin (n + 1)) : W :=
  if i = 0 ∨ j = 0 then r.get i j else W.min (r.get i j) (W.add (r.get i 0) (r.get 0 j))

/-- right-weight reading of `split_dbm_domain`: normalise a copy, read with `splitW` -/
def splitEw (r : Zone n) : Fin (n + 1) → Fin (n + 1) → W := splitW (close r)

/-- right-weight reading of `sparse_dbm_domain`: normalise a copy, explicit edges only -/
def sparseEw (r : Zone n) : Fin (n + 1) → Fin (n + 1) → W := (close r).get

/-- `split_widen` / `GrOps::widen` on the graphs: the result keeps exactly the (off-diagonal)
    edges of the left operand `l` whose weight is `≥` the right weight `ew i j`, with the left
    weight; everything else is dropped.  `l` is NOT closed. -/
def widenBy (ew : Fin (n + 1) → Fin (n + 1) → W) (l : Zone n) : Zone n :=
  Mat.ofFn fun i j => if i ≠ j ∧ W.le (ew i j) (l.get i j) = true then l.get i j else none

/-- `leq_op`: every (off-diagonal) edge of `x` is covered by the right weight `ew` -/
def leqBy (ew : Fin (n + 1) → Fin (n + 1) → W) (x : Zone n) : Bool :=
  (List.finRange (n + 1)).all fun i => (List.finRange (n + 1)).all fun j =>
    decide (i = j) || W.le (ew i j) (x.get i j)

/-- `operator||` (`this` = `x`, `o` = `y`) for a reading `ew` of the right operand -/
def widenE (ew : Zone n → Fin (n + 1) → Fin (n + 1) → W) (x y : ZVal n) : ZVal n :=
  match x, y with
  | none, y => y                          -- `if (is_bottom()) return o;`
  | some l, none => some l                -- `else if (o.is_bottom()) return *this;`
  | some l, some r => some (widenBy (ew r) l)

/-- `operator<=` (`this` = `y`, `o` = `x`) for a reading `ew` of the normalised `this` -/
def leqE (ew : Zone n → Fin (n + 1) → Fin (n + 1) → W) (y x : ZVal n) : Bool :=
  match y, x with
  | none, _ => true                       -- `if (is_bottom()) return true;`
  | some _, none => false                 -- `else if (o.is_bottom()) return false;`
  | some l, some r => leqBy (ew l) r      -- (`o.is_top()` / `is_top()` shortcuts agree with this)

namespace SplitDbm
/-- `split_dbm_domain::operator||` -/
def widen (x y : ZVal n) : ZVal n := widenE splitEw x y
/-- `split_dbm_domain::operator<=` -/
def leq (y x : ZVal n) : Bool := leqE splitEw y x
/-- `split_dbm_domain::widening_thresholds`: the thresholds are ignored by the code -/
def widenThresholds (x y : ZVal n) (_ts : List Int) : ZVal n := widen x y
end SplitDbm

namespace SparseDbm
/-- `sparse_dbm_domain::operator||` -/
def widen (x y : ZVal n) : ZVal n := widenE sparseEw x y
/-- `sparse_dbm_domain::operator<=` -/
def leq (y x : ZVal n) : Bool := leqE sparseEw y x
/-- `sparse_dbm_domain::widening_thresholds`: the thresholds are ignored by the code -/
def widenThresholds (x y : ZVal n) (_ts : List Int) : ZVal n := widen x y
end SparseDbm

/-- THE DEFECT PATTERN (not what split_dbm does; what a client does that normalises the stored
    left operand before widening, e.g. `term_domain` before repo commit 307309d):
    close the left operand, then widen -/
def widenClosedLeft (ew : Zone n → Fin (n + 1) → Fin (n + 1) → W) (x y : ZVal n) : ZVal n :=
  widenE ew (x.map close) y

/-! ### the measure -/

/-- all index pairs -/
def allPairs (N : Nat) : List (Fin N × Fin N) :=
  (List.finRange N).flatMap fun i => (List.finRange N).map fun j => (i, j)

/-- number of finite entries (edges, diagonal included) of a graph -/
def edges {N : Nat} (m : Mat N) : Nat := (allPairs N).countP fun p => (m.get p.1 p.2).isSome

/-- the measure of a value: bottom is above every graph; a graph counts its edges -/
def zmeas : ZVal n → Nat × Nat
  | none => (1, 0)
  | some z => (0, edges z)

/-- the graph representation has no self loops -/
def NoSelfLoop (z : Zone n) : Prop := ∀ i, z.get i i = none

/-- `x₀, xₖ₊₁ = w xₖ yₖ` -/
def chainOf {A : Type} (w : A → A → A) (x0 : A) (ys : Nat → A) : Nat → A
  | 0 => x0
  | k + 1 => w (chainOf w x0 ys k) (ys k)

/-! ### the two-counter example (variables: index 1 = `x`, index 2 = `y`) -/
namespace TwoCounter

/-- a 3×3 matrix by its entries -/
def m3 (a00 a01 a02 a10 a11 a12 a20 a21 a22 : W) : Mat 3 :=
  Mat.ofFn fun i j =>
    match i.val, j.val with
    | 0, 0 => a00 | 0, 1 => a01 | 0, _ => a02
    | 1, 0 => a10 | 1, 1 => a11 | 1, _ => a12
    | _, 0 => a20 | _, 1 => a21 | _, _ => a22

/-- `{0 ≤ y ≤ x ≤ y+1, x ≤ a, y ≤ b}` as the constraints are added (nothing derived) -/
def raw (a b : Int) : Zone 2 :=
  m3 none none (some 0)
     (some a) none (some 1)
     (some b) (some 0) none

/-- the start of the chain: `{0 ≤ y ≤ x ≤ y+1, x ≤ 1, y ≤ 1}` -/
def x0 : ZVal 2 := some (raw 1 1)

/-- the further values: step `2m` raises the bound of `x` (`x ≤ m+2, y ≤ m+1`), step `2m+1`
    raises the bound of `y` (`x ≤ m+2, y ≤ m+2`) -/
def ys (k : Nat) : ZVal 2 := some (raw ((k / 2 : Nat) + 2) (((k + 1) / 2 : Nat) + 1))

/-- the defective chain: the left operand is closed before each widening -/
def badChain (ew : Zone 2 → Fin 3 → Fin 3 → W) : Nat → ZVal 2 := chainOf (widenClosedLeft ew) x0 ys

/-- the chain of the code: the left operand is left as it is -/
def goodChain (ew : Zone 2 → Fin 3 → Fin 3 → W) : Nat → ZVal 2 := chainOf (widenE ew) x0 ys

/-- the state `x = a, y = b` -/
def st (a b : Int) : State 2 := fun v => if v.val = 0 then a else b

end TwoCounter

end Zones
end Crab
