/-
  Operation histories over a pool of abstract values, and their collecting semantics.

  An abstract domain is used through three kinds of operations (abstract_domain.hpp):
   * transformers  `a ↦ f a` that abstract a concrete transition relation `r` on states
     (assign, apply, assume (+=), select, forget, project, rename, expand, casts, bool/array/
     region statements, normalize/minimize (r = identity), set_to_top (r = anything));
   * upper-bound combinations `g a b` (join `|`, widening `||`, in-place `|=`): the result must
     describe every state of either argument;
   * lower-bound combinations `g a b` (meet `&`, narrowing `&&`, `&=`): the result must describe
     every state described by both arguments;
  plus `copy` and `set_to_bottom`.  A history is a list of such steps over pool slots.
-/
namespace Crab
namespace Dom

variable {A S : Type}

/-- a transformer with the concrete relation it abstracts -/
structure Trans (A S : Type) where
  f : A → A
  r : S → S → Prop

inductive Step (A S : Type) where
  | trans (d : Nat) (t : Trans A S)                    -- pool[d] := t.f pool[d]
  | upper (d a b : Nat) (g : A → A → A)                -- pool[d] := g pool[a] pool[b]
  | lower (d a b : Nat) (g : A → A → A)
  | copy (d s : Nat)
  | setBot (d : Nat) (bot : A)

def Pool (A : Type) := Nat → A
def Pool.set (p : Pool A) (d : Nat) (v : A) : Pool A := fun i => if i = d then v else p i

/-- the abstract run of one step / of a history -/
def Step.run (p : Pool A) : Step A S → Pool A
  | .trans d t => p.set d (t.f (p d))
  | .upper d a b g => p.set d (g (p a) (p b))
  | .lower d a b g => p.set d (g (p a) (p b))
  | .copy d s => p.set d (p s)
  | .setBot d bot => p.set d bot

def runHist (p : Pool A) (h : List (Step A S)) : Pool A := h.foldl Step.run p

/-- concrete pools: for each slot the set of states the history can produce there -/
def CPool (S : Type) := Nat → S → Prop
def CPool.set (c : CPool S) (d : Nat) (v : S → Prop) : CPool S := fun i => if i = d then v else c i

/-- the collecting semantics of one step -/
def Step.coll (c : CPool S) : Step A S → CPool S
  | .trans d t => c.set d (fun s' => ∃ s, c d s ∧ t.r s s')
  | .upper d a b _ => c.set d (fun s => c a s ∨ c b s)
  | .lower d a b _ => c.set d (fun s => c a s ∧ c b s)
  | .copy d s => c.set d (c s)
  | .setBot d _ => c.set d (fun _ => False)

def collHist (c : CPool S) (h : List (Step A S)) : CPool S := h.foldl Step.coll c

/-- per-step soundness obligations of a domain w.r.t. a concretisation `γ` -/
def Step.Sound (γ : A → S → Prop) : Step A S → Prop
  | .trans _ t => ∀ a s s', γ a s → t.r s s' → γ (t.f a) s'
  | .upper _ _ _ g => ∀ a b s, (γ a s ∨ γ b s) → γ (g a b) s
  | .lower _ _ _ g => ∀ a b s, γ a s → γ b s → γ (g a b) s
  | .copy _ _ => True
  | .setBot _ _ => True

end Dom
end Crab
