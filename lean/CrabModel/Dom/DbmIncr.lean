/-
  The INCREMENTAL shortest-path closure of crab's `split_dbm_domain`, as coded
  (first mechanism of property C12):

    split_dbm.hpp   `close_over_edge(ii, jj)`, `add_linear_leq`, `repair_potential`
    graph_ops.hpp   `GraphOps::repair_potential`, `close_after_assign_fwd`, `close_after_assign`,
                    `apply_delta`

  Representation.  The weighted graph is a `Zone n = Mat (n+1)` (Dbm.lean / Zones.lean): index 0
  is the zero vertex, index `x+1` is variable `x`; the matrix entry `(i, j) = some k` is the
  constraint `v i - v j ≤ k`, i.e. crab's graph edge `j → i` of weight `k` (crab: an edge
  `s → d` of weight `w` means `d - s ≤ w`).  Everything below is written in crab's orientation
  through `edge g s d` (= `g.lookup(s, d, w)`), `setEdge` (= `g.set_edge / add_edge`) and
  `updEdge` (= `g.update_edge(s, w, d, min_op)`; `Wt_min::default_is_absorbing()` is false, so an
  absent edge is added).  Crab's graphs have no self loops (the diagonal of the matrix is not an
  edge), all `n` variables own a vertex from the start (a vertex without edges and with potential
  0 is what `get_vert` creates on demand).  Weights are unbounded integers (`z_number` weights of
  `z_dbm_graph_big_t`; the `safe_i64` graphs raise CRAB_ERROR on overflow instead).

  Iteration order.  `g_excl.e_preds(ii)`, `g_excl.e_succs(jj)`, `g.e_preds(v)`, ... enumerate an
  adjacency list in the order in which the sparse graph happens to store it.  That order is not
  part of the matrix; every function that loops over an adjacency list takes the enumeration
  `vs : List (Fin (n+1))` of the vertices as a parameter (vertices that are not adjacent are
  skipped by the loop body) and the theorems hold for EVERY enumeration that contains every vertex.
-/
import CrabModel.Dom.Zones
import CrabModel.Dom.DbmWiden

namespace Crab
namespace DbmIncr
open Dbm Zones

variable {n : Nat}

/-- `g.lookup(s, d, w)`: the weight of crab's edge `s → d` (`d - s ≤ w`) = matrix entry `(d, s)` -/
def edge (g : Zone n) (s d : Fin (n + 1)) : W := g.get d s

/-- `g.set_edge(s, w, d)` / `g.add_edge(s, w, d)`: (over)write the edge `s → d` -/
def setEdge (g : Zone n) (s : Fin (n + 1)) (w : Int) (d : Fin (n + 1)) : Zone n :=
  Mat.ofFn fun a b => if a = d ∧ b = s then some w else g.get a b

/-- `g.update_edge(s, w, d, min_op)`: `min` with an existing edge, `add_edge` otherwise -/
def updEdge (g : Zone n) (s : Fin (n + 1)) (w : Int) (d : Fin (n + 1)) : Zone n :=
  match edge g s d with
  | some k => setEdge g s (if k ≤ w then k else w) d
  | none => setEdge g s w d

/-- `GrOps::apply_delta(g, delta)`: `g.set_edge` of every recorded `((s, d), w)` in order -/
def applyDelta (g : Zone n) (delta : List (Fin (n + 1) × Fin (n + 1) × Int)) : Zone n :=
  delta.foldl (fun g e => setEdge g e.1 e.2.2 e.2.1) g

/-- the block that follows every improved edge `a → b` (new weight `wt`) of `close_over_edge`
    under `zones.close_bounds_inline`:
    ```
    if (g.lookup(0, a, w)) g.update_edge(0, w.get() + wt, b, min_op);
    if (g.lookup(b, 0, w)) g.update_edge(a, w.get() + wt, 0, min_op);
    ``` -/
def closeBounds (g : Zone n) (a b : Fin (n + 1)) (wt : Int) : Zone n :=
  let g1 := match edge g 0 a with
    | some w => updEdge g 0 (w + wt) b
    | none => g
  match edge g1 b 0 with
  | some w => updEdge g1 a (w + wt) 0
  | none => g1

/-- state of the first two loops of `close_over_edge`: the graph, the pending `delta`
    ("we add in delta so that we don't invalidate graph iterators") and `src_dec` / `dest_dec` -/
structure PassSt (n : Nat) where
  g : Zone n
  delta : List (Fin (n + 1) × Fin (n + 1) × Int)
  dec : List (Fin (n + 1) × Int)

/-- body of `for (auto edge : g_excl.e_preds(ii))`; `se` ranges over the enumeration, the vertices
    that are not predecessors of `ii` in `g_excl` (vertex 0, `ii` itself, no edge) are skipped -/
def pass1Step (inl : Bool) (ii jj : Fin (n + 1)) (c : Int) (st : PassSt n) (se : Fin (n + 1)) :
    PassSt n :=
  if se = 0 ∨ se = ii then st else
  match edge st.g se ii with
  | none => st
  | some ev =>                                   -- `edge.val`
    let wt := ev + c                             -- `Wt wt_sij = edge.val + c;`
    if se = jj then st else                      -- `if (se != jj) {`
    match edge st.g se jj with                   -- `if (g_excl.lookup(se, jj, w)) {`
    | some w =>
      if w ≤ wt then st else                     -- `if (w.get() <= wt_sij) continue;`
      let g1 := setEdge st.g se wt jj            -- `g.set_edge(se, wt_sij, jj);`
      ⟨if inl then closeBounds g1 se jj wt else g1, st.delta, st.dec ++ [(se, ev)]⟩
    | none =>                                    -- `delta.push_back({{se, jj}, wt_sij});`
      ⟨if inl then closeBounds st.g se jj wt else st.g, st.delta ++ [(se, jj, wt)],
       st.dec ++ [(se, ev)]⟩                     -- `src_dec.push_back({se, edge.val});`

/-- body of `for (auto edge : g_excl.e_succs(jj))` -/
def pass2Step (inl : Bool) (ii jj : Fin (n + 1)) (c : Int) (st : PassSt n) (de : Fin (n + 1)) :
    PassSt n :=
  if de = 0 ∨ de = jj then st else
  match edge st.g jj de with
  | none => st
  | some ev =>
    let wt := ev + c                             -- `Wt wt_ijd = edge.val + c;`
    if de = ii then st else                      -- `if (de != ii) {`
    match edge st.g ii de with                   -- `if (g_excl.lookup(ii, de, w)) {`
    | some w =>
      if w ≤ wt then st else                     -- `if (w.get() <= wt_ijd) continue;`
      let g1 := setEdge st.g ii wt de            -- `g.set_edge(ii, wt_ijd, de);`
      ⟨if inl then closeBounds g1 ii de wt else g1, st.delta, st.dec ++ [(de, ev)]⟩
    | none =>                                    -- `delta.push_back({{ii, de}, wt_ijd});`
      ⟨if inl then closeBounds st.g ii de wt else st.g, st.delta ++ [(ii, de, wt)],
       st.dec ++ [(de, ev)]⟩                     -- `dest_dec.push_back({de, edge.val});`

/-- THE SEEDED REGRESSION (`/verif/seeded/C12b/patch.diff`): `dest_dec.push_back` moved into the
    `else` branch — a successor is recorded only when its edge is NEW, not when it was tightened -/
def pass2StepMut (inl : Bool) (ii jj : Fin (n + 1)) (c : Int) (st : PassSt n) (de : Fin (n + 1)) :
    PassSt n :=
  if de = 0 ∨ de = jj then st else
  match edge st.g jj de with
  | none => st
  | some ev =>
    let wt := ev + c
    if de = ii then st else
    match edge st.g ii de with
    | some w =>
      if w ≤ wt then st else
      let g1 := setEdge st.g ii wt de
      ⟨if inl then closeBounds g1 ii de wt else g1, st.delta, st.dec⟩        -- not recorded
    | none =>
      ⟨if inl then closeBounds st.g ii de wt else st.g, st.delta ++ [(ii, de, wt)],
       st.dec ++ [(de, ev)]⟩

/-- body of the pairwise loop `for (auto s_p : src_dec) for (auto d_p : dest_dec)` -/
def pass3Step (inl : Bool) (c : Int) (sp : Fin (n + 1) × Int) (g : Zone n) (dp : Fin (n + 1) × Int) :
    Zone n :=
  let se := sp.1
  let de := dp.1
  if se = de then g else                         -- `if (se == de) continue;` (no self loop)
  let wt := c + sp.2 + dp.2                      -- `wt_sijd = (c + s_p.second) + d_p.second`
  match edge g se de with                        -- `if (g.lookup(se, de, w)) {`
  | some w =>
    if w ≤ wt then g else                        -- `if (w.get() <= wt_sijd) continue;`
    let g1 := setEdge g se wt de                 -- `g.set_edge(se, wt_sijd, de);`
    if inl then closeBounds g1 se de wt else g1
  | none =>
    let g1 := setEdge g se wt de                 -- `g.add_edge(se, wt_sijd, de);`
    if inl then closeBounds g1 se de wt else g1

/-- `close_over_edge(ii, jj)` with the second loop body as a parameter (the code: `pass2Step`) -/
def closeOverEdgeG (p2 : Bool → Fin (n + 1) → Fin (n + 1) → Int → PassSt n → Fin (n + 1) → PassSt n)
    (inl : Bool) (vs : List (Fin (n + 1))) (g : Zone n) (ii jj : Fin (n + 1)) : Zone n :=
  match edge g ii jj with                        -- `Wt c = g_excl.edge_val(ii, jj);`
  | none => g                                    -- (the edge has just been added by the caller)
  | some c =>
    let g0 := if inl then closeBounds g ii jj c else g
    let s1 := vs.foldl (pass1Step inl ii jj c) ⟨g0, [], []⟩
    let g1 := applyDelta s1.g s1.delta           -- `GrOps::apply_delta(g, delta); delta.clear();`
    let s2 := vs.foldl (p2 inl ii jj c) ⟨g1, [], []⟩
    let g2 := applyDelta s2.g s2.delta           -- `GrOps::apply_delta(g, delta);`
    s1.dec.foldl (fun g sp => s2.dec.foldl (pass3Step inl c sp) g) g2

/-- `split_dbm_domain::close_over_edge(ii, jj)`: restore closure after the single edge addition
    `ii → jj`; `inl` = `zones.close_bounds_inline` -/
def closeOverEdge (inl : Bool) (vs : List (Fin (n + 1))) (g : Zone n) (ii jj : Fin (n + 1)) : Zone n :=
  closeOverEdgeG pass2Step inl vs g ii jj

/-- the seeded regression of `close_over_edge` -/
def closeOverEdgeMut (inl : Bool) (vs : List (Fin (n + 1))) (g : Zone n) (ii jj : Fin (n + 1)) : Zone n :=
  closeOverEdgeG pass2StepMut inl vs g ii jj

/-- witness against the seeded regression (vertices: 1 = `a`, 2 = `i`, 3 = `j`, 4 = `d`): the closed
    graph of `i - a ≤ 0, d - i ≤ 10, d - j ≤ 1` (with the derived `d - a ≤ 10`); adding
    `j - i ≤ 1` (edge `2 → 3`) TIGHTENS the existing `2 → 4` to 2, and `1 → 4` must become 2 -/
def mutantWitness : Zone 4 :=
  setEdge (setEdge (setEdge (setEdge (Mat.ofFn fun _ _ => none) 1 0 2) 2 10 4) 3 1 4) 1 10 4

/-! ### `GraphOps::repair_potential` -/

/-- scratch state of `repair_potential`: `dists`, `dists_alt`, and the set of vertices on the heap -/
structure RSt (n : Nat) where
  dists : Fin (n + 1) → Int
  alt : Fin (n + 1) → Int
  heap : Fin (n + 1) → Bool

/-- `f[a] = x` -/
def fupd {α : Type} (f : Fin (n + 1) → α) (a : Fin (n + 1)) (x : α) : Fin (n + 1) → α :=
  fun u => if u = a then x else f u

/-- body of `for (auto e : g.e_succs(es))` in `repair_potential` -/
def relaxSucc (g : Zone n) (p : Fin (n + 1) → Int) (es : Fin (n + 1)) (st : RSt n)
    (ed : Fin (n + 1)) : RSt n :=
  match edge g es ed with
  | none => st
  | some ev =>
    if st.alt ed = p ed then                     -- `if (dists_alt[ed] == p[ed])`: not finalised
      let gnext := st.alt es + ev - st.alt ed    -- `dists_alt[es] + e.val - dists_alt[ed]`
      if gnext < st.dists ed then                -- `if (gnext_ed < dists[ed])`
        ⟨fupd st.dists ed gnext, st.alt, fupd st.heap ed true⟩   -- insert / decrease
      else st
    else st

/-- `heap.removeMin()`: a vertex of the heap with the least `dists` (among equal ones the binary
    heap's choice depends on its history; here: the first one of the enumeration — the proofs use
    only that the chosen vertex is on the heap and minimal) -/
def pickMin (vs : List (Fin (n + 1))) (dists : Fin (n + 1) → Int) (heap : Fin (n + 1) → Bool) :
    Option (Fin (n + 1)) :=
  vs.foldl (fun best u =>
    if heap u then
      match best with
      | none => some u
      | some b => if dists u < dists b then some u else some b
    else best) none

/-- `while (!heap.empty())` of `repair_potential`, at most `fuel` rounds (every round finalises a
    vertex, `n + 1` rounds always empty the heap: `repairLoop_heap_empty`) -/
def repairLoop (vs : List (Fin (n + 1))) (g : Zone n) (p : Fin (n + 1) → Int) : Nat → RSt n → RSt n
  | 0, st => st
  | fuel + 1, st =>
    match pickMin vs st.dists st.heap with
    | none => st
    | some es =>                                 -- `int es = heap.removeMin();`
      let st1 : RSt n :=                         -- `dists_alt[es] = p[es] + dists[es];`
        ⟨st.dists, fupd st.alt es (p es + st.dists es), fupd st.heap es false⟩
      repairLoop vs g p fuel (vs.foldl (relaxSucc g p es) st1)

/-- `GraphOps::repair_potential(g, p, ii, jj)`: restore a valid potential after the edge
    `ii → jj` was added or tightened; `none` = `return false` (negative cycle: the caller sets the
    value to bottom), `some p'` = `return true` with the repaired potential -/
def repairPotential (vs : List (Fin (n + 1))) (g : Zone n) (p : Fin (n + 1) → Int)
    (ii jj : Fin (n + 1)) : Option (Fin (n + 1) → Int) :=
  match edge g ii jj with
  | none => some p                               -- (not reachable: the caller has just set the edge)
  | some w =>
    let d0 := p ii + w - p jj                    -- `dists[jj] = p[ii] + g.edge_val(ii, jj) - p[jj];`
    if 0 ≤ d0 then some p else                   -- `if (dists[jj] >= Wt(0)) return true;`
    let st0 : RSt n := ⟨fun u => if u = jj then d0 else 0, p, fun u => decide (u = jj)⟩
    let st := repairLoop vs g p (n + 1) st0
    if st.dists ii < 0 then none                 -- `if (dists[ii] < Wt(0)) return false;`
    else some st.alt                             -- `p[v] = dists_alt[v]; return true;`

/-! ### `GraphOps::close_after_assign` -/

/-- inner loop of `close_after_assign_fwd`: `for (auto edge : g.e_succs(d))` with `d_wt = dists[d]`
    read before the loop.  `ds u = none` = `!vert_marks[u]`, `ds u = some k` = marked with
    `dists[u] = k` -/
def cafInner (succ : Fin (n + 1) → Fin (n + 1) → W) (d : Fin (n + 1)) (dwt : Int)
    (ds : Fin (n + 1) → W) (e : Fin (n + 1)) : Fin (n + 1) → W :=
  match succ d e with
  | none => ds
  | some ev =>
    let ewt := dwt + ev                          -- `Wt e_wt = d_wt + edge.val;`
    match ds e with
    | none => fun u => if u = e then some ewt else ds u            -- `if (!vert_marks[e])`: queued
    | some old => fun u => if u = e then some (if ewt ≤ old then ewt else old) else ds u
                                                 -- `dists[e] = std::min(e_wt, dists[e]);`

/-- one round of the outer loop `for (; adj_head < adj_tail; adj_head++)`: only the IMMEDIATE
    successors of `v` are on `[adj_head, adj_tail)` (vertices reached later are appended after
    `adj_tail` and never expanded) -/
def cafOuter (succ : Fin (n + 1) → Fin (n + 1) → W) (vs : List (Fin (n + 1))) (v : Fin (n + 1))
    (ds : Fin (n + 1) → W) (d : Fin (n + 1)) : Fin (n + 1) → W :=
  match succ v d with
  | none => ds
  | some _ =>
    match ds d with
    | none => ds
    | some dwt => vs.foldl (cafInner succ d dwt) ds

/-- `close_after_assign_fwd(g, p, v, aux)`: `succ s d` is the weight of `s → d` in the graph the
    function is instantiated with (`g` or `GraphRev(g)`).  `adj` is the order in which the
    immediate successors are expanded — the code sorts them by increasing slack
    `dists[d] - p[d]` (`std::sort(adj_head, adj_tail, make_adjcmp(p))`); the potentials `p` are
    used for nothing else here and the result is proved exact for EVERY order.  The returned
    function gives `dists[x]` for the marked vertices (`aux` collects all of them except `v`). -/
def cafFwd (succ : Fin (n + 1) → Fin (n + 1) → W) (adj vs : List (Fin (n + 1))) (v : Fin (n + 1)) :
    Fin (n + 1) → W :=
  adj.foldl (cafOuter succ vs v) (fun u => if u = v then some 0 else succ v u)

/-- `GrOps::close_after_assign(g, p, v, delta); GrOps::apply_delta(g, delta);`: the forward
    distances become the edges `v → x`, the backward ones (same function on `GraphRev(g)`, both
    computed on the unmodified `g`) the edges `x → v`.  (`aux` lists the vertices in the order
    they were reached; `vs` is used here — the recorded edges are pairwise distinct, so the
    order of `apply_delta` is irrelevant.) -/
def closeAfterAssign (adjF adjB vs : List (Fin (n + 1))) (g : Zone n) (v : Fin (n + 1)) : Zone n :=
  let df := cafFwd (fun s d => edge g s d) adjF vs v
  let db := cafFwd (fun s d => edge g d s) adjB vs v
  let deltaF := vs.filterMap fun x => if x = v then none else (df x).map fun k => (v, x, k)
  let deltaB := vs.filterMap fun x => if x = v then none else (db x).map fun k => (x, v, k)
  applyDelta g (deltaF ++ deltaB)

/-! ### `split_dbm_domain::add_linear_leq` on the constraint language of zones -/

/-- a non-bottom value of `split_dbm_domain`: the graph and the potential function (`potential`,
    a solution of the graph kept to detect negative cycles incrementally); bottom
    (`_is_bottom`) is the `none` of `Option (SG n)` -/
structure SG (n : Nat) where
  g : Zone n
  pot : Fin (n + 1) → Int

/-- the empty graph, potential 0 (`split_dbm_domain()` = top; `get_vert` gives a fresh vertex
    the potential 0) -/
def SG.top : SG n := ⟨Mat.ofFn fun _ _ => none, fun _ => 0⟩

/-- under `close_bounds_inline`, body of `for (auto e : g.e_preds(v))` after the bound
    `0 - v ≤ k` was set: the bound of every predecessor `e ≠ 0` of `v` is updated through `v`,
    each update followed by `repair_potential` (`none` = `set_to_bottom(); return false;`) -/
def lbPropStep (vs : List (Fin (n + 1))) (v : Fin (n + 1)) (k : Int) (acc : Option (SG n))
    (e : Fin (n + 1)) : Option (SG n) :=
  match acc with
  | none => none
  | some s' =>
    if e = 0 then some s' else                   -- `if (e.vert == 0) continue;`
    match edge s'.g e v with
    | none => some s'
    | some ev =>                                 -- `g.update_edge(e.vert, e.val - p.second, 0, min_op);`
      let g2 := updEdge s'.g e (ev + k) 0
      match repairPotential vs g2 s'.pot e 0 with
      | none => none
      | some p2 => some ⟨g2, p2⟩

/-- under `close_bounds_inline`, body of `for (auto e : g.e_succs(v))` after the bound
    `v - 0 ≤ k` was set -/
def ubPropStep (vs : List (Fin (n + 1))) (v : Fin (n + 1)) (k : Int) (acc : Option (SG n))
    (e : Fin (n + 1)) : Option (SG n) :=
  match acc with
  | none => none
  | some s' =>
    if e = 0 then some s' else
    match edge s'.g v e with
    | none => some s'
    | some ev =>                                 -- `g.update_edge(0, e.val + p.second, e.vert, min_op);`
      let g2 := updEdge s'.g 0 (ev + k) e
      match repairPotential vs g2 s'.pot 0 e with
      | none => none
      | some p2 => some ⟨g2, p2⟩

/-- body of the loop `for (auto p : lbs)` of `add_linear_leq` for the bound `0 - v ≤ k`
    (`k = -p.second`): "already implied" test, `set_edge`, `repair_potential` failing ⇒ bottom,
    and under `close_bounds_inline` the propagation to the predecessors of `v` -/
def addLb (inl : Bool) (vs : List (Fin (n + 1))) (s : SG n) (v : Fin (n + 1)) (k : Int) :
    Option (SG n) :=
  -- `if (g.lookup(v, 0, w) && w.get() <= -p.second) continue;`
  if W.le (edge s.g v 0) (some k) = true then some s else
  let g1 := setEdge s.g v k 0                    -- `g.set_edge(v, -p.second, 0);`
  match repairPotential vs g1 s.pot v 0 with     -- `if (!repair_potential(v, 0)) { set_to_bottom(); ..`
  | none => none
  | some p1 =>
    if inl then vs.foldl (lbPropStep vs v k) (some ⟨g1, p1⟩)   -- `for (auto e : g.e_preds(v))`
    else some ⟨g1, p1⟩

/-- body of the loop `for (auto p : ubs)` for the bound `v - 0 ≤ k` -/
def addUb (inl : Bool) (vs : List (Fin (n + 1))) (s : SG n) (v : Fin (n + 1)) (k : Int) :
    Option (SG n) :=
  -- `if (g.lookup(0, v, w) && w.get() <= p.second) continue;`
  if W.le (edge s.g 0 v) (some k) = true then some s else
  let g1 := setEdge s.g 0 k v                    -- `g.set_edge(0, p.second, v);`
  match repairPotential vs g1 s.pot 0 v with
  | none => none
  | some p1 =>
    if inl then vs.foldl (ubPropStep vs v k) (some ⟨g1, p1⟩)   -- `for (auto e : g.e_succs(v))`
    else some ⟨g1, p1⟩

/-- body of the loop `for (auto diff : csts)` for `dest - src ≤ k`: the "is the edge already
    implied via the bounds" test, `update_edge`, `repair_potential` failing ⇒ bottom,
    `close_over_edge(src, dest)` -/
def addDiffEdge (inl : Bool) (vs : List (Fin (n + 1))) (s : SG n) (src dest : Fin (n + 1)) (k : Int) :
    Option (SG n) :=
  -- `if (g.lookup(src, 0, w1) && g.lookup(0, dest, w2) && (w1.get() + w2.get()) <= diff.second) continue;`
  if W.le (W.add (edge s.g src 0) (edge s.g 0 dest)) (some k) = true then some s else
  let g1 := updEdge s.g src k dest               -- `g.update_edge(src, diff.second, dest, min_op);`
  match repairPotential vs g1 s.pot src dest with
  | none => none
  | some p1 => some ⟨closeOverEdge inl vs g1 src dest, p1⟩

/-- the last step of `add_linear_leq`: `if (!close_bounds_inline) { close_after_assign(g, potential,
    0, delta); apply_delta(g, delta); }` -/
def closeBoundsEnd (inl : Bool) (vs : List (Fin (n + 1))) (s : SG n) : SG n :=
  if inl then s else ⟨closeAfterAssign vs vs vs s.g 0, s.pot⟩

/-- the entry of `lbs` that `diffcsts_of_lin_leq` derives for `x - y ≤ k` when `x` has a lower
    bound (`lbx = some a`: the edge `x → 0` of weight `a = -lb(x)`): `y ≥ lb(x) - k` -/
def addDerivedLb (inl : Bool) (vs : List (Fin (n + 1))) (s : SG n) (lbx : W) (v : Fin (n + 1))
    (k : Int) : Option (SG n) :=
  match lbx with
  | some a => addLb inl vs s v (k + a)
  | none => some s

/-- the entry of `ubs` derived for `x - y ≤ k` when `y` has an upper bound (`uby = some b`):
    `x ≤ k + ub(y)` -/
def addDerivedUb (inl : Bool) (vs : List (Fin (n + 1))) (s : SG n) (uby : W) (v : Fin (n + 1))
    (k : Int) : Option (SG n) :=
  match uby with
  | some b => addUb inl vs s v (k + b)
  | none => some s

/-- `split_dbm_domain::operator+=` of ONE constraint of the language of zones on a non-bottom
    value (`normalize()` is the identity: the value is in normal form), i.e. `add_linear_leq` of the
    expression.  `diffcsts_of_lin_leq` produces
    * `x ≤ k`:      `ubs = [(x, k)]`
    * `-x ≤ k`:     `lbs = [(x, -k)]`
    * `x - y ≤ k`:  `csts = [((x, y), k)]`, and from the CURRENT bounds (`at(x).lb()`, `at(y).ub()`,
                    read off the graph before anything is added) `lbs = [(y, lb(x) - k)]` when
                    `x` has a lower bound, `ubs = [(x, k + ub(y))]` when `y` has an upper bound;
    the loops run in the order `lbs`, `ubs`, `csts`.  `x - x ≤ k` is a constant constraint
    (`is_tautology` / `is_contradiction` in `operator+=`). -/
def addCst (inl : Bool) (vs : List (Fin (n + 1))) (s : SG n) (c : Zones.Cst n) : Option (SG n) :=
  match c with
  | .ub x k => (addUb inl vs s x.succ k).map (closeBoundsEnd inl vs)
  | .lb x k => (addLb inl vs s x.succ k).map (closeBoundsEnd inl vs)
  | .diff x y k =>
    if x = y then (if 0 ≤ k then some s else none) else
    let lbx := edge s.g x.succ 0                 -- `-at(x).lb()`
    let uby := edge s.g 0 y.succ                 -- `at(y).ub()`
    (addDerivedLb inl vs s lbx y.succ k).bind fun s1 =>        -- `for (auto p : lbs)`
    (addDerivedUb inl vs s1 uby x.succ k).bind fun s2 =>       -- `for (auto p : ubs)`
    (addDiffEdge inl vs s2 y.succ x.succ k).map (closeBoundsEnd inl vs)   -- `for (auto diff : csts)`

/-- `operator+=` on a possibly bottom value (`if (is_bottom()) return;`) -/
def addStep (inl : Bool) (vs : List (Fin (n + 1))) (acc : Option (SG n)) (c : Zones.Cst n) :
    Option (SG n) :=
  match acc with
  | none => none
  | some s => addCst inl vs s c

/-- a history of constraints from top; `none` = bottom -/
def addAll (inl : Bool) (vs : List (Fin (n + 1))) (cs : List (Zones.Cst n)) : Option (SG n) :=
  cs.foldl (addStep inl vs) (some SG.top)

/-! ### the split normal form -/

/-- the stored graph with the trivial `v i - v i ≤ 0` on the diagonal -/
def zdiag (g : Zone n) : Zone n := Mat.ofFn fun i j => if i = j then some 0 else g.get i j

/-- the subgraph `g_excl = SubGraph(g, 0)` of the edges between variables (zero diagonal, the zero
    vertex isolated) -/
def varPart (g : Zone n) : Zone n :=
  Mat.ofFn fun i j => if i = j then some 0 else if i = 0 ∨ j = 0 then none else g.get i j

/-- how a stored graph in split normal form is READ (`split_dbm::operator<=`, `split_widen`,
    `entails`, ...): bound edges as stored, an edge between two variables as the minimum of the
    stored edge and of the path through the zero vertex (`Zones.splitW`), zero diagonal -/
def fullOf (g : Zone n) : Zone n := Mat.ofFn fun i j => if i = j then some 0 else splitW g i j

end DbmIncr
end Crab
