/-
  Further operations on the canonical integer-octagon model (`Dom/Octagon.lean`, the reference of
  exactness of property C12) needed to state C03 / C04 / C01 for octagons: values with an explicit
  bottom flag (`OVal n = Option (Oct n)`; for `n = 0` no matrix is unsatisfiable), `is_top`,
  `forget` of several variables, `project`, the assignments expressible in the language
  (`x := k`, `x := y + k`, `x := x + k`, `x := -y + k`, `x := -x + k`; everything else is a
  havoc = forget), a statement language with its concrete relation, and a widening.

  The assignments are operations of the CANONICAL model (forget + assume; translation of the
  matrix for `x := x + k`; exchange of the two literals of `x` for `x := -x`), not a transcription
  of `split_oct_domain::assign`.

  THE WIDENING IS NOT THE CODE'S.  `OVal.widen` is the textbook octagon widening (Miné): the
  entries of the UNCLOSED left operand that the tight closure of the right operand does not
  exceed are kept, the others dropped.  `split_oct_domain::operator||` (`split_widen`) also keeps
  the left operand unclosed and normalises the right one, and its first loop ("explicit in both")
  is this rule; but it further adds edges that are explicit on one side and only implied through
  the unary bounds on the other (`split_widen_rels`, both directions, with a side condition for
  termination), which is not modelled.  Narrowing is the meet, as in the code.
-/
import CrabModel.Dom.Octagon
import CrabModel.Dom.ZonesOps

namespace Crab
namespace Octagon
open Dbm

variable {n : Nat}

/-- values: `none` = the bottom flag -/
abbrev OVal (n : Nat) := Option (Oct n)

def γv : OVal n → State n → Prop
  | none, _ => False
  | some o, σ => γ o σ

/-- `is_top`: every state is described, i.e. `top ⊑ o` -/
def isTop (o : Oct n) : Bool := leq top o

def forgetAll (o : Oct n) (xs : List (Fin n)) : Oct n := xs.foldl forget o

def project (o : Oct n) (keep : List (Fin n)) : Oct n :=
  forgetAll o ((List.finRange n).filter fun x => !keep.contains x)

/-- the translation vector of `x := x + k` on the literals: `+x` grows by `k`, `-x` by `-k` -/
def shiftVec (x : Fin n) (k : Int) : Fin (2 * n) → Int :=
  fun i => if i = pos x then k else if i = neg x then -k else 0

/-- exchange the two literals of `x` -/
def swapLit (x : Fin n) (i : Fin (2 * n)) : Fin (2 * n) := if varOf i = x then bar i else i

/-- `x := -x` -/
def negate (o : Oct n) (x : Fin n) : Oct n := o.permute (swapLit x)

/-- `x := k` -/
def assignCst (o : Oct n) (x : Fin n) (k : Int) : Oct n :=
  assumeAll (forget o x) [.ub x k, .lb x (-k)]

/-- `x := y + k` (`x := x + k` translates the matrix) -/
def assignVar (o : Oct n) (x y : Fin n) (k : Int) : Oct n :=
  if x = y then o.shiftBy (shiftVec x k)
  else assumeAll (forget o x) [.diff x y k, .diff y x (-k)]

/-- `x := -y + k` (`x := -x + k` exchanges the literals of `x`, then translates) -/
def assignNeg (o : Oct n) (x y : Fin n) (k : Int) : Oct n :=
  if x = y then (negate o x).shiftBy (shiftVec x k)
  else assumeAll (forget o x) [.sum x y k, .nsum x y (-k)]

inductive Stmt (n : Nat) where
  | assume (cs : List (Cst n))
  | assignCst (x : Fin n) (k : Int)       -- `x := k`
  | assignVar (x y : Fin n) (k : Int)     -- `x := y + k`
  | assignNeg (x y : Fin n) (k : Int)     -- `x := -y + k`
  | havoc (x : Fin n)
  | forget (xs : List (Fin n))
  | project (keep : List (Fin n))

def Stmt.rel : Stmt n → State n → State n → Prop
  | .assume cs, s, s' => s' = s ∧ ∀ c ∈ cs, c.sat s
  | .assignCst x k, s, s' => s' = fun y => if y = x then k else s y
  | .assignVar x y k, s, s' => s' = fun v => if v = x then s y + k else s v
  | .assignNeg x y k, s, s' => s' = fun v => if v = x then -s y + k else s v
  | .havoc x, s, s' => ∀ y, y ≠ x → s' y = s y
  | .forget xs, s, s' => ∀ y, y ∉ xs → s' y = s y
  | .project keep, s, s' => ∀ y, y ∈ keep → s' y = s y

def Stmt.exec : Stmt n → Oct n → Oct n
  | .assume cs, o => Octagon.assumeAll o cs
  | .assignCst x k, o => Octagon.assignCst o x k
  | .assignVar x y k, o => Octagon.assignVar o x y k
  | .assignNeg x y k, o => Octagon.assignNeg o x y k
  | .havoc x, o => Octagon.forget o x
  | .forget xs, o => Octagon.forgetAll o xs
  | .project keep, o => Octagon.project o keep

namespace OVal

def bot : OVal n := none
def top : OVal n := some Octagon.top

def isBottom : OVal n → Bool
  | none => true
  | some o => Octagon.isBottom o

def isTop : OVal n → Bool
  | none => false
  | some o => Octagon.isTop o

def exec (st : Stmt n) (v : OVal n) : OVal n := v.map st.exec

def join : OVal n → OVal n → OVal n
  | none, y => y
  | x, none => x
  | some a, some b => some (Octagon.join a b)

def meet : OVal n → OVal n → OVal n
  | some a, some b => some (Octagon.meet a b)
  | _, _ => none

def leq : OVal n → OVal n → Bool
  | none, _ => true
  | some a, none => Octagon.isBottom a
  | some a, some b => Octagon.leq a b

/-- the textbook widening (NOT `split_oct_domain::operator||`, see the header) -/
def widen : OVal n → OVal n → OVal n
  | none, y => y
  | some l, none => some l
  | some l, some r => if Octagon.isBottom r then some l else some (Mat.widenStd l (close r))

def ops : Fix.Ops (OVal n) :=
  { bot := bot, top := top, leq := leq, join := join, meet := meet, widen := widen, narrow := meet }

end OVal

end Octagon
end Crab
