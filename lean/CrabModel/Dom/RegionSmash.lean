import CrabModel.Scalar.SmallRange
import CrabModel.Scalar.Interval
import CrabModel.Dom.RegionSem

/-!
  `RegionSmash` — the smashing rule of `region_domain` (include/crab/domains/region_domain.hpp)
  as a functor over a generic base domain:

    * one ghost variable per region (`GVar.rgn g`) summarises every cell of the region;
    * one ghost variable per reference (`GVar.ref r`) holds its address (null = 0);
    * a `small_range` counter per region counts the references created for it; loads and stores
      are strong only while the counter is `0` or `1(V)` (stores also while nothing was written
      yet: `init = false`), otherwise weak (`expand` to a scratch variable / `weak_assign`);
    * an allocation-site set per reference variable and per region (the sites of the references
      stored in it).

  The model follows the tree after the C15 fixes (70510e9 .. f6afed4 in /repo); the behaviour
  before the fixes survives only in the explicitly named `refMakeOld` / `SmallRange.incrementOld`.

  What is transcribed (branch by branch, for statically typed regions): `ref_make`, `ref_gep`
  with a constant offset, `ref_load`, `ref_store`, `region_copy`, `ref_free`, join / widening of
  the non-base components, `is_null_ref`, `get_allocation_sites`.
  What is NOT modelled: unknown regions and dynamic types (`region_cast`), offset / size ghost
  variables (`is_dereferenceable`), tags, the deallocation classes, `ref_assume` on the
  allocation sites, the renaming performed by the ghost variable manager.

  The base domain is any type `B` with the operations and soundness laws of `Base B`
  (assignment, weak assignment, forget, expand, join, an interval projection).
-/
namespace Crab
namespace Rgn

/-- variables of the base domain: the region domain hands only integer ghost variables down -/
inductive GVar where
  | int (x : Nat)     -- an integer program variable
  | ref (r : Nat)     -- the address of a reference variable
  | rgn (g : Nat)     -- the content of a region
  | dup               -- the scratch copy used by weak reads
  deriving DecidableEq, Repr

abbrev Val := GVar → Int

def Val.set (ρ : Val) (x : GVar) (k : Int) : Val := fun y => if y = x then k else ρ y

/-- operations of the base domain the region domain uses, with their soundness laws -/
structure Base (B : Type) where
  γ : B → Val → Prop
  assign : GVar → GVar → B → B              -- x := y
  assignC : GVar → Int → B → B              -- x := k
  assignAdd : GVar → GVar → Int → B → B     -- x := y + k
  weakAssign : GVar → GVar → B → B          -- x := y weakly (DEFAULT_WEAK_ASSIGN: b | assign x y b)
  weakAssignC : GVar → Int → B → B
  forget : GVar → B → B
  expand : GVar → GVar → B → B              -- expand(x, y): y becomes a fresh copy of the summary x
  join : B → B → B
  widen : B → B → B
  toItv : B → GVar → Itv
  assign_sound : ∀ {b ρ} x y, γ b ρ → γ (assign x y b) (ρ.set x (ρ y))
  assignC_sound : ∀ {b ρ} x k, γ b ρ → γ (assignC x k b) (ρ.set x k)
  assignAdd_sound : ∀ {b ρ} x y k, γ b ρ → γ (assignAdd x y k b) (ρ.set x (ρ y + k))
  weakAssign_keep : ∀ {b ρ} x y, γ b ρ → γ (weakAssign x y b) ρ
  weakAssign_sound : ∀ {b ρ} x y, γ b ρ → γ (weakAssign x y b) (ρ.set x (ρ y))
  weakAssignC_keep : ∀ {b ρ} x k, γ b ρ → γ (weakAssignC x k b) ρ
  weakAssignC_sound : ∀ {b ρ} x k, γ b ρ → γ (weakAssignC x k b) (ρ.set x k)
  forget_sound : ∀ {b ρ} x k, γ b ρ → γ (forget x b) (ρ.set x k)
  expand_sound : ∀ {b ρ} x y k, γ b ρ → γ b (ρ.set x k) → γ (expand x y b) (ρ.set y k)
  join_left : ∀ {a b ρ}, γ a ρ → γ (join a b) ρ
  join_right : ∀ {a b ρ}, γ b ρ → γ (join a b) ρ
  widen_left : ∀ {a b ρ}, γ a ρ → γ (widen a b) ρ
  widen_right : ∀ {a b ρ}, γ b ρ → γ (widen a b) ρ
  toItv_sound : ∀ {b ρ} x, γ b ρ → Itv.mem (ρ x) (toItv b x)

/-- abstract state of the functor -/
structure RS (B : Type) where
  cnt : Nat → SmallRange              -- m_rgn_env: reference counter of a region
  init : Nat → Bool                   -- m_rgn_env: false = nothing written yet, true = unknown (top)
  sites : Nat → Option (List Nat)     -- m_alloc_env on reference variables (none = top)
  rsites : Nat → Option (List Nat)    -- m_alloc_env on regions
  base : B

/-- what `ref_store` writes -/
inductive SVal where
  | cst (k : Int)
  | ivar (x : Nat)
  | rvar (r : Nat)
  | null
  deriving DecidableEq, Repr

/-- the cell value a store writes in a given state -/
def SVal.eval (σ : State) : SVal → CellVal
  | .cst k => .int k
  | .ivar x => .int (σ.ints x)
  | .rvar r => .ref (σ.refs r)
  | .null => .ref .null

def updN {α : Type} (f : Nat → α) (i : Nat) (v : α) : Nat → α := fun j => if j = i then v else f j

def unionSites : Option (List Nat) → Option (List Nat) → Option (List Nat)
  | some a, some b => some (a ++ b)
  | _, _ => none

/-- the destination of a load -/
inductive LDst where
  | ivar (x : Nat)
  | rvar (r : Nat)

def LDst.gvar : LDst → GVar
  | .ivar x => .int x
  | .rvar r => .ref r

namespace RS
variable {B : Type}

/-- the allocation sites after a load: a loaded reference gets the sites of the region -/
def loadSites (A : RS B) (g : Nat) : LDst → Nat → Option (List Nat)
  | .ivar _ => A.sites
  | .rvar r' => updN A.sites r' (A.rsites g)

/-- `is_null_ref(ref)` on a non-bottom state: the interval of the address ghost variable.
    `some true` = definitely null, `some false` = definitely not null, `none` = unknown. -/
def isNullRef (D : Base B) (A : RS B) (r : Nat) : Option Bool :=
  let i := D.toItv A.base (.ref r)
  if !(Itv.leq (Itv.single 0) i) then some false
  else match i.lb, i.ub with
    | .fin 0, .fin 0 => some true
    | _, _ => none

/-- `get_allocation_sites(ref)` : `none` = no answer (the set is top) -/
def getAllocSites (A : RS B) (r : Nat) : Option (List Nat) := A.sites r

/-- `ref_make(ref, rgn, size, as)` : the counter of the region is incremented, the reference gets
    the site, and the ghost variables of `ref` are forgotten first (`ref_gvars.forget(m_base_dom)`:
    whatever was known about the old value of `ref` does not hold for the new reference) -/
def refMake (D : Base B) (A : RS B) (r g site : Nat) : RS B :=
  { A with cnt := updN A.cnt g ((A.cnt g).increment r), sites := updN A.sites r (some [site]),
           base := D.forget (.ref r) A.base }

/-- `ref_make` as it was before the fixes 078ec97 (the address ghost variable of `ref` was not
    touched) and 3175bba (old `increment`).  Kept only for the counterexamples that motivated them. -/
def refMakeOld (A : RS B) (r g site : Nat) : RS B :=
  { A with cnt := updN A.cnt g ((A.cnt g).incrementOld r), sites := updN A.sites r (some [site]) }

/-- `ref_gep(ref1, rgn1, ref2, rgn2, k)` with a constant offset -/
def refGep (D : Base B) (A : RS B) (r1 g1 r2 g2 : Nat) (k : Int) : RS B :=
  { A with
    base := D.assignAdd (.ref r2) (.ref r1) k A.base
    cnt := if g1 = g2 ∧ k = 0 then A.cnt else updN A.cnt g2 ((A.cnt g2).increment r2)
    sites := updN A.sites r2 (A.sites r1) }

/-- `ref_load(ref, rgn, res)` -/
def refLoad (D : Base B) (A : RS B) (r g : Nat) (dst : LDst) : RS B :=
  if A.isNullRef D r = some true then { A with base := D.forget dst.gvar A.base }
  else if (A.cnt g).isZero || (A.cnt g).isOne then
    { A with sites := loadSites A g dst, base := D.assign dst.gvar (.rgn g) A.base }    -- strong read
  else
    { A with sites := loadSites A g dst,                                                -- weak read
             base := D.forget .dup (D.assign dst.gvar .dup (D.expand (.rgn g) .dup A.base)) }

/-- `do_mem_write` -/
def memWrite (D : Base B) (b : B) (g : Nat) (v : SVal) (weak : Bool) : B :=
  match v, weak with
  | .cst k, false => D.assignC (.rgn g) k b
  | .cst k, true => D.weakAssignC (.rgn g) k b
  | .null, false => D.assignC (.rgn g) 0 b
  | .null, true => D.weakAssignC (.rgn g) 0 b
  | .ivar x, false => D.assign (.rgn g) (.int x) b
  | .ivar x, true => D.weakAssign (.rgn g) (.int x) b
  | .rvar r, false => D.assign (.rgn g) (.ref r) b
  | .rvar r, true => D.weakAssign (.rgn g) (.ref r) b

/-- `ref_store(ref, rgn, val)` -/
def refStore (D : Base B) (A : RS B) (r g : Nat) (v : SVal) : RS B :=
  if A.isNullRef D r = some true then { A with base := D.forget (.rgn g) A.base }
  else if A.init g = false || (A.cnt g).isZero || (A.cnt g).isOne then
    { A with                                                                            -- strong update
      base := memWrite D A.base g v false
      init := updN A.init g true
      rsites := match v with
        | .null => updN A.rsites g (some [])
        | .rvar r0 => updN A.rsites g (A.sites r0)
        | _ => A.rsites }
  else
    { A with                                                                            -- weak update
      base := memWrite D A.base g v true
      init := updN A.init g true
      rsites := match v with
        | .rvar r0 => updN A.rsites g (unionSites (A.rsites g) (A.sites r0))
        | _ => A.rsites }

/-- `region_copy(lhs, rhs)` (typed regions) -/
def regionCopy (D : Base B) (A : RS B) (l r : Nat) : RS B :=
  { A with
    cnt := updN A.cnt l (A.cnt r), init := updN A.init l (A.init r), rsites := updN A.rsites l (A.rsites r)
    base := if (A.cnt r).isZero || (A.cnt r).isOne then D.assign (.rgn l) (.rgn r) A.base
            else D.expand (.rgn r) (.rgn l) (D.forget (.rgn l) A.base) }

/-- `ref_free(rgn, ref)` : the allocation sites of `ref` are forgotten -/
def refFree (A : RS B) (r : Nat) : RS B := { A with sites := updN A.sites r none }

/-- join (`do_join_or_widening` with `is_join`; the trivial bottom / top cases aside) -/
def join (D : Base B) (A1 A2 : RS B) : RS B :=
  { cnt := fun g => ((A1.cnt g).join (A2.cnt g)).getD .zeroOrMore
    init := fun g => A1.init g || A2.init g
    sites := fun r => unionSites (A1.sites r) (A2.sites r)
    rsites := fun g => unionSites (A1.rsites g) (A2.rsites g)
    base := D.join A1.base A2.base }

def widen (D : Base B) (A1 A2 : RS B) : RS B :=
  { cnt := fun g => ((A1.cnt g).widen (A2.cnt g)).getD .zeroOrMore
    init := fun g => A1.init g || A2.init g
    sites := fun r => unionSites (A1.sites r) (A2.sites r)
    rsites := fun g => unionSites (A1.rsites g) (A2.rsites g)
    base := D.widen A1.base A2.base }

end RS

/-! ### Concretisation -/

/-- `v` is the (integer view of the) content of some written cell of region `g` -/
def Vis (σ : State) (g : Nat) (v : Int) : Prop := ∃ a cv, (σ.mems g).read a = some cv ∧ cv.toInt = v

/-- a selection picks one written cell per region (0 for a region without written cell) -/
def Sel (σ : State) (c : Nat → Int) : Prop :=
  ∀ g, ((∃ v, Vis σ g v) → Vis σ g (c g)) ∧ ((¬ ∃ v, Vis σ g v) → c g = 0)

/-- the valuation of the base variables given by a state, a selection and a value of the scratch variable -/
def valOf (σ : State) (c : Nat → Int) (d : Int) : Val
  | .int x => σ.ints x
  | .ref r => (σ.refs r).toInt
  | .rgn g => c g
  | .dup => d

/-- `σ ∈ γ(A)` : the smashing concretisation.  For EVERY way of picking one written cell per
    region the base value describes the valuation; the counter of a region bounds the number of
    addresses through which it is accessed; allocation sites cover the references. -/
structure Gamma {B : Type} (D : Base B) (A : RS B) (σ : State) : Prop where
  member : ∀ g a cv, (σ.mems g).read a = some cv → a ∈ (σ.mems g).members
  nodup : ∀ g, (σ.mems g).members.Nodup
  count : ∀ g, SmallRange.γ (A.cnt g) (σ.mems g).members.length
  init : ∀ g, A.init g = false → ∀ a, (σ.mems g).read a = none
  sites : ∀ r p S, σ.refs r = .ptr p → A.sites r = some S → p.site ∈ S
  rsites : ∀ g a p S, (σ.mems g).read a = some (.ref (.ptr p)) → A.rsites g = some S → p.site ∈ S
  nonnull : ∀ r p, σ.refs r = .ptr p → p.addr ≠ 0
  nonnullc : ∀ g a p, (σ.mems g).read a = some (.ref (.ptr p)) → p.addr ≠ 0
  base : ∀ c d, Sel σ c → D.γ A.base (valOf σ c d)

end Rgn
end Crab
