/-
  Canonical model of the zone (difference-bound) abstract domain over `n` integer variables:
  the reference of exactness for crab's `split_dbm_domain` / `sparse_dbm_domain` (property C12).

  Matrix index 0 is the "zero variable" (always 0), index `x+1` is program variable `x`.
  An entry `m i j = some k` means `v i - v j ≤ k`; so `x ≤ k` is the entry `(x+1, 0)`,
  `-x ≤ k` the entry `(0, x+1)`, `x - y ≤ k` the entry `(x+1, y+1)`.

  Bottom has no separate flag: it is any matrix whose closure has a negative diagonal.
-/
import CrabModel.Dom.Dbm
import CrabModel.Scalar.Interval

namespace Crab
namespace Zones
open Dbm

abbrev Zone (n : Nat) := Mat (n + 1)

/-- program states over `n` variables -/
abbrev State (n : Nat) := Fin n → Int

/-- valuation of the matrix indices induced by a program state: index 0 ↦ 0 -/
def ext {n : Nat} (σ : State n) : Fin (n + 1) → Int := fun i => Fin.cases 0 σ i

/-- concretisation -/
def γ {n : Nat} (z : Zone n) (σ : State n) : Prop := z.sat (ext σ)

/-- the constraint language of zones (unit coefficients) -/
inductive Cst (n : Nat) where
  | ub (x : Fin n) (k : Int)          -- x ≤ k
  | lb (x : Fin n) (k : Int)          -- -x ≤ k
  | diff (x y : Fin n) (k : Int)      -- x - y ≤ k

namespace Cst
variable {n : Nat}

def sat : Cst n → State n → Prop
  | ub x k, σ => σ x ≤ k
  | lb x k, σ => -σ x ≤ k
  | diff x y k, σ => σ x - σ y ≤ k

/-- the matrix entry (row, column, bound) of a constraint -/
def row : Cst n → Fin (n + 1)
  | ub x _ => x.succ
  | lb _ _ => 0
  | diff x _ _ => x.succ
def col : Cst n → Fin (n + 1)
  | ub _ _ => 0
  | lb x _ => x.succ
  | diff _ y _ => y.succ
def bound : Cst n → Int
  | ub _ k => k
  | lb _ k => k
  | diff _ _ k => k

end Cst

variable {n : Nat}

def top : Zone n := Mat.top

/-- shortest-path closure (Floyd–Warshall, diagonal initialised to `min(·, 0)`) -/
def close (z : Zone n) : Zone n := Mat.fw z

/-- queries on an already closed matrix `c` (the driver closes once per step) -/
def isBottomC (c : Zone n) : Bool := c.hasNegDiag

/-- negative cycle = negative diagonal after closure -/
def isBottom (z : Zone n) : Bool := isBottomC (close z)

def assumeCst (z : Zone n) (c : Cst n) : Zone n := z.addEdge c.row c.col c.bound

def assumeAll (z : Zone n) (cs : List (Cst n)) : Zone n := cs.foldl assumeCst z

def toUb : W → Bound
  | some k => .fin k
  | none => .pinf
def toLb : W → Bound
  | some k => .fin (-k)
  | none => .ninf

def boundsC (c : Zone n) (x : Fin n) : Itv :=
  if isBottomC c then Itv.bot else ⟨toLb (c.get 0 x.succ), toUb (c.get x.succ 0)⟩

/-- `operator[]`: the tightest interval of `x` (upper bound = closed entry `(x,0)`, lower bound =
    minus the closed entry `(0,x)`) -/
def bounds (z : Zone n) (x : Fin n) : Itv := boundsC (close z) x

def entailsC (c : Zone n) (k : Cst n) : Bool :=
  isBottomC c || W.le (c.get k.row k.col) (some k.bound)

/-- does every state of `z` satisfy `c`? -/
def entails (z : Zone n) (c : Cst n) : Bool := entailsC (close z) c

/-- pointwise maximum of the closed arguments -/
def join (a b : Zone n) : Zone n :=
  if isBottom a then b else if isBottom b then a else Mat.pmax (close a) (close b)

/-- pointwise minimum (closed lazily by the queries) -/
def meet (a b : Zone n) : Zone n := Mat.pmin a b

/-- projection: close, then drop every constraint on `x` -/
def forget (z : Zone n) (x : Fin n) : Zone n :=
  if isBottom z then z else (close z).dropIdx (fun i => decide (i = x.succ))

/-- program state of a valuation of the matrix indices (shifted so that index 0 is 0) -/
def stateOf (v : Fin (n + 1) → Int) : State n := fun x => v x.succ - v 0

/-- for a non-bottom `z`: a state of `γ z` where `v i - v j` equals the closed entry `(i, j)` if
    that is finite and exceeds `B` otherwise -/
def witnessEdge (z : Zone n) (i : Fin (n + 1)) (B : Int) : State n :=
  let c := close z
  let E := c.absSum
  stateOf (c.witness i (2 * E + (if B < 0 then -B else B) + 1))

/-- inclusion test: `a ⊑ b` iff `a` entails every entry of `b` -/
def leq (a b : Zone n) : Bool :=
  isBottom a ||
    (List.finRange (n + 1)).all fun i => (List.finRange (n + 1)).all fun j =>
      W.le ((close a).get i j) (b.get i j)

end Zones
end Crab
