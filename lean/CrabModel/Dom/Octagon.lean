/-
  Canonical model of the integer octagon abstract domain over `n` variables: the reference of
  exactness for crab's `split_oct_domain` (property C12).

  Miné's encoding: a `2n × 2n` difference-bound matrix over the signed literals
  `v (2x) = +x`, `v (2x+1) = -x`; entry `m i j = some k` means `v i - v j ≤ k`.
  `x ≤ k` is the entry `(2x, 2x+1)` with bound `2k`; `x + y ≤ k` is `(2x, 2y+1)`; every constraint
  is stored together with its coherent twin `(bar j, bar i)`.

  `close` is the *tight* closure for the integers (Bagnara–Hill–Zaffanella): shortest-path closure,
  tightening of the unary entries to even numbers, strengthening
  `m i j ← min (m i j) ((m i ī + m j̄ j) / 2)`.  An integer-infeasible unary pair
  (`m i ī + m ī i < 0` after tightening) shows up as a negative diagonal after strengthening.
-/
import CrabModel.Dom.Dbm
import CrabModel.Scalar.Interval
import CrabModel.Dom.Zones

namespace Crab
namespace Octagon
open Dbm

abbrev Oct (n : Nat) := Mat (2 * n)
abbrev State (n : Nat) := Fin n → Int

variable {n : Nat}

def pos (x : Fin n) : Fin (2 * n) := ⟨2 * x.val, by have := x.isLt; omega⟩
def neg (x : Fin n) : Fin (2 * n) := ⟨2 * x.val + 1, by have := x.isLt; omega⟩

/-- the opposite literal: `2x ↔ 2x+1` -/
def bar (i : Fin (2 * n)) : Fin (2 * n) :=
  ⟨if i.val % 2 = 0 then i.val + 1 else i.val - 1, by have := i.isLt; split <;> omega⟩

/-- the variable of a literal -/
def varOf (i : Fin (2 * n)) : Fin n := ⟨i.val / 2, by have := i.isLt; omega⟩

/-- valuation of the literals induced by a program state -/
def ext (σ : State n) : Fin (2 * n) → Int :=
  fun i => if i.val % 2 = 0 then σ (varOf i) else -σ (varOf i)

def γ (o : Oct n) (σ : State n) : Prop := o.sat (ext σ)

/-- the constraint language of octagons (unit coefficients) -/
inductive Cst (n : Nat) where
  | ub (x : Fin n) (k : Int)          -- x ≤ k
  | lb (x : Fin n) (k : Int)          -- -x ≤ k
  | diff (x y : Fin n) (k : Int)      -- x - y ≤ k
  | sum (x y : Fin n) (k : Int)       -- x + y ≤ k
  | nsum (x y : Fin n) (k : Int)      -- -x - y ≤ k

namespace Cst

def sat : Cst n → State n → Prop
  | ub x k, σ => σ x ≤ k
  | lb x k, σ => -σ x ≤ k
  | diff x y k, σ => σ x - σ y ≤ k
  | sum x y k, σ => σ x + σ y ≤ k
  | nsum x y k, σ => -σ x - σ y ≤ k

def row : Cst n → Fin (2 * n)
  | ub x _ => pos x
  | lb x _ => neg x
  | diff x _ _ => pos x
  | sum x _ _ => pos x
  | nsum x _ _ => neg x
def col : Cst n → Fin (2 * n)
  | ub x _ => neg x
  | lb x _ => pos x
  | diff _ y _ => pos y
  | sum _ y _ => neg y
  | nsum _ y _ => pos y
/-- bound of the matrix entry (`2k` for the unary constraints) -/
def bound : Cst n → Int
  | ub _ k => 2 * k
  | lb _ k => 2 * k
  | diff _ _ k => k
  | sum _ _ k => k
  | nsum _ _ k => k

end Cst

def top : Oct n := Mat.top

/-- tightening: unary entries `(i, ī)` become even -/
def tighten (m : Oct n) : Oct n :=
  Mat.ofFn fun i j => if j = bar i then W.tight2 (m.get i j) else m.get i j

/-- strengthening: combine the two unary bounds -/
def strengthen (m : Oct n) : Oct n :=
  Mat.ofFn fun i j => W.min (m.get i j) (W.half (W.add (m.get i (bar i)) (m.get (bar j) j)))

/-- tight closure over the integers -/
def close (o : Oct n) : Oct n := strengthen (tighten (Mat.fw o))

/-- queries on an already closed matrix `c` (the driver closes once per step) -/
def isBottomC (c : Oct n) : Bool := c.hasNegDiag

def isBottom (o : Oct n) : Bool := isBottomC (close o)

/-- a constraint and its coherent twin -/
def assumeCst (o : Oct n) (c : Cst n) : Oct n :=
  (o.addEdge c.row c.col c.bound).addEdge (bar c.col) (bar c.row) c.bound

def assumeAll (o : Oct n) (cs : List (Cst n)) : Oct n := cs.foldl assumeCst o

/-- tightest bound on `2x` / on `-2x` (even after tightening), halved -/
def boundsC (c : Oct n) (x : Fin n) : Itv :=
  if isBottomC c then Itv.bot
  else ⟨Zones.toLb (W.half (c.get (neg x) (pos x))), Zones.toUb (W.half (c.get (pos x) (neg x)))⟩

def bounds (o : Oct n) (x : Fin n) : Itv := boundsC (close o) x

def entailsC (c : Oct n) (k : Cst n) : Bool :=
  isBottomC c || W.le (c.get k.row k.col) (some k.bound)

def entails (o : Oct n) (c : Cst n) : Bool := entailsC (close o) c

def join (a b : Oct n) : Oct n :=
  if isBottom a then b else if isBottom b then a else Mat.pmax (close a) (close b)

def meet (a b : Oct n) : Oct n := Mat.pmin a b

def forget (o : Oct n) (x : Fin n) : Oct n :=
  if isBottom o then o else (close o).dropIdx (fun i => decide (varOf i = x))

/-- inclusion test (complete when `close` is the tight closure) -/
def leq (a b : Oct n) : Bool :=
  isBottom a ||
    (List.finRange (2 * n)).all fun i => (List.finRange (2 * n)).all fun j =>
      W.le ((close a).get i j) (b.get i j)

/-- add `v i - v j ≤ k` with its coherent twin -/
def addEdge2 (o : Oct n) (i j : Fin (2 * n)) (k : Int) : Oct n :=
  (o.addEdge i j k).addEdge (bar j) (bar i) k

/-- labelling search for an integer point: fix the variables one after the other at a bound of the
    tight closure.  Used by the driver for witnesses only; the result is checked by `holds`. -/
def findPointAux (o : Oct n) : (xs : List (Fin n)) → (acc : List (Fin n × Int)) → Option (List (Fin n × Int))
  | [], acc => if isBottom o then none else some acc
  | x :: xs, acc =>
    if isBottom o then none else
    let b := bounds o x
    let t : Int := match b.lb, b.ub with
      | .fin l, _ => l
      | _, .fin u => u
      | _, _ => 0
    let o' := addEdge2 (addEdge2 o (pos x) (neg x) (2 * t)) (neg x) (pos x) (-(2 * t))
    findPointAux o' xs ((x, t) :: acc)

def findPoint (o : Oct n) : Option (State n) :=
  match findPointAux o (List.finRange n) [] with
  | none => none
  | some l => some fun x => match l.find? (fun p => p.1 == x) with
    | some p => p.2
    | none => 0

/-- decidable check that a state satisfies every entry of the matrix -/
def holds (o : Oct n) (σ : State n) : Bool :=
  (List.finRange (2 * n)).all fun i => (List.finRange (2 * n)).all fun j =>
    W.le (some (ext σ i - ext σ j)) (o.get i j)

end Octagon
end Crab
