/-
  Model of `ikos::congruence_domain<z_number, VariableName>` and of its
  `equality_congruence_solver` (include/crab/domains/congruences.hpp), function by function.

   * environment: `separate_domain<variable_t, congruence<z_number>>` = `SepDom Cong` with the
     lattice `congLattice` (note: `congruence::is_top()` is the test `m_a == 1` alone, so it also
     answers yes on bottom; `separate_domain` always tests `is_bottom()` first);
   * the scalar operations are the ones of the model `Crab.Cong` of `congruence<z_number>`
     (CrabModel/Scalar/Congruence.lean);
   * unlike `constant_domain` / `sign_domain` the class has (almost) no `is_bottom()` guard: the
     operations rely on `at` returning bottom and `set` ignoring a bottom environment;
     `assign` has no single-variable shortcut; `at(v)` / `operator[]` are "not implemented"
     (CRAB_WARN, top); `select` is `DEFAULT_SELECT`;
   * the solver: `refine`, `compute_residual`, `propagate`, `solve_system` (the
     `do … while (refined && cycle <= m_max_cycles)` loop is written with the number of further
     cycles allowed as fuel: exactly `m_max_cycles`), constructor, `run`.  `m_op_count` is only
     incremented, never read: it is not modelled.

  Correspondence: harness/h_cdom.cpp (-DXDOM=3) + Driver/XDomH.lean.
-/
import CrabModel.Dom.NonRelEnv
import CrabModel.Scalar.Congruence

namespace Crab
namespace GDom
open XDom

/-- `congruence<z_number>` as the value parameter of `separate_domain` -/
def congLattice : Lattice Cong :=
  { top := Cong.top, bottom := Cong.bot, isTop := Cong.isTop, isBottom := Cong.isBottom,
    leq := Cong.leq, join := Cong.join, meet := Cong.meet, widen := Cong.widen,
    narrow := Cong.narrow, beq := Cong.beq }

local notation "GL" => congLattice

abbrev Env := XDom.Env Cong

/-- the mutable state of the solver during `run`: the congruence collection and
    "`m_refined_variables` is not empty" -/
structure SolverSt where
  env : Env
  refined : Bool

namespace Env

def top : Env := XDom.Env.top
def bot : Env := XDom.Env.bot
/-- `to_congruence(v)` / `_env.at(v)` -/
def get (e : Env) (x : Lin.Var) : Cong := XDom.Env.get GL e x
/-- `set(v, c)` / `_env.set(v, c)` -/
def set (e : Env) (x : Lin.Var) (c : Cong) : Env := XDom.Env.set GL e x c

/-- `to_congruence(expr)` and the loops of `assign` / `weak_assign`:
    `r = r + (coef * _env.at(v))` from the constant -/
def eval (e : Env) (ex : Lin.Expr) : Cong :=
  ex.terms.foldl (fun r p => Cong.add r (Cong.mul (Cong.ofInt p.2) (e.get p.1))) (Cong.ofInt ex.cst)

end Env

/-- `refine(v, i, env)`; the Boolean is "bottom found" -/
def refine (st : SolverSt) (v : Lin.Var) (i : Cong) : Bool × SolverSt :=
  let old := st.env.get v
  let new := Cong.meet old i
  if new.isBottom then (true, st)
  else if !(Cong.beq old new) then (false, ⟨st.env.set v new, true⟩)
  else (false, st)

/-- `compute_residual(cst, pivot, env)` -/
def computeResidual (c : Lin.Cst) (pivot : Lin.Var) (env : Env) : Cong :=
  c.expr.terms.foldl (fun r p =>
    if p.1 = pivot then r else Cong.sub r (Cong.mul (Cong.ofInt p.2) (env.get p.1))) (Cong.ofInt c.constant)

/-- the loop of `propagate(cst, env)` -/
def propagateLoop (c : Lin.Cst) : List (Lin.Var × Int) → SolverSt → Bool × SolverSt
  | [], st => (false, st)
  | (pivot, coef) :: rest, st =>
    let rhs := Cong.div (computeResidual c pivot st.env) (Cong.ofInt coef)
    if c.kind = .eq then
      match refine st pivot rhs with
      | (true, st') => (true, st')
      | (false, st') => propagateLoop c rest st'
    else propagateLoop c rest st   -- inequalities: `continue`; disequations: TODO in the code

/-- `propagate(cst, env)` -/
def propagate (c : Lin.Cst) (st : SolverSt) : Bool × SolverSt := propagateLoop c c.expr.terms st

/-- `for (cst : m_cst_table) if (propagate(cst, env)) return true;` -/
def propagateAll : List Lin.Cst → SolverSt → Bool × SolverSt
  | [], st => (false, st)
  | c :: rest, st =>
    match propagate c st with
    | (true, st') => (true, st')
    | (false, st') => propagateAll rest st'

/-- `solve_system`: `fuel` is the number of further cycles allowed after this one
    (`cycle <= m_max_cycles` is tested after the cycle has run) -/
def solveLoop (tbl : List Lin.Cst) : Nat → Env → Bool × Env
  | fuel, env =>
    match propagateAll tbl ⟨env, false⟩ with
    | (true, st') => (true, st'.env)
    | (false, st') =>
      match fuel with
      | 0 => (false, st'.env)
      | fuel' + 1 => if st'.refined then solveLoop tbl fuel' st'.env else (false, st'.env)

/-- the loop of the constructor: `none` = `m_is_contradiction` -/
def prepLoop : List Lin.Cst → List Lin.Cst → Option (List Lin.Cst)
  | [], tbl => some tbl
  | c :: rest, tbl =>
    if c.isContradiction then none
    else if c.isTautology then prepLoop rest tbl
    else prepLoop rest (tbl ++ [c])

/-- constructor + `run(env)` -/
def solverRun (csts : Lin.Sys) (maxCycles : Nat) (env : Env) : Env :=
  match prepLoop csts [] with
  | none => Env.bot
  | some tbl =>
    let r := solveLoop tbl maxCycles env
    if r.1 then Env.bot else r.2

/-- `const std::size_t threshold = 10` of `operator+=` -/
def maxCycles : Nat := 10

/-- the `switch` of `apply(arith_operation_t, x, y, z|k)` -/
def arithEval (op : ArithOp) (yi zi : Cong) : Cong :=
  match op with
  | .add => Cong.add yi zi
  | .sub => Cong.sub yi zi
  | .mul => Cong.mul yi zi
  | .sdiv => Cong.div yi zi
  | .udiv => Cong.udiv yi zi
  | .srem => Cong.srem yi zi
  | .urem => Cong.urem yi zi

/-- the `switch` of `apply(bitwise_operation_t, x, y, z|k)` -/
def bitEval (op : BitOp) (yi zi : Cong) : Cong :=
  match op with
  | .and => Cong.and yi zi
  | .or => Cong.or yi zi
  | .xor => Cong.xor yi zi
  | .shl => Cong.shl yi zi
  | .lshr => Cong.lshr yi zi
  | .ashr => Cong.ashr yi zi

namespace Env

/-- `operator+=(csts)` -/
def add (e : Env) (csts : Lin.Sys) : Env := if e.isBot then e else solverRun csts maxCycles e

/-- `assign(x, e)` (no guard, no single-variable shortcut) -/
def assign (e : Env) (x : Lin.Var) (ex : Lin.Expr) : Env := e.set x (e.eval ex)

/-- `weak_assign(x, e)` -/
def weakAssign (e : Env) (x : Lin.Var) (ex : Lin.Expr) : Env := XDom.Env.joinKey GL e x (e.eval ex)

def applyVar (e : Env) (op : ArithOp) (x y z : Lin.Var) : Env := e.set x (arithEval op (e.get y) (e.get z))
def applyCst (e : Env) (op : ArithOp) (x y : Lin.Var) (k : Int) : Env :=
  e.set x (arithEval op (e.get y) (Cong.ofInt k))
def applyBitVar (e : Env) (op : BitOp) (x y z : Lin.Var) : Env := e.set x (bitEval op (e.get y) (e.get z))
def applyBitCst (e : Env) (op : BitOp) (x y : Lin.Var) (k : Int) : Env :=
  e.set x (bitEval op (e.get y) (Cong.ofInt k))

/-- `operator-=(v)`: `_env -= v` -/
def forget (e : Env) (x : Lin.Var) : Env := SepDom.forget (ctxOf GL) e x

/-- `forget(variables)` -/
def forgetAll (e : Env) (vs : List Lin.Var) : Env :=
  if e.isBot || SepDom.isTop e then e else vs.foldl (fun env v => forget env v) e

/-- `project(variables)`: `_env.project(variables)` -/
def project (e : Env) (vs : List Lin.Var) : Env := SepDom.project (ctxOf GL) GL e vs

/-- `rename(from, to)`: `_env.rename(from, to)` -/
def rename (e : Env) (frm to : List Lin.Var) : Option Env := SepDom.rename (ctxOf GL) GL e frm to

/-- `expand(x, new_x)` -/
def expand (e : Env) (x nx : Lin.Var) : Env :=
  if e.isBot || SepDom.isTop e then e else e.set nx (e.get x)

/-- `select(lhs, cond, e1, e2)` (`DEFAULT_SELECT`) -/
def select (e : Env) (lhs : Lin.Var) (cond : Lin.Cst) (e1 e2 : Lin.Expr) : Env :=
  if e.isBot then e
  else
    let inv1 := e.add [cond]
    if inv1.isBot then e.assign lhs e2
    else
      let inv2 := e.add [cond.negate]
      if inv2.isBot then e.assign lhs e1
      else XDom.Env.join GL (inv1.assign lhs e1) (inv2.assign lhs e2)

/-- `apply(int_conv_operation_t, dst, src)` through `int_cast_domain_traits` (integer variables) -/
def intCast (e : Env) (zext : Bool) (srcBitwidth : Nat) (dst src : Lin.Var) : Env :=
  let e1 := e.assign dst (Lin.Expr.var src)
  if zext then e1.add [⟨(Lin.Expr.var dst).subNum (2 ^ srcBitwidth - 1), .leq⟩] else e1

/-- the lambda `entailmentFn` of `DEFAULT_ENTAILS` -/
def entailFn (e : Env) (c : Lin.Cst) : Bool := (e.add [c.negate]).isBot

/-- `entails(cst)` (`DEFAULT_ENTAILS`) -/
def entails (e : Env) (c : Lin.Cst) : Bool :=
  if e.isBot then true
  else if c.isTautology then true
  else if c.isContradiction then false
  else if c.kind = .eq then
    (Lin.Sys.addCst (Lin.Sys.addCst [] ⟨c.expr, .leq⟩) ⟨c.expr.scale (-1), .leq⟩).all (entailFn e)
  else entailFn e c

/-- `at(v)` / `operator[](v)`: "not implemented", top -/
def atItv (_e : Env) (_x : Lin.Var) : Itv := Itv.top

/-- the constraint exported for one binding: `v == n` for a singleton -/
def bindingCst (p : Lin.Var × Cong) : Option Lin.Cst :=
  match p.2.singleton? with
  | some n => some ⟨(Lin.Expr.var p.1).subNum n, .eq⟩
  | none => none

/-- `to_linear_constraint_system()` -/
def toCsts (e : Env) : Lin.Sys := XDom.Env.exportCsts bindingCst e

end Env
end GDom
end Crab
