import CrabModel.Dom.Functors.Base

/-
  Model of the product combinators of include/crab/domains/combined_domains.hpp over ARBITRARY
  base domains `D1 D2 : LDom S`:

   * `basic_domain_product2<Domain1, Domain2>`: the triple `m_is_bottom, m_first, m_second`, the
     lazy `canonicalize()`, the constructor with / without reduction, `is_bottom`, `is_top`,
     `operator<=`, `|=`, `|`, `||`, `&=`, `&`, `&&`, the non-const accessors `first()` /
     `second()` (they canonicalize);
   * `reduced_domain_product2`: every transformer is `m_product.first().op(..);
     m_product.second().op(..);` followed (for most methods, see `Meth.reduces`) by `reduce()`;
   * `reduced_numerical_domain_product2`: the same plus `reduce_variable(v)` after the methods that
     define a variable and after `+=`.  The body of `reduce_variable` (interval and linear
     constraint exchange through `operator[]`, `reduced_domain_traits::extract`, `+=`) is the
     abstract hook `red : V → B1 → B2 → B1 × B2`; its law is a hypothesis of the theorems.

  Every branch of the code is a branch of the model, in the same order of tests.
-/
namespace Crab
namespace Dom
namespace Fct

variable {S : Type}

/-- `basic_domain_product2`: `m_is_bottom`, `m_first`, `m_second` -/
structure Prod2 (D1 D2 : LDom S) where
  isBot : Bool
  fst : D1.B
  snd : D2.B

namespace Prod2
variable {D1 D2 : LDom S}

/-- concretisation: nothing if the flag is set, the intersection of the components otherwise -/
def γ (p : Prod2 D1 D2) (s : S) : Prop := p.isBot = false ∧ D1.γ p.fst s ∧ D2.γ p.snd s

/-- `set_to_bottom()` -/
def setBottom (_p : Prod2 D1 D2) : Prod2 D1 D2 := ⟨true, D1.bot, D2.bot⟩
/-- `set_to_top()` -/
def setTop (_p : Prod2 D1 D2) : Prod2 D1 D2 := ⟨false, D1.top, D2.top⟩

/-- `canonicalize()`: `if (!m_is_bottom) { m_is_bottom = m_first.is_bottom() || m_second.is_bottom();
    if (m_is_bottom) { m_first.set_to_bottom(); m_second.set_to_bottom(); } }` -/
def canonicalize (p : Prod2 D1 D2) : Prod2 D1 D2 :=
  if !p.isBot then
    if D1.isBot p.fst || D2.isBot p.snd then ⟨true, D1.bot, D2.bot⟩ else p
  else p

/-- `basic_domain_product2(first, second, apply_reduction)` -/
def mk' (a : D1.B) (b : D2.B) (applyReduction : Bool := true) : Prod2 D1 D2 :=
  if applyReduction then canonicalize ⟨false, a, b⟩ else ⟨false, a, b⟩

/-- default constructor / `make_top()` -/
def top : Prod2 D1 D2 := mk' D1.top D2.top
/-- `make_bottom()`: the constructor (with reduction) on two bottom components -/
def bottom : Prod2 D1 D2 := mk' D1.bot D2.bot

/-- `is_bottom()`: `if (m_is_bottom) true else m_first.is_bottom() || m_second.is_bottom()` -/
def isBottom (p : Prod2 D1 D2) : Bool := if p.isBot then true else D1.isBot p.fst || D2.isBot p.snd

/-- `is_top()`: `m_first.is_top() && m_second.is_top()` (the flag is not consulted) -/
def isTop (p : Prod2 D1 D2) : Bool := D1.isTop p.fst && D2.isTop p.snd

/-- `operator<=` -/
def leq (p q : Prod2 D1 D2) : Bool :=
  if p.isBottom then true
  else if q.isBottom then false
  else D1.leq p.fst q.fst && D2.leq p.snd q.snd

/-- `operator|=` (no canonicalization of the result) -/
def joinEq (p q : Prod2 D1 D2) : Prod2 D1 D2 :=
  if p.isBottom then q
  else if q.isBottom then p
  else { p with fst := D1.join p.fst q.fst, snd := D2.join p.snd q.snd }

/-- `operator|` (the result goes through the reducing constructor) -/
def join (p q : Prod2 D1 D2) : Prod2 D1 D2 :=
  if p.isBottom then q
  else if q.isBottom then p
  else mk' (D1.join p.fst q.fst) (D2.join p.snd q.snd)

/-- `operator||`, `widening_thresholds`: no test at all, constructor WITHOUT reduction; `w1`, `w2`
    are the widenings of the components (`||` or `widening_thresholds(·, ts)`) -/
def widenWith (w1 : D1.B → D1.B → D1.B) (w2 : D2.B → D2.B → D2.B) (p q : Prod2 D1 D2) : Prod2 D1 D2 :=
  mk' (w1 p.fst q.fst) (w2 p.snd q.snd) false

def widen (p q : Prod2 D1 D2) : Prod2 D1 D2 := widenWith D1.widen D2.widen p q

/-- `operator&=` -/
def meetEq (p q : Prod2 D1 D2) : Prod2 D1 D2 :=
  if p.isBottom then p
  else if q.isBottom then q
  else { p with fst := D1.meet p.fst q.fst, snd := D2.meet p.snd q.snd }

/-- `operator&`: `if (is_bottom() || other.is_top()) *this; else if (other.is_bottom() || is_top())
    other; else product(first & o.first, second & o.second)` -/
def meet (p q : Prod2 D1 D2) : Prod2 D1 D2 :=
  if p.isBottom || q.isTop then p
  else if q.isBottom || p.isTop then q
  else mk' (D1.meet p.fst q.fst) (D2.meet p.snd q.snd)

/-- `operator&&` (same tests as `&`) -/
def narrow (p q : Prod2 D1 D2) : Prod2 D1 D2 :=
  if p.isBottom || q.isTop then p
  else if q.isBottom || p.isTop then q
  else mk' (D1.narrow p.fst q.fst) (D2.narrow p.snd q.snd)

/-! ### `reduced_domain_product2` -/

/-- `m_product.first().op(...)`: the non-const `first()` canonicalizes, then the operation runs on
    the first component whatever the flag says -/
def onFirst (f : D1.B → D1.B) (p : Prod2 D1 D2) : Prod2 D1 D2 :=
  let q := p.canonicalize
  { q with fst := f q.fst }

def onSecond (f : D2.B → D2.B) (p : Prod2 D1 D2) : Prod2 D1 D2 :=
  let q := p.canonicalize
  { q with snd := f q.snd }

/-- `reduce()`: `if (m_product.first().is_bottom() || m_product.second().is_bottom())
    m_product.set_to_bottom();` (two canonicalizing accessors, `||` short-circuits) -/
def reduce (p : Prod2 D1 D2) : Prod2 D1 D2 :=
  let q := p.canonicalize
  if D1.isBot q.fst then q.setBottom
  else
    let q' := q.canonicalize
    if D2.isBot q'.snd then q'.setBottom else q'

/-- the methods of `reduced_domain_product2` that transform one value; all have the shape
    `first().m(..); second().m(..); [reduce();]` -/
inductive Meth where
  | assign | weakAssign | apply | select | addCsts | forget1 | cast | bitwise
  | arrayOp | regionOp | boolOp
  | forget | project | expand | normalize | minimize | rename | intrinsic
  deriving DecidableEq, Repr

/-- whether the method ends with `reduce()` (as coded: `assign`, `weak_assign`, `-=`, `forget`,
    `project`, `expand`, `normalize`, `minimize`, `rename`, `intrinsic` do not) -/
def Meth.reduces : Meth → Bool
  | .assign | .weakAssign | .forget1 | .forget | .project | .expand | .normalize | .minimize
  | .rename | .intrinsic => false
  | .apply | .select | .addCsts | .cast | .bitwise | .arrayOp | .regionOp | .boolOp => true

/-- a transformer of `reduced_domain_product2` -/
def op (m : Meth) (f1 : D1.B → D1.B) (f2 : D2.B → D2.B) (p : Prod2 D1 D2) : Prod2 D1 D2 :=
  let q := onSecond f2 (onFirst f1 p)
  if m.reduces then reduce q else q

/-! ### `reduced_numerical_domain_product2` -/

/-- template parameter `Params` (only the two flags that select code paths outside the hook) -/
structure NParams where
  disableReduction : Bool := false
  onlyAddConstraint : Bool := false

/-- `reduce_variable(v)`: `if (!is_bottom() && !Params::disable_reduction) { inv1 = first();
    inv2 = second(); ... inv2 += ..; inv1 += ..; }` with the exchange abstracted by `red` -/
def reduceVariable {V : Type} (P : NParams) (red : V → D1.B → D2.B → D1.B × D2.B) (v : V)
    (p : Prod2 D1 D2) : Prod2 D1 D2 :=
  if !p.isBottom && !P.disableReduction then
    let q := p.canonicalize.canonicalize
    let r := red v q.fst q.snd
    { q with fst := r.1, snd := r.2 }
  else p

/-- the loop of `operator+=`: `for v in variables: reduce_variable(v); if (is_bottom()) return;` -/
def reduceVars {V : Type} (P : NParams) (red : V → D1.B → D2.B → D1.B × D2.B) :
    List V → Prod2 D1 D2 → Prod2 D1 D2
  | [], p => p
  | v :: vs, p =>
    let q := reduceVariable P red v p
    if q.isBottom then q else reduceVars P red vs q

/-- the methods of `reduced_numerical_domain_product2` (the Boolean, array and region methods are
    `*_NOT_IMPLEMENTED`: they raise CRAB_ERROR and are not operations of the model) -/
inductive NMeth where
  | assign | weakAssign | apply | select | cast | bitwise   -- define `x`, then `reduce_variable(x)`
  | addCsts                                                 -- `+=`, then the loop over the variables
  | forget1 | forget | project | expand | normalize | minimize | rename | intrinsic
  deriving DecidableEq, Repr

def NMeth.toMeth : NMeth → Meth
  | .assign => .assign | .weakAssign => .weakAssign | .apply => .apply | .select => .select
  | .cast => .cast | .bitwise => .bitwise | .addCsts => .addCsts | .forget1 => .forget1
  | .forget => .forget | .project => .project | .expand => .expand | .normalize => .normalize
  | .minimize => .minimize | .rename => .rename | .intrinsic => .intrinsic

/-- a transformer of `reduced_numerical_domain_product2`; `vs` = the defined variable (one
    element) or the variables of the constraints of `+=`, in the order of the code -/
def nop {V : Type} (P : NParams) (red : V → D1.B → D2.B → D1.B × D2.B) (m : NMeth)
    (f1 : D1.B → D1.B) (f2 : D2.B → D2.B) (vs : List V) (p : Prod2 D1 D2) : Prod2 D1 D2 :=
  let q := op m.toMeth f1 f2 p
  match m with
  | .assign | .weakAssign | .apply | .select | .cast | .bitwise =>
    if !P.onlyAddConstraint then
      match vs with
      | v :: _ => reduceVariable P red v q
      | [] => q
    else q
  | .addCsts => if !q.isBottom then reduceVars P red vs q else q
  | _ => q

/-! ### representation invariant (needed by the precision statements only) -/

/-- when the flag is set the components describe no state (established by `canonicalize()` and
    `set_to_bottom()`, kept by strict transformers) -/
def WF (p : Prod2 D1 D2) : Prop := p.isBot = true → (∀ s, ¬ D1.γ p.fst s) ∧ (∀ s, ¬ D2.γ p.snd s)

/-! ### histories -/

/-- operation language of the histories over a pool of product values -/
inductive Op (D1 D2 : LDom S) (V : Type) where
  | meth (d : Nat) (m : Meth) (f1 : D1.B → D1.B) (f2 : D2.B → D2.B) (r : S → S → Prop)
  | nmeth (d : Nat) (m : NMeth) (f1 : D1.B → D1.B) (f2 : D2.B → D2.B) (vs : List V) (r : S → S → Prop)
  | join (d a b : Nat) | joinEq (d a b : Nat)
  | meet (d a b : Nat) | meetEq (d a b : Nat)
  | widen (d a b : Nat) (w1 : D1.B → D1.B → D1.B) (w2 : D2.B → D2.B → D2.B)
  | narrow (d a b : Nat)
  | copy (d s : Nat)
  | setTop (d : Nat)
  | setBottom (d : Nat)

/-- what the history theorem asks of the base domains: the component transformers abstract the
    relation, the component widenings are upper bounds -/
def Op.BaseSound {V : Type} : Op D1 D2 V → Prop
  | .meth _ _ f1 f2 r => D1.TSound f1 r ∧ D2.TSound f2 r
  | .nmeth _ _ f1 f2 _ r => D1.TSound f1 r ∧ D2.TSound f2 r
  | .widen _ _ _ w1 w2 => D1.USound w1 ∧ D2.USound w2
  | _ => True

def Op.toStep {V : Type} (P : NParams) (red : V → D1.B → D2.B → D1.B × D2.B) :
    Op D1 D2 V → Step (Prod2 D1 D2) S
  | .meth d m f1 f2 r => .trans d ⟨op m f1 f2, r⟩
  | .nmeth d m f1 f2 vs r => .trans d ⟨nop P red m f1 f2 vs, r⟩
  | .join d a b => .upper d a b Prod2.join
  | .joinEq d a b => .upper d a b Prod2.joinEq
  | .meet d a b => .lower d a b Prod2.meet
  | .meetEq d a b => .lower d a b Prod2.meetEq
  | .widen d a b w1 w2 => .upper d a b (widenWith w1 w2)
  | .narrow d a b => .lower d a b Prod2.narrow
  | .copy d s => .copy d s
  | .setTop d => .trans d ⟨fun _ => Prod2.top, fun _ _ => True⟩      -- `set_to_top()` = `make_top()`
  | .setBottom d => .setBot d Prod2.bottom                            -- `set_to_bottom()` = `make_bottom()`

def toHist {V : Type} (P : NParams) (red : V → D1.B → D2.B → D1.B × D2.B)
    (ops : List (Op D1 D2 V)) : List (Step (Prod2 D1 D2) S) := ops.map (Op.toStep P red)

end Prod2
end Fct
end Dom
end Crab
