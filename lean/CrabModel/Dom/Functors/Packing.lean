import CrabModel.Dom.Functors.Base

/-
  Model of `numerical_packing_domain<NumDom>` (include/crab/domains/numerical_packing.hpp, after
  repo commits 851b9a3, b231e50) together with the part of `union_find_domain<variable_t, NumDom,
  uf_intersection_semantics, ..>` (union_find_domain.hpp) that it uses, over an ARBITRARY base
  numerical domain `N : NDom V`.

  Level of the model: the PARTITION.  A value is bottom or a list of packs; a pack is the list of
  the variables of one equivalence class and the base value attached to it.  The parent links,
  ranks, the choice of representatives and path compression of the union-find are not modelled
  (they do not influence which variables are together nor the attached values, except for the
  argument ORDER of `&=` in `union_find_domain::join`, which follows the ranks: the model always
  meets `accumulated & other`).  Iterations over `std::unordered_map`s are done in list order.

  `Option`: `none` = CRAB_ERROR ("assign produced bottom!", "unexpected situation in
  join_or_widening", ..): raised when merging packs yields a bottom base value.
-/
namespace Crab
namespace Dom
namespace Fct

/-- concrete states: one integer per variable -/
abbrev St (V : Type) := V → Int

def St.set {V : Type} [DecidableEq V] (s : St V) (x : V) (k : Int) : St V := fun y => if y = x then k else s y

/-- a base numerical domain: `LDom` over environments plus `operator-=` with its law -/
structure NDom (V : Type) [DecidableEq V] extends LDom (St V) where
  forget : B → V → B
  forget_sound : ∀ b x s k, γ b s → γ (forget b x) (s.set x k)

variable {V : Type} [DecidableEq V]

/-- one equivalence class of `m_packs` with its `std::shared_ptr<NumDom>` -/
structure Pack (N : NDom V) where
  vars : List V
  val : N.B

/-- `m_packs`: `lattice_val::bottom`, or the classes (`neither_top_nor_bot`; `lattice_val::top` is
    never built by the packing domain: its top is the empty union-find) -/
inductive PK (N : NDom V) where
  | bot
  | packs (l : List (Pack N))

namespace PK
variable {N : NDom V}

/-- `t` has the values of `s` on `vs` -/
def agree (vs : List V) (s t : St V) : Prop := ∀ v ∈ vs, t v = s v

/-- a pack constrains its own variables only: it accepts `s` when its base value accepts every
    state that agrees with `s` on the variables of the pack -/
def Pack.γc (p : Pack N) (s : St V) : Prop := ∀ t, agree p.vars s t → N.γ p.val t

/-- concretisation ("cylindrical" reading): the intersection over the packs -/
def γc : PK N → St V → Prop
  | .bot, _ => False
  | .packs l, s => ∀ p ∈ l, Pack.γc p s

/-- the plain intersection of the concretisations of the base values; `γc a s → γ a s`, and the
    two coincide when no base value constrains a variable outside its pack -/
def γ : PK N → St V → Prop
  | .bot, _ => False
  | .packs l, s => ∀ p ∈ l, N.γ p.val s

/-! ### union-find primitives at the level of the partition -/

/-- `contains(v)` -/
def containsV (l : List (Pack N)) (v : V) : Bool := l.any (fun p => p.vars.contains v)

/-- the class of `v` and the other classes (`get_equiv_class(v)`) -/
def takePack : List (Pack N) → V → Option (Pack N × List (Pack N))
  | [], _ => none
  | p :: ps, v =>
    if p.vars.contains v then some (p, ps)
    else match takePack ps v with
      | some (q, r) => some (q, p :: r)
      | none => none

def packOf (l : List (Pack N)) (v : V) : Option (Pack N) := l.find? (fun p => p.vars.contains v)

/-- `union_find_domain::forget(v)`: `v` leaves its class; the class disappears if `v` was alone,
    otherwise `ForgetElementInDomain` (`dom -= v`) is applied to its value -/
def ufForget : List (Pack N) → V → List (Pack N)
  | [], _ => []
  | p :: ps, v =>
    if p.vars.contains v then
      let vs := p.vars.filter (fun u => u ≠ v)
      if vs.isEmpty then ps else ⟨vs, N.forget p.val v⟩ :: ps
    else p :: ufForget ps v

/-- the loop of `merge(vars)` / `merge_elems(elems, absval)` after the first element: the class
    `acc` of the first element absorbs the class of every further element (`union_find_domain::
    join`: the values are met, `none` as soon as a meet is bottom); an element that is in no class
    first gets a class of its own with value `fresh` (`make`) -/
def mergeGo (fresh : N.B) : List V → Pack N → List (Pack N) → Option (Pack N × List (Pack N))
  | [], acc, rest => some (acc, rest)
  | v :: vs, acc, rest =>
    if acc.vars.contains v then mergeGo fresh vs acc rest
    else
      match takePack rest v with
      | some (p, rest') =>
        let m := N.meet acc.val p.val
        if N.isBot m then none else mergeGo fresh vs ⟨acc.vars ++ p.vars, m⟩ rest'
      | none =>
        if N.isBot fresh then none       -- `make(v, absval)` with a bottom value
        else
          let m := N.meet acc.val fresh
          if N.isBot m then none else mergeGo fresh vs ⟨acc.vars ++ [v], m⟩ rest

/-- `merge(vars)` (`fresh` = top) / `merge_elems(elems, absval)` (`fresh` = absval): the merged
    class and the other classes; `none` = the result is bottom (or `vars` is empty: not called) -/
def merge (fresh : N.B) (l : List (Pack N)) : List V → Option (Pack N × List (Pack N))
  | [] => none
  | v :: vs =>
    match takePack l v with
    | some (p, r) => mergeGo fresh vs p r
    | none => if N.isBot fresh then none else mergeGo fresh vs ⟨[v], fresh⟩ l

/-! ### lattice part of `numerical_packing_domain` -/

def top : PK N := .packs []
def isBottom : PK N → Bool
  | .bot => true
  | .packs _ => false

/-- `is_top()`: not bottom and every base value is top -/
def isTop : PK N → Bool
  | .bot => false
  | .packs l => l.all (fun p => N.isTop p.val)

/-- `union_find_domain::operator<=` on two values that are neither bottom nor top -/
def ufLeq (a b : List (Pack N)) : Bool :=
  b.all (fun R => R.vars.all (fun v =>
    match packOf a v with
    | none => false
    | some L => L.vars.all (fun u => R.vars.contains u) && N.leq L.val R.val))

/-- `operator<=` -/
def leq (a b : PK N) : Bool :=
  if a.isBottom || b.isTop then true
  else if a.isTop || b.isBottom then false
  else match a, b with
    | .packs la, .packs lb => ufLeq la lb
    | _, _ => false          -- not reachable

/-- "keep only common elements" of `join_or_widening`: every variable that the other side does
    not contain is forgotten (`union_find_domain::forget`: `-= v` on the value of the class, the
    class disappears with its last variable).  The code restricts the right operand against the
    already restricted left one; a variable of the right operand is in the left operand iff it
    is in the restricted left operand, so both restrictions are taken against the originals. -/
def restrictTo (l other : List (Pack N)) : List (Pack N) :=
  l.filterMap (fun p =>
    let kept := p.vars.filter (fun v => containsV other v)
    if kept.isEmpty then none
    else some ⟨kept, (p.vars.filter (fun v => !containsV other v)).foldl N.forget p.val⟩)

/-- `for (kv : classes) right.merge_elems(kv.second)` -/
def mergeAll (fresh : Pack N → N.B) : List (Pack N) → List (Pack N) → Option (List (Pack N))
  | [], l => some l
  | c :: cs, l =>
    match merge (fresh c) l c.vars with
    | none => none
    | some (acc, r) => mergeAll fresh cs (acc :: r)

/-- the second loop of `join_or_widening` / `meet_or_narrowing`: for every ORIGINAL class `R` of
    the right operand, merge its elements on the left and combine the value of the merged class
    with the value that the (merged) right operand `right2` attaches to `R` -/
def combineLoop (g : N.B → N.B → N.B) (useFresh : Bool) (checkBot : Bool) (right2 : List (Pack N)) :
    List (Pack N) → List (Pack N) → Option (PK N)
  | [], left => some (.packs left)
  | R :: Rs, left =>
    match R.vars with
    | [] => none                                   -- classes are never empty
    | v :: _ =>
      match packOf right2 v with
      | none => none                               -- `R` is a class of the right operand
      | some q =>
        match merge (if useFresh then q.val else N.top) left R.vars with
        | none => if useFresh then some .bot else none
        | some (acc, r) =>
          let m := g acc.val q.val
          if checkBot && N.isBot m then some .bot
          else combineLoop g useFresh checkBot right2 Rs (⟨acc.vars, m⟩ :: r)

/-- `union_find_domain::join_or_widening` on two values that are neither bottom nor top -/
def ufJoin (g : N.B → N.B → N.B) (a b : List (Pack N)) : Option (PK N) :=
  let a' := restrictTo a b
  let b' := restrictTo b a
  match mergeAll (fun _ => N.top) a' b' with
  | none => none                                   -- CRAB_ERROR "join_or_widening 1"
  | some b'' => combineLoop g false false b'' b' a'

/-- `union_find_domain::meet_or_narrowing` -/
def ufMeet (g : N.B → N.B → N.B) (a b : List (Pack N)) : Option (PK N) :=
  match mergeAll (fun c => c.val) a b with
  | none => some .bot                              -- `right.is_bottom()`: the meet is bottom
  | some b'' => combineLoop g true true b'' b a

/-- `operator|`, `operator||`, `widening_thresholds` (same early returns) -/
def joinWith (g : N.B → N.B → N.B) (a b : PK N) : Option (PK N) :=
  if a.isBottom || b.isTop then some b
  else if b.isBottom || a.isTop then some a
  else match a, b with
    | .packs la, .packs lb => ufJoin g la lb
    | _, _ => none

/-- `operator&`, `operator&&` -/
def meetWith (g : N.B → N.B → N.B) (a b : PK N) : Option (PK N) :=
  if a.isBottom || b.isTop then some a
  else if b.isBottom || a.isTop then some b
  else match a, b with
    | .packs la, .packs lb => ufMeet g la lb
    | _, _ => none

/-! ### transformers -/

/-- the common shape of `assign`, `weak_assign`, `apply` (all versions), `select`, `expand`:
    `[m_packs.forget(x);] absval = merge(vars); if (absval) { absval->op(..);
    [normalize_if_bottom(*absval);] } else [CRAB_ERROR]`:
    `fx` = the variable forgotten first, `errOnNull` = the `else` branch raises CRAB_ERROR (it does
    for `assign`, `weak_assign`, `apply`; `select` and `expand` just leave the bottom value),
    `normBot` = `normalize_if_bottom` is called (not for `weak_assign` and `expand`) -/
def stmtOn (vars : List V) (f : N.B → N.B) (normBot errOnNull : Bool) (l1 : List (Pack N)) : Option (PK N) :=
  match merge N.top l1 vars with
  | none => if errOnNull then none else some .bot
  | some (acc, rest) =>
    let v := f acc.val
    if normBot && N.isBot v then some .bot else some (.packs (⟨acc.vars, v⟩ :: rest))

def stmt (fx : Option V) (vars : List V) (f : N.B → N.B) (normBot errOnNull : Bool) : PK N → Option (PK N)
  | .bot => some .bot
  | .packs l =>
    stmtOn vars f normBot errOnNull (match fx with
      | some x => ufForget l x
      | none => l)

/-- `assign(x, e)`: `vars` = the variables of `e`; if `x` is not among them it is forgotten and added -/
def assign (x : V) (evars : List V) (f : N.B → N.B) : PK N → Option (PK N) :=
  if evars.contains x then stmt none evars f true true else stmt (some x) (evars ++ [x]) f true true

def weakAssign (x : V) (evars : List V) (f : N.B → N.B) : PK N → Option (PK N) :=
  if evars.contains x then stmt none evars f false true else stmt (some x) (evars ++ [x]) f false true

/-- `apply(op, x, y, k)` through `apply_packs(x, y)` -/
def apply2 (x y : V) (f : N.B → N.B) : PK N → Option (PK N) :=
  if x ≠ y then stmt (some x) [x, y] f true true else stmt none [x] f true true

/-- `apply(op, x, y, z)` through `apply_packs(x, y, z)` -/
def apply3 (x y z : V) (f : N.B → N.B) : PK N → Option (PK N) :=
  if x ≠ y ∧ x ≠ z then stmt (some x) [x, y, z] f true true
  else if x = y then stmt none [x, z] f true true else stmt none [x, y] f true true

/-- `select(lhs, cond, e1, e2)`: `ovars` = variables of cond, e1, e2 in this order -/
def select (lhs : V) (ovars : List V) (f : N.B → N.B) : PK N → Option (PK N) :=
  stmt (some lhs) (lhs :: ovars) f true false

/-- `expand(var, new_var)` -/
def expand (x nx : V) (f : N.B → N.B) : PK N → Option (PK N) := stmt (some nx) [x, nx] f false false

/-- `apply(int_conv_operation_t, dst, src)`: nothing at all when `src == dst` -/
def cast (dst src : V) (f : N.B → N.B) : PK N → Option (PK N) :=
  if src ≠ dst then stmt (some dst) [src, dst] f true true else fun a => some a

/-- one constraint of `operator+=`: `is_contradiction()`, `is_tautology()`, its variables, the
    base transformer `*absval += cst` -/
structure CstInfo (N : NDom V) where
  contra : Bool
  taut : Bool
  vars : List V
  f : N.B → N.B
  sat : St V → Prop

/-- `operator+=(csts)` -/
def addCsts : List (CstInfo N) → PK N → PK N
  | _, .bot => .bot
  | [], a => a
  | c :: cs, .packs l =>
    if c.contra then .bot
    else if c.taut then addCsts cs (.packs l)
    else if c.vars.isEmpty then addCsts cs (.packs l)
    else match merge N.top l c.vars with
      | none => .bot
      | some (acc, rest) =>
        let v := c.f acc.val
        if N.isBot v then .bot else addCsts cs (.packs (⟨acc.vars, v⟩ :: rest))

/-- `pack.detach_and_get_absval()->operator-=(var)` on the class of `var`, if any -/
def onPackOf (g : N.B → N.B) : List (Pack N) → V → List (Pack N)
  | [], _ => []
  | p :: ps, v => if p.vars.contains v then ⟨p.vars, g p.val⟩ :: ps else p :: onPackOf g ps v

/-- `operator-=(var)` and one round of the loop of `forget(variables)`: not skipped on a top value
    (b231e50) -/
def forget1 (x : V) : PK N → PK N
  | .bot => .bot
  | .packs l => .packs (ufForget (onPackOf (fun b => N.forget b x) l x) x)

def forgetAll (xs : List V) (a : PK N) : PK N := xs.foldl (fun a x => forget1 x a) a

/-! ### representation invariant, histories -/

/-- classes are pairwise disjoint and non-empty -/
def WFl (l : List (Pack N)) : Prop :=
  l.Pairwise (fun p q => ∀ v, v ∈ p.vars → v ∉ q.vars) ∧ ∀ p ∈ l, p.vars ≠ []

def WF : PK N → Prop
  | .bot => True
  | .packs l => WFl l

/-- the statement `r` reads and writes only `vars`: it can be replayed on any state that agrees
    on `vars`, leaving the other variables alone -/
def Local (r : St V → St V → Prop) (vars : List V) : Prop :=
  (∀ s s', r s s' → ∀ v, v ∉ vars → s' v = s v) ∧
  (∀ s s', r s s' → ∀ t, agree vars s t → r t (fun v => if v ∈ vars then s' v else t v))

inductive Op (N : NDom V) where
  /-- any of `assign`, `weak_assign`, `apply`, `select`, `expand` (see the wrappers above) -/
  | stmt (d : Nat) (fx : Option V) (vars : List V) (f : N.B → N.B) (normBot errOnNull : Bool)
      (r : St V → St V → Prop)
  | add (d : Nat) (cs : List (CstInfo N))
  | forget (d : Nat) (xs : List V)
  | join (d a b : Nat) (g : N.B → N.B → N.B)         -- `|`, `||`, `widening_thresholds`
  | meet (d a b : Nat) (g : N.B → N.B → N.B)         -- `&`, `&&`
  | copy (d s : Nat)
  | setTop (d : Nat)
  | setBottom (d : Nat)

/-- the concrete relation of `forget(xs)` -/
def forgetRel : List V → St V → St V → Prop
  | [], s, s' => s' = s
  | x :: xs, s, s' => ∃ k, forgetRel xs (s.set x k) s'

/-- CRAB_ERROR aborts the analysis: a history step whose operation raises it continues with top
    (any value would do: nothing is claimed about an aborted run); `stmt_sound` shows that a
    statement cannot raise it on a value that has a state -/
def Op.toStep : Op N → Step (PK N) (St V)
  | .stmt d fx vars f nb en r => .trans d ⟨fun a => (PK.stmt fx vars f nb en a).getD top, r⟩
  | .add d cs => .trans d ⟨addCsts cs, fun s s' => s' = s ∧ ∀ c ∈ cs, c.sat s⟩
  | .forget d xs => .trans d ⟨forgetAll xs, forgetRel xs⟩
  | .join d a b g => .upper d a b (fun x y => (joinWith g x y).getD top)
  | .meet d a b g => .lower d a b (fun x y => (meetWith g x y).getD top)
  | .copy d s => .copy d s
  | .setTop d => .trans d ⟨fun _ => top, fun _ _ => True⟩
  | .setBottom d => .setBot d .bot

/-- obligations on the base domain and on the statement: the base transformer abstracts `r`, `r`
    is local to the variables handed to `merge`, a
    constraint flagged as contradiction has no model and its transformer abstracts the filter,
    the binary operators of the base are upper / lower bounds -/
def Op.BaseSound : Op N → Prop
  | .stmt _ _ vars f _ _ r => N.TSound f r ∧ Local r vars ∧ vars ≠ []
  | .add _ cs => ∀ c ∈ cs, (c.contra = true → ∀ s, ¬ c.sat s) ∧
      N.TSound c.f (fun s s' => c.sat s ∧ s' = s) ∧ (∀ s t, agree c.vars s t → c.sat s → c.sat t)
  | .join _ _ _ g => N.USound g
  | .meet _ _ _ g => ∀ a b s, N.γ a s → N.γ b s → N.γ (g a b) s
  | _ => True

def toHist (ops : List (Op N)) : List (Step (PK N) (St V)) := ops.map Op.toStep

end PK
end Fct
end Dom
end Crab
