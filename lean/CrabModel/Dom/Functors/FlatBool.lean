import CrabModel.Dom.Functors.FlatBoolBase

/-
  Model of `flat_boolean_numerical_domain<Dom>` (include/crab/domains/flat_boolean_domain.hpp, tree
  with all the fix commits up to ef2ddd6) over an ARBITRARY lawful numerical base `N : BNDom V K`
  and an arbitrary lawful signature of constraints `K : CSig V`.

  State (`FBN N`): `m_product` (the `reduced_domain_product2` of the flat Boolean domain `FB V` and
  the base: `Prod2 (FB V) N`, with its lazy bottom flag and `canonicalize()`), `m_bool_to_lincsts`
  (`lin`), `m_bool_to_bools` (`bools`), `m_unchanged_vars` (`unch`).

  Not modelled: `m_bool_to_refcsts` (handled by the code exactly like `m_bool_to_lincsts`, with
  `ref_assume` in place of `+=`; it stays top in numerical programs), the array / region / reference
  forwarding methods (they only call `m_product` and `m_unchanged_vars -= lhs`: instances of
  `numDef`), the backward operations, `to_disjunctive_linear_constraint_system`.

  The base transformers that `m_product.op(..)` runs on the second component are parameters
  (`f2 : N.B → N.B`): the theorems ask that they abstract the concrete relation of the statement.
  The syntactic analysis of `operator+=` (is every constraint free of Boolean variables? which
  normalised equalities have the shape `b == 0` / `b == 1`?) is abstracted to its outcome.
-/
namespace Crab
namespace Dom
namespace Fct

/-- the constraints that `b := cst` records (`linear_constraint_t`), with what the reduction uses -/
structure CSig (V : Type) where
  C : Type
  deq : DecidableEq C
  holds : C → (V → Int) → Prop
  /-- `cst.variables()` -/
  vars : C → List V
  /-- `cst.negate()` -/
  negate : C → C
  isTaut : C → Bool
  isContra : C → Bool
  frame : ∀ c s s', (∀ v ∈ vars c, s v = s' v) → (holds c s ↔ holds c s')
  negate_holds : ∀ c s, holds (negate c) s ↔ ¬ holds c s
  negate_vars : ∀ c v, v ∈ vars (negate c) ↔ v ∈ vars c
  taut_holds : ∀ c s, isTaut c = true → holds c s
  contra_holds : ∀ c s, isContra c = true → ¬ holds c s

instance {V : Type} (K : CSig V) : DecidableEq K.C := K.deq

/-- a base numerical domain: `LDom` over `CSt V` plus the queries and the two transformers that the
    reduction of `flat_boolean_numerical_domain` calls on `m_product.second()` itself -/
structure BNDom (V : Type) [DecidableEq V] (K : CSig V) extends LDom (CSt V) where
  /-- `operator+=(cst)` -/
  addCst : B → K.C → B
  addCst_sound : ∀ b c s, γ b s → K.holds c s.num → γ (addCst b c) s
  /-- `entails(cst)` -/
  entails : B → K.C → Bool
  entails_sound : ∀ b c s, entails b c = true → γ b s → K.holds c s.num
  /-- `(*this)[v] == interval_t(0)` -/
  isZero : B → V → Bool
  isZero_sound : ∀ b v s, isZero b v = true → γ b s → s.num v = 0
  /-- `!(interval_t(0) <= (*this)[v])` -/
  nonZero : B → V → Bool
  nonZero_sound : ∀ b v s, nonZero b v = true → γ b s → s.num v ≠ 0
  /-- `assign(x, k)` -/
  assignK : B → V → Int → B
  assignK_sound : ∀ b x k s, γ b s → γ (assignK b x k) (s.setN x k)

variable {V : Type} [DecidableEq V] {K : CSig V}

structure FBN (N : BNDom V K) where
  prod : Prod2 (FB V) N.toLDom
  lin : SEnv V K.C
  bools : SEnv V V
  unch : DSet V

namespace FBN
variable {N : BNDom V K}

/-- `make_top()` / `set_to_top()` -/
def top : FBN N := ⟨(Prod2.top).setTop, .top, .top, .fin []⟩
/-- `make_bottom()` / `set_to_bottom()` -/
def bottom : FBN N := ⟨(Prod2.top).setBottom, .bot, .bot, .all⟩

/-- `is_bottom()` -/
def isBottom (a : FBN N) : Bool := a.prod.isBottom
/-- `is_top()` (after 67052d5) -/
def isTop (a : FBN N) : Bool := a.prod.isTop && a.lin.isTop && a.bools.isTop

/-- `operator<=` (after 6293d89) -/
def leq (a b : FBN N) : Bool :=
  if a.isBottom then true
  else if b.isBottom then false
  else Prod2.leq a.prod b.prod && SEnv.leq a.lin b.lin && SEnv.leq a.bools b.bools && DSet.leq a.unch b.unch

/-- `operator|=` -/
def joinEq (a b : FBN N) : FBN N :=
  ⟨Prod2.joinEq a.prod b.prod, a.lin.join b.lin, a.bools.join b.bools, a.unch.join b.unch⟩
/-- `operator|` -/
def join (a b : FBN N) : FBN N :=
  ⟨Prod2.join a.prod b.prod, a.lin.join b.lin, a.bools.join b.bools, a.unch.join b.unch⟩
/-- `operator||`, `widening_thresholds` (`w2` = the widening of the base) -/
def widenWith (w2 : N.B → N.B → N.B) (a b : FBN N) : FBN N :=
  ⟨Prod2.widenWith FEnv.join w2 a.prod b.prod, a.lin.join b.lin, a.bools.join b.bools, a.unch.join b.unch⟩
/-- `operator&` (after ef2ddd6): the maps are united (meet of the dual sets), the unchanged sets are
    INTERSECTED (`m_unchanged_vars | other.m_unchanged_vars`, the join of the invariance domain) -/
def meet (a b : FBN N) : FBN N :=
  ⟨Prod2.meet a.prod b.prod, a.lin.meet b.lin, a.bools.meet b.bools, a.unch.join b.unch⟩
/-- `operator&=` (after ef2ddd6) -/
def meetEq (a b : FBN N) : FBN N :=
  ⟨Prod2.meetEq a.prod b.prod, a.lin.meet b.lin, a.bools.meet b.bools, a.unch.join b.unch⟩
/-- `operator&&` (after ef2ddd6) -/
def narrow (a b : FBN N) : FBN N :=
  ⟨Prod2.narrow a.prod b.prod, a.lin.meet b.lin, a.bools.meet b.bools, a.unch.join b.unch⟩

/-- PINNED-TREE behaviour of `operator&` BEFORE repo commit ef2ddd6 (not the current code):
    `m_unchanged_vars & other.m_unchanged_vars`, i.e. the UNION of the unchanged sets.  Unsound
    (`C03.flatbool_meetOld_counterexample`); kept for the regression only. -/
def meetOld (a b : FBN N) : FBN N :=
  ⟨Prod2.meet a.prod b.prod, a.lin.meet b.lin, a.bools.meet b.bools, a.unch.meet b.unch⟩
/-- `operator&=` before ef2ddd6 -/
def meetEqOld (a b : FBN N) : FBN N :=
  ⟨Prod2.meetEq a.prod b.prod, a.lin.meet b.lin, a.bools.meet b.bools, a.unch.meet b.unch⟩
/-- `operator&&` before ef2ddd6 -/
def narrowOld (a b : FBN N) : FBN N :=
  ⟨Prod2.narrow a.prod b.prod, a.lin.meet b.lin, a.bools.meet b.bools, a.unch.meet b.unch⟩

/-! ### helpers of the reduction -/

/-- `forget_implied_bool(x)` -/
def forgetImpliedBool (x : V) (bs : SEnv V V) : SEnv V V :=
  bs.transformIf (fun s => s.contains x) (fun s => s.filter (fun y => y ≠ x))

/-- `forget_csts_with_var(env, v)` -/
def forgetCstsWithVar (lin : SEnv V K.C) (v : V) : SEnv V K.C :=
  lin.transformIf (fun l => l.any (fun c => (K.vars c).contains v)) (fun _ => [])

/-- `mark_vars_as_unchanged(cst)` over `cst.variables()` -/
def markVars : List V → SEnv V K.C × DSet V → SEnv V K.C × DSet V
  | [], p => p
  | v :: vs, p =>
    if p.2.isTop || !p.2.mem v then markVars vs (forgetCstsWithVar p.1 v, p.2.insert v)
    else markVars vs p

/-- `propagate_assign_bool_var(env, x, y, is_negated)` (after 2ee56db) -/
def propagateAssignBoolVar (lin : SEnv V K.C) (x y : V) (neg : Bool) : SEnv V K.C :=
  if !neg then lin.set x (lin.look y)
  else
    let csts := lin.look y
    if csts.size = 1 then
      match csts.elems with
      | c :: _ => lin.set x (.fin [K.negate c])
      | [] => lin.del x
    else lin.del x

/-- the test of `add_if_unchanged`: `m_unchanged_vars <= vars(cst)` -/
def unchanged (u : DSet V) (c : K.C) : Bool := DSet.leq u (.fin (K.vars c))

/-- `add_if_unchanged(cst)` -/
def addIfUnchanged (c : K.C) (a : FBN N) : FBN N :=
  if unchanged a.unch c then { a with prod := Prod2.onSecond (fun b => N.addCst b c) a.prod } else a

/-- `bwd_reduction_assume_bool(m_bool_to_lincsts, x, is_negated)` -/
def bwdReductionAssumeBool (x : V) (neg : Bool) (a : FBN N) : FBN N :=
  let v := a.lin.look x
  if v.isTop || v.isBot then a
  else if !neg then v.elems.foldl (fun a c => addIfUnchanged c a) a
  else if v.size = 1 then
    match v.elems with
    | c :: _ => addIfUnchanged (K.negate c) a
    | [] => a
  else a

/-- one iteration of the loop of `reduce_bool_to_csts` over `m_bool_to_bools.at(x)` -/
def reduceStep (x : V) (a : FBN N) (v : V) : FBN N :=
  { a with prod := Prod2.onFirst (fun e => e.assumeBool v false) a.prod,
           lin := a.lin.set x ((a.lin.look x).meet (a.lin.look v)) }

/-- `reduce_bool_to_csts(x, is_negated)` -/
def reduceBoolToCsts (x : V) (neg : Bool) (a : FBN N) : FBN N :=
  if !neg then bwdReductionAssumeBool x false ((a.bools.look x).elems.foldl (reduceStep x) a)
  else a

/-- the flat value `reduce_num_cst_to_bool` gives to `x` (two calls of `m_product.second()`) -/
def evalCst (c : K.C) (q : Prod2 (FB V) N.toLDom) : BVal :=
  if N.entails q.snd c then .tt
  else if N.entails q.snd (K.negate c) then .ff
  else .top

/-- `reduce_num_cst_to_bool(x, cst)` (after a80cc0d, 4866b89, 54ec9a1) -/
def reduceNumCstToBool (x : V) (c : K.C) (a : FBN N) : FBN N :=
  let lin0 := a.lin.del x
  let a1 : FBN N :=
    if K.isTaut c then { a with lin := lin0, prod := Prod2.onFirst (fun e => e.set x .tt) a.prod }
    else if K.isContra c then { a with lin := lin0, prod := Prod2.onFirst (fun e => e.set x .ff) a.prod }
    else
      let q := a.prod.canonicalize
      let mv := markVars (K.vars c) (lin0, a.unch)
      { a with prod := Prod2.onFirst (fun e => e.set x (evalCst c q)) q,
               lin := mv.1.set x (.fin [c]), unch := mv.2 }
  { a1 with bools := forgetImpliedBool x (a1.bools.del x) }

/-! ### Boolean operations -/

/-- `assign_bool_cst(x, cst)`; `f2` = what the base does on `assign_bool_cst` -/
def assignBoolCst (f2 : N.B → N.B) (x : V) (c : K.C) (a : FBN N) : FBN N :=
  if a.prod.isBottom then a
  else reduceNumCstToBool x c { a with prod := Prod2.op .boolOp (fun e => e.forget1 x) f2 a.prod }

/-- `assign_bool_var(x, y, is_negated)` -/
def assignBoolVar (f2 : N.B → N.B) (x y : V) (neg : Bool) (a : FBN N) : FBN N :=
  if a.isBottom then a
  else
    let b1 := forgetImpliedBool x a.bools
    { prod := Prod2.op .boolOp (fun e => e.assignBoolVar x y neg) f2 a.prod,
      lin := propagateAssignBoolVar a.lin x y neg,
      bools := if !neg then b1.set x ((b1.look y).meet (.fin [y])) else b1.del x,
      unch := a.unch }

/-- `apply_binary_bool(op, x, y, z)` -/
def applyBinaryBool (f2 : N.B → N.B) (op : BBin) (x y z : V) (a : FBN N) : FBN N :=
  if a.isBottom then a
  else
    let b1 := forgetImpliedBool x a.bools
    { prod := Prod2.op .boolOp (fun e => FEnv.applyBinaryBool op e x y z) f2 a.prod,
      lin := a.lin.del x,
      bools := if op = .band then
                 b1.set x ((((b1.look y).meet (b1.look z)).meet (.fin [y])).meet (.fin [z]))
               else b1.del x,
      unch := a.unch }

/-- `assume_bool(x, is_negated)` -/
def assumeBool (f2 : N.B → N.B) (x : V) (neg : Bool) (a : FBN N) : FBN N :=
  if a.isBottom then a
  else
    let a1 : FBN N := { a with prod := Prod2.op .boolOp (fun e => e.assumeBool x neg) f2 a.prod }
    if a1.isBottom then a1 else reduceBoolToCsts x neg a1

/-- `fwd_reduction_select_bool(lhs, cond_val, b1, b2)` on the two maps -/
def fwdSelect (lhs b1 b2 : V) (cv : BVal) (lin : SEnv V K.C) (bs : SEnv V V) : SEnv V K.C × SEnv V V :=
  match cv with
  | .tt => (lin.set lhs (lin.look b1), bs.set lhs ((bs.look b1).meet (.fin [b1])))
  | .ff => (lin.set lhs (lin.look b2), bs.set lhs ((bs.look b2).meet (.fin [b2])))
  | _ => (lin.del lhs, bs.del lhs)

/-- `select_bool(lhs, cond, b1, b2)` (after f6e88df, 26c913b); `f2` = the base on `select_bool`,
    `f2'` = the base on `assign_bool_var(lhs, b1, false)` (taken when `b1 == b2`) -/
def selectBool (f2 f2' : N.B → N.B) (lhs cond b1 b2 : V) (a : FBN N) : FBN N :=
  if !a.isBottom then
    if b1 = b2 then assignBoolVar f2' lhs b1 false a
    else
      let q := a.prod.canonicalize
      let cv := q.fst.get cond
      let v1 := q.fst.get b1
      let v2 := q.fst.get b2
      let fw := fwdSelect lhs b1 b2 cv a.lin (forgetImpliedBool lhs a.bools)
      let bs1 := fw.2
      { prod := Prod2.op .boolOp (fun e => e.selectBool lhs cond b1 b2) f2 q,
        lin := fw.1,
        bools := if v2 = .ff then
                   bs1.set lhs ((((bs1.look b1).meet (bs1.look cond)).meet (.fin [b1])).meet (.fin [cond]))
                 else if v1 = .ff then bs1.set lhs ((bs1.look b2).meet (.fin [b2]))
                 else bs1,
        unch := a.unch }
  else a

/-! ### numerical operations, forget / project / rename / expand, casts -/

/-- `assign`, `weak_assign`, `apply` (arithmetic, bitwise), `select`, `set`, `array_load`, `ref_load`,
    `ref_to_int`, ..: `m_product.op(x, ..); m_unchanged_vars -= x;` (the flat Boolean domain does
    nothing on them: NUMERICAL_OPERATIONS_NOT_IMPLEMENTED) -/
def numDef (m : Prod2.Meth) (f2 : N.B → N.B) (x : V) (a : FBN N) : FBN N :=
  { a with prod := Prod2.op m id f2 a.prod, unch := a.unch.remove x }

/-- `operator+=(csts)`: `isTrue` = `csts.is_true()`, `allNonBool` = no constraint mentions a Boolean
    variable, `lits` = the `assume_bool(var, is_negated)` calls the loop makes on `m_product.first()`
    (NOT on `*this`: no reduction), `f2` = `+=` of the (non-Boolean) constraints on the base -/
def addCsts (isTrue allNonBool : Bool) (lits : List (V × Bool)) (f2 : N.B → N.B) (a : FBN N) : FBN N :=
  if isTrue then a
  else if allNonBool then { a with prod := Prod2.onSecond f2 a.prod }
  else
    let p1 : Prod2 (FB V) N.toLDom :=
      lits.foldl (fun p l => Prod2.onFirst (fun (e : FEnv V) => e.assumeBool l.1 l.2) p) a.prod
    { a with prod := Prod2.onSecond f2 p1 }

/-- `operator-=(v)`; `isBool v` = `v.get_type().is_bool()` -/
def forget1 (isBool : V → Bool) (f2 : N.B → N.B) (v : V) (a : FBN N) : FBN N :=
  let p := Prod2.op .forget1 (fun (e : FEnv V) => e.forget1 v) f2 a.prod
  let a1 : FBN N :=
    if isBool v then { a with prod := p, lin := a.lin.del v, bools := a.bools.del v }
    else { a with prod := p, unch := a.unch.remove v }
  { a1 with bools := forgetImpliedBool v a1.bools }

/-- the loop of `forget(variables)` over the maps -/
def forgetMaps (isBool : V → Bool) : List V → FBN N → FBN N
  | [], a => a
  | v :: vs, a =>
    forgetMaps isBool vs
      (if isBool v then { a with lin := a.lin.del v, bools := a.bools.del v }
       else { a with unch := a.unch.remove v })

/-- `forget(variables)` (after 945538d) -/
def forget (isBool : V → Bool) (f2 : N.B → N.B) (vs : List V) (a : FBN N) : FBN N :=
  if a.isBottom then a
  else
    let a1 := forgetMaps isBool vs { a with prod := Prod2.op .forget (fun e => e.forget vs) f2 a.prod }
    { a1 with bools := a1.bools.transformIf (fun s => vs.any (fun v => s.contains v))
                          (fun s => s.filter (fun y => !vs.contains y)) }

/-- `project(variables)` -/
def project (f2 : N.B → N.B) (vs : List V) (a : FBN N) : FBN N :=
  if a.isBottom then a
  else if vs.isEmpty then top
  else ⟨Prod2.op .project (fun e => e.project vs) f2 a.prod, .top, .top, .fin []⟩

/-- `expand(x, new_x)` (after bb23efe) -/
def expand (isBool : V → Bool) (f2 : N.B → N.B) (x nx : V) (a : FBN N) : FBN N :=
  if a.isBottom then a
  else
    let p := Prod2.op .expand (fun (e : FEnv V) => e.expand x nx) f2 a.prod
    if isBool x then { a with prod := p, lin := a.lin.set nx (a.lin.look x) }
    else { a with prod := p, unch := a.unch.remove nx }

/-- the loop of `rename` over the members of `m_bool_to_bools` -/
def renameMembers : List V → List V → SEnv V V → SEnv V V
  | o :: os, n :: ns, bs =>
    renameMembers os ns
      (bs.transformIf (fun s => s.contains o)
        (fun s => let s' := s.filter (fun y => y ≠ o); if s'.contains n then s' else n :: s'))
  | _, _, bs => bs

/-- `rename(from, to)` (after 8b4b7ba) -/
def rename (isBool : V → Bool) (f2 : N.B → N.B) (fr to : List V) (a : FBN N) : FBN N :=
  if a.isBottom then a
  else
    let ob := fr.filter isBool
    let nb := to.filter isBool
    { prod := Prod2.op .rename (fun e => e.rename fr to) f2 a.prod,
      lin := a.lin.rename ob nb,
      bools := renameMembers ob nb (a.bools.rename ob nb),
      unch := (fr.filter (fun v => !isBool v)).foldl DSet.remove a.unch }

/-- `apply(OP_TRUNC, dst, src)` with `dst` Boolean and `src` an integer (after 8d85025) -/
def castTrunc (dst src : V) (a : FBN N) : FBN N :=
  let q := a.prod.canonicalize
  let v : BVal := if N.isZero q.snd src then .ff else if N.nonZero q.snd src then .tt else .top
  { prod := Prod2.onFirst (fun e => e.set dst v) q,
    lin := a.lin.del dst,
    bools := forgetImpliedBool dst (a.bools.del dst),
    unch := a.unch }

/-- `apply(OP_ZEXT | OP_SEXT, dst, src)` with `src` Boolean and `dst` an integer; `funk` = what the
    base does on `apply(op, dst, src)` -/
def castExt (funk : N.B → N.B) (dst src : V) (a : FBN N) : FBN N :=
  let q := a.prod.canonicalize
  let p :=
    match q.fst.get src with
    | .tt => Prod2.onSecond (fun b => N.assignK b dst 1) q
    | .ff => Prod2.onSecond (fun b => N.assignK b dst 0) q
    | _ => Prod2.onSecond funk q
  { a with prod := p, unch := a.unch.remove dst }

/-- the other casts: `m_product.apply(op, dst, src); m_unchanged_vars -= dst;` (the flat Boolean
    domain forgets `dst`) -/
def castOther (f2 : N.B → N.B) (dst : V) (a : FBN N) : FBN N :=
  { a with prod := Prod2.op .cast (fun e => e.forget1 dst) f2 a.prod, unch := a.unch.remove dst }

/-- `to_linear_constraint_system()` of the Boolean part: `v == 1` / `v == 0` for the definite
    Booleans (`none` = the constraint `false` of a bottom value) -/
def boolFacts (a : FBN N) : Option (List (V × Bool)) :=
  match a.prod.fst with
  | .bot => none
  | .env m => some ((AL.keys m).filterMap (fun k => (AL.get m k).map (fun b => (k, b))))

/-- `weak_assign_bool_cst` (DEFAULT_WEAK_BOOL_ASSIGN): `if (!is_bottom()) { DOM other(*this);
    other.assign_bool_cst(lhs, rhs); *this |= other; }` -/
def weakAssignBoolCst (f2 : N.B → N.B) (x : V) (c : K.C) (a : FBN N) : FBN N :=
  if !a.isBottom then joinEq a (assignBoolCst f2 x c a) else a

/-- `weak_assign_bool_var` -/
def weakAssignBoolVar (f2 : N.B → N.B) (x y : V) (neg : Bool) (a : FBN N) : FBN N :=
  if !a.isBottom then joinEq a (assignBoolVar f2 x y neg a) else a

/-! ### concretisation -/

/-- what `m_bool_to_lincsts` and `m_unchanged_vars` promise about a state: a recorded constraint
    whose variables are all marked unchanged has the truth value of its Boolean -/
def LinInvOf (lin : SEnv V K.C) (u : DSet V) (s : CSt V) : Prop :=
  ∀ b c, (lin.look b).mem c = true → unchanged u c = true → (s.bool b = true ↔ K.holds c s.num)

/-- what `m_bool_to_bools` promises: `b` implies each of its recorded Booleans -/
def BoolInvOf (bs : SEnv V V) (s : CSt V) : Prop :=
  ∀ b b', (bs.look b).mem b' = true → s.bool b = true → s.bool b' = true

def LinInv (a : FBN N) (s : CSt V) : Prop := LinInvOf a.lin a.unch s
def BoolInv (a : FBN N) (s : CSt V) : Prop := BoolInvOf a.bools s

/-- the side condition encoded by the three auxiliary components -/
def Inv (a : FBN N) (s : CSt V) : Prop :=
  a.lin.isBot = false ∧ a.bools.isBot = false ∧ a.unch.isBot = false ∧ LinInv a s ∧ BoolInv a s

def γ (a : FBN N) (s : CSt V) : Prop := a.prod.γ s ∧ Inv a s

/-- both operands mark the same variables unchanged: then `&` is exactly the intersection
    (`C04.flatbool_meet_iff`); in general `&` is sound but keeps only the common marks, so it can
    be above an operand (`C04.flatbool_meet_lower_counterexample`) -/
def sameUnch (a b : FBN N) : Bool := DSet.leq a.unch b.unch && DSet.leq b.unch a.unch
end FBN

end Fct
end Dom
end Crab
