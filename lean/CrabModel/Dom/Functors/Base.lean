import CrabModel.Dom.History

/-
  The interface of a BASE abstract domain as the combinators of crab see it
  (`lattice_domain_api` of include/crab/domains/lattice_domain.hpp plus `is_bottom`/`is_top`,
  `make_bottom`/`make_top`), together with the per-operation SOUNDNESS laws and nothing else: no
  monotonicity, no precision, no normal form.  The functor models of this directory
  (`Product`, `Powerset`, `Packing`) are written over an arbitrary `LDom S`; every theorem about
  them holds for every instantiation at once.

  Transformers (assign, apply, +=, forget, ...) are not part of the structure: the functors apply
  them to their components without looking at them, so a transformer is just a function on the
  base carrier that abstracts a concrete relation (`LDom.TSound`).

  Laws that only matter for the precision statements of C04 (reflexivity of `<=`, `x <= top`,
  `is_top` of top, lower-bound property of the meet, ...) are NOT fields: the theorems that need
  one of them take it as an explicit hypothesis (`LDom.TopSound`, `LDom.LeqRefl`, ...).
-/
namespace Crab
namespace Dom
namespace Fct

structure LDom (S : Type) where
  B : Type
  γ : B → S → Prop
  top : B
  bot : B
  isBot : B → Bool
  isTop : B → Bool
  leq : B → B → Bool
  join : B → B → B
  meet : B → B → B
  widen : B → B → B
  narrow : B → B → B
  top_sound : ∀ s, γ top s
  bot_sound : ∀ s, ¬ γ bot s
  isBot_sound : ∀ b s, isBot b = true → ¬ γ b s
  leq_sound : ∀ a b s, leq a b = true → γ a s → γ b s
  join_l : ∀ a b s, γ a s → γ (join a b) s
  join_r : ∀ a b s, γ b s → γ (join a b) s
  widen_l : ∀ a b s, γ a s → γ (widen a b) s
  widen_r : ∀ a b s, γ b s → γ (widen a b) s
  meet_sound : ∀ a b s, γ a s → γ b s → γ (meet a b) s
  narrow_sound : ∀ a b s, γ a s → γ b s → γ (narrow a b) s

namespace LDom
variable {S : Type} (D : LDom S)

/-- a base transformer `f` abstracts the concrete relation `r` -/
def TSound (f : D.B → D.B) (r : S → S → Prop) : Prop := ∀ a s s', D.γ a s → r s s' → D.γ (f a) s'

/-- a sound upper-bound operator (any widening of the base: `||`, `widening_thresholds(·,ts)`) -/
def USound (g : D.B → D.B → D.B) : Prop := ∀ a b s, (D.γ a s ∨ D.γ b s) → D.γ (g a b) s

/-! optional laws (hypotheses of individual theorems) -/

/-- a yes of `is_top` means every state -/
def TopSound : Prop := ∀ b s, D.isTop b = true → D.γ b s
def LeqRefl : Prop := ∀ a, D.leq a a = true
def LeqTop : Prop := ∀ a, D.leq a D.top = true
/-- `make_top()` is recognised as top and not as bottom, `make_bottom()` as bottom -/
def TopIsTop : Prop := D.isTop D.top = true
def TopNotBot : Prop := D.isBot D.top = false
def BotIsBot : Prop := D.isBot D.bot = true
/-- the meet is a lower bound -/
def MeetLower : Prop := ∀ a b s, D.γ (D.meet a b) s → D.γ a s ∧ D.γ b s
/-- the narrowing is below its left argument and keeps (at least) nothing outside it -/
def NarrowLower : Prop := ∀ a b s, D.γ (D.narrow a b) s → D.γ a s
/-- `is_bottom` is exact (no empty value goes undetected) -/
def BotComplete : Prop := ∀ b, (∀ s, ¬ D.γ b s) → D.isBot b = true
/-- `f` maps empty values to empty values -/
def Strict (f : D.B → D.B) : Prop := ∀ a, (∀ s, ¬ D.γ a s) → ∀ s, ¬ D.γ (f a) s

theorem isBot_false_of_γ {b : D.B} {s : S} (h : D.γ b s) : D.isBot b = false := by
  cases hb : D.isBot b
  · rfl
  · exact absurd h (D.isBot_sound b s hb)

theorem uSound_join : D.USound D.join := fun a b s h => h.elim (D.join_l a b s) (D.join_r a b s)
theorem uSound_widen : D.USound D.widen := fun a b s h => h.elim (D.widen_l a b s) (D.widen_r a b s)

end LDom

/-! ### history soundness relative to a pool invariant

`C03.history_sound` (Props/C03.lean) asks every step to satisfy its law on ALL abstract values.
Functors with a representation invariant (the packs of `numerical_packing_domain` are pairwise
disjoint) only satisfy the laws on well-formed values; `Step.SoundOn I` relativises the law to an
invariant `I` that every step preserves. -/

variable {A S : Type}

def Step.SoundOn (I : A → Prop) (γ : A → S → Prop) : Step A S → Prop
  | .trans _ t => ∀ a s s', I a → γ a s → t.r s s' → γ (t.f a) s'
  | .upper _ _ _ g => ∀ a b s, I a → I b → (γ a s ∨ γ b s) → γ (g a b) s
  | .lower _ _ _ g => ∀ a b s, I a → I b → γ a s → γ b s → γ (g a b) s
  | .copy _ _ => True
  | .setBot _ _ => True

def Step.Preserves (I : A → Prop) : Step A S → Prop
  | .trans _ t => ∀ a, I a → I (t.f a)
  | .upper _ _ _ g => ∀ a b, I a → I b → I (g a b)
  | .lower _ _ _ g => ∀ a b, I a → I b → I (g a b)
  | .copy _ _ => True
  | .setBot _ bot => I bot

end Fct
end Dom
end Crab
