import CrabModel.Dom.Functors.FlatBool

/-
  Concrete semantics of the statements that `flat_boolean_numerical_domain` interprets (relations
  on `CSt V`) and the operation language of the histories over a pool of its values.
-/
namespace Crab
namespace Dom
namespace Fct

variable {V : Type} [DecidableEq V] {K : CSig V}

namespace FBN
variable {N : BNDom V K}

/-- the Boolean `x` receives a value described by `P` (a predicate on the state before) -/
def RelB (x : V) (P : CSt V → Bool → Prop) (s s' : CSt V) : Prop := ∃ b, P s b ∧ s' = s.setB x b

/-- `x := cst` -/
def relBcst (x : V) (c : K.C) : CSt V → CSt V → Prop := RelB x (fun s b => (b = true ↔ K.holds c s.num))
/-- `x := y` / `x := not(y)` -/
def relBvar (x y : V) (neg : Bool) : CSt V → CSt V → Prop := RelB x (fun s b => b = (s.bool y != neg))
/-- `x := y op z` -/
def relBbin (op : BBin) (x y z : V) : CSt V → CSt V → Prop :=
  RelB x (fun s b => b = op.eval (s.bool y) (s.bool z))
/-- `lhs := select(cond, b1, b2)` -/
def relBsel (lhs cond b1 b2 : V) : CSt V → CSt V → Prop :=
  RelB lhs (fun s b => b = if s.bool cond then s.bool b1 else s.bool b2)
/-- `assume(x)` / `assume(not(x))` -/
def relAssume (x : V) (neg : Bool) (s s' : CSt V) : Prop := s' = s ∧ s.bool x = !neg
/-- `dst := trunc(src)` to one bit: zero is false, non-zero is true -/
def relTrunc (dst src : V) : CSt V → CSt V → Prop := RelB dst (fun s b => b = decide (s.num src ≠ 0))
/-- `dst := zext(src)` of a Boolean (the code treats `sext` in the same way) -/
def relExt (dst src : V) (s s' : CSt V) : Prop := s' = s.setN dst (if s.bool src then 1 else 0)
/-- the statement only (re)defines the numerical variable `x` -/
def DefinesNum (x : V) (r : CSt V → CSt V → Prop) : Prop := ∀ s s', r s s' → ∃ k, s' = s.setN x k
/-- the statement only filters states (`+=`) -/
def Filters (r : CSt V → CSt V → Prop) : Prop := ∀ s s', r s s' → s' = s
/-- `v` gets any value of its type -/
def relForget1 (isBool : V → Bool) (v : V) (s s' : CSt V) : Prop :=
  if isBool v then ∃ b, s' = s.setB v b else ∃ k, s' = s.setN v k
/-- the variables of `vs` get any values of their types -/
def relForget (isBool : V → Bool) (vs : List V) (s s' : CSt V) : Prop :=
  (∀ v, v ∉ vs → s'.num v = s.num v ∧ s'.bool v = s.bool v) ∧
  (∀ v, isBool v = true → s'.num v = s.num v) ∧ (∀ v, isBool v = false → s'.bool v = s.bool v)
/-- `new_x` becomes a copy of `x` (of the type of `x`) -/
def relExpand (isBool : V → Bool) (x nx : V) (s s' : CSt V) : Prop :=
  if isBool x then s' = s.setB nx (s.bool x) else s' = s.setN nx (s.num x)

/-- the variables of `vs` keep their values, the others get any value -/
def relProject (vs : List V) (s s' : CSt V) : Prop :=
  ∀ v ∈ vs, s'.num v = s.num v ∧ s'.bool v = s.bool v
/-- weak update: the statement is executed or not -/
def relWeak (r : CSt V → CSt V → Prop) (s s' : CSt V) : Prop := s' = s ∨ r s s'
/-- `nx` does not occur in `m_bool_to_bools` (the contract of `expand` / `rename`: the target
    variable does not exist in the abstract state; established by `forget`) -/
def BoolFresh (nx : V) (bs : SEnv V V) : Prop :=
  ∀ k k', (bs.look k).mem k' = true → k ≠ nx ∧ k' ≠ nx

/-- `rename([x], [y])`: `y` receives the value of `x` (of the type of `x`), `x` is left with any value -/
def relRename1 (isBool : V → Bool) (x y : V) (s s' : CSt V) : Prop :=
  if isBool x then ∃ b, s' = (s.setB y (s.bool x)).setB x b
  else ∃ k, s' = (s.setN y (s.num x)).setN x k
/-- the target of a renaming does not exist in the abstract state (contract of `rename`) -/
def Fresh (isBool : V → Bool) (y : V) (a : FBN N) : Prop :=
  if isBool y then
    a.prod.fst.get y = .top ∧ (∀ c, (a.lin.look y).mem c = false) ∧ BoolFresh y a.bools
  else a.unch.mem y = false

/-- the base does not constrain the Boolean `dst` (`b := trunc(x)` does not call the base) -/
def IgnoresBool (N : BNDom V K) (dst : V) : Prop := ∀ b s v, N.γ b s → N.γ b (s.setB dst v)

/-! ### histories -/

/-- operation language of the histories over a pool of values of `flat_boolean_numerical_domain`;
    `f2`, `w2`, .. are what the base domain does on the same call -/
inductive Op (N : BNDom V K) where
  | bcst (d : Nat) (f2 : N.B → N.B) (x : V) (c : K.C)
  | bvar (d : Nat) (f2 : N.B → N.B) (x y : V) (neg : Bool)
  | bbin (d : Nat) (f2 : N.B → N.B) (op : BBin) (x y z : V)
  | bassume (d : Nat) (f2 : N.B → N.B) (x : V) (neg : Bool)
  | bsel (d : Nat) (f2 f2' : N.B → N.B) (lhs cond b1 b2 : V)
  | numDef (d : Nat) (m : Prod2.Meth) (f2 : N.B → N.B) (x : V) (r : CSt V → CSt V → Prop)
  | addCsts (d : Nat) (isTrue allNonBool : Bool) (lits : List (V × Bool)) (f2 : N.B → N.B)
      (r : CSt V → CSt V → Prop)
  | forget1 (d : Nat) (f2 : N.B → N.B) (v : V)
  | forget (d : Nat) (f2 : N.B → N.B) (vs : List V)
  | project (d : Nat) (f2 : N.B → N.B) (vs : List V)
  | wbcst (d : Nat) (f2 : N.B → N.B) (x : V) (c : K.C)
  | wbvar (d : Nat) (f2 : N.B → N.B) (x y : V) (neg : Bool)
  | trunc (d : Nat) (dst src : V)
  | ext (d : Nat) (funk : N.B → N.B) (dst src : V)
  | castOther (d : Nat) (f2 : N.B → N.B) (dst : V) (r : CSt V → CSt V → Prop)
  | join (d a b : Nat) | joinEq (d a b : Nat)
  | widen (d a b : Nat) (w2 : N.B → N.B → N.B)
  | meet (d a b : Nat) | meetEq (d a b : Nat) | narrow (d a b : Nat)
  | copy (d s : Nat)
  | setTop (d : Nat)
  | setBottom (d : Nat)

/-- what the history theorem asks of the base domain -/
def Op.BaseSound (isBool : V → Bool) : Op N → Prop
  | .bcst _ f2 x c => N.TSound f2 (relBcst x c)
  | .bvar _ f2 x y neg => N.TSound f2 (relBvar x y neg)
  | .bbin _ f2 op x y z => N.TSound f2 (relBbin op x y z)
  | .bassume _ f2 x neg => N.TSound f2 (relAssume x neg)
  | .bsel _ f2 f2' lhs cond b1 b2 =>
    N.TSound f2 (relBsel lhs cond b1 b2) ∧ (b1 = b2 → N.TSound f2' (relBvar lhs b1 false))
  | .numDef _ _ f2 x r => N.TSound f2 r ∧ DefinesNum x r
  | .addCsts _ _ _ lits f2 r =>
    N.TSound f2 r ∧ Filters r ∧ ∀ s s', r s s' → ∀ l ∈ lits, s.bool l.1 = !l.2
  | .forget1 _ f2 v => N.TSound f2 (relForget1 isBool v)
  | .forget _ f2 vs => N.TSound f2 (relForget isBool vs)
  | .project _ f2 vs => N.TSound f2 (relProject vs)
  | .wbcst _ f2 x c => N.TSound f2 (relBcst x c)
  | .wbvar _ f2 x y neg => N.TSound f2 (relBvar x y neg)
  | .trunc _ dst _ => IgnoresBool N dst
  | .ext _ funk dst src => N.TSound funk (relExt dst src)
  | .castOther _ f2 dst r => N.TSound f2 r ∧ DefinesNum dst r
  | .widen _ _ _ w2 => N.USound w2
  | _ => True

def Op.toStep (isBool : V → Bool) : Op N → Step (FBN N) (CSt V)
  | .bcst d f2 x c => .trans d ⟨assignBoolCst f2 x c, relBcst x c⟩
  | .bvar d f2 x y neg => .trans d ⟨assignBoolVar f2 x y neg, relBvar x y neg⟩
  | .bbin d f2 op x y z => .trans d ⟨applyBinaryBool f2 op x y z, relBbin op x y z⟩
  | .bassume d f2 x neg => .trans d ⟨assumeBool f2 x neg, relAssume x neg⟩
  | .bsel d f2 f2' lhs cond b1 b2 => .trans d ⟨selectBool f2 f2' lhs cond b1 b2, relBsel lhs cond b1 b2⟩
  | .numDef d m f2 x r => .trans d ⟨FBN.numDef m f2 x, r⟩
  | .addCsts d t nb lits f2 r => .trans d ⟨FBN.addCsts t nb lits f2, r⟩
  | .forget1 d f2 v => .trans d ⟨FBN.forget1 isBool f2 v, relForget1 isBool v⟩
  | .forget d f2 vs => .trans d ⟨FBN.forget isBool f2 vs, relForget isBool vs⟩
  | .project d f2 vs => .trans d ⟨FBN.project f2 vs, relProject vs⟩
  | .wbcst d f2 x c => .trans d ⟨weakAssignBoolCst f2 x c, relWeak (relBcst x c)⟩
  | .wbvar d f2 x y neg => .trans d ⟨weakAssignBoolVar f2 x y neg, relWeak (relBvar x y neg)⟩
  | .trunc d dst src => .trans d ⟨castTrunc dst src, relTrunc dst src⟩
  | .ext d funk dst src => .trans d ⟨castExt funk dst src, relExt dst src⟩
  | .castOther d f2 dst r => .trans d ⟨FBN.castOther f2 dst, r⟩
  | .join d a b => .upper d a b FBN.join
  | .joinEq d a b => .upper d a b FBN.joinEq
  | .widen d a b w2 => .upper d a b (widenWith w2)
  | .meet d a b => .lower d a b FBN.meet
  | .meetEq d a b => .lower d a b FBN.meetEq
  | .narrow d a b => .lower d a b FBN.narrow
  | .copy d s => .copy d s
  | .setTop d => .trans d ⟨fun _ => top, fun _ _ => True⟩
  | .setBottom d => .setBot d bottom

def toHist (isBool : V → Bool) (ops : List (Op N)) : List (Step (FBN N) (CSt V)) :=
  ops.map (Op.toStep isBool)

end FBN

end Fct
end Dom
end Crab
