import CrabModel.Dom.Functors.Base
import CrabModel.Scalar.Interval

/-
  Model of `value_partitioning_domain<NumDomain>` (include/crab/domains/value_partitioning_domain.hpp,
  after repo commits dfa080f, 335d5b6, eb25fa6, 3486f73, 8f4c9c7) over an ARBITRARY base domain.

  The base is an `LDom S` together with the one query the functor makes on it: `dom[x]`, the
  interval of the partitioning variable (`VDom.itvOf`), whose only law is "a bottom interval means
  an empty value".  A value is `m_variable` (optional partitioning variable) and the vector
  `m_partitions` of (interval of `m_variable`, base value), in the order of the vector.

  What the code maintains (proved: `VP.Inv`): the vector is never empty and has exactly one element
  when there is no partitioning variable.  `update_partitions()` is the code after repo commit 8f4c9c7 (intervals sorted
  and separated afterwards: `C03.vpart_update_disjoint`); the merge loop of the pinned tree is kept
  as `mergeAdjOld` / `updatePartsOld` for the counterexample theorems (it could leave overlapping
  intervals, which made the element-wise `&`, `&&` unsound and `<=` irreflexive).

  Abstractions: `std::sort` (unstable) is a stable insertion sort: the order of partitions with the
  same lower bound can differ (they are merged right after unless one interval is empty);
  `operator[]` of the base is a pure query; CRAB_ERROR branches (`merge_partitions()` on an empty
  vector, `remove_partitions()` without variable on a vector of size != 1, a non-integer
  partitioning variable) are marked and proved unreachable from values satisfying `VP.Inv`.
-/
namespace Crab
namespace Dom
namespace Fct

/-- the base domain as `value_partitioning_domain` uses it -/
structure VDom (V S : Type) extends LDom S where
  /-- `dom[x]` / `dom.at(x)` -/
  itvOf : B → V → Itv
  itvOf_bot : ∀ b x s, (itvOf b x).isBottom = true → ¬ γ b s

variable {V S : Type} [DecidableEq V]

/-- `value_partitioning_domain_impl::partition<NumDomain>`: `m_interval`, `m_dom` -/
structure Part (D : VDom V S) where
  key : Itv
  val : D.B

namespace Part
variable {D : VDom V S}
/-- `partition::top()` -/
def top : Part D := ⟨Itv.top, D.top⟩
/-- `partition::bottom()` -/
def bottom : Part D := ⟨Itv.bot, D.bot⟩
/-- `join(const partition &)` -/
def join (p q : Part D) : Part D := ⟨Itv.join p.key q.key, D.join p.val q.val⟩
/-- `meet(const partition &)` -/
def meet (p q : Part D) : Part D := ⟨Itv.meet p.key q.key, D.meet p.val q.val⟩
/-- `join_interval(const partition &)` -/
def joinKey (p q : Part D) : Part D := ⟨Itv.join p.key q.key, p.val⟩
/-- `get_dom().op(..)` -/
def app (f : D.B → D.B) (p : Part D) : Part D := ⟨p.key, f p.val⟩
end Part

/-- `m_variable`, `m_partitions` -/
structure VP (D : VDom V S) where
  var : Option V
  parts : List (Part D)

namespace VP
variable {D : VDom V S}

/-- concretisation: the union of the partitions (the intervals play no role) -/
def γ (a : VP D) (s : S) : Prop := ∃ p ∈ a.parts, D.γ p.val s

/-- the representation invariant the code maintains -/
def Inv (a : VP D) : Prop := a.parts ≠ [] ∧ (a.var = none → a.parts.length = 1)

/-- `is_bottom()`: every partition is bottom -/
def isBottom (a : VP D) : Bool := a.parts.all (fun p => D.isBot p.val)
/-- `is_top()`: every partition is top -/
def isTop (a : VP D) : Bool := a.parts.all (fun p => D.isTop p.val)

/-- `value_partitioning_domain()`, `make_top()` -/
def top : VP D := ⟨none, [Part.top]⟩
/-- `make_bottom()` -/
def bottom : VP D := ⟨none, [Part.bottom]⟩
/-- `set_to_top()`: `m_variable` is kept -/
def setTop (a : VP D) : VP D := ⟨a.var, [Part.top]⟩
/-- `set_to_bottom()`: `m_variable` is kept -/
def setBottom (a : VP D) : VP D := ⟨a.var, [Part.bottom]⟩

/-- `merge_partitions()`; the empty vector is CRAB_ERROR (not reachable under `Inv`) -/
def mergeParts : List (Part D) → Part D
  | [] => Part.bottom
  | p :: ps => ps.foldl Part.join p

/-- `remove_partitions()`; without variable a vector of size != 1 is CRAB_ERROR (not reachable) -/
def removeParts (a : VP D) : VP D :=
  match a.var with
  | none => a
  | some _ => ⟨none, [⟨Itv.top, (mergeParts a.parts).val⟩]⟩

/-! ### `update_partitions()` -/

/-- first loop (from the back): the interval of `x` is recomputed, partitions whose interval is
    empty are erased while more than one partition is left; the flag is the early `return` taken
    when the last remaining partition is bottom.  `before` = number of partitions in front. -/
def refreshGo (x : V) : Nat → List (Part D) → List (Part D) × Bool
  | _, [] => ([], false)
  | before, p :: ps =>
    let r := refreshGo x (before + 1) ps
    let i := D.itvOf p.val x
    if i.isBottom then
      if before + 1 + r.1.length > 1 then (r.1, r.2) else ([⟨Itv.top, p.val⟩], true)
    else (⟨i, p.val⟩ :: r.1, r.2)

/-- `std::sort` by `a.lb < b.lb` -/
def insertPart (p : Part D) : List (Part D) → List (Part D)
  | [] => [p]
  | q :: qs => if Bound.lt q.key.lb p.key.lb then q :: insertPart p qs else p :: q :: qs
def sortParts : List (Part D) → List (Part D)
  | [] => []
  | p :: ps => insertPart p (sortParts ps)

/-- `left_it->join(*it)` while the grown interval reaches the next partition (the inner loop of
    the overlapping case of `operator|=`, and — after repo commit 8f4c9c7 — of the merge loop of
    `update_partitions()`) -/
def absorb (p : Part D) : List (Part D) → Part D × List (Part D)
  | [] => (p, [])
  | q :: qs => if Bound.ge p.key.ub q.key.lb then absorb (Part.join p q) qs else (p, q :: qs)

/-- the merge loop (from the back) after repo commit 8f4c9c7: a partition absorbs its successors
    `while (next_it != end && it->ub >= next_it->lb)` -/
def mergeAdj : List (Part D) → List (Part D)
  | [] => []
  | p :: ps => (absorb p (mergeAdj ps)).1 :: (absorb p (mergeAdj ps)).2

/-- PINNED-TREE behaviour (before 8f4c9c7): `if (it->ub >= next->lb)`: the merged partition is
    NOT compared with its new successor; kept for the counterexample theorems only -/
def mergeAdjOld : List (Part D) → List (Part D)
  | [] => []
  | p :: ps =>
    match mergeAdjOld ps with
    | [] => [p]
    | q :: qs => if Bound.ge p.key.ub q.key.lb then Part.join p q :: qs else p :: q :: qs

def updateParts (a : VP D) : VP D :=
  match a.var with
  | none => a
  | some x =>
    let r := refreshGo x 0 a.parts
    if r.2 then ⟨a.var, r.1⟩ else ⟨a.var, mergeAdj (sortParts r.1)⟩

/-- `update_partitions()` of the pinned tree (fixed by repo commit 8f4c9c7; replay line in
    corpus/h_dom2/vpart_overlap.ops and in the header of Props/C03Functors2.lean) -/
def updatePartsOld (a : VP D) : VP D :=
  match a.var with
  | none => a
  | some x =>
    let r := refreshGo x 0 a.parts
    if r.2 then ⟨a.var, r.1⟩ else ⟨a.var, mergeAdjOld (sortParts r.1)⟩

/-! ### lattice operations -/

/-- `has_same_partitions(other)` -/
def sameKeys : List (Part D) → List (Part D) → Bool
  | [], [] => true
  | p :: ps, q :: qs => Itv.beq p.key q.key && sameKeys ps qs
  | _, _ => false
def hasSame (a b : VP D) : Bool := decide (a.var = b.var) && sameKeys a.parts b.parts

/-- `m_partitions[0].get_dom() = op(m_partitions[0].get_dom(), d)` -/
def onFirst (f : D.B → D.B) : List (Part D) → List (Part D)
  | [] => []
  | p :: ps => Part.app f p :: ps

def firstVal : List (Part D) → D.B
  | [] => D.bot
  | p :: _ => p.val

/-- the element-wise loop of `apply_binary_op` / `operator&=` -/
def zipOp (dop : D.B → D.B → D.B) : List (Part D) → List (Part D) → List (Part D)
  | p :: ps, q :: qs => ⟨p.key, dop p.val q.val⟩ :: zipOp dop ps qs
  | _, _ => []

/-- `apply_binary_op(other, name, intervalOp, domainOp)` (meet, widening, narrowing once the
    bottom/top cases are gone) -/
def applyBin (iop : Itv → Itv → Itv) (dop : D.B → D.B → D.B) (a b : VP D) : VP D :=
  if a.var.isNone && b.var.isNone then
    ⟨a.var, onFirst (fun v => dop v (firstVal b.parts)) a.parts⟩
  else if a.var ≠ b.var then
    let out := removeParts a
    ⟨out.var, onFirst (fun v => dop v (mergeParts b.parts).val) out.parts⟩
  else if hasSame a b then ⟨a.var, zipOp dop a.parts b.parts⟩
  else
    let sa := mergeParts a.parts
    let sb := mergeParts b.parts
    ⟨a.var, [⟨iop sa.key sb.key, dop sa.val sb.val⟩]⟩

/-- `operator&` and `operator&=` (the in-place version takes the same four branches) -/
def meet (a b : VP D) : VP D :=
  if isBottom a || isTop b then a
  else if isTop a || isBottom b then b
  else applyBin Itv.meet D.meet a b

/-- `operator&&` -/
def narrow (a b : VP D) : VP D :=
  if isBottom a || isTop b then a
  else if isTop a || isBottom b then b
  else applyBin Itv.narrow D.narrow a b

/-- `operator||` (`iw` = `Itv.widen`, `w` = `D.widen`), `widening_thresholds` -/
def widenWith (iw : Itv → Itv → Itv) (w : D.B → D.B → D.B) (a b : VP D) : VP D :=
  if isBottom a || isTop b then b
  else if isBottom b || isTop a then a
  else applyBin iw w a b
def widen (a b : VP D) : VP D := widenWith Itv.widen D.widen a b

/-- one right partition `r` of the loop of `operator|=` on the same variable, from the position
    `left_it` on; `k` continues with the next right partition from the new position -/
def joinOne (r : Part D) (k : List (Part D) → List (Part D)) : List (Part D) → List (Part D)
  | [] => r :: k []
  | p :: ps =>
    if Bound.lt p.key.ub r.key.lb then p :: joinOne r k ps
    else if Bound.lt r.key.ub p.key.lb then r :: k (p :: ps)
    else
      let m := absorb (Part.joinKey p r) ps
      k (⟨m.1.key, D.join m.1.val r.val⟩ :: m.2)

/-- the loop of `operator|=` when both operands partition on the same variable (once the left
    vector is exhausted the rest of the right one is appended) -/
def joinSame : (right : List (Part D)) → (left : List (Part D)) → List (Part D)
  | [], l => l
  | r :: rs, l => joinOne r (joinSame rs) l

/-- `operator|=`, `operator|` -/
def join (a b : VP D) : VP D :=
  if isBottom a then b
  else if isBottom b then a
  else if a.var.isNone && b.var.isNone then ⟨a.var, onFirst (fun v => D.join v (firstVal b.parts)) a.parts⟩
  else if a.var ≠ b.var then
    let out := removeParts a
    ⟨out.var, onFirst (fun v => b.parts.foldl (fun acc q => D.join acc q.val) v) out.parts⟩
  else ⟨a.var, joinSame b.parts a.parts⟩

/-- the `for` of the last branch of `operator<=`: the partitions of the right operand after the
    current one that the left interval reaches -/
def leqReach (p : Part D) : List (Part D) → Bool
  | [] => false
  | q :: qs => if Bound.ge p.key.ub q.key.lb then D.leq p.val q.val || leqReach p qs else false

/-- one left partition of the loop of `operator<=` on the same variable -/
def leqOne (p : Part D) (k : List (Part D) → Bool) : List (Part D) → Bool
  | [] => if !D.isBot p.val then false else k []
  | q :: qs =>
    if Bound.lt p.key.ub q.key.lb then (if !D.isBot p.val then false else k (q :: qs))
    else if Bound.lt q.key.ub p.key.lb then leqOne p k qs
    else if Bound.le p.key.ub q.key.ub then (if !D.leq p.val q.val then false else k (q :: qs))
    else if !(D.leq p.val q.val || leqReach p qs) then false else k qs

def leqSame : (left : List (Part D)) → (right : List (Part D)) → Bool
  | [], _ => true
  | p :: ps, r => leqOne p (leqSame ps) r

/-- `operator<=` (after eb25fa6) -/
def leq (a b : VP D) : Bool :=
  if isBottom a then true
  else if isTop b then true
  else if a.var.isNone && b.var.isNone then D.leq (firstVal a.parts) (firstVal b.parts)
  else if a.var ≠ b.var then
    a.parts.all (fun p => D.isBot p.val || b.parts.any (fun q => D.leq p.val q.val))
  else leqSame a.parts b.parts

/-! ### transformers -/

/-- `for (auto &partition : m_partitions) partition.get_dom().op(..)` -/
def mapParts (f : D.B → D.B) (a : VP D) : VP D := ⟨a.var, a.parts.map (Part.app f)⟩

/-- statements that define no variable the partitioning could depend on (`expand`, the other
    intrinsics, `normalize`, `minimize` with `f = id`): `if (!is_bottom()) for ..` -/
def mapOp (f : D.B → D.B) (a : VP D) : VP D := if !isBottom a then mapParts f a else a

/-- `assign`, `weak_assign`, the five `apply`: per partition, then `update_partitions()` when the
    defined variable `x` is the partitioning variable -/
def assignOp (x : V) (f : D.B → D.B) (a : VP D) : VP D :=
  if !isBottom a then
    let a1 := mapParts f a
    if a.var = some x then updateParts a1 else a1
  else a

/-- `add_constraints(csts)`: `f` = `+= csts` of the base, `cx v` = `contains(csts, v)` -/
def addCsts (f : D.B → D.B) (cx : V → Bool) (a : VP D) : VP D :=
  let vec := (a.parts.map (Part.app f)).filter (fun p => !D.isBot p.val)
  if vec.isEmpty then setBottom a
  else
    match a.var with
    | some x => if cx x then updateParts ⟨a.var, vec⟩ else ⟨a.var, vec⟩
    | none => ⟨a.var, vec⟩

/-- a disequality `e != 0` that mentions the partitioning variable: `+= (e < 0)`, `+= (-e < 0)` -/
structure Diseq (D : VDom V S) where
  lt : D.B → D.B
  gt : D.B → D.B

/-- a `linear_constraint_system_t` as `operator+=` looks at it -/
structure Csts (D : VDom V S) where
  isTrue : Bool
  isFalse : Bool
  /-- `+= csts` of the base -/
  full : D.B → D.B
  /-- `+= non_diseqs` after `split_relevant_disequalities(csts, v, ..)` -/
  nd : V → D.B → D.B
  /-- `contains(non_diseqs, v)` -/
  ndHas : V → Bool
  /-- `diseqs` -/
  dq : V → List (Diseq D)

/-- the body of the loop over `diseqs` -/
def splitDiseq (acc : VP D) (d : Diseq D) : VP D :=
  join (addCsts d.lt (fun _ => true) acc) (addCsts d.gt (fun _ => true) acc)

/-- `operator+=(csts)` -/
def addOp (c : Csts D) (a : VP D) : VP D :=
  if isBottom a || c.isTrue then a
  else if c.isFalse then setBottom a
  else
    match a.var with
    | some x => (c.dq x).foldl splitDiseq (addCsts (c.nd x) c.ndHas a)
    | none => addCsts c.full (fun _ => false) a

/-- `operator-=(v)` (`hit u = (u == v)`), `forget(vars)` (`hit u = u ∈ vars`), `project(vars)`
    (`hit u = u ∉ vars`): the partitioning is given up when it is hit -/
def dropOp (hit : V → Bool) (f : D.B → D.B) (a : VP D) : VP D :=
  if !isBottom a then
    match a.var with
    | some x => if hit x then mapParts f (removeParts a) else mapParts f a
    | none => mapParts f a
  else a

/-- `rename(from, to)`: `ren` = the first `to[i]` with `from[i] == m_variable`, else identity -/
def renameOp (ren : V → V) (f : D.B → D.B) (a : VP D) : VP D :=
  if !isBottom a then mapParts f ⟨a.var.map ren, a.parts⟩ else a

/-- `intrinsic("value_partition_start", {x}, {})` -/
def vpStart (x : V) (a : VP D) : VP D :=
  if isBottom a then a
  else match a.var with
    | some _ => a
    | none => updateParts ⟨some x, a.parts⟩

/-- `intrinsic("value_partition_end", {x}, {})` -/
def vpEnd (x : V) (a : VP D) : VP D :=
  if isBottom a then a
  else if a.var = some x then removeParts a else a

/-- `select(lhs, cond, e1, e2)` (DEFAULT_SELECT): `cnd` = `+= cond`, `cneg` = `+= cond.negate()`,
    `f1`/`f2` = `assign(lhs, e1)`/`assign(lhs, e2)` of the base -/
def selectOp (x : V) (cnd cneg : Csts D) (f1 f2 : D.B → D.B) (a : VP D) : VP D :=
  if !isBottom a then
    let inv1 := addOp cnd a
    if isBottom inv1 then assignOp x f2 a
    else
      let inv2 := addOp cneg a
      if isBottom inv2 then assignOp x f1 a
      else join (assignOp x f1 inv1) (assignOp x f2 inv2)
  else a

/-! ### queries -/

/-- `at(v)`, `operator[](v)`, `to_linear_constraint_system()`: the query `q` of the base on the
    join of all partitions -/
def smashQuery {R : Type} (q : D.B → R) (a : VP D) : R := q (mergeParts a.parts).val

/-- `entails(cst)`: `e` = `entails(cst)` of the base -/
def entails (e : D.B → Bool) (a : VP D) : Bool := if !isBottom a then a.parts.all (fun p => e p.val) else true

/-- `to_disjunctive_linear_constraint_system()`: `none` = the system "false" (bottom), `some []`
    is returned for top ("true"), otherwise one base export per partition -/
def toDisj {R : Type} (q : D.B → R) (a : VP D) : Option (List R) :=
  if isBottom a then none
  else if isTop a then some []
  else some (a.parts.map (fun p => q p.val))

/-! ### histories -/

inductive Op (D : VDom V S) where
  | map (d : Nat) (f : D.B → D.B) (r : S → S → Prop)
  | assign (d : Nat) (x : V) (f : D.B → D.B) (r : S → S → Prop)
  | add (d : Nat) (c : Csts D) (P : S → Prop)
  | drop (d : Nat) (hit : V → Bool) (f : D.B → D.B) (r : S → S → Prop)
  | rename (d : Nat) (ren : V → V) (f : D.B → D.B) (r : S → S → Prop)
  | select (d : Nat) (x : V) (cnd cneg : Csts D) (f1 f2 : D.B → D.B) (P : S → Prop) (r1 r2 : S → S → Prop)
  | vpStart (d : Nat) (x : V)
  | vpEnd (d : Nat) (x : V)
  | join (d a b : Nat)
  | meet (d a b : Nat)
  | widen (d a b : Nat) (iw : Itv → Itv → Itv) (w : D.B → D.B → D.B)
  | narrow (d a b : Nat)
  | copy (d s : Nat)
  | setTop (d : Nat)
  | setBottom (d : Nat)

/-- the base `+= csts` (whole system, non-disequalities, both sides of every relevant
    disequality) abstracts the filter `P` -/
def Csts.Sound (c : Csts D) (P : S → Prop) : Prop :=
  (c.isFalse = true → ∀ s, ¬ P s) ∧
  (∀ b s, D.γ b s → P s → D.γ (c.full b) s) ∧
  (∀ x b s, D.γ b s → P s → D.γ (c.nd x b) s) ∧
  (∀ x, ∀ d ∈ c.dq x, ∀ b s, D.γ b s → P s → D.γ (d.lt b) s ∨ D.γ (d.gt b) s)

/-- obligations on the base -/
def Op.BaseSound : Op D → Prop
  | .map _ f r => D.TSound f r
  | .assign _ _ f r => D.TSound f r
  | .add _ c P => c.Sound P
  | .drop _ _ f r => D.TSound f r
  | .rename _ _ f r => D.TSound f r
  | .select _ _ cnd cneg f1 f2 P r1 r2 =>
      cnd.Sound P ∧ cneg.Sound (fun s => ¬ P s) ∧ D.TSound f1 r1 ∧ D.TSound f2 r2
  | .widen _ _ _ _ w => D.USound w
  | _ => True

def Op.toStep : Op D → Step (VP D) S
  | .map d f r => .trans d ⟨mapOp f, r⟩
  | .assign d x f r => .trans d ⟨assignOp x f, r⟩
  | .add d c P => .trans d ⟨addOp c, fun s s' => s' = s ∧ P s⟩
  | .drop d hit f r => .trans d ⟨dropOp hit f, r⟩
  | .rename d ren f r => .trans d ⟨renameOp ren f, r⟩
  | .select d x cnd cneg f1 f2 P r1 r2 =>
      .trans d ⟨selectOp x cnd cneg f1 f2, fun s s' => (P s ∧ r1 s s') ∨ (¬ P s ∧ r2 s s')⟩
  | .vpStart d x => .trans d ⟨VP.vpStart x, fun s s' => s' = s⟩
  | .vpEnd d x => .trans d ⟨VP.vpEnd x, fun s s' => s' = s⟩
  | .join d a b => .upper d a b VP.join
  | .meet d a b => .lower d a b VP.meet
  | .widen d a b iw w => .upper d a b (widenWith iw w)
  | .narrow d a b => .lower d a b VP.narrow
  | .copy d s => .copy d s
  | .setTop d => .trans d ⟨VP.setTop, fun _ _ => True⟩
  | .setBottom d => .trans d ⟨VP.setBottom, fun _ _ => False⟩

def toHist (ops : List (Op D)) : List (Step (VP D) S) := ops.map Op.toStep

/-- the element-wise branch of `apply_binary_op` is taken on more than one partition: the only
    place where `&` and `&&` rely on the (unkept) promise that intervals do not overlap -/
def eltwise (a b : VP D) : Bool :=
  !(isBottom a || isTop b) && !(isTop a || isBottom b) && !(a.var.isNone && b.var.isNone) &&
    decide (a.var = b.var) && hasSame a b && decide (1 < a.parts.length)

/-- no `&`, `&&` of the history takes that branch (computed along the run) -/
def histOk : Pool (VP D) → List (Op D) → Bool
  | _, [] => true
  | p, op :: ops =>
    (match op with
     | .meet _ a b => !eltwise (p a) (p b)
     | .narrow _ a b => !eltwise (p a) (p b)
     | _ => true) && histOk (op.toStep.run p) ops

end VP
end Fct
end Dom
end Crab
