import CrabModel.Dom.Functors.Product

/-
  Containers used by `flat_boolean_numerical_domain<Dom>` (include/crab/domains/flat_boolean_domain.hpp)
  and the flat Boolean domain itself, at the level of finite maps:

   * `AL`     : association lists read through `AL.get` (first match); stands for the patricia trees
                of `ikos::separate_domain` (a key that is absent has the value top);
   * `BVal`   : `crab::domains::boolean_value` (lib/boolean.cpp): bottom / false / true / top;
   * `FEnv`   : `separate_domain<variable_t, boolean_value>` = `flat_boolean_domain::m_env`;
   * `DSet`   : `dual_set_domain<Set>` (discrete_domains.hpp): the set of ALL elements (= bottom of the
                dual order) or a finite set (the empty set = top); join = intersection, meet = union;
   * `SEnv`   : `separate_domain<variable_t, dual_set_domain<..>>` (`m_bool_to_lincsts`,
                `m_bool_to_bools`): bottom, or a finite map whose absent keys hold the empty set;
   * `FB V`   : `flat_boolean_domain<number_t, varname_t>` packaged as an `LDom` over the concrete
                states `CSt V` (an integer valuation and a Boolean valuation).

  Abstractions: trees are lists, iteration follows the list order (the code iterates in key /
  `lexicographical_compare` order; only the order of the `+=` calls on the base depends on it).
-/
namespace Crab
namespace Dom
namespace Fct

/-- concrete states: the value of every numerical variable and of every Boolean variable -/
structure CSt (V : Type) where
  num : V → Int
  bool : V → Bool

namespace CSt
variable {V : Type} [DecidableEq V]
def setB (s : CSt V) (x : V) (b : Bool) : CSt V := ⟨s.num, fun v => if v = x then b else s.bool v⟩
def setN (s : CSt V) (x : V) (k : Int) : CSt V := ⟨fun v => if v = x then k else s.num v, s.bool⟩
end CSt

/-! ### association lists -/
namespace AL
variable {V α : Type} [DecidableEq V]

def get : List (V × α) → V → Option α
  | [], _ => none
  | (k, v) :: r, x => if k = x then some v else get r x

def keys (m : List (V × α)) : List V := m.map Prod.fst

def del : List (V × α) → V → List (V × α)
  | [], _ => []
  | (k, v) :: r, x => if k = x then del r x else (k, v) :: del r x

def put (m : List (V × α)) (x : V) (v : α) : List (V × α) := (x, v) :: del m x

/-- the finite map `k ↦ g k` for `k` in `ks` (entries with `g k = none` are not stored) -/
def build (g : V → Option α) : List V → List (V × α)
  | [] => []
  | k :: ks =>
    match g k with
    | some v => (k, v) :: build g ks
    | none => build g ks

theorem get_none_of_not_mem_keys (m : List (V × α)) (k : V) (h : k ∉ keys m) : get m k = none := by
  induction m with
  | nil => rfl
  | cons p r ih =>
    obtain ⟨k0, v0⟩ := p
    simp only [keys, List.map_cons, List.mem_cons, not_or] at h
    have hne : ¬ k0 = k := fun e => h.1 e.symm
    simp only [get, hne, if_false]
    exact ih (by simpa [keys] using h.2)

theorem mem_keys_of_get {m : List (V × α)} {k : V} {v : α} (h : get m k = some v) : k ∈ keys m := by
  by_cases hk : k ∈ keys m
  · exact hk
  · rw [get_none_of_not_mem_keys m k hk] at h; cases h

theorem get_del (m : List (V × α)) (x k : V) : get (del m x) k = if k = x then none else get m k := by
  induction m with
  | nil => simp [del, get]
  | cons p r ih =>
    obtain ⟨k0, v0⟩ := p
    by_cases h0 : k0 = x
    · simp only [del, h0, if_true, get]
      rw [ih]
      by_cases hk : k = x
      · simp [hk]
      · have : ¬ x = k := fun e => hk e.symm
        simp [hk, this]
    · simp only [del, h0, if_false, get]
      by_cases hk0 : k0 = k
      · have : ¬ k = x := fun e => h0 (hk0.trans e)
        simp [hk0, this]
      · simp only [hk0, if_false]; exact ih

theorem get_put (m : List (V × α)) (x k : V) (v : α) :
    get (put m x v) k = if k = x then some v else get m k := by
  unfold put
  simp only [get]
  by_cases hk : k = x
  · simp [hk]
  · have : ¬ x = k := fun e => hk e.symm
    simp only [this, if_false, hk]
    rw [get_del]; simp [hk]

theorem get_build (g : V → Option α) (ks : List V) (k : V) :
    get (build g ks) k = if k ∈ ks then g k else none := by
  induction ks with
  | nil => simp [build, get]
  | cons k0 r ih =>
    unfold build
    cases hg : g k0 with
    | none =>
      simp only [ih, List.mem_cons]
      by_cases hk : k = k0
      · subst hk; simp [hg]
      · simp [hk]
    | some v =>
      simp only [get, ih, List.mem_cons]
      by_cases hk : k0 = k
      · subst hk; simp [hg]
      · have : ¬ k = k0 := fun e => hk e.symm
        simp [hk, this]

/-- when `g` is undefined outside `ks`, `build g ks` is `g` -/
theorem get_build_of (g : V → Option α) (ks : List V) (k : V) (h : g k ≠ none → k ∈ ks) :
    get (build g ks) k = g k := by
  rw [get_build]
  by_cases hk : k ∈ ks
  · simp [hk]
  · simp only [hk, if_false]
    cases hg : g k with
    | none => rfl
    | some v => exact absurd (h (by simp [hg])) hk

omit [DecidableEq V] in
theorem build_eq_nil_iff (g : V → Option α) (ks : List V) : build g ks = [] ↔ ∀ k ∈ ks, g k = none := by
  induction ks with
  | nil => simp [build]
  | cons k0 r ih =>
    unfold build
    cases hg : g k0 with
    | none => simp [ih, hg]
    | some v => simp [hg]

/-- `separate_domain::rename` for one pair: `if (k == new_k) continue; if (lookup(k)) { insert(new_k, v);
    remove(k); }` -/
def rename1 (m : List (V × α)) (k k' : V) : List (V × α) :=
  if k = k' then m
  else match get m k with
    | some v => del (put m k' v) k
    | none => m

def rename (m : List (V × α)) : List V → List V → List (V × α)
  | k :: ks, k' :: ks' => rename (rename1 m k k') ks ks'
  | _, _ => m

end AL

/-! ### `boolean_value` -/
inductive BVal where
  | bot | ff | tt | top
  deriving DecidableEq, Repr

namespace BVal
def ofBool : Bool → BVal
  | true => tt
  | false => ff

/-- the definite value, if any (what `separate_domain` stores: neither top nor bottom) -/
def toOpt : BVal → Option Bool
  | tt => some true
  | ff => some false
  | _ => none

def γ : BVal → Bool → Prop
  | bot, _ => False
  | ff, b => b = false
  | tt, b => b = true
  | top, _ => True

/-- `operator|` (= `operator||`) -/
def join : BVal → BVal → BVal
  | bot, y => y
  | x, bot => x
  | top, _ => top
  | _, top => top
  | x, y => if x = y then x else top

/-- `operator&` (= `operator&&`) -/
def meet : BVal → BVal → BVal
  | bot, _ => bot
  | _, bot => bot
  | top, y => y
  | x, top => x
  | x, y => if x = y then x else bot

def and : BVal → BVal → BVal
  | bot, _ => bot
  | _, bot => bot
  | ff, _ => ff
  | _, ff => ff
  | tt, tt => tt
  | _, _ => top

def or : BVal → BVal → BVal
  | bot, _ => bot
  | _, bot => bot
  | tt, _ => tt
  | _, tt => tt
  | ff, ff => ff
  | _, _ => top

def xor : BVal → BVal → BVal
  | bot, _ => bot
  | _, bot => bot
  | top, _ => top
  | _, top => top
  | x, y => if x = y then ff else tt

def neg : BVal → BVal
  | bot => bot
  | tt => ff
  | ff => tt
  | top => top
end BVal

/-- the three Boolean operators of `bool_operation_t` -/
inductive BBin where
  | band | bor | bxor
  deriving DecidableEq, Repr

def BBin.eval : BBin → Bool → Bool → Bool
  | .band, a, b => a && b
  | .bor, a, b => a || b
  | .bxor, a, b => Bool.xor a b

def BBin.abs : BBin → BVal → BVal → BVal
  | .band => BVal.and
  | .bor => BVal.or
  | .bxor => BVal.xor

/-! ### `separate_domain<variable_t, boolean_value>` and `flat_boolean_domain` -/

/-- `flat_boolean_domain::m_env`: bottom, or the variables with a definite value (top is never
    stored) -/
inductive FEnv (V : Type) where
  | bot
  | env (m : List (V × Bool))
  deriving DecidableEq, Repr

namespace FEnv
variable {V : Type} [DecidableEq V]

/-- `get_bool(x)` = `m_env.at(x)` -/
def get : FEnv V → V → BVal
  | bot, _ => .bot
  | env m, x =>
    match AL.get m x with
    | some b => BVal.ofBool b
    | none => .top

/-- `set_bool(x, v)` = `m_env.set(x, v)` -/
def set : FEnv V → V → BVal → FEnv V
  | bot, _, _ => bot
  | env m, x, v =>
    match v with
    | .bot => bot
    | .top => env (AL.del m x)
    | .tt => env (AL.put m x true)
    | .ff => env (AL.put m x false)

/-- `operator-=(v)`, also `assign_bool_cst` / `assign_bool_ref_cst` (`m_env -= x`) -/
def forget1 : FEnv V → V → FEnv V
  | bot, _ => bot
  | env m, x => env (AL.del m x)

def isBot : FEnv V → Bool
  | bot => true
  | env _ => false

def isTop : FEnv V → Bool
  | bot => false
  | env m => m.isEmpty

def γ : FEnv V → CSt V → Prop
  | bot, _ => False
  | env m, s => ∀ x b, AL.get m x = some b → s.bool x = b

/-- `operator<=` -/
def leq : FEnv V → FEnv V → Bool
  | bot, _ => true
  | env _, bot => false
  | env a, env b =>
    (AL.keys b).all (fun k =>
      match AL.get b k with
      | some v => AL.get a k == some v
      | none => true)

def joinG (a b : List (V × Bool)) (k : V) : Option Bool :=
  match AL.get a k, AL.get b k with
  | some v, some w => if v = w then some v else none
  | _, _ => none

/-- `operator|`, `operator||`, `widening_thresholds` -/
def join : FEnv V → FEnv V → FEnv V
  | bot, e => e
  | env a, bot => env a
  | env a, env b => env (AL.build (joinG a b) (AL.keys a))

def conflict (a b : List (V × Bool)) (k : V) : Bool :=
  match AL.get a k, AL.get b k with
  | some v, some w => v != w
  | _, _ => false

def meetG (a b : List (V × Bool)) (k : V) : Option Bool :=
  match AL.get a k with
  | some v => some v
  | none => AL.get b k

/-- `operator&`, `operator&&` -/
def meet : FEnv V → FEnv V → FEnv V
  | bot, _ => bot
  | env _, bot => bot
  | env a, env b =>
    if (AL.keys a).any (conflict a b) then bot
    else env (AL.build (meetG a b) (AL.keys a ++ AL.keys b))

/-- `assign_bool_var(x, y, is_not_y)` -/
def assignBoolVar (e : FEnv V) (x y : V) (neg : Bool) : FEnv V :=
  e.set x (if neg then (e.get y).neg else e.get y)

/-- `apply_binary_bool(op, x, y, z)` -/
def applyBinaryBool (op : BBin) (e : FEnv V) (x y z : V) : FEnv V :=
  e.set x (op.abs (e.get y) (e.get z))

/-- `assume_bool(x, is_negated)` -/
def assumeBool (e : FEnv V) (x : V) (neg : Bool) : FEnv V :=
  e.set x ((e.get x).meet (if neg then .ff else .tt))

/-- `select_bool(lhs, cond, b1, b2)` -/
def selectBool (e : FEnv V) (lhs cond b1 b2 : V) : FEnv V :=
  if !e.isBot then
    if b1 = b2 then e.assignBoolVar lhs b1 false
    else if (e.assumeBool cond false).isBot then e.set lhs (e.get b2)
    else if (e.assumeBool cond true).isBot then e.set lhs (e.get b1)
    else e.set lhs ((e.get b1).join (e.get b2))
  else e

/-- `forget(variables)` -/
def forget (e : FEnv V) (vs : List V) : FEnv V :=
  if e.isBot || e.isTop then e else vs.foldl forget1 e

/-- `project(variables)` -/
def project (e : FEnv V) (vs : List V) : FEnv V :=
  if e.isBot || e.isTop then e else vs.foldl (fun res v => res.set v (e.get v)) (env [])

/-- `expand(x, new_x)` -/
def expand (e : FEnv V) (x nx : V) : FEnv V :=
  if e.isBot || e.isTop then e else e.set nx (e.get x)

/-- `rename(from, to)` = `m_env.rename(from, to)` -/
def rename : FEnv V → List V → List V → FEnv V
  | bot, _, _ => bot
  | env m, fr, to => env (AL.rename m fr to)

theorem leq_sound (a b : FEnv V) (s : CSt V) (h : leq a b = true) (hg : γ a s) : γ b s := by
  cases a with
  | bot => exact hg.elim
  | env ma =>
    cases b with
    | bot => simp [leq] at h
    | env mb =>
      intro x v hx
      simp only [leq, List.all_eq_true] at h
      have := h x (AL.mem_keys_of_get hx)
      rw [hx] at this
      exact hg x v (by simpa using this)

theorem join_l (a b : FEnv V) (s : CSt V) (hg : γ a s) : γ (join a b) s := by
  cases a with
  | bot => exact hg.elim
  | env ma =>
    cases b with
    | bot => exact hg
    | env mb =>
      intro x v hx
      simp only [AL.get_build] at hx
      split at hx
      · unfold joinG at hx
        split at hx
        · rename_i v1 w1 h1 h2
          split at hx
          · cases hx; exact hg x _ h1
          · cases hx
        · cases hx
      · cases hx

theorem join_r (a b : FEnv V) (s : CSt V) (hg : γ b s) : γ (join a b) s := by
  cases a with
  | bot => exact hg
  | env ma =>
    cases b with
    | bot => exact hg.elim
    | env mb =>
      intro x v hx
      simp only [AL.get_build] at hx
      split at hx
      · unfold joinG at hx
        split at hx
        · rename_i v1 w1 h1 h2
          split at hx
          · rename_i e; cases hx; rw [e]; exact hg x _ h2
          · cases hx
        · cases hx
      · cases hx

theorem meet_sound (a b : FEnv V) (s : CSt V) (ha : γ a s) (hb : γ b s) : γ (meet a b) s := by
  cases a with
  | bot => exact ha.elim
  | env ma =>
    cases b with
    | bot => exact hb.elim
    | env mb =>
      simp only [meet]
      split
      · rename_i hc
        simp only [List.any_eq_true] at hc
        obtain ⟨k, _, hk⟩ := hc
        unfold conflict at hk
        split at hk
        · rename_i v w h1 h2
          have e1 := ha k v h1
          have e2 := hb k w h2
          rw [e1] at e2; subst e2; simp at hk
        · cases hk
      · intro x v hx
        simp only [AL.get_build] at hx
        split at hx
        · unfold meetG at hx
          split at hx
          · rename_i v1 h1; cases hx; exact ha x _ h1
          · exact hb x v hx
        · cases hx
end FEnv

/-- `flat_boolean_domain<number_t, varname_t>` as a lawful domain over `CSt V` -/
def FB (V : Type) [DecidableEq V] : LDom (CSt V) where
  B := FEnv V
  γ := FEnv.γ
  top := .env []
  bot := .bot
  isBot := FEnv.isBot
  isTop := FEnv.isTop
  leq := FEnv.leq
  join := FEnv.join
  meet := FEnv.meet
  widen := FEnv.join
  narrow := FEnv.meet
  top_sound := fun s x b h => by simp [AL.get] at h
  bot_sound := fun _ h => h
  isBot_sound := fun b s h hg => by cases b <;> simp_all [FEnv.isBot, FEnv.γ]
  leq_sound := FEnv.leq_sound
  join_l := FEnv.join_l
  join_r := FEnv.join_r
  widen_l := FEnv.join_l
  widen_r := FEnv.join_r
  meet_sound := FEnv.meet_sound
  narrow_sound := FEnv.meet_sound

/-! ### `dual_set_domain` and `separate_domain<variable_t, dual_set_domain<..>>` -/

/-- `dual_set_domain<Set>`: `all` = `m_set.is_top()` (bottom of the dual order), `fin []` = top -/
inductive DSet (α : Type) where
  | all
  | fin (l : List α)
  deriving DecidableEq, Repr

namespace DSet
variable {α : Type} [DecidableEq α]

/-- `at(e)` : `*this <= dual_set_domain(e)` -/
def mem (a : α) : DSet α → Bool
  | all => true
  | fin l => l.contains a

def isTop : DSet α → Bool
  | all => false
  | fin l => l.isEmpty

def isBot : DSet α → Bool
  | all => true
  | fin _ => false

/-- `operator|`, `operator||`: `m_set & other.m_set` -/
def join : DSet α → DSet α → DSet α
  | all, x => x
  | fin a, all => fin a
  | fin a, fin b => fin (a.filter (fun x => b.contains x))

/-- `operator&`, `operator&&`: `m_set | other.m_set` -/
def meet : DSet α → DSet α → DSet α
  | all, _ => all
  | fin _, all => all
  | fin a, fin b => fin (a ++ b.filter (fun x => !a.contains x))

/-- `operator<=`: `other.is_top() || is_bottom() || other.m_set <= m_set` -/
def leq : DSet α → DSet α → Bool
  | all, _ => true
  | fin _, all => false
  | fin a, fin b => b.all (fun x => a.contains x)

/-- `operator-=` -/
def remove : DSet α → α → DSet α
  | all, _ => all
  | fin l, a => fin (l.filter (fun x => x ≠ a))

/-- `operator+=` -/
def insert : DSet α → α → DSet α
  | all, _ => all
  | fin l, a => fin (if l.contains a then l else a :: l)

/-- `size()` (CRAB_ERROR on `all`: not reached, every caller holds a finite set; 0 in the model) -/
def size : DSet α → Nat
  | all => 0
  | fin l => l.length

/-- the elements in iteration order (nothing for `all`: `begin()` is not reached on it) -/
def elems : DSet α → List α
  | all => []
  | fin l => l
end DSet

/-- `m_bool_to_lincsts`, `m_bool_to_bools`: bottom, or the keys with a non-empty set -/
inductive SEnv (V α : Type) where
  | bot
  | env (m : List (V × List α))
  deriving DecidableEq, Repr

namespace SEnv
variable {V α : Type} [DecidableEq V] [DecidableEq α]

/-- `at(k)`: bottom value on a bottom environment, top (the empty set) for an absent key -/
def look : SEnv V α → V → DSet α
  | bot, _ => .all
  | env m, k => .fin ((AL.get m k).getD [])

/-- `set(k, v)`: a bottom value makes the environment bottom, a top value removes the key -/
def set : SEnv V α → V → DSet α → SEnv V α
  | bot, _, _ => bot
  | env _, _, .all => bot
  | env m, k, .fin l => if l.isEmpty then env (AL.del m k) else env (AL.put m k l)

/-- `operator-=(k)` -/
def del : SEnv V α → V → SEnv V α
  | bot, _ => bot
  | env m, k => env (AL.del m k)

def isBot : SEnv V α → Bool
  | bot => true
  | env _ => false

def isTop : SEnv V α → Bool
  | bot => false
  | env m => m.isEmpty

def top : SEnv V α := env []

/-- a value that is stored: not top -/
def nz (l : List α) : Option (List α) := if l.isEmpty then none else some l

def transG (pred : List α → Bool) (f : List α → List α) (m : List (V × List α)) (k : V) : Option (List α) :=
  match AL.get m k with
  | some l => nz (if pred l then f l else l)
  | none => none

/-- `transform_if(env, pred, transform)`: every stored value that satisfies `pred` is replaced by
    its transform (`env -= v; env.set(v, value)`) -/
def transformIf (pred : List α → Bool) (f : List α → List α) : SEnv V α → SEnv V α
  | bot => bot
  | env m => env (AL.build (transG pred f m) (AL.keys m))

def joinG (a b : List (V × List α)) (k : V) : Option (List α) :=
  match AL.get a k, AL.get b k with
  | some v, some w => nz (v.filter (fun x => w.contains x))
  | _, _ => none

/-- `operator|`, `operator||`: pointwise join (intersection), a top result is not stored -/
def join : SEnv V α → SEnv V α → SEnv V α
  | bot, e => e
  | env a, bot => env a
  | env a, env b => env (AL.build (joinG a b) (AL.keys a))

def meetG (a b : List (V × List α)) (k : V) : Option (List α) :=
  let v := (AL.get a k).getD []
  let w := (AL.get b k).getD []
  nz (v ++ w.filter (fun x => !v.contains x))

/-- `operator&`, `operator&&`: pointwise meet (union); a finite union is never bottom -/
def meet : SEnv V α → SEnv V α → SEnv V α
  | bot, _ => bot
  | env _, bot => bot
  | env a, env b => env (AL.build (meetG a b) (AL.keys a ++ AL.keys b))

/-- `operator<=`: pointwise, only the keys of the right operand matter (the others hold top) -/
def leq : SEnv V α → SEnv V α → Bool
  | bot, _ => true
  | env _, bot => false
  | env a, env b =>
    (AL.keys b).all (fun k =>
      ((AL.get b k).getD []).all (fun x => ((AL.get a k).getD []).contains x))

/-- `rename(from, to)` of the keys -/
def rename : SEnv V α → List V → List V → SEnv V α
  | bot, _, _ => bot
  | env m, fr, to => env (AL.rename m fr to)
end SEnv

end Fct
end Dom
end Crab
