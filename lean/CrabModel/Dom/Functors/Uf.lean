import CrabModel.Dom.Functors.Packing

/-
  Model of `uf_domain<Number, VariableName>` (include/crab/domains/uf_domain.hpp after repo commits
  dfa080f, 7d37137) with the parts of `term_table` / `congruence_closure_solver`
  (include/crab/domains/term/term_expr.hpp) it uses.

  Level of the model: TERMS AS TREES.  The term table is hash-consed (`add_term` looks the term up
  in `m_map` first), so two live term ids are equal iff the terms are structurally equal; the
  model replaces ids by the terms themselves and drops reference counts, the free list, parents
  and depths.  A value is bottom (`m_is_bottom`) or `m_var_map` (an association list, `find` =
  first match, `rebind_var` = erase + insert) with `m_free_var`, the next unused term variable.

  Abstractions: iteration over `flat_map`s / `flat_set`s (sorted by variable index / term id) is
  list order: this only changes the NUMBERS of fresh term variables and the order in which
  `choose_non_var` sees the members of a class; `choose_non_var` (smallest TERM_APP member in the
  id-dependent term order) is a parameter `choose` that must return a member of its argument.
  The recursion of `build_dag_term` (bounded by the number of classes on the stack) runs on fuel;
  running out of fuel yields a fresh variable.  `rename` raises CRAB_ERROR when a target variable
  is already tracked: `Option`.

  Concrete meaning: the symbols are interpreted by a FIXED but arbitrary `I : F → List Int → Int`
  (the arithmetic/bitwise/Boolean operators of crab and the user's symbols alike; every theorem
  holds for every `I`), term variables by a valuation `ρ`; a state is in `γ` when SOME `ρ` gives
  every tracked variable the value of its term.
-/
namespace Crab
namespace Dom
namespace Fct
namespace Uf

/-- `term<Num, Ftor>`: TERM_VAR, TERM_CONST, TERM_APP -/
inductive Term (F : Type) where
  | var (n : Nat)
  | const (k : Int)
  | app (f : F) (args : List (Term F))
  deriving Repr

variable {V F : Type} [DecidableEq V] [DecidableEq F]

namespace Term
mutual
def beq : Term F → Term F → Bool
  | .var a, .var b => a == b
  | .const a, .const b => a == b
  | .app f xs, .app g ys => decide (f = g) && beqL xs ys
  | _, _ => false
def beqL : List (Term F) → List (Term F) → Bool
  | [], [] => true
  | x :: xs, y :: ys => beq x y && beqL xs ys
  | _, _ => false
end

mutual
theorem beq_iff : (a b : Term F) → (beq a b = true ↔ a = b)
  | .var a, .var b => by simp [beq]
  | .const a, .const b => by simp [beq]
  | .app f xs, .app g ys => by simp [beq, beqL_iff xs ys]
  | .var _, .const _ => by simp [beq]
  | .var _, .app _ _ => by simp [beq]
  | .const _, .var _ => by simp [beq]
  | .const _, .app _ _ => by simp [beq]
  | .app _ _, .var _ => by simp [beq]
  | .app _ _, .const _ => by simp [beq]
theorem beqL_iff : (a b : List (Term F)) → (beqL a b = true ↔ a = b)
  | [], [] => by simp [beqL]
  | x :: xs, y :: ys => by simp [beqL, beq_iff x y, beqL_iff xs ys]
  | [], _ :: _ => by simp [beqL]
  | _ :: _, [] => by simp [beqL]
end

instance : DecidableEq (Term F) := fun a b => decidable_of_iff _ (beq_iff a b)

mutual
/-- the value of a term: symbols by `I`, term variables by `ρ` -/
def eval (I : F → List Int → Int) (ρ : Nat → Int) : Term F → Int
  | .var n => ρ n
  | .const k => k
  | .app f args => I f (evalL I ρ args)
def evalL (I : F → List Int → Int) (ρ : Nat → Int) : List (Term F) → List Int
  | [] => []
  | t :: ts => eval I ρ t :: evalL I ρ ts
end

mutual
/-- every term variable of the term is below `n` (`m_free_var`) -/
def bounded (n : Nat) : Term F → Bool
  | .var m => decide (m < n)
  | .const _ => true
  | .app _ args => boundedL n args
def boundedL (n : Nat) : List (Term F) → Bool
  | [] => true
  | t :: ts => bounded n t && boundedL n ts
end

mutual
def size : Term F → Nat
  | .var _ => 1
  | .const _ => 1
  | .app _ args => 1 + sizeL args
def sizeL : List (Term F) → Nat
  | [] => 0
  | t :: ts => size t + sizeL ts
end

def isApp : Term F → Bool
  | .app _ _ => true
  | _ => false
end Term

/-- first match in an association list -/
def look {K A : Type} [DecidableEq K] : List (K × A) → K → Option A
  | [], _ => none
  | (k', v) :: r, k => if k' = k then some v else look r k

/-- `m_ttbl.m_free_var`, `m_var_map` -/
structure UVal (V F : Type) where
  next : Nat
  map : List (V × Term F)

/-- `m_is_bottom` or the maps -/
inductive UF (V F : Type) where
  | bot
  | val (u : UVal V F)

namespace UVal

def erase (m : List (V × Term F)) (x : V) : List (V × Term F) := m.filter (fun p => decide (p.1 ≠ x))

/-- `term_of_var(v)`: the term of `v`, a fresh term variable (recorded for `v`) if it has none -/
def termOfVar (u : UVal V F) (v : V) : Term F × UVal V F :=
  match look u.map v with
  | some t => (t, u)
  | none => (.var u.next, ⟨u.next + 1, (v, .var u.next) :: u.map⟩)

/-- `rebind_var(x, tx)` -/
def bind (u : UVal V F) (x : V) (t : Term F) : UVal V F := ⟨u.next, (x, t) :: erase u.map x⟩

end UVal

/-- right-hand sides: what `build_linexpr` / `build_term` are applied to -/
inductive Exp (V F : Type) where
  | var (v : V)
  | const (k : Int)
  | app (f : F) (args : List (Exp V F))

namespace Exp
mutual
def eval (I : F → List Int → Int) (s : St V) : Exp V F → Int
  | .var v => s v
  | .const k => k
  | .app f args => I f (evalL I s args)
def evalL (I : F → List Int → Int) (s : St V) : List (Exp V F) → List Int
  | [] => []
  | e :: es => eval I s e :: evalL I s es
end

mutual
/-- `term_of_var`, `term_of_const`, `build_term` (`find_ftor` or `apply_ftor`: the same tree) -/
def build : Exp V F → UVal V F → Term F × UVal V F
  | .var v, u => u.termOfVar v
  | .const k, u => (.const k, u)
  | .app f args, u => let r := buildL args u; (.app f r.1, r.2)
def buildL : List (Exp V F) → UVal V F → List (Term F) × UVal V F
  | [], u => ([], u)
  | e :: es, u => let r := build e u; let rs := buildL es r.2; (r.1 :: rs.1, rs.2)
end

/-- `term_of_linterm` -/
def linTerm (mul : F) (p : Int × V) : Exp V F := if p.1 = 1 then .var p.2 else .app mul [.const p.1, .var p.2]

/-- `build_linexpr(e)` for `e = c + Σ aᵢ·xᵢ`: a left-nested chain of additions -/
def ofLin (add mul : F) (c : Int) : List (Int × V) → Exp V F
  | [] => .const c
  | p :: ps =>
    if c = 0 then ps.foldl (fun t q => .app add [t, linTerm mul q]) (linTerm mul p)
    else (p :: ps).foldl (fun t q => .app add [t, linTerm mul q]) (.const c)
end Exp

namespace UF

def top : UF V F := .val ⟨0, []⟩
def bottom : UF V F := .bot

def isBottom : UF V F → Bool
  | .bot => true
  | .val _ => false
/-- `is_top()`: no tracked variable -/
def isTop : UF V F → Bool
  | .bot => false
  | .val u => u.map.isEmpty

/-- `assign`, the `apply`s, `set`, `array_load`, `ref_load`, `assign_bool_var`,
    `apply_binary_bool`, integer casts: `x := e` -/
def assign (x : V) (e : Exp V F) : UF V F → UF V F
  | .bot => .bot
  | .val u => let r := e.build u; .val (r.2.bind x r.1)

/-- `operator-=(v)` (also `assign_bool_cst`, `select_bool`, ...) -/
def forgetVar (x : V) : UF V F → UF V F
  | .bot => .bot
  | .val u => .val ⟨u.next, UVal.erase u.map x⟩

/-- `forget(variables)` -/
def forget (xs : List V) (a : UF V F) : UF V F :=
  if isBottom a || isTop a then a else xs.foldl (fun acc x => forgetVar x acc) a

/-- `project(variables)` -/
def project (xs : List V) (a : UF V F) : UF V F :=
  if isBottom a || isTop a then a
  else if xs.isEmpty then top
  else
    match a with
    | .bot => a
    | .val u => forget ((u.map.map (·.1)).filter (fun v => !xs.contains v)) a

/-- one iteration of the loop of `rename`; `none` = CRAB_ERROR (target already tracked) -/
def renameOne (u : UVal V F) (p : V × V) : Option (UVal V F) :=
  if p.1 = p.2 then some u
  else if (look u.map p.2).isSome then none
  else
    match look u.map p.1 with
    | some t => some ⟨u.next, (p.2, t) :: UVal.erase u.map p.1⟩
    | none => some u

def renameGo : List (V × V) → UVal V F → Option (UVal V F)
  | [], u => some u
  | p :: ps, u =>
    match renameOne u p with
    | some u1 => renameGo ps u1
    | none => none

/-- `rename(from, to)` -/
def rename (ps : List (V × V)) (a : UF V F) : Option (UF V F) :=
  if isTop a || isBottom a then some a
  else
    match a with
    | .bot => some a
    | .val u => (renameGo ps u).map .val

/-- `expand(x, y)`: nothing on top, otherwise `y` gets the term of `x` -/
def expand (x y : V) (a : UF V F) : UF V F :=
  if isBottom a || isTop a then a else assign y (.var x) a

end UF

/-! ### `term_table::generalize` (anti-unification) and `operator|` -/

/-- `gener_map_t`, the output table's `m_free_var` -/
structure GSt (F : Type) where
  memo : List ((Term F × Term F) × Term F)
  next : Nat

/-- `ret = out.fresh_var(); g_map[txy] = ret` -/
def GSt.fresh (st : GSt F) (k : Term F × Term F) : Term F × GSt F :=
  (.var st.next, ⟨(k, .var st.next) :: st.memo, st.next + 1⟩)

mutual
/-- `generalize(y, tx, ty, out, g_map)` -/
def gen : Term F → Term F → GSt F → Term F × GSt F
  | .var a, ty, st =>
    match look st.memo (.var a, ty) with
    | some r => (r, st)
    | none => st.fresh (.var a, ty)
  | .const a, ty, st =>
    match look st.memo (.const a, ty) with
    | some r => (r, st)
    | none =>
      if ty = .const a then (.const a, ⟨((.const a, ty), .const a) :: st.memo, st.next⟩)
      else st.fresh (.const a, ty)
  | .app f xs, ty, st =>
    match look st.memo (.app f xs, ty) with
    | some r => (r, st)
    | none =>
      match ty with
      | .app g ys =>
        if f = g ∧ xs.length = ys.length then
          let r := genL xs ys st
          (.app f r.1, ⟨((.app f xs, .app g ys), .app f r.1) :: r.2.memo, r.2.next⟩)
        else st.fresh (.app f xs, .app g ys)
      | ty => st.fresh (.app f xs, ty)
def genL : List (Term F) → List (Term F) → GSt F → List (Term F) × GSt F
  | x :: xs, y :: ys, st =>
    let r := gen x y st
    let rs := genL xs ys r.2
    (r.1 :: rs.1, rs.2)
  | _, _, st => ([], st)
end

/-- the loop over the variables of the left operand: `ty = right.term_of_var(v)` (a fresh variable
    of the right table when `v` is not tracked there), `tz = generalize(..)` -/
def joinGo : List (V × Term F) → UVal V F → GSt F → List (V × Term F) × GSt F
  | [], _, st => ([], st)
  | (v, tx) :: rest, right, st =>
    let ry := right.termOfVar v
    let rz := gen tx ry.1 st
    let rr := joinGo rest ry.2 rz.2
    ((v, rz.1) :: rr.1, rr.2)

namespace UF

/-- `operator|`, `operator|=`, `operator||`, `widening_thresholds` -/
def join (a b : UF V F) : UF V F :=
  if isBottom a || isTop b then b
  else if isBottom b || isTop a then a
  else
    match a, b with
    | .val ua, .val ub => let r := joinGo ua.map ub ⟨[], 0⟩; .val ⟨r.2.next, r.1⟩
    | _, _ => a      -- not reachable

end UF

/-! ### `term_table::map_leq` and `operator<=` -/

mutual
/-- `left.map_leq(right, tx, ty, map)`: `map` sends terms of the right table to terms of the left -/
def mapLeq : Term F → Term F → List (Term F × Term F) → Option (List (Term F × Term F))
  | tx, .var n, m =>
    match look m (.var n) with
    | some r => if r = tx then some m else none
    | none => some ((.var n, tx) :: m)
  | tx, .const k, m =>
    match look m (.const k) with
    | some r => if r = tx then some m else none
    | none => if tx = .const k then some ((.const k, tx) :: m) else none
  | tx, .app g ys, m =>
    match look m (.app g ys) with
    | some r => if r = tx then some m else none
    | none =>
      match tx with
      | .app f xs =>
        if f = g ∧ xs.length = ys.length then
          match mapLeqL xs ys m with
          | some m1 => some ((.app g ys, .app f xs) :: m1)
          | none => none
        else none
      | _ => none
def mapLeqL : List (Term F) → List (Term F) → List (Term F × Term F) → Option (List (Term F × Term F))
  | x :: xs, y :: ys, m =>
    match mapLeq x y m with
    | some m1 => mapLeqL xs ys m1
    | none => none
  | _, _, m => some m
end

/-- the loop of `operator<=` over the variables of the RIGHT operand (after 7d37137) -/
def leqGo : List (V × Term F) → UVal V F → List (Term F × Term F) → Bool
  | [], _, _ => true
  | (v, ty) :: rest, left, m =>
    let rx := left.termOfVar v
    match mapLeq rx.1 ty m with
    | some m1 => leqGo rest rx.2 m1
    | none => false

namespace UF
/-- `operator<=` -/
def leq : UF V F → UF V F → Bool
  | .bot, _ => true
  | .val _, .bot => false
  | .val ua, .val ub => leqGo ub.map ua []
end UF

/-! ### `congruence_closure_solver` and `build_dag_term` -/

/-- `m_parent_map` (a term without entry is its own parent) -/
abbrev PMap (F : Type) := List (Term F × Term F)

/-- `find(t)` -/
def pfind : Nat → PMap F → Term F → Term F
  | 0, _, t => t
  | fuel + 1, pm, t =>
    match look pm t with
    | none => t
    | some p => if p = t then t else pfind fuel pm p

def pfindF (pm : PMap F) (t : Term F) : Term F := pfind (pm.length + 1) pm t

/-- `merge(t1, t2)`: `do_union` re-parents `t1` ITSELF (not its representative) to the parent of
    `t2`; the loop over `get_ccpar(t1)` that follows runs over the set `do_union` has just
    cleared, so no congruence is ever propagated -/
def pmerge (pm : PMap F) (e : Term F × Term F) : PMap F :=
  if pfindF pm e.1 = pfindF pm e.2 then pm
  else (e.1, (look pm e.2).getD e.2) :: pm.filter (fun q => decide (q.1 ≠ e.1))

/-- `solver.run(eqs)` -/
def closure (eqs : List (Term F × Term F)) : PMap F := eqs.foldl pmerge []

/-- `m_terms`: the terms that occur in an equation -/
def eqTerms (eqs : List (Term F × Term F)) : List (Term F) := eqs.flatMap (fun e => [e.1, e.2])

/-- `get_members(t)` for a representative `t` -/
def members (pm : PMap F) (terms : List (Term F)) (t : Term F) : List (Term F) :=
  terms.filter (fun x => decide (pfindF pm x = pfindF pm t))

/-- `out_ttbl.m_free_var`, `cache` -/
structure BSt (F : Type) where
  next : Nat
  cache : List (Term F × Term F)

def BSt.fresh (st : BSt F) : Term F × BSt F := (.var st.next, ⟨st.next + 1, st.cache⟩)

/-- `build_dag_term(ttbl, t, solver, out_ttbl, stack, cache)`; `choose` = `choose_non_var` on the
    TERM_APP members -/
def dag (choose : List (Term F) → Option (Term F)) (pm : PMap F) (terms : List (Term F)) :
    Nat → List (Term F) → Term F → BSt F → Term F × BSt F
  | 0, _, _, st => st.fresh
  | fuel + 1, stack, t, st =>
    match look st.cache t with
    | some r => (r, st)
    | none =>
      if stack.contains t then st.fresh
      else
        match choose ((members pm terms t).filter Term.isApp) with
        | some (.app f args) =>
          let r := args.foldl (fun acc c =>
            let x := dag choose pm terms fuel (t :: stack) (pfindF pm c) acc.2
            (acc.1 ++ [x.1], x.2)) (([] : List (Term F)), st)
          (.app f r.1, ⟨r.2.next, (t, .app f r.1) :: r.2.cache⟩)
        | _ => (.var st.next, ⟨st.next + 1, (t, .var st.next) :: st.cache⟩)

/-- the loop "new map from variable to an acyclic term" -/
def rebuildGo (choose : List (Term F) → Option (Term F)) (pm : PMap F) (terms : List (Term F)) (fuel : Nat)
    (skip : V → Bool) : List (V × Term F) → BSt F → List (V × Term F) × BSt F
  | [], st => ([], st)
  | (v, t) :: rest, st =>
    if skip v then
      let rr := rebuildGo choose pm terms fuel skip rest st
      ((v, t) :: rr.1, rr.2)
    else
      let r := dag choose pm terms fuel [] (pfindF pm t) st
      let rr := rebuildGo choose pm terms fuel skip rest r.2
      ((v, r.1) :: rr.1, rr.2)

def mapSize (m : List (V × Term F)) : Nat := (m.map (fun p => p.2.size)).sum

/-! ### `copy_term` and `operator&` -/

/-- the output table's `m_free_var`; which fresh variable stands for which variable of the right
    table (`ren_map` restricted to TERM_VAR; on the other kinds the memo returns the same tree) -/
structure CSt where
  next : Nat
  ren : List (Nat × Nat)

mutual
/-- `out_ttbl.copy_term(o.m_ttbl, tx, copy_map)` -/
def copyT : Term F → CSt → Term F × CSt
  | .var n, st =>
    match look st.ren n with
    | some m => (.var m, st)
    | none => (.var st.next, ⟨st.next + 1, (n, st.next) :: st.ren⟩)
  | .const k, st => (.const k, st)
  | .app f xs, st => let r := copyL xs st; (.app f r.1, r.2)
def copyL : List (Term F) → CSt → List (Term F) × CSt
  | [], st => ([], st)
  | x :: xs, st => let r := copyT x st; let rs := copyL xs r.2; (r.1 :: rs.1, rs.2)
end

/-- "bring all terms to one ttbl" -/
def copyMap : List (V × Term F) → CSt → List (V × Term F) × CSt
  | [], st => ([], st)
  | (v, t) :: rest, st =>
    let r := copyT t st
    let rr := copyMap rest r.2
    ((v, r.1) :: rr.1, rr.2)

/-- "build unifications between terms from left and right" -/
def meetEqs (am bm : List (V × Term F)) : List (Term F × Term F) :=
  am.filterMap (fun p => match look bm p.1 with | some ty => some (p.2, ty) | none => none)

namespace UF

/-- `operator&`, `operator&=`, `operator&&` -/
def meet (choose : List (Term F) → Option (Term F)) (a b : UF V F) : UF V F :=
  if isBottom a || isTop b then a
  else if isTop a || isBottom b then b
  else
    match a, b with
    | .val ua, .val ub =>
      let rc := copyMap ub.map ⟨ua.next, []⟩
      let eqs := meetEqs ua.map rc.1
      let r := rebuildGo choose (closure eqs) (eqTerms eqs) (mapSize ua.map + mapSize rc.1 + 1)
        (fun v => (look rc.1 v).isNone) ua.map ⟨rc.2.next, []⟩
      .val ⟨r.2.next, r.1 ++ rc.1.filter (fun p => (look ua.map p.1).isNone)⟩
    | _, _ => a      -- not reachable

/-- a `linear_constraint_t` as `get_eq_or_diseq` sees it: `x - y == 0`, `x - y != 0`, anything else -/
inductive Cst (V : Type) where
  | eq (x y : V)
  | ne (x y : V)
  | other

def Cst.holds (s : St V) : Cst V → Prop
  | .eq x y => s x = s y
  | .ne x y => s x ≠ s y
  | .other => True

/-- `operator+=(const linear_constraint_t &)` -/
def addCst (choose : List (Term F) → Option (Term F)) (c : Cst V) : UF V F → UF V F
  | .bot => .bot
  | .val u =>
    match c with
    | .other => .val u
    | .ne x y =>
      let rx := u.termOfVar x
      let ry := rx.2.termOfVar y
      if rx.1 = ry.1 then .bot else .val ry.2
    | .eq x y =>
      let rx := u.termOfVar x
      let ry := rx.2.termOfVar y
      if rx.1 = ry.1 then .val ry.2
      else
        let eqs := [(rx.1, ry.1)]
        let r := rebuildGo choose (closure eqs) (eqTerms eqs) (mapSize ry.2.map + 1) (fun _ => false)
          ry.2.map ⟨ry.2.next, []⟩
        .val ⟨r.2.next, r.1⟩

/-- `operator+=(const linear_constraint_system_t &)` -/
def addCsts (choose : List (Term F) → Option (Term F)) (cs : List (Cst V)) (a : UF V F) : UF V F :=
  cs.foldl (fun acc c => addCst choose c acc) a

/-- the equalities `to_linear_constraint_system()` exports: pairs of variables with the same term -/
def equalities : UF V F → List (V × V)
  | .bot => []
  | .val u => u.map.flatMap (fun p => (u.map.filter (fun q => decide (q.2 = p.2) && decide (q.1 ≠ p.1))).map
      (fun q => (p.1, q.1)))

/-! ### histories -/

/-- one renaming step of the loop of `rename`, concretely -/
def Ren1 (p : V × V) (s s' : St V) : Prop :=
  if p.1 = p.2 then s' = s else s' p.2 = s p.1 ∧ ∀ w, w ≠ p.1 → w ≠ p.2 → s' w = s w

def RenRel : List (V × V) → St V → St V → Prop
  | [], s, s' => s' = s
  | p :: ps, s, s' => ∃ s1, Ren1 p s s1 ∧ RenRel ps s1 s'

inductive Op (V F : Type) where
  | assign (d : Nat) (x : V) (e : Exp V F)
  | forgetVar (d : Nat) (x : V)
  | forget (d : Nat) (xs : List V)
  | project (d : Nat) (xs : List V)
  | rename (d : Nat) (ps : List (V × V))
  | expand (d : Nat) (x y : V)
  | add (d : Nat) (cs : List (Cst V))
  | join (d a b : Nat)
  | meet (d a b : Nat)
  | copy (d s : Nat)
  | setTop (d : Nat)
  | setBottom (d : Nat)

/-- a failing `rename` aborts the real run; the model continues from top -/
def Op.toStep (I : F → List Int → Int) (choose : List (Term F) → Option (Term F)) :
    Op V F → Step (UF V F) (St V)
  | .assign d x e => .trans d ⟨UF.assign x e, fun s s' => s' = s.set x (e.eval I s)⟩
  | .forgetVar d x => .trans d ⟨UF.forgetVar x, fun s s' => ∃ k, s' = s.set x k⟩
  | .forget d xs => .trans d ⟨UF.forget xs, fun s s' => ∀ v, v ∉ xs → s' v = s v⟩
  | .project d xs => .trans d ⟨UF.project xs, fun s s' => ∀ v, v ∈ xs → s' v = s v⟩
  | .rename d ps => .trans d ⟨fun a => (UF.rename ps a).getD UF.top, RenRel ps⟩
  | .expand d x y => .trans d ⟨UF.expand x y, fun s s' => s' = s.set y (s x)⟩
  | .add d cs => .trans d ⟨UF.addCsts choose cs, fun s s' => s' = s ∧ ∀ c ∈ cs, c.holds s⟩
  | .join d a b => .upper d a b UF.join
  | .meet d a b => .lower d a b (UF.meet choose)
  | .copy d s => .copy d s
  | .setTop d => .trans d ⟨fun _ => UF.top, fun _ _ => True⟩
  | .setBottom d => .setBot d UF.bottom

def toHist (I : F → List Int → Int) (choose : List (Term F) → Option (Term F)) (ops : List (Op V F)) :
    List (Step (UF V F) (St V)) := ops.map (Op.toStep I choose)

end UF

end Uf
end Fct
end Dom
end Crab
