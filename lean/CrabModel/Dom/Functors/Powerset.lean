import CrabModel.Dom.Functors.Base

/-
  Model of `powerset_domain<Domain>` (include/crab/domains/powerset_domain.hpp, after repo commits
  752c9b2 and af5436f) over an ARBITRARY base domain `D : LDom S`.

  The value is the vector `m_disjuncts` (a `List D.B`, in the order of the vector).  The code never
  builds the empty vector on purpose ("we don't represent the empty powerset") but `+=`,
  `ref_assume`, `assume_bool` and the exact meet drop bottom disjuncts and can leave it empty; the
  empty vector is then treated as bottom by every method (`is_bottom()` is vacuously true).  The
  model keeps this.

  Parameters (`crab_domain_params_man`): `powerset_max_disjuncts`, `powerset_exact_meet`.
-/
namespace Crab
namespace Dom
namespace Fct

variable {S : Type}

structure PParams where
  maxDisjuncts : Nat
  exactMeet : Bool
  deriving Repr, DecidableEq

/-- `m_disjuncts` -/
abbrev PSet (D : LDom S) := List D.B

namespace PSet
variable {D : LDom S}

/-- concretisation: the union of the disjuncts -/
def γ (ps : PSet D) (s : S) : Prop := ∃ d ∈ ps, D.γ d s

/-- `is_bottom()`: every disjunct is bottom -/
def isBottom (ps : PSet D) : Bool := ps.all D.isBot
/-- `is_top()`: some disjunct is top -/
def isTop (ps : PSet D) : Bool := ps.any D.isTop

/-- `powerset_domain()`, `make_top()`, `set_to_top()` -/
def top : PSet D := [D.top]
/-- `make_bottom()`, `set_to_bottom()`, `powerset_domain(true)` -/
def bottom : PSet D := [D.bot]

/-- `normalize_if_top()` -/
def normalizeIfTop (ps : PSet D) : PSet D := if ps.any D.isTop then top else ps

/-- `smash_disjuncts(const powerset_domain_t &pw) const` -/
def smash (ps : PSet D) : D.B :=
  if isBottom ps then D.bot
  else if isTop ps then D.top
  else match ps with
    | [] => D.bot            -- not reachable: the empty vector is bottom
    | d :: ds => ds.foldl D.join d

/-- `smash_disjuncts()` (in place): `if (is_bottom()) set_to_bottom(); else if (is_top())
    set_to_top();` then the join of all disjuncts becomes the only disjunct -/
def smashInPlace (ps : PSet D) : PSet D :=
  let ps1 : PSet D := if isBottom ps then bottom else if isTop ps then top else ps
  match ps1 with
  | [] => []                 -- not reachable
  | d :: ds => [ds.foldl D.join d]

/-- `powerset_domain(base_dom_vector &&)` -/
def ofVec (P : PParams) (ps : PSet D) : PSet D :=
  let ps1 := normalizeIfTop ps
  if ps1.length > P.maxDisjuncts then smashInPlace ps1 else ps1

/-- `powerset_domain(Domain &&)` -/
def ofDom (d : D.B) : PSet D := normalizeIfTop [d]

/-- `insert(vec, dom)`: nothing if some element of `vec` already includes `dom` -/
def insert (vec : PSet D) (d : D.B) : PSet D := if vec.any (fun v => D.leq d v) then vec else vec ++ [d]

/-- `append(vec1, vec2)` -/
def append (v1 v2 : PSet D) : PSet D := v2.foldl insert v1

/-- `operator|` = `powerset_join_with` -/
def join (P : PParams) (a b : PSet D) : PSet D :=
  if isBottom a || isTop b then b
  else if isBottom b || isTop a then a
  else ofVec P (append a b)

/-- `operator|=` (no `normalize_if_top` on this path) -/
def joinEq (P : PParams) (a b : PSet D) : PSet D :=
  if isTop a || isBottom b then a
  else if isBottom a then b
  else if isTop b then top
  else
    let r := append a b
    if r.length > P.maxDisjuncts then smashInPlace r else r

/-- the double loop of `powerset_meet_with` -/
def meetPairs (a b : PSet D) : PSet D :=
  a.flatMap (fun x => (b.map (fun y => D.meet x y)).filter (fun m => !D.isBot m))

/-- `powerset_meet_with` -/
def meetWith (P : PParams) (a b : PSet D) : PSet D :=
  if isBottom a || isBottom b then bottom
  else if isTop a then b
  else if isTop b then a
  else ofVec P (meetPairs a b)

/-- `operator&` (`&=` is `*this = *this & other`) -/
def meet (P : PParams) (a b : PSet D) : PSet D :=
  if P.exactMeet then meetWith P a b else ofDom (D.meet (smash a) (smash b))

/-- `operator||`, `widening_thresholds`: both operands smashed, widening `w` of the base -/
def widenWith (w : D.B → D.B → D.B) (a b : PSet D) : PSet D := ofDom (w (smash a) (smash b))
def widen (a b : PSet D) : PSet D := widenWith D.widen a b
/-- `operator&&` -/
def narrow (a b : PSet D) : PSet D := ofDom (D.narrow (smash a) (smash b))

/-- `operator<=` (after af5436f): yes if the left operand is bottom or the right one top, otherwise
    every non-bottom disjunct of the left must be included in one disjunct of the right -/
def leq (a b : PSet D) : Bool :=
  if isBottom a || isTop b then true
  else a.all (fun x => D.isBot x || b.any (fun y => D.leq x y))

/-! ### transformers -/

/-- the common shape `if (!is_bottom()) for i: m_disjuncts[i].op(..)` (assign, weak_assign, apply,
    select, casts, bitwise, array, region and Boolean statements, intrinsic, normalize, minimize,
    rename, expand, project) -/
def mapOp (f : D.B → D.B) (ps : PSet D) : PSet D := if !isBottom ps then ps.map f else ps

/-- `ref_assume`, `assume_bool`: apply, then drop the disjuncts that became bottom -/
def filterOp (f : D.B → D.B) (ps : PSet D) : PSet D :=
  if !isBottom ps then (ps.map f).filter (fun d => !D.isBot d) else ps

/-- `operator+=(csts)`: `if (is_bottom() || csts.is_true()) return; if (csts.is_false())
    set_to_bottom();` (no return) then apply and drop the bottom disjuncts -/
def addOp (isTrue isFalse : Bool) (f : D.B → D.B) (ps : PSet D) : PSet D :=
  if isBottom ps || isTrue then ps
  else
    let ps1 : PSet D := if isFalse then bottom else ps
    (ps1.map f).filter (fun d => !D.isBot d)

/-- the loop of `operator-=` / `forget`: `m_disjuncts[i].forget(..); if (m_disjuncts[i].is_top())
    { set_to_top(); return; }` — `none` = collapsed to top -/
def forgetGo (f : D.B → D.B) : List D.B → Option (List D.B)
  | [] => some []
  | d :: ds =>
    if D.isTop (f d) then none
    else match forgetGo f ds with
      | none => none
      | some r => some (f d :: r)

/-- `operator-=(v)`, `forget(variables)` -/
def forgetOp (f : D.B → D.B) (ps : PSet D) : PSet D :=
  if !isBottom ps then
    match forgetGo f ps with
    | none => top
    | some r => r
  else ps

/-! ### histories -/

/-- the four shapes of transformers -/
inductive TKind where
  | map | filter | forget
  | add (isTrue isFalse : Bool)
  deriving DecidableEq, Repr

def trans (k : TKind) (f : D.B → D.B) (ps : PSet D) : PSet D :=
  match k with
  | .map => mapOp f ps
  | .filter => filterOp f ps
  | .forget => forgetOp f ps
  | .add t fl => addOp t fl f ps

inductive Op (D : LDom S) where
  | trans (d : Nat) (k : TKind) (f : D.B → D.B) (r : S → S → Prop)
  | join (d a b : Nat) | joinEq (d a b : Nat)
  | meet (d a b : Nat)
  | widen (d a b : Nat) (w : D.B → D.B → D.B)
  | narrow (d a b : Nat)
  | copy (d s : Nat)
  | setTop (d : Nat)
  | setBottom (d : Nat)

/-- obligations on the base: the transformer abstracts `r`; a `+=` whose constraint system is
    syntactically true does not change the state, one that is syntactically false has no
    successor; widenings are upper bounds -/
def Op.BaseSound : Op D → Prop
  | .trans _ k f r => D.TSound f r ∧
      (match k with
       | .add t fl => (t = true → ∀ s s', r s s' → s' = s) ∧ (fl = true → ∀ s s', ¬ r s s')
       | _ => True)
  | .widen _ _ _ w => D.USound w
  | _ => True

def Op.toStep (P : PParams) : Op D → Step (PSet D) S
  | .trans d k f r => .trans d ⟨PSet.trans k f, r⟩
  | .join d a b => .upper d a b (PSet.join P)
  | .joinEq d a b => .upper d a b (PSet.joinEq P)
  | .meet d a b => .lower d a b (PSet.meet P)
  | .widen d a b w => .upper d a b (PSet.widenWith w)
  | .narrow d a b => .lower d a b PSet.narrow
  | .copy d s => .copy d s
  | .setTop d => .trans d ⟨fun _ => PSet.top, fun _ _ => True⟩
  | .setBottom d => .setBot d PSet.bottom

def toHist (P : PParams) (ops : List (Op D)) : List (Step (PSet D) S) := ops.map (Op.toStep P)

end PSet
end Fct
end Dom
end Crab
