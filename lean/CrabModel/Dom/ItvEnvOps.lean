/-
  Further operations on the canonical interval-environment model (`Dom/ItvEnv.lean`, reference of
  exactness of `interval_domain` on its own language `±x ≤ k`, property C12) needed to state
  C03 / C04 / C01 for it: inclusion test, `is_top`, `x := k` (forget + assume), a statement
  language, and the pointwise interval widening.  (The branch-by-branch model of
  `interval_domain` itself is `Crab.IDom`, Props/C03Itv.lean; this file is about the canonical
  reference model only.)
-/
import CrabModel.Dom.ItvEnv
import CrabModel.Fix.Interleaved

namespace Crab
namespace ItvEnv

variable {n : Nat}

/-- some binding empty (a bottom for `n ≥ 1`) -/
def bot : Env n := ofFn fun _ => Itv.bot

/-- inclusion test: bottom on the left, or pointwise inclusion -/
def leq (a b : Env n) : Bool :=
  isBottom a || (List.finRange n).all fun x => Itv.leq (get a x) (get b x)

def isTop (e : Env n) : Bool := leq top e

/-- `x := k`: forget `x`, then `x ≤ k ∧ -x ≤ -k` -/
def assignCst (e : Env n) (x : Fin n) (k : Int) : Env n :=
  assumeAll (forget e x) [.ub x k, .lb x (-k)]

/-- pointwise interval widening (`interval<Number>::operator||`) -/
def widen (a b : Env n) : Env n :=
  if isBottom a then b else if isBottom b then a else ofFn fun x => Itv.widen (get a x) (get b x)

inductive Stmt (n : Nat) where
  | assume (cs : List (Cst n))
  | assignCst (x : Fin n) (k : Int)
  | havoc (x : Fin n)                      -- `-=`, and every assignment outside the language

def Stmt.rel : Stmt n → State n → State n → Prop
  | .assume cs, s, s' => s' = s ∧ ∀ c ∈ cs, c.sat s
  | .assignCst x k, s, s' => s' = fun y => if y = x then k else s y
  | .havoc x, s, s' => ∀ y, y ≠ x → s' y = s y

def Stmt.exec : Stmt n → Env n → Env n
  | .assume cs, e => ItvEnv.assumeAll e cs
  | .assignCst x k, e => ItvEnv.assignCst e x k
  | .havoc x, e => ItvEnv.forget e x

def ops : Fix.Ops (Env n) :=
  { bot := bot, top := top, leq := leq, join := join, meet := meet, widen := widen, narrow := meet }

end ItvEnv
end Crab
