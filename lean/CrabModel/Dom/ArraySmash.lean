import CrabModel.Dom.ArraySem
import CrabModel.Dom.History

/-
  Model of the array smashing functor `array_smashing<BaseNumDomain>` (array_smashing.hpp) over a
  GENERIC base domain given by its operations and their soundness laws (`Base`).

  * one ghost scalar `a.smashed` per array (`mk_scalar_var`), a temporary `a.smashed.copy` used by
    `array_load`;
  * `m_last_access_env : array ↦ number of bytes of the last access` (`Nat → Option Nat`,
    `none` = top of `constant<uint64_t>`): an array is *tracked* when the entry is the element size;
  * weak update = `weak_assign` (join of old and new), strong update = `assign`,
    load = `expand` + `assign` + `forget`, exactly as coded.

  `array_assign` is the repaired code (nothing if lhs = rhs; forget + expand when the size of rhs
  is known; lhs forgotten otherwise).  The behaviour before the repair (`assign(lhs.smashed,
  rhs.smashed)` when the size of rhs is known, nothing otherwise) is kept as `aAssignOld`, only to
  state the counterexample that motivated the repair.
-/
namespace Crab
namespace Dom
namespace Smash
open Crab.Dom.Arr

/-- variables of the base domain: program integers and the ghosts of the functor -/
inductive Var where
  | prog (n : Nat)
  | smashed (a : Nat)
  | copy (a : Nat)
  deriving DecidableEq, Repr

abbrev Env := Var → Int

def Env.set (ρ : Env) (x : Var) (v : Int) : Env := fun y => if y = x then v else ρ y

def progOf (ρ : Env) : Nat → Int := fun n => ρ (.prog n)

/-- linear expression over the program integers: `c + Σ k·v` -/
structure Lin where
  c : Int
  ts : List (Int × Nat)
  deriving Repr, DecidableEq

def Lin.eval (l : Lin) (σ : Nat → Int) : Int := l.ts.foldl (fun acc t => acc + t.1 * σ t.2) l.c

/-- right-hand sides the functor hands to the base: a linear expression over program variables
    (value of a store) or one variable (ghost to ghost / ghost to program variable) -/
inductive RExpr where
  | lin (e : Lin)
  | var (v : Var)

def RExpr.eval : RExpr → Env → Int
  | .lin e, ρ => e.eval (progOf ρ)
  | .var v, ρ => ρ v

/-- A base numerical domain: carrier, concretisation, the operations used by the functor and
    their soundness laws (nothing else is assumed: no monotonicity, no precision). -/
structure Base where
  B : Type
  γ : B → Env → Prop
  top : B
  assign : B → Var → RExpr → B
  weakAssign : B → Var → RExpr → B
  /-- `expand(x, y)`: y becomes a copy of the (possibly summarized) variable x -/
  expand : B → Var → Var → B
  forget : B → Var → B
  assume : B → ((Nat → Int) → Prop) → B
  join : B → B → B
  widen : B → B → B
  isBot : B → Bool
  top_sound : ∀ ρ, γ top ρ
  assign_sound : ∀ b x e ρ, γ b ρ → γ (assign b x e) (ρ.set x (e.eval ρ))
  weakAssign_sound : ∀ b x e ρ, γ b ρ → γ (weakAssign b x e) ρ ∧ γ (weakAssign b x e) (ρ.set x (e.eval ρ))
  /-- summarized-dimension semantics of expand: the copy takes the value x has in any state that
      differs from the current one on x only -/
  expand_sound : ∀ b x y ρ₁ ρ₂, γ b ρ₁ → γ b ρ₂ → (∀ z, z ≠ x → ρ₁ z = ρ₂ z) →
      γ (expand b x y) (ρ₁.set y (ρ₂ x))
  forget_sound : ∀ b x ρ v, γ b ρ → γ (forget b x) (ρ.set x v)
  assume_sound : ∀ b c ρ, γ b ρ → c (progOf ρ) → γ (assume b c) ρ
  join_sound_l : ∀ a b ρ, γ a ρ → γ (join a b) ρ
  join_sound_r : ∀ a b ρ, γ b ρ → γ (join a b) ρ
  widen_sound_l : ∀ a b ρ, γ a ρ → γ (widen a b) ρ
  widen_sound_r : ∀ a b ρ, γ b ρ → γ (widen a b) ρ
  isBot_sound : ∀ b ρ, isBot b = true → ¬ γ b ρ

/-- abstract state of the functor -/
structure St (Bs : Base) where
  env : Nat → Option Nat      -- m_last_access_env
  base : Bs.B

variable {Bs : Base}

def setSize (env : Nat → Option Nat) (a : Nat) (sz : Option Nat) : Nat → Option Nat :=
  fun b => if b = a then sz else env b

/-- `separate_domain<variable_t, constant<uint64_t>>` join (also used as widening): equal
    constants are kept, everything else is top -/
def envJoin (e₁ e₂ : Nat → Option Nat) : Nat → Option Nat :=
  fun a => if e₁ a = e₂ a then e₁ a else none

def St.top : St Bs := ⟨fun _ => none, Bs.top⟩

/-- `array_init(a, elem_size, lb, ub, val)`: `set_size(a, size); m_base_dom.assign(scalar_var, val)` -/
def aInit (esz : Nat → Nat) (st : St Bs) (a : Nat) (val : Lin) : St Bs :=
  ⟨setSize st.env a (some (esz a)), Bs.assign st.base (.smashed a) (.lin val)⟩

/-- `array_load(lhs, a, elem_size, i)`: if `equal_size(a, size)` then
    `expand(scalar, copy); assign(lhs, copy); -= copy` else `-= lhs` -/
def aLoad (esz : Nat → Nat) (st : St Bs) (x a : Nat) : St Bs :=
  if st.env a = some (esz a) then
    ⟨st.env, Bs.forget (Bs.assign (Bs.expand st.base (.smashed a) (.copy a)) (.prog x) (.var (.copy a))) (.copy a)⟩
  else ⟨st.env, Bs.forget st.base (.prog x)⟩

/-- `array_store(a, elem_size, i, val, is_strong_update)`: `if (strong) set_size(a, size);
    if (equal_size(a, size)) strong ? assign : weak_assign` -/
def aStore (esz : Nat → Nat) (st : St Bs) (a : Nat) (val : Lin) (strong : Bool) : St Bs :=
  let env' := if strong then setSize st.env a (some (esz a)) else st.env
  if env' a = some (esz a) then
    ⟨env', if strong then Bs.assign st.base (.smashed a) (.lin val)
           else Bs.weakAssign st.base (.smashed a) (.lin val)⟩
  else ⟨env', st.base⟩

/-- `array_store_range`: `if (equal_size(a, size)) do_weak_update(scalar_var, val)` -/
def aStoreRange (esz : Nat → Nat) (st : St Bs) (a : Nat) (val : Lin) : St Bs :=
  if st.env a = some (esz a) then ⟨st.env, Bs.weakAssign st.base (.smashed a) (.lin val)⟩ else st

/-- `array_assign(lhs, rhs)`: nothing if `lhs = rhs`; if the size of rhs is a constant,
    `set_size(lhs, size); -= scalar_lhs; expand(scalar_rhs, scalar_lhs)`; otherwise lhs is
    forgotten (`-= lhs`). -/
def aAssign (st : St Bs) (lhs rhs : Nat) : St Bs :=
  if lhs = rhs then st else
  match st.env rhs with
  | some sz => ⟨setSize st.env lhs (some sz),
                Bs.expand (Bs.forget st.base (.smashed lhs)) (.smashed rhs) (.smashed lhs)⟩
  | none => ⟨setSize st.env lhs none, Bs.forget st.base (.smashed lhs)⟩

/-- `array_assign` BEFORE the repair (kept for the counterexample only): if the size of rhs is a
    constant, `set_size(lhs, size); assign(scalar_lhs, scalar_rhs)`, otherwise nothing. -/
def aAssignOld (st : St Bs) (lhs rhs : Nat) : St Bs :=
  match st.env rhs with
  | some sz => ⟨setSize st.env lhs (some sz), Bs.assign st.base (.smashed lhs) (.var (.smashed rhs))⟩
  | none => st

def nAssign (st : St Bs) (x : Nat) (e : Lin) : St Bs := ⟨st.env, Bs.assign st.base (.prog x) (.lin e)⟩
def nAssume (st : St Bs) (c : (Nat → Int) → Prop) : St Bs := ⟨st.env, Bs.assume st.base c⟩
def nForget (st : St Bs) (x : Nat) : St Bs := ⟨st.env, Bs.forget st.base (.prog x)⟩
def sJoin (s₁ s₂ : St Bs) : St Bs := ⟨envJoin s₁.env s₂.env, Bs.join s₁.base s₂.base⟩
def sWiden (s₁ s₂ : St Bs) : St Bs := ⟨envJoin s₁.env s₂.env, Bs.widen s₁.base s₂.base⟩
def St.isBottom (st : St Bs) : Bool := Bs.isBot st.base

/-! ### concretisation -/

/-- The environment the base domain must accept for the concrete state `s`: program variables
    have their values, the summary of a tracked array has the value of the cell `c a` chosen for
    it (for EVERY choice `c`), all other ghosts have the value given by `g`. -/
def mkEnv (esz : Nat → Nat) (s : CState) (env : Nat → Option Nat) (g : Env) (c : Nat → Nat) : Env
  | .prog n => s.iv n
  | .smashed a =>
    if env a = some (esz a) then
      match s.ar a (c a) with
      | some v => v
      | none => g (.smashed a)
    else g (.smashed a)
  | .copy a => g (.copy a)

/-- concretisation of the functor: there are values for the unconstrained ghosts such that for
    every choice of one cell per array the base domain accepts the environment -/
def γ (esz : Nat → Nat) (st : St Bs) (s : CState) : Prop :=
  ∃ g : Env, ∀ c : Nat → Nat, Bs.γ st.base (mkEnv esz s st.env g c)

/-- `v` is a possible value of program variable `x` according to the base domain -/
def ValIn (st : St Bs) (x : Nat) (v : Int) : Prop := ∃ ρ, Bs.γ st.base ρ ∧ ρ (.prog x) = v

/-! ### histories -/

/-- the operation language of the histories (slot numbers `d`, `p`, `q` refer to the pool) -/
inductive Op where
  | assign (d x : Nat) (e : Lin)
  | assume (d : Nat) (c : (Nat → Int) → Prop)
  | forget (d x : Nat)
  | aInit (d a : Nat) (lb ub val : Lin)
  | aLoad (d x a : Nat) (i : Lin)
  | aStore (d a : Nat) (i val : Lin) (strong : Bool)
  | aStoreRange (d a : Nat) (lb ub val : Lin)
  | aAssign (d lhs rhs : Nat)
  | join (d p q : Nat)
  | widen (d p q : Nat)
  | copy (d p : Nat)

/-- abstract transformer and concrete transition relation of every operation (`asg` is the
    implementation of `array_assign`).
    The relation of a strong store contains the client contract (`singleCell`), the relation of
    `array_assign` the uniform element size of the two arrays. -/
def Op.toStepWith (asg : St Bs → Nat → Nat → St Bs) (esz : Nat → Nat) : Op → Step (St Bs) CState
  | .assign d x e => .trans d ⟨fun st => nAssign st x e, fun s s' => s' = s.setVar x (e.eval s.iv)⟩
  | .assume d c => .trans d ⟨fun st => nAssume st c, fun s s' => c s.iv ∧ s' = s⟩
  | .forget d x => .trans d ⟨fun st => nForget st x, fun s s' => ∃ v, s' = s.setVar x v⟩
  | .aInit d a lb ub val =>
    .trans d ⟨fun st => Smash.aInit esz st a val, fun s s' => cInit (esz a) a lb.eval ub.eval val.eval s = some s'⟩
  | .aLoad d x a i =>
    .trans d ⟨fun st => Smash.aLoad esz st x a, fun s s' => cLoad (esz a) x a i.eval s = some s'⟩
  | .aStore d a i val strong =>
    .trans d ⟨fun st => Smash.aStore esz st a val strong,
              fun s s' => cStore (esz a) a i.eval val.eval s = some s' ∧
                (strong = true → ∀ o, alignedOff (esz a) (i.eval s.iv) = some o → singleCell (s.ar a) o)⟩
  | .aStoreRange d a lb ub val =>
    .trans d ⟨fun st => Smash.aStoreRange esz st a val,
              fun s s' => cStoreRange (esz a) a lb.eval ub.eval val.eval s = some s'⟩
  | .aAssign d lhs rhs =>
    .trans d ⟨fun st => asg st lhs rhs, fun s s' => esz lhs = esz rhs ∧ cAssign lhs rhs s = some s'⟩
  | .join d p q => .upper d p q sJoin
  | .widen d p q => .upper d p q sWiden
  | .copy d p => .copy d p

/-- the operations of the code -/
def Op.toStep (esz : Nat → Nat) : Op → Step (St Bs) CState := Op.toStepWith Smash.aAssign esz

def toHist (esz : Nat → Nat) (ops : List Op) : List (Step (St Bs) CState) :=
  ops.map (Op.toStep esz)

/-- histories with `array_assign` as it was before the repair (counterexample only) -/
def toHistOld (esz : Nat → Nat) (ops : List Op) : List (Step (St Bs) CState) :=
  ops.map (Op.toStepWith aAssignOld esz)

end Smash
end Dom
end Crab
