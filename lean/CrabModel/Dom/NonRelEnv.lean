/-
  The part that `constant_domain`, `sign_domain` and `congruence_domain`
  (include/crab/domains/constant_domain.hpp, sign_domain.hpp, congruences.hpp) have in common:
  the three classes hold one `ikos::separate_domain<variable_t, Value>` (`m_env` / `_env`) and
  forward the lattice operations, `operator-=`, `forget`, `project`, `rename`, `expand` to it with
  the same guards.  The environment is the existing model of `separate_domain`
  (`Crab.SepDom V`, CrabModel/Container/SeparateDomain.lean: bottom flag + Patricia tree in
  which top is never stored), instantiated with the value lattice of each domain.

  Oracles of the tree (`Patricia.Ctx`): `ValueEqual` is `operator==` of the value class
  (`L.beq`); the pointer-equality oracle answers "not shared" — no result depends on it
  (`Patricia.merge_ctx_indep`, `insert_ctx_indep`, `remove_ctx_indep`, `compare_ctx_indep`).

  A variable is its index (`Lin.Var`, intended `< 2^64`: `index_t = uint64_t`).
-/
import CrabModel.Container.SeparateDomain
import CrabModel.Lin.System
import CrabModel.Num.ZNum

namespace Crab
namespace XDom
open Lin Patricia

variable {V : Type}

/-- the oracles used for the trees of a domain whose values have lattice `L` -/
def ctxOf (L : Lattice V) : Ctx V := ⟨fun _ _ => false, L.beq⟩

abbrev Env (V : Type) := SepDom V

namespace Env

/-- `separate_domain_t::top()` (`make_top`, `set_to_top`, the default constructor) -/
def top : Env V := SepDom.top
/-- `separate_domain_t::bottom()` (`make_bottom`, `set_to_bottom`) -/
def bot : Env V := SepDom.bottom

/-- `is_bottom()` -/
def isBottom (e : Env V) : Bool := SepDom.isBottom e
/-- `is_top()` -/
def isTop (e : Env V) : Bool := SepDom.isTop e

/-- `m_env.at(v)` -/
def get (L : Lattice V) (e : Env V) (k : Var) : V := SepDom.atKey L e k
/-- `m_env.set(v, x)` -/
def set (L : Lattice V) (e : Env V) (k : Var) (v : V) : Env V := SepDom.set (ctxOf L) L e k v
/-- `m_env.join(v, x)` (used by `weak_assign`) -/
def joinKey (L : Lattice V) (e : Env V) (k : Var) (v : V) : Env V :=
  SepDom.wjoin SepDom.wjoinIsFixed (ctxOf L) L e k v

/-- `operator-=(v)`: `if (!is_bottom()) m_env -= v` -/
def forget (L : Lattice V) (e : Env V) (k : Var) : Env V :=
  if e.isBot then e else SepDom.forget (ctxOf L) e k

/-- `forget(variables)` -/
def forgetAll (L : Lattice V) (e : Env V) (vs : List Var) : Env V :=
  if e.isBottom || e.isTop then e else vs.foldl (fun env v => forget L env v) e

/-- `project(variables)`: `if (!is_bottom()) m_env.project(variables)` -/
def project (L : Lattice V) (e : Env V) (vs : List Var) : Env V :=
  if e.isBot then e else SepDom.project (ctxOf L) L e vs

/-- `rename(from, to)`: `if (!is_bottom()) m_env.rename(from, to)`; `none` = CRAB_ERROR
    (vectors of different sizes) -/
def rename (L : Lattice V) (e : Env V) (frm to : List Var) : Option (Env V) :=
  if e.isBot then some e else SepDom.rename (ctxOf L) L e frm to

/-- `expand(x, new_x)` -/
def expand (L : Lattice V) (e : Env V) (x nx : Var) : Env V :=
  if e.isBottom || e.isTop then e else set L e nx (get L e x)

/-- `operator<=` -/
def leq (L : Lattice V) (a b : Env V) : Bool := SepDom.leq Patricia.compareIsFixed (ctxOf L) L a b
/-- `operator|`, `operator|=` -/
def join (L : Lattice V) (a b : Env V) : Env V := SepDom.join (ctxOf L) L a b
/-- `operator&`, `operator&=` -/
def meet (L : Lattice V) (a b : Env V) : Env V := SepDom.meet (ctxOf L) L a b
/-- `m_env || o.m_env` -/
def widen (L : Lattice V) (a b : Env V) : Env V := SepDom.widen (ctxOf L) L a b
/-- `m_env && o.m_env` -/
def narrow (L : Lattice V) (a b : Env V) : Env V := SepDom.narrow (ctxOf L) L a b

/-- insertion of a binding in a list sorted by key (for `bindings`) -/
def insertSorted (p : Var × V) : List (Var × V) → List (Var × V)
  | [] => [p]
  | q :: rest => if p.1 ≤ q.1 then p :: q :: rest else q :: insertSorted p rest

/-- the bindings `begin() .. end()` in increasing variable order (the real iteration order is
    the one of the Patricia tree — `Patricia.iterate` — and is compared as a set) -/
def bindings (e : Env V) : List (Var × V) :=
  if e.isBot then [] else e.tree.toList.foldr insertSorted []

/-- the common shape of `to_linear_constraint_system()`: `false` for bottom, otherwise the
    constraint (if any) of every binding, added in iteration order -/
def exportCsts (f : Var × V → Option Lin.Cst) (e : Env V) : Lin.Sys :=
  if e.isBot then Lin.Sys.addCst [] Lin.Cst.getFalse
  else (bindings e).foldl (fun s p => match f p with
    | some c => Lin.Sys.addCst s c
    | none => s) []

end Env

/-- `linear_expression::get_variable()`: the expression is exactly one variable -/
def getVariable (ex : Expr) : Option Var :=
  if ex.isConstant then none
  else if ex.cst = 0 ∧ ex.size = 1 then
    match ex.terms with
    | [(v, c)] => if c = 1 then some v else none
    | _ => none
  else none

/-- `crab::domains::arith_operation_t` -/
inductive ArithOp where
  | add | sub | mul | sdiv | udiv | srem | urem
  deriving DecidableEq, Repr, Inhabited

/-- `crab::domains::bitwise_operation_t` -/
inductive BitOp where
  | and | or | xor | shl | lshr | ashr
  deriving DecidableEq, Repr, Inhabited

/-- concrete meaning of the arithmetic operations on mathematical integers (`none`: no
    successor — division by zero; unsigned operations are given a meaning on non-negative
    operands only) -/
def ArithOp.conc : ArithOp → Int → Int → Option Int
  | .add, a, b => some (a + b)
  | .sub, a, b => some (a - b)
  | .mul, a, b => some (a * b)
  | .sdiv, a, b => if b = 0 then none else some (Int.tdiv a b)
  | .srem, a, b => if b = 0 then none else some (Int.tmod a b)
  | .udiv, a, b => if 0 ≤ a ∧ 0 < b then some (a / b) else none
  | .urem, a, b => if 0 ≤ a ∧ 0 < b then some (a % b) else none

/-- concrete meaning of the bitwise operations (two's complement of unbounded width; shifts by a
    non-negative amount that fits a machine word: `z_number::operator<<`/`>>` shift by
    `mpz_get_ui` of the amount; logical shift on non-negative numbers only) -/
def BitOp.conc : BitOp → Int → Int → Option Int
  | .and, a, b => some (ZNum.land a b)
  | .or, a, b => some (ZNum.lor a b)
  | .xor, a, b => some (ZNum.lxor a b)
  | .shl, a, b => if 0 ≤ b ∧ b < 2 ^ 64 then some (a * 2 ^ b.toNat) else none
  | .ashr, a, b => if 0 ≤ b ∧ b < 2 ^ 64 then some (a / 2 ^ b.toNat) else none
  | .lshr, a, b => if 0 ≤ a ∧ 0 ≤ b ∧ b < 2 ^ 64 then some (a / 2 ^ b.toNat) else none

end XDom
end Crab
