/-
  Model of `crab::domains::wrapped_interval_domain<z_number, VariableName>`
  (include/crab/domains/wrapped_interval_domain.hpp, the first class of the file), function by
  function, over the models of
   * `ikos::separate_domain<variable_t, wrapped_interval_t>` : `SepDom WInt` with the lattice
     `wintLattice` (CrabModel/Dom/NonRelEnv.lean for the forwarded operations),
   * `wrapped_interval<z_number>` : `Crab.WInt` (CrabModel/Scalar/WInterval.lean),
   * `ikos::linear_interval_solver<z_number, VariableName, separate_domain_t>`
     (include/crab/domains/linear_interval_solver.hpp) instantiated with the traits of
     lib/wrapped_interval.cpp (`mk_interval = mk_winterval(c, bitwidth(pivot))`,
     `lower/upper_half_line(·, true)`: "cst is always signed", `trim_interval`).

  A variable is its index; its declared type is the bit-width `wd v` (`Ty`; `0` = not an integer,
  a Boolean counts for 1 in the casts).  All the scalar operations are the ones of `WInt`, whose
  scope is "operands of one common width, top or bottom": an operation that mixes variables of
  different widths (other than the casts) is outside the model.

  `none` = CRAB_ERROR.

  Covered: `eval_expr`, `assign`, `weak_assign`, the two `apply` for arithmetic and for bitwise
  operations (variable / constant operand), `apply(int_conv_operation_t)`, `operator+=`
  (`is_well_typed` filter + solver, small and large systems), `entails`, `operator-=`, `forget`,
  `project`, `rename`, `expand`, the lattice operations, `set` (three overloads), `at` /
  `operator[]`, `to_linear_constraint_system`.
  Not covered: `widening_thresholds`, `wrapped_interval_with_history_domain`,
  `wrapped_numerical_domain` (the two other classes of the file), backward operations
  (`operator-=(x)` + warning), intrinsics (no-op).

  State of the code worth knowing:
   * `apply(OP_TRUNC, dst, src)` declares a second `dst_i` inside the `case`, so the truncated
     interval is thrown away and `dst` is always set to top (sound, imprecise);
   * the solver computes residuals in modular arithmetic of the width of the pivot and then reads
     them as signed numbers: see `CrabProofs/Props/C13WDom.lean` (`C13.wdom_assume_*`).
-/
import CrabModel.Dom.NonRelEnv
import CrabModel.Scalar.WInterval

namespace Crab
namespace WDom
open XDom Lin

/-- `wrapped_interval<z_number>` as the value parameter of `separate_domain`
    (`operator&&` of the class is the meet).
    `beq` is what `std::equal_to<Value>` answers when the Patricia tree compares a new value with
    the stored one (to keep the old node): `operator==` = `*this <= x && x <= *this`.  Both values
    belong to the same variable, so they are reduced intervals of one width, neither top nor
    bottom (top is never stored), and on such values `==` holds exactly when start and end
    coincide: the model uses the identity of the two objects.  (With `WInt.eq` in this field the
    model gives the same answers on every history of the harness.) -/
def wintLattice : Lattice WInt :=
  { top := WInt.top, bottom := WInt.bottom, isTop := WInt.isTop, isBottom := fun x => x.isBottom,
    leq := WInt.leq, join := WInt.join, meet := WInt.meet, widen := WInt.widen,
    narrow := WInt.meet, beq := fun x y => decide (x = y) }

local notation "WL" => wintLattice

abbrev Env := XDom.Env WInt
/-- declared bit-width of every variable -/
abbrev Ty := Var → Nat

/-- the `switch` of `apply(arith_operation_t, x, y, z|k)` -/
def arithEval (op : ArithOp) (yi zi : WInt) : Option WInt :=
  match op with
  | .add => some (WInt.add yi zi)
  | .sub => some (WInt.sub yi zi)
  | .mul => WInt.mul yi zi
  | .sdiv => WInt.sdiv yi zi
  | .udiv => WInt.udiv yi zi
  | .srem => some (WInt.defaultImpl yi zi)
  | .urem => some (WInt.defaultImpl yi zi)

/-- the `switch` of `apply(bitwise_operation_t, x, y, z|k)` -/
def bitEval (op : BitOp) (yi zi : WInt) : Option WInt :=
  match op with
  | .and => some (WInt.defaultImpl yi zi)
  | .or => some (WInt.defaultImpl yi zi)
  | .xor => some (WInt.defaultImpl yi zi)
  | .shl => WInt.shl yi zi
  | .lshr => WInt.lshr yi zi
  | .ashr => WInt.ashr yi zi

/-- `int_conv_operation_t` -/
inductive CastOp where
  | trunc | sext | zext
  deriving DecidableEq, Repr, Inhabited

namespace Env

def top : Env := XDom.Env.top
def bot : Env := XDom.Env.bot
/-- `_env.at(v)` -/
def get (e : Env) (x : Var) : WInt := XDom.Env.get WL e x
/-- `_env.set(v, i)` -/
def set (e : Env) (x : Var) (i : WInt) : Env := XDom.Env.set WL e x i

/-- the loop of `eval_expr`: `r += c * _env.at(v)` -/
def evalLoop (e : Env) (w : Nat) : List (Var × Int) → WInt → Option WInt
  | [], r => some r
  | (v, c) :: rest, r =>
    match WInt.ofZ c w with
    | none => none
    | some ci =>
      match WInt.mul ci (e.get v) with
      | none => none
      | some p => evalLoop e w rest (WInt.add r p)

/-- `eval_expr(expr, width)` -/
def evalExpr (e : Env) (ex : Expr) (w : Nat) : Option WInt :=
  if w = 0 then some WInt.top
  else match WInt.ofZ ex.cst w with
    | none => none
    | some r => evalLoop e w ex.terms r

/-- `assign(x, e)` -/
def assign (wd : Ty) (e : Env) (x : Var) (ex : Expr) : Option Env :=
  match getVariable ex with
  | some v => some (e.set x (e.get v))
  | none =>
    match e.evalExpr ex (wd x) with
    | none => none
    | some r => some (e.set x r)

/-- `weak_assign(x, e)` -/
def weakAssign (wd : Ty) (e : Env) (x : Var) (ex : Expr) : Option Env :=
  match getVariable ex with
  | some v => some (XDom.Env.joinKey WL e x (e.get v))
  | none =>
    match e.evalExpr ex (wd x) with
    | none => none
    | some r => some (XDom.Env.joinKey WL e x r)

/-- `apply(op, x, y, z)` -/
def applyVar (e : Env) (op : ArithOp) (x y z : Var) : Option Env :=
  match arithEval op (e.get y) (e.get z) with
  | none => none
  | some xi => some (e.set x xi)

/-- `apply(op, x, y, k)`: the constant is `mk_winterval(k, bitwidth(x))` -/
def applyCst (wd : Ty) (e : Env) (op : ArithOp) (x y : Var) (k : Int) : Option Env :=
  match WInt.ofZ k (wd x) with
  | none => none
  | some zi =>
    match arithEval op (e.get y) zi with
    | none => none
    | some xi => some (e.set x xi)

def applyBitVar (e : Env) (op : BitOp) (x y z : Var) : Option Env :=
  match bitEval op (e.get y) (e.get z) with
  | none => none
  | some xi => some (e.set x xi)

def applyBitCst (wd : Ty) (e : Env) (op : BitOp) (x y : Var) (k : Int) : Option Env :=
  match WInt.ofZ k (wd x) with
  | none => none
  | some zi =>
    match bitEval op (e.get y) zi with
    | none => none
    | some xi => some (e.set x xi)

/-- the value `dst_i` that `apply(int_conv_operation_t, dst, src)` stores.
    `OP_TRUNC`: the result of `src_i.Trunc(bits_to_keep)` is assigned to a second, inner `dst_i`;
    the outer one keeps the value of the default constructor (top). -/
def castVal (wd : Ty) (op : CastOp) (dst src : Var) (srcI : WInt) : Option WInt :=
  if srcI.isBottom || srcI.isTop then some srcI
  else match op with
    | .zext => if wd dst < wd src then none else WInt.zext srcI (wd dst - wd src)
    | .sext => if wd dst < wd src then none else WInt.sext srcI (wd dst - wd src)
    | .trunc =>
      if wd src < wd dst then none
      else match WInt.trunc srcI (wd dst) with
        | none => none
        | some _ => some WInt.top

/-- `apply(int_conv_operation_t op, dst, src)` -/
def cast (wd : Ty) (e : Env) (op : CastOp) (dst src : Var) : Option Env :=
  match castVal wd op dst src (e.get src) with
  | none => none
  | some d => some (e.set dst d)

/-- `set(v, wrapped_interval_t i)` -/
def setW (e : Env) (x : Var) (i : WInt) : Env := e.set x i

/-- `set(v, number_t n)` -/
def setN (wd : Ty) (e : Env) (x : Var) (n : Int) : Option Env :=
  match WInt.ofZ n (wd x) with
  | none => none
  | some i => some (e.set x i)

/-- `set(v, interval_t i)` for a non-bottom interval given by its bounds (`none` = infinite) -/
def setI (wd : Ty) (e : Env) (x : Var) (lb ub : Option Int) : Option Env :=
  match lb, ub with
  | some l, some u =>
    match WInt.ofZ2 l u (wd x) with
    | none => none
    | some i => some (e.set x i)
  | _, _ => some (XDom.Env.forget WL e x)

/-- `at(v)` / `operator[](v)` -/
def atItv (e : Env) (x : Var) : Option Itv := WInt.toInterval (e.get x)

end Env

/-! ### `linear_interval_solver` over wrapped intervals -/

/-- `m_refined_variables.insert(v)` (a `std::set`: sorted, no duplicates) -/
def insertSet : List Var → Var → List Var
  | [], v => [v]
  | w :: rest, v => if v = w then w :: rest else if v < w then v :: w :: rest else w :: insertSet rest v

/-- the mutable state of the solver during `run` -/
structure SolverSt where
  env : Env
  refined : List Var
  ops : Nat

/-- `refine(v, i, env)`; the Boolean is "bottom found" -/
def refine (st : SolverSt) (v : Var) (i : WInt) : Bool × SolverSt :=
  let old := st.env.get v
  let new := WInt.meet old i
  if new.isBottom then (true, st)
  else if !(WInt.eq old new) then
    (false, ⟨st.env.set v new, insertSet st.refined v, st.ops + 1⟩)
  else (false, st)

/-- the loop of `compute_residual(cst, pivot, env)` with its exit on top; returns the residual
    and the updated `m_op_count` -/
def residualLoop (env : Env) (w : Nat) (pivot : Var) : List (Var × Int) → WInt → Nat → Option (WInt × Nat)
  | [], r, n => some (r, n)
  | (v, c) :: rest, r, n =>
    if v = pivot then residualLoop env w pivot rest r n
    else
      match WInt.ofZ c w with
      | none => none
      | some ci =>
        match WInt.mul ci (env.get v) with
        | none => none
        | some p =>
          let r' := WInt.sub r p
          if r'.isTop then some (r', n + 1) else residualLoop env w pivot rest r' (n + 1)

/-- `compute_residual`: everything at the width of the pivot -/
def computeResidual (wd : Ty) (c : Cst) (pivot : Var) (env : Env) (ops : Nat) : Option (WInt × Nat) :=
  match WInt.ofZ c.constant (wd pivot) with
  | none => none
  | some r0 => residualLoop env (wd pivot) pivot c.expr.terms r0 ops

/-- `rhs = res / ic` (signed division) unless the residual is top -/
def rhsOf (w : Nat) (res : WInt) (coef : Int) : Option WInt :=
  if res.isTop then some WInt.top
  else match WInt.ofZ coef w with
    | none => none
    | some ic => WInt.sdiv res ic

/-- the disequation case of `propagate` for one pivot -/
def propagateNeq (w : Nat) (st : SolverSt) (pivot : Var) (coef : Int) (res rhs : WInt) :
    Option (Bool × SolverSt) :=
  match WInt.ofZ coef w with
  | none => none
  | some ic =>
    match WInt.mul rhs ic with
    | none => none
    | some prod =>
      if !(WInt.eq prod res) then some (false, st)
      else
        let old := st.env.get pivot
        let new := WInt.trim old rhs
        if new.isBottom then some (true, st)
        else if !(WInt.eq old new) then
          some (false, ⟨st.env.set pivot new, insertSet st.refined pivot, st.ops + 1⟩)
        else some (false, ⟨st.env, st.refined, st.ops + 1⟩)

/-- body of the loop of `propagate` for the term `coef * pivot` -/
def propagateTerm (wd : Ty) (c : Cst) (st : SolverSt) (pivot : Var) (coef : Int) : Option (Bool × SolverSt) :=
  match computeResidual wd c pivot st.env st.ops with
  | none => none
  | some (res, n) =>
    let st : SolverSt := ⟨st.env, st.refined, n⟩
    match rhsOf (wd pivot) res coef with
    | none => none
    | some rhs =>
      match c.kind with
      | .eq => some (refine st pivot rhs)
      | .leq =>
        if coef > 0 then some (refine st pivot (rhs.lowerHalfLine true))
        else some (refine st pivot (rhs.upperHalfLine true))
      | .lt => some (false, st)
      | .neq => propagateNeq (wd pivot) st pivot coef res rhs

def propagateLoop (wd : Ty) (c : Cst) : List (Var × Int) → SolverSt → Option (Bool × SolverSt)
  | [], st => some (false, st)
  | (v, k) :: rest, st =>
    match propagateTerm wd c st v k with
    | none => none
    | some (true, st') => some (true, st')
    | some (false, st') => propagateLoop wd c rest st'

/-- `propagate(cst, env)` -/
def propagate (wd : Ty) (c : Cst) (st : SolverSt) : Option (Bool × SolverSt) :=
  propagateLoop wd c c.expr.terms st

def propagateAll (wd : Ty) : List Cst → SolverSt → Option (Bool × SolverSt)
  | [], st => some (false, st)
  | c :: rest, st =>
    match propagate wd c st with
    | none => none
    | some (true, st') => some (true, st')
    | some (false, st') => propagateAll wd rest st'

/-- `solve_small_system`: `fuel` = further cycles allowed after this one -/
def solveSmallLoop (wd : Ty) (tbl : List Cst) : Nat → SolverSt → Option (Bool × SolverSt)
  | fuel, st =>
    match propagateAll wd tbl ⟨st.env, [], st.ops⟩ with
    | none => none
    | some (true, st') => some (true, st')
    | some (false, st') =>
      match fuel with
      | 0 => some (false, st')
      | fuel' + 1 => if !st'.refined.isEmpty then solveSmallLoop wd tbl fuel' st' else some (false, st')

/-- `m_trigger_table[v]` as the sub-table (in index order) of the constraints mentioning `v` -/
def trigger (tbl : List Cst) (v : Var) : List Cst := tbl.filter (fun c => c.expr.variables.contains v)

/-- the `do … while (!refined.empty() && m_op_count <= m_max_op)` of `solve_large_system` -/
def solveLargeLoop (wd : Ty) (tbl : List Cst) (maxOp : Nat) : Nat → SolverSt → Option (Bool × SolverSt)
  | fuel, st =>
    match propagateAll wd (st.refined.flatMap (trigger tbl)) ⟨st.env, [], st.ops⟩ with
    | none => none
    | some (true, st') => some (true, st')
    | some (false, st') =>
      match fuel with
      | 0 => some (false, st')
      | fuel' + 1 =>
        if !st'.refined.isEmpty && decide (st'.ops ≤ maxOp) then solveLargeLoop wd tbl maxOp fuel' st'
        else some (false, st')

/-- `solve_large_system` -/
def solveLarge (wd : Ty) (tbl : List Cst) (maxOp : Nat) (st : SolverSt) : Option (Bool × SolverSt) :=
  match propagateAll wd tbl ⟨st.env, [], 0⟩ with
  | none => none
  | some (true, st') => some (true, st')
  | some (false, st') => solveLargeLoop wd tbl maxOp (maxOp + 1) st'

/-- result of the constructor: `m_is_contradiction`, `m_cst_table`, `op_per_cycle` -/
structure Prep where
  contradiction : Bool
  tbl : List Cst
  opc : Nat

/-- the loop of the constructor of the solver -/
def prepLoop : List Cst → List Cst → Nat → Prep
  | [], tbl, opc => ⟨false, tbl, opc⟩
  | c :: rest, tbl, opc =>
    if c.isContradiction then ⟨true, tbl, opc⟩
    else if c.isTautology then prepLoop rest tbl opc
    else if c.kind = .lt then
      let c1 : Cst := ⟨c.expr, .leq⟩
      let c2 : Cst := ⟨c.expr, .neq⟩
      let sz := c1.expr.size + c2.expr.size
      prepLoop rest (tbl ++ [c1, c2]) (opc + sz * sz)
    else prepLoop rest (tbl ++ [c]) (opc + c.expr.size * c.expr.size)

/-- the template parameter `max_reduction_cycles` (default) -/
def maxReductionCycles : Nat := 10

/-- constructor + `run(env)` -/
def solverRun (wd : Ty) (csts : Sys) (env : Env) : Option Env :=
  let p := prepLoop csts [] 0
  if p.contradiction then some Env.bot
  else
    let large := decide (p.tbl.length > 3) || decide (p.opc > 27)
    let r := if large then solveLarge wd p.tbl (p.opc * maxReductionCycles) ⟨env, [], 0⟩
             else solveSmallLoop wd p.tbl maxReductionCycles ⟨env, [], 0⟩
    match r with
    | none => none
    | some (true, _) => some Env.bot
    | some (false, st) => some st.env

/-- `linear_expression::is_well_typed()`: every variable has the type of the first one -/
def wellTyped (wd : Ty) (c : Cst) : Bool :=
  match c.expr.terms with
  | [] => true
  | (v, _) :: rest => rest.all (fun p => wd p.1 == wd v)

namespace Env

/-- `operator+=(csts)`: the well-typed constraints are given to the solver -/
def add (wd : Ty) (e : Env) (csts : Sys) : Option Env :=
  let wt := csts.foldl (fun s c => if wellTyped wd c then Sys.addCst s c else s) []
  if e.isBot then some e else solverRun wd wt e

/-- `entails(cst)` -/
def entails (wd : Ty) (e : Env) (c : Cst) : Option Bool :=
  if !wellTyped wd c then some false
  else match add wd e [c.negate] with
    | none => none
    | some r => some r.isBot

/-- the two constraints exported for one binding that does not cross the signed limit -/
def bindingCsts (p : Var × WInt) : Option (List Cst) :=
  if p.2.isTop then some []
  else match WInt.crossSignedLimit? p.2 with
    | none => none
    | some true => some []
    | some false =>
      match p.2.start.toSigned, p.2.stop.toSigned with
      | some lb, some ub =>
        some [⟨(Expr.term (-1) p.1).addNum lb, .leq⟩, ⟨(Expr.var p.1).subNum ub, .leq⟩]
      | _, _ => none

/-- `to_linear_constraint_system()` (compared as a set) -/
def toCsts (e : Env) : Option Sys :=
  if e.isBot then some (Sys.addCst [] Cst.getFalse)
  else (XDom.Env.bindings e).foldl (fun s p =>
    match s, bindingCsts p with
    | some s, some cs => some (cs.foldl Sys.addCst s)
    | _, _ => none) (some [])

end Env
end WDom
end Crab
