/-
  Concrete semantics of the region / reference statements of CrabIR (property C15), following the
  region-based memory model the region domain cites ("A Region-based Memory Model for Abstract
  Interpretation", VSTTE'21): memory is a set of disjoint regions, a region holds cells of one
  type, a reference points into a region.

  * a reference value is `null` or `(region, allocation site, address)`: the region variable it was
    created for, the `ref_make` that allocated its block, its address;
  * a region variable denotes a finite map address → cell, plus the set of addresses through which
    it may legally be accessed (`members`: a reference is added when `ref_make` / `ref_gep` /
    `select_ref` creates it for that region; `region_copy` / `region_cast` copy the whole region
    value, so the references of the source are valid for the destination as well);
  * every `ref_make` allocates a fresh block `[base, base+size)`, `base = 1000·(site+1)`;
    pointer arithmetic must stay inside `[base, base+size]`, accesses inside `[base, base+size)`;
  * every step returns `Option State`; `none` = this execution has no successor that the property
    talks about (the witness is dropped, not counted): load from a never-written cell, load/store
    through a null / freed / out-of-block reference, use of a reference with a region it does not
    belong to, pointer arithmetic on null or out of the block, ill-typed cell access, double free,
    non-positive allocation size;
  * tags (`add_tag` intrinsic) are a taint carried by values: `add_tag(rgn, ref, T)` adds T to the
    cell `ref` points to, a load copies the cell's tags to the loaded variable, a store replaces
    the cell's tags by the stored variable's (constants carry none), assignments union the tags
    of the variables read.

  Region variables are numbered; `rkind` fixes the static type of each index as used by the
  harness (`g0 g1 g2` integer regions, `h0 h1` reference regions, everything else unknown type).
  Everything is total and computable (used by the driver `Driver/RgnH.lean`).
-/
namespace Crab
namespace Rgn

structure Ptr where
  rgn : Nat      -- region variable the reference was created for
  site : Nat     -- base allocation site (the ref_make that allocated the block)
  addr : Int
  deriving DecidableEq, Repr, Inhabited

inductive RefVal where
  | null
  | ptr (p : Ptr)
  deriving DecidableEq, Repr, Inhabited

inductive CellVal where
  | int (v : Int)
  | ref (r : RefVal)
  deriving DecidableEq, Repr, Inhabited

/-- how the base domain of the region domain sees a reference: its address, null = 0 -/
def RefVal.toInt : RefVal → Int
  | .null => 0
  | .ptr p => p.addr

/-- how the ghost variable of a region sees a cell value -/
def CellVal.toInt : CellVal → Int
  | .int v => v
  | .ref r => r.toInt

structure Cell where
  val : Option CellVal    -- `none`: the cell carries tags but was never written
  tags : List Nat
  deriving DecidableEq, Repr, Inhabited

structure Mem where
  cells : List (Int × Cell)   -- finite map, first binding wins
  members : List Int          -- addresses of the references created for this region (no duplicates)
  deriving DecidableEq, Repr, Inhabited

def Mem.empty : Mem := ⟨[], []⟩

def Mem.cell (m : Mem) (a : Int) : Option Cell := m.cells.lookup a

/-- the value stored at address `a`, if the cell was written -/
def Mem.read (m : Mem) (a : Int) : Option CellVal :=
  match m.cell a with
  | some c => c.val
  | none => none

def Mem.tagsAt (m : Mem) (a : Int) : List Nat :=
  match m.cell a with
  | some c => c.tags
  | none => []

def Mem.write (m : Mem) (a : Int) (v : CellVal) (tags : List Nat) : Mem :=
  { m with cells := (a, ⟨some v, tags⟩) :: m.cells }

def Mem.addTag (m : Mem) (a : Int) (t : Nat) : Mem :=
  { m with cells := (a, ⟨m.read a, t :: m.tagsAt a⟩) :: m.cells }

def Mem.addMember (m : Mem) (a : Int) : Mem :=
  if a ∈ m.members then m else { m with members := a :: m.members }

inductive RKind where | int | ref | unk
  deriving DecidableEq, Repr

/-- static type of the region variables of the harness -/
def rkind (g : Nat) : RKind := if g < 3 then .int else if g < 5 then .ref else .unk

structure State where
  ints : Nat → Int
  itags : Nat → List Nat
  cond : Bool                       -- the boolean variable b0
  refs : Nat → RefVal
  rtags : Nat → List Nat
  mems : Nat → Mem
  blocks : List (Nat × Int × Int)   -- allocation site ↦ (base, size)
  freed : List Nat                  -- freed allocation sites

def upd {α : Type} (f : Nat → α) (i : Nat) (v : α) : Nat → α := fun j => if j = i then v else f j

namespace State

def setInt (σ : State) (x : Nat) (v : Int) (tags : List Nat) : State :=
  { σ with ints := upd σ.ints x v, itags := upd σ.itags x tags }
def setRef (σ : State) (r : Nat) (v : RefVal) (tags : List Nat) : State :=
  { σ with refs := upd σ.refs r v, rtags := upd σ.rtags r tags }
def setMem (σ : State) (g : Nat) (m : Mem) : State := { σ with mems := upd σ.mems g m }

def blockOf (σ : State) (site : Nat) : Option (Int × Int) := σ.blocks.lookup site

/-- `base ≤ a ≤ base + size` (pointer arithmetic may go one past the end) -/
def inRange (σ : State) (site : Nat) (a : Int) : Bool :=
  match σ.blockOf site with
  | some (b, sz) => decide (b ≤ a) && decide (a ≤ b + sz)
  | none => false

/-- `base ≤ a < base + size` -/
def inBlock (σ : State) (site : Nat) (a : Int) : Bool :=
  match σ.blockOf site with
  | some (b, sz) => decide (b ≤ a) && decide (a < b + sz)
  | none => false

/-- the reference `r` used with region `g`: must be non-null and created for `g` -/
def useRef (σ : State) (r g : Nat) : Option Ptr :=
  match σ.refs r with
  | .null => none
  | .ptr p => if p.addr ∈ (σ.mems g).members then some p else none

/-- the reference `r` dereferenced in region `g`: moreover live and inside its block -/
def deref (σ : State) (r g : Nat) : Option Ptr :=
  match σ.useRef r g with
  | none => none
  | some p => if p.site ∉ σ.freed ∧ σ.inBlock p.site p.addr = true then some p else none

/-- `region_init(g)` -/
def regionInit (σ : State) (g : Nat) : Option State := some (σ.setMem g Mem.empty)

/-- `ref_make(r, g, size, site)` : a fresh block at `1000·(site+1)`; the site must be fresh -/
def refMake (σ : State) (r g : Nat) (size : Int) (site : Nat) : Option State :=
  if size ≤ 0 ∨ 999 < size ∨ (σ.blockOf site).isSome then none else
  let base : Int := 1000 * ((site : Int) + 1)
  let σ1 : State := { σ with blocks := (site, base, size) :: σ.blocks }
  some ((σ1.setRef r (.ptr ⟨g, site, base⟩) []).setMem g ((σ.mems g).addMember base))

/-- `ref_gep(r1, g1, r2, g2, off)` with the offset already evaluated -/
def refGep (σ : State) (r1 g1 r2 g2 : Nat) (off : Int) : Option State :=
  match σ.useRef r1 g1 with
  | none => none
  | some p =>
    let a := p.addr + off
    if σ.inRange p.site a = true ∧ 0 < a then   -- blocks start at 1000: `0 < a` never fails, it makes non-nullness local
      some ((σ.setRef r2 (.ptr ⟨g2, p.site, a⟩) (σ.rtags r1)).setMem g2 ((σ.mems g2).addMember a))
    else none

/-- is a cell value of the type region `g` holds? (unknown regions hold anything) -/
def typeOk (g : Nat) (v : CellVal) : Bool :=
  match rkind g, v with
  | .int, .int _ => true
  | .ref, .ref _ => true
  | .unk, _ => true
  | _, _ => false

/-- `ref_store(r, g, v)` with the stored value (and its tags) already evaluated -/
def refStore (σ : State) (r g : Nat) (v : CellVal) (tags : List Nat) : Option State :=
  match σ.deref r g with
  | none => none
  | some p => if typeOk g v = true then some (σ.setMem g ((σ.mems g).write p.addr v tags)) else none

/-- `ref_load(r, g, x)` into an integer variable -/
def refLoadInt (σ : State) (r g x : Nat) : Option State :=
  match σ.deref r g with
  | none => none
  | some p =>
    match (σ.mems g).read p.addr with
    | some (.int v) => some (σ.setInt x v ((σ.mems g).tagsAt p.addr))
    | _ => none

/-- `ref_load(r, g, r')` into a reference variable -/
def refLoadRef (σ : State) (r g r' : Nat) : Option State :=
  match σ.deref r g with
  | none => none
  | some p =>
    match (σ.mems g).read p.addr with
    | some (.ref v) => some (σ.setRef r' v ((σ.mems g).tagsAt p.addr))
    | _ => none

/-- `region_copy(lhs, rhs)` and `region_cast(src, dst)` : the destination denotes the same region value -/
def regionCopy (σ : State) (lhs rhs : Nat) : Option State := some (σ.setMem lhs (σ.mems rhs))

/-- `ref_free(g, r)` : `free(NULL)` is a no-op, a double free has no successor -/
def refFree (σ : State) (g r : Nat) : Option State :=
  match σ.refs r with
  | .null => some σ
  | .ptr _ =>
    match σ.useRef r g with
    | none => none
    | some p => if p.site ∈ σ.freed then none else some { σ with freed := p.site :: σ.freed }

/-- equality of references = equality of addresses (null = 0) -/
def refEq (σ : State) (r1 r2 : Nat) : Bool := (σ.refs r1).toInt == (σ.refs r2).toInt
def isNull (σ : State) (r : Nat) : Bool := (σ.refs r).toInt == 0

def assumeB (σ : State) (b : Bool) : Option State := if b then some σ else none

/-- `select_ref(r, g, b0, r1, g1, r2, g2)`; `none` for a null operand -/
def selectRef (σ : State) (r g : Nat) (a1 : Option (Nat × Nat)) (a2 : Option (Nat × Nat)) : Option State :=
  match (if σ.cond then a1 else a2) with
  | none => some (σ.setRef r .null [])
  | some (ri, gi) => σ.refGep ri gi r g 0

/-- `add_tag(g, r, t)` -/
def addTag (σ : State) (g r : Nat) (t : Nat) : Option State :=
  match σ.useRef r g with
  | none => none
  | some p => some (σ.setMem g ((σ.mems g).addTag p.addr t))

end State

end Rgn
end Crab
