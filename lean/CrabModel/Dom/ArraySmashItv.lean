import CrabModel.Dom.ArraySmash
import CrabModel.Dom.IntervalDomain

/-
  EXACT model of `array_smashing<interval_domain<z_number, varname_t>>`
  (include/crab/domains/array_smashing.hpp over include/crab/domains/intervals.hpp), the domain
  "smash-intervals" of harness/h_arr.cpp (-DVDOM=1).

  `CrabModel/Dom/ArraySmash.lean` models the functor over a base domain given by laws only.  Here
  every member of the class is transcribed branch by branch over the executable model `IDom.Env`
  of the interval domain (CrabModel/Dom/IntervalDomain.lean):

   * `m_base_dom`            : `IDom.Env`.  The program integers, the summary `a.smashed` of an array
                               (`mk_scalar_var`: the NAME depends on the array only, the element size
                               goes into the type, and `variable_t` compares indices: one base variable
                               per array) and the temporary `a.smashed.copy` of `array_load` are
                               ordinary variables of that environment (`enc`);
   * `m_last_access_env`     : `SzEnv` = `separate_domain<variable_t, constant<uint64_t>>` with its
                               bottom flag (`set` does nothing on bottom, join/widening of a bottom
                               operand returns the other operand, a meet of two different constants
                               is bottom), `top` never stored;
   * what the generic model leaves abstract: `equal_size` / `get_size` on that environment, the
     early return of join / widening when the BASE of an operand is bottom,
     `array_assign` with an unknown size of the right-hand side (`operator-=(lhs)` does nothing when
     the size of lhs is unknown too), meet (`operator&`), `set_to_top`, `operator+=` with a
     syntactic constraint system (lowering of disequations + `linear_interval_solver`), the
     expressions exactly as h_arr.cpp builds them (`e = e + linear_expression(k, v)`).

  `check_and_get_elem_size(elem_size)`: the harness passes a constant expression; the interval of
  a constant expression is a singleton whatever `m_base_dom` is, so the call returns the constant
  when it is `> 0` and raises CRAB_ERROR otherwise (`checkElemSize`); the operations below take
  the returned size.

  `separate_domain::find` asserts `!is_bottom()`: `equal_size` on a bottom size environment is
  outside the contract (release builds find nothing in the emptied tree: modelled so).  A bottom
  size environment needs a meet of two different sizes of one array or `set_to_bottom`.
-/
namespace Crab
namespace Dom
namespace SmashItv
open Crab.Dom.Arr

abbrev SLin := Smash.Lin

/-- index of a variable of the base environment (`variable_t::index()` order is irrelevant for a
    non-relational domain except inside linear expressions, which only contain program integers:
    `enc` is increasing on them) -/
def enc : Smash.Var → Crab.Lin.Var
  | .prog n => 3 * n
  | .smashed a => 3 * a + 1
  | .copy a => 3 * a + 2

/-- `parse_lin` of h_arr.cpp: `e(c); e = e + z_lin_exp_t(k, v)` for every term (the constructor
    stores no zero coefficient, `operator+` keeps the map sorted and erases zero sums) -/
def mkExpr (l : SLin) : Crab.Lin.Expr :=
  l.ts.foldl (fun acc t => Crab.Lin.Expr.add acc (Crab.Lin.Expr.term t.1 (enc (.prog t.2)))) (Crab.Lin.Expr.const l.c)

/-- a linear constraint of the request: `e ⋈ 0` -/
structure XCst where
  kind : Crab.Lin.Kind
  e : SLin

def XCst.holds (c : XCst) (σ : Nat → Int) : Prop :=
  match c.kind with
  | .eq => c.e.eval σ = 0
  | .neq => c.e.eval σ ≠ 0
  | .leq => c.e.eval σ ≤ 0
  | .lt => c.e.eval σ < 0

/-- `sys += parse_cst(c)` for every constraint of the request -/
def mkSys (cs : List XCst) : Crab.Lin.Sys :=
  cs.foldl (fun s c => Crab.Lin.Sys.addCst s ⟨mkExpr c.e, c.kind⟩) []

/-- `check_and_get_elem_size` on a constant expression; `none` = CRAB_ERROR -/
def checkElemSize (n : Int) : Option Nat := if 0 < n then some n.toNat else none

/-! ### `m_last_access_env : separate_domain<variable_t, constant<uint64_t>>` -/

/-- the bindings `array ↦ constant`; neither `top` nor `bottom` of `constant<uint64_t>` is ever stored -/
abbrev SzMap := List (Nat × Nat)

def SzMap.find : SzMap → Nat → Option Nat
  | [], _ => none
  | (k, v) :: rest, a => if a = k then some v else SzMap.find rest a

def SzMap.remove (m : SzMap) (a : Nat) : SzMap := m.filter (fun p => p.1 != a)

/-- `merge_with` seen from the keys: the binding of key `k` in the result is `f k` -/
def SzMap.build (ks : List Nat) (f : Nat → Option Nat) : SzMap :=
  ks.filterMap (fun k => match f k with
    | some v => some (k, v)
    | none => none)

def SzMap.keys (m : SzMap) : List Nat := m.map (·.1)

structure SzEnv where
  bottom : Bool
  m : SzMap
  deriving DecidableEq, Repr, Inhabited

namespace SzEnv

/-- `separate_domain::top()` -/
def top : SzEnv := ⟨false, []⟩
/-- `separate_domain::bottom()` / `set_to_bottom()` (the tree is emptied) -/
def bot : SzEnv := ⟨true, []⟩

/-- `set_size(a, sz)`: `m_last_access_env.set(a, constant(sz))` — nothing on bottom; the value is
    a constant (neither bottom nor top): `_tree.insert` -/
def set (e : SzEnv) (a sz : Nat) : SzEnv :=
  if e.bottom then e else ⟨false, (a, sz) :: e.m.remove a⟩

/-- `m_last_access_env -= a` -/
def remove (e : SzEnv) (a : Nat) : SzEnv := if e.bottom then e else ⟨false, e.m.remove a⟩

/-- `equal_size(a, sz)`: `find(a)` is a constant equal to `sz` -/
def equalSize (e : SzEnv) (a sz : Nat) : Bool :=
  match e.m.find a with
  | some k => k == sz
  | none => false

/-- `get_size(a)` = `at(a)`, reduced to what the callers test: `some k` iff `is_constant()`
    (`at` is `constant::bottom()` on a bottom environment, `top()` on an unbound key) -/
def constSize (e : SzEnv) (a : Nat) : Option Nat := if e.bottom then none else e.m.find a

/-- `operator|` and `operator||` (`constant::operator||` is `operator|`): bottom operand → the
    other one; otherwise `merge_with` of an absorbing operation: a key bound on both sides to the
    same constant survives, `c1 | c2 = top` for different constants is not stored -/
def join (a b : SzEnv) : SzEnv :=
  if a.bottom then b else if b.bottom then a
  else ⟨false, SzMap.build (SzMap.keys a.m) (fun k =>
    match a.m.find k, b.m.find k with
    | some v1, some v2 => if v1 = v2 then some v1 else none
    | _, _ => none)⟩

/-- `operator&`: bottom if an operand is bottom or if some key is bound to two different constants
    (`c1 & c2 = bottom`); otherwise the bindings of both sides -/
def meet (a b : SzEnv) : SzEnv :=
  if a.bottom || b.bottom then bot
  else if (SzMap.keys a.m).any (fun k => match a.m.find k, b.m.find k with
                                 | some v1, some v2 => v1 != v2
                                 | _, _ => false) then bot
  else ⟨false, SzMap.build ((SzMap.keys a.m) ++ (SzMap.keys b.m)) (fun k =>
    match a.m.find k with
    | some v => some v
    | none => b.m.find k)⟩

end SzEnv

/-! ### the domain -/

structure St where
  sizes : SzEnv      -- m_last_access_env
  base : IDom.Env    -- m_base_dom
  deriving DecidableEq, Repr, Inhabited

namespace St
open Smash (Var)

/-- `array_smashing()` / `make_top()` / `set_to_top()` -/
def top : St := ⟨SzEnv.top, IDom.Env.top⟩

/-- `is_bottom()`: the base domain only -/
def isBottom (st : St) : Bool := st.base.isBottom

/-- `at(v)` / `operator[](v)` of a program integer -/
def atVar (st : St) (x : Nat) : Itv := st.base.get (enc (.prog x))

/-- `assign(x, e)` -/
def assign (st : St) (x : Nat) (e : SLin) : St := ⟨st.sizes, st.base.assign (enc (.prog x)) (mkExpr e)⟩

/-- `operator+=(csts)` -/
def assume (st : St) (cs : List XCst) : St := ⟨st.sizes, st.base.add (mkSys cs)⟩

/-- `operator-=(x)` for a variable that is not an array -/
def forget (st : St) (x : Nat) : St := ⟨st.sizes, st.base.forget (enc (.prog x))⟩

/-- `array_init(a, elem_size, lb, ub, val)`: `set_size(a, size); m_base_dom.assign(scalar_var, val)`
    (the bounds are ignored) -/
def arrayInit (st : St) (size a : Nat) (val : SLin) : St :=
  ⟨st.sizes.set a size, st.base.assign (enc (.smashed a)) (mkExpr val)⟩

/-- `array_load(lhs, a, elem_size, i)`: if `equal_size(a, size)` then
    `expand(scalar_var, copy_scalar_var); assign(lhs, copy_scalar_var); -= copy_scalar_var`
    else `-= lhs` (the index is ignored) -/
def arrayLoad (st : St) (size x a : Nat) : St :=
  if st.sizes.equalSize a size then
    ⟨st.sizes, (((st.base.expand (enc (.smashed a)) (enc (.copy a))).assign (enc (.prog x))
                  (Crab.Lin.Expr.var (enc (.copy a)))).forget (enc (.copy a)))⟩
  else ⟨st.sizes, st.base.forget (enc (.prog x))⟩

/-- `array_store(a, elem_size, i, val, is_strong_update)`: `if (is_strong_update) set_size(a, size);
    if (equal_size(a, size)) is_strong_update ? assign(scalar_var, val) : weak_assign(scalar_var, val)` -/
def arrayStore (st : St) (size a : Nat) (val : SLin) (strong : Bool) : St :=
  let sizes' := if strong then st.sizes.set a size else st.sizes
  if sizes'.equalSize a size then
    ⟨sizes', if strong then st.base.assign (enc (.smashed a)) (mkExpr val)
             else st.base.weakAssign (enc (.smashed a)) (mkExpr val)⟩
  else ⟨sizes', st.base⟩

/-- `array_store_range(a, elem_size, i, j, val)`: `if (equal_size(a, size)) do_weak_update` -/
def arrayStoreRange (st : St) (size a : Nat) (val : SLin) : St :=
  if st.sizes.equalSize a size then ⟨st.sizes, st.base.weakAssign (enc (.smashed a)) (mkExpr val)⟩ else st

/-- `array_assign(lhs, rhs)`: nothing if `lhs == rhs`; if `get_size(rhs)` is a constant `k`:
    `set_size(lhs, k); m_base_dom -= scalar_lhs; m_base_dom.expand(scalar_rhs, scalar_lhs)`;
    otherwise `this->operator-=(lhs)`, which for an array does something only when the size of
    lhs is a constant: `m_base_dom -= scalar_lhs; m_last_access_env -= lhs` -/
def arrayAssign (st : St) (lhs rhs : Nat) : St :=
  if lhs = rhs then st else
  match st.sizes.constSize rhs with
  | some k => ⟨st.sizes.set lhs k,
               (st.base.forget (enc (.smashed lhs))).expand (enc (.smashed rhs)) (enc (.smashed lhs))⟩
  | none =>
    match st.sizes.constSize lhs with
    | some _ => ⟨st.sizes.remove lhs, st.base.forget (enc (.smashed lhs))⟩
    | none => st

/-- `operator|` (and `operator|=`): an operand whose BASE is bottom is returned / ignored first
    (its size environment is not bottom and would otherwise drop the sizes of the other operand
    while the summaries of that operand survive in the base domain: the defect of the pinned tree,
    repaired by commit 9186671); otherwise both components are joined -/
def join (a b : St) : St :=
  if a.isBottom then b else if b.isBottom then a
  else ⟨SzEnv.join a.sizes b.sizes, IDom.Env.join a.base b.base⟩
/-- `operator||`, same structure -/
def widen (a b : St) : St :=
  if a.isBottom then b else if b.isBottom then a
  else ⟨SzEnv.join a.sizes b.sizes, IDom.Env.widen a.base b.base⟩
/-- `widening_thresholds(other, ts)`, same structure (`constant::widening_thresholds` is `operator|`) -/
def widenTh (ts : IDom.Thresholds) (a b : St) : St :=
  if a.isBottom then b else if b.isBottom then a
  else ⟨SzEnv.join a.sizes b.sizes, IDom.Env.widenTh ts a.base b.base⟩
/-- `operator&` -/
def meet (a b : St) : St := ⟨SzEnv.meet a.sizes b.sizes, IDom.Env.meet a.base b.base⟩

end St

/-! ### the operation language of h_arr.cpp -/

/-- one operation of an `arr.hist` request (`range` = `forget` + `assume`; a load from an array
    whose elements do not have the width of the integers = `aLoad` into a temporary, `assign`,
    `forget`; `lcheck` = `aLoad`) -/
inductive XOp where
  | top (d : Nat)
  | copy (d s : Nat)
  | join (d p q : Nat)
  | widen (d p q : Nat)
  | meet (d p q : Nat)
  | assign (d x : Nat) (e : SLin)
  | assume (d : Nat) (cs : List XCst)
  | forget (d x : Nat)
  | aInit (d a : Nat) (lb ub val : SLin)
  | aStore (d a : Nat) (i val : SLin) (strong : Bool)
  | aStoreRange (d a : Nat) (lb ub val : SLin)
  | aLoad (d x a : Nat) (i : SLin)
  | aAssign (d lhs rhs : Nat)

/-- abstract transformer and concrete transition relation of every operation; `esz a` is the
    element size the requests use for array `a` (the value returned by `check_and_get_elem_size`).
    The concrete relations are those of the generic model (`Smash.Op.toStepWith`); `set_to_top`
    abstracts any transition. -/
def XOp.toStep (esz : Nat → Nat) : XOp → Step St CState
  | .top d => .trans d ⟨fun _ => St.top, fun _ _ => True⟩
  | .copy d s => .copy d s
  | .join d p q => .upper d p q St.join
  | .widen d p q => .upper d p q St.widen
  | .meet d p q => .lower d p q St.meet
  | .assign d x e => .trans d ⟨fun st => st.assign x e, fun s s' => s' = s.setVar x (e.eval s.iv)⟩
  | .assume d cs => .trans d ⟨fun st => st.assume cs, fun s s' => (∀ c ∈ cs, c.holds s.iv) ∧ s' = s⟩
  | .forget d x => .trans d ⟨fun st => st.forget x, fun s s' => ∃ v, s' = s.setVar x v⟩
  | .aInit d a lb ub val =>
    .trans d ⟨fun st => st.arrayInit (esz a) a val, fun s s' => cInit (esz a) a lb.eval ub.eval val.eval s = some s'⟩
  | .aStore d a i val strong =>
    .trans d ⟨fun st => st.arrayStore (esz a) a val strong,
              fun s s' => cStore (esz a) a i.eval val.eval s = some s' ∧
                (strong = true → ∀ o, alignedOff (esz a) (i.eval s.iv) = some o → singleCell (s.ar a) o)⟩
  | .aStoreRange d a lb ub val =>
    .trans d ⟨fun st => st.arrayStoreRange (esz a) a val,
              fun s s' => cStoreRange (esz a) a lb.eval ub.eval val.eval s = some s'⟩
  | .aLoad d x a i =>
    .trans d ⟨fun st => st.arrayLoad (esz a) x a, fun s s' => cLoad (esz a) x a i.eval s = some s'⟩
  | .aAssign d lhs rhs =>
    .trans d ⟨fun st => st.arrayAssign lhs rhs, fun s s' => esz lhs = esz rhs ∧ cAssign lhs rhs s = some s'⟩

def toHist (esz : Nat → Nat) (ops : List XOp) : List (Step St CState) := ops.map (XOp.toStep esz)

/-- the slot an operation writes -/
def XOp.dst : XOp → Nat
  | .top d | .copy d _ | .join d _ _ | .widen d _ _ | .meet d _ _ | .assign d _ _ | .assume d _
  | .forget d _ | .aInit d _ _ _ _ | .aStore d _ _ _ _ | .aStoreRange d _ _ _ _ | .aLoad d _ _ _
  | .aAssign d _ _ => d

/-- the value an operation writes into its slot, given the pool (`(o.toStep esz).run p =
    p.set o.dst (o.val esz p)`, `C14.smashitv_run_eq`); the driver keeps the pool in an array -/
def XOp.val (esz : Nat → Nat) (p : Nat → St) : XOp → St
  | .top _ => St.top
  | .copy _ s => p s
  | .join _ a b => St.join (p a) (p b)
  | .widen _ a b => St.widen (p a) (p b)
  | .meet _ a b => St.meet (p a) (p b)
  | .assign d x e => (p d).assign x e
  | .assume d cs => (p d).assume cs
  | .forget d x => (p d).forget x
  | .aInit d a _ _ val => (p d).arrayInit (esz a) a val
  | .aStore d a _ val strong => (p d).arrayStore (esz a) a val strong
  | .aStoreRange d a _ _ val => (p d).arrayStoreRange (esz a) a val
  | .aLoad d x a _ => (p d).arrayLoad (esz a) x a
  | .aAssign d lhs rhs => (p d).arrayAssign lhs rhs

end SmashItv
end Dom
end Crab
