/-
  Model of `crab::domains::constant_domain<z_number, VariableName>`
  (include/crab/domains/constant_domain.hpp), function by function.

   * environment: `separate_domain<variable_t, constant<z_number>>` = `SepDom Cst` with the
     lattice `cstLattice` (CrabModel/Dom/NonRelEnv.lean for the forwarded operations);
   * the scalar operations are the ones of the model `Crab.Cst` of `constant<z_number>`
     (CrabModel/Scalar/Constant.lean);
   * `eval`, `compute_residual`, `propagate`, `solve_constraints` (the constraint solving of the
     class itself), `assign`, `weak_assign`, the two `switch`es of `apply`, `select`,
     `int_cast_domain_traits::apply`, `DEFAULT_ENTAILS`, `at`, `to_linear_constraint_system`.

  No operation of the class can raise CRAB_ERROR except `rename` on vectors of different
  lengths (`XDom.Env.rename`).

  Correspondence: harness/h_cdom.cpp (-DXDOM=1) + Driver/XDomH.lean compare, after every
  operation of random histories, the bottom/top flags, every binding, the exported constraint
  system and the answers of `entails`, `<=`, `at` with this model.
-/
import CrabModel.Dom.NonRelEnv
import CrabModel.Scalar.Constant
import CrabModel.Scalar.Interval

namespace Crab
namespace CDom
open XDom

/-- `constant<z_number>` as the value parameter of `separate_domain` -/
def cstLattice : Lattice Cst :=
  { top := .top, bottom := .bot, isTop := Cst.isTop, isBottom := Cst.isBottom,
    leq := Cst.leq, join := Cst.join, meet := Cst.meet, widen := Cst.widen,
    narrow := Cst.narrow, beq := Cst.beq }

local notation "CL" => cstLattice

abbrev Env := XDom.Env Cst

namespace Env

def top : Env := XDom.Env.top
def bot : Env := XDom.Env.bot
/-- `get_constant(v)` / `m_env.at(v)` -/
def get (e : Env) (x : Lin.Var) : Cst := XDom.Env.get CL e x
/-- `set_constant(v, c)` / `m_env.set(v, c)` -/
def set (e : Env) (x : Lin.Var) (c : Cst) : Env := XDom.Env.set CL e x c

/-- the loop of `eval(expr)` with its exit on top -/
def evalLoop (e : Env) : List (Lin.Var × Int) → Cst → Cst
  | [], r => r
  | (v, c) :: rest, r =>
    let r' := Cst.add r (Cst.mul (.val c) (e.get v))
    if r'.isTop then r' else evalLoop e rest r'

/-- `eval(expr)` -/
def eval (e : Env) (ex : Lin.Expr) : Cst := evalLoop e ex.terms (.val ex.cst)

/-- the loop of `compute_residual(cst, pivot)` with its exit on top -/
def residualLoop (e : Env) (pivot : Lin.Var) : List (Lin.Var × Int) → Cst → Cst
  | [], r => r
  | (v, c) :: rest, r =>
    if v = pivot then residualLoop e pivot rest r
    else
      let r' := Cst.sub r (Cst.mul (.val c) (e.get v))
      if r'.isTop then r' else residualLoop e pivot rest r'

/-- `compute_residual(cst, pivot)` -/
def computeResidual (e : Env) (c : Lin.Cst) (pivot : Lin.Var) : Cst :=
  residualLoop e pivot c.expr.terms (.val c.constant)

/-- the loop of the equality case of `propagate`: for every term `coef * pivot`,
    `new_c = compute_residual(cst, pivot).SDiv(coef)` is met with the value of the pivot -/
def propagateEqLoop (c : Lin.Cst) : List (Lin.Var × Int) → Env → Env
  | [], e => e
  | (pivot, coef) :: rest, e =>
    let newC := Cst.sdiv (e.computeResidual c pivot) (.val coef)
    let e' := if !newC.isTop then e.set pivot (Cst.meet (e.get pivot) newC) else e
    propagateEqLoop c rest e'

/-- the tests of the inequality / strict inequality / disequation case of `propagate` on the
    constant value of the expression -/
def checkCst (k : Lin.Kind) (n : Int) : Bool :=
  match k with
  | .leq => decide (n ≤ 0)
  | .neq => decide (n ≠ 0)
  | .lt => decide (n < 0)
  | .eq => true

/-- `propagate(cst)` -/
def propagate (e : Env) (c : Lin.Cst) : Env :=
  if e.isBot then e
  else if c.kind = .eq then propagateEqLoop c c.expr.terms e
  else match e.eval c.expr with
    | .val n => if checkCst c.kind n then e else bot
    | _ => e

/-- `solve_constraints(csts)` -/
def solve : List Lin.Cst → Env → Env
  | [], e => e
  | c :: rest, e =>
    if e.isBot then e
    else if c.isTautology then solve rest e
    else if c.isContradiction then bot
    else solve rest (e.propagate c)

/-- `operator+=(csts)` -/
def add (e : Env) (csts : Lin.Sys) : Env := solve csts e

/-- `assign(x, e)` -/
def assign (e : Env) (x : Lin.Var) (ex : Lin.Expr) : Env :=
  if e.isBot then e
  else match getVariable ex with
    | some v => e.set x (e.get v)
    | none => e.set x (e.eval ex)

/-- `weak_assign(x, e)` -/
def weakAssign (e : Env) (x : Lin.Var) (ex : Lin.Expr) : Env :=
  if e.isBot then e
  else match getVariable ex with
    | some v => XDom.Env.joinKey CL e x (e.get v)
    | none => XDom.Env.joinKey CL e x (e.eval ex)

end Env

/-- the `switch` of `apply(arith_operation_t, x, y, z|k)` -/
def arithEval (op : ArithOp) (yc zc : Cst) : Cst :=
  match op with
  | .add => Cst.add yc zc
  | .sub => Cst.sub yc zc
  | .mul => Cst.mul yc zc
  | .sdiv => Cst.sdiv yc zc
  | .srem => Cst.srem yc zc
  | .udiv => Cst.udiv yc zc
  | .urem => Cst.urem yc zc

/-- the `switch` of `apply(bitwise_operation_t, x, y, z|k)` -/
def bitEval (op : BitOp) (yc zc : Cst) : Cst :=
  match op with
  | .and => Cst.and yc zc
  | .or => Cst.or yc zc
  | .xor => Cst.xor yc zc
  | .shl => Cst.shl yc zc
  | .lshr => Cst.lshr yc zc
  | .ashr => Cst.ashr yc zc

namespace Env

/-- `apply(op, x, y, z)` with a variable operand -/
def applyVar (e : Env) (op : ArithOp) (x y z : Lin.Var) : Env :=
  if e.isBot then e else e.set x (arithEval op (e.get y) (e.get z))
/-- `apply(op, x, y, k)` with a constant operand -/
def applyCst (e : Env) (op : ArithOp) (x y : Lin.Var) (k : Int) : Env :=
  if e.isBot then e else e.set x (arithEval op (e.get y) (.val k))
def applyBitVar (e : Env) (op : BitOp) (x y z : Lin.Var) : Env :=
  if e.isBot then e else e.set x (bitEval op (e.get y) (e.get z))
def applyBitCst (e : Env) (op : BitOp) (x y : Lin.Var) (k : Int) : Env :=
  if e.isBot then e else e.set x (bitEval op (e.get y) (.val k))

/-- `select(lhs, cond, e1, e2)` -/
def select (e : Env) (lhs : Lin.Var) (cond : Lin.Cst) (e1 e2 : Lin.Expr) : Env :=
  if e.isBot then e
  else if (e.add [cond]).isBot then e.assign lhs e2
  else if (e.add [cond.negate]).isBot then e.assign lhs e1
  else e.set lhs (Cst.join (e.eval e1) (e.eval e2))

/-- `apply(int_conv_operation_t, dst, src)` through `int_cast_domain_traits` for two integer
    (non Boolean) variables: `assign(dst, src)`, and for `OP_ZEXT` the constraint
    `dst <= 2^bitwidth(src) - 1` -/
def intCast (e : Env) (zext : Bool) (srcBitwidth : Nat) (dst src : Lin.Var) : Env :=
  let e1 := e.assign dst (Lin.Expr.var src)
  if zext then e1.add [⟨(Lin.Expr.var dst).subNum (2 ^ srcBitwidth - 1), .leq⟩] else e1

/-- the lambda `entailmentFn` of `DEFAULT_ENTAILS` -/
def entailFn (e : Env) (c : Lin.Cst) : Bool := (e.add [c.negate]).isBot

/-- `entails(cst)` (`DEFAULT_ENTAILS`) -/
def entails (e : Env) (c : Lin.Cst) : Bool :=
  if e.isBot then true
  else if c.isTautology then true
  else if c.isContradiction then false
  else if c.kind = .eq then
    (Lin.Sys.addCst (Lin.Sys.addCst [] ⟨c.expr, .leq⟩) ⟨c.expr.scale (-1), .leq⟩).all (entailFn e)
  else entailFn e c

/-- `at(v)` / `operator[](v)` -/
def atItv (e : Env) (x : Lin.Var) : Itv :=
  if e.isBot then Itv.bot
  else match e.get x with
    | .bot => Itv.bot
    | .top => Itv.top
    | .val n => Itv.single n

/-- the constraint exported for one binding: `v == c` for a constant -/
def bindingCst (p : Lin.Var × Cst) : Option Lin.Cst :=
  match p.2 with
  | .val n => some ⟨(Lin.Expr.var p.1).subNum n, .eq⟩
  | _ => none

/-- `to_linear_constraint_system()` (bindings in increasing variable order; compared as a set) -/
def toCsts (e : Env) : Lin.Sys := XDom.Env.exportCsts bindingCst e

end Env
end CDom
end Crab
