/-
  Canonical model of the (non-relational) interval domain over `n` integer variables: an
  environment of intervals.  Reference of exactness for crab's `interval_domain` on its own
  constraint language `±x ≤ k` (property C12).  Bottom = some binding is the empty interval.
-/
import CrabModel.Scalar.Interval

namespace Crab
namespace ItvEnv

abbrev Env (n : Nat) := Vector Itv n
abbrev State (n : Nat) := Fin n → Int

variable {n : Nat}

def get (e : Env n) (x : Fin n) : Itv := e[x.val]'x.isLt
def ofFn (f : Fin n → Itv) : Env n := Vector.ofFn f
def upd (e : Env n) (x : Fin n) (i : Itv) : Env n := ofFn fun y => if y = x then i else get e y

def γ (e : Env n) (σ : State n) : Prop := ∀ x, Itv.mem (σ x) (get e x)

inductive Cst (n : Nat) where
  | ub (x : Fin n) (k : Int)          -- x ≤ k
  | lb (x : Fin n) (k : Int)          -- -x ≤ k

def Cst.sat : Cst n → State n → Prop
  | .ub x k, σ => σ x ≤ k
  | .lb x k, σ => -σ x ≤ k

def top : Env n := ofFn fun _ => Itv.top

def isBottom (e : Env n) : Bool := (List.finRange n).any fun x => (get e x).isBottom

def assumeCst (e : Env n) : Cst n → Env n
  | .ub x k => upd e x (Itv.meet (get e x) ⟨.ninf, .fin k⟩)
  | .lb x k => upd e x (Itv.meet (get e x) ⟨.fin (-k), .pinf⟩)

def assumeAll (e : Env n) (cs : List (Cst n)) : Env n := cs.foldl assumeCst e

def bounds (e : Env n) (x : Fin n) : Itv := if isBottom e then Itv.bot else get e x

def entails (e : Env n) : Cst n → Bool
  | .ub x k => isBottom e || Bound.le (get e x).ub (.fin k)
  | .lb x k => isBottom e || Bound.le (.fin (-k)) (get e x).lb

def join (a b : Env n) : Env n :=
  if isBottom a then b else if isBottom b then a else ofFn fun x => Itv.join (get a x) (get b x)

def meet (a b : Env n) : Env n := ofFn fun x => Itv.meet (get a x) (get b x)

def forget (e : Env n) (x : Fin n) : Env n := if isBottom e then e else upd e x Itv.top

end ItvEnv
end Crab
