/-
  Canonical difference-bound matrices (shared by `Dom.Zones` and `Dom.Octagon`).

  This is NOT a transcription of crab's split/sparse graph representation: it is the textbook
  canonical form (dense matrix over `Int ∪ {+∞}`, Floyd–Warshall closure) that property C12
  uses as the *reference of exactness*: the real domains must answer exactly what this model
  answers (DESIGN.md §3 C12).

  `W = Option Int`, `none` = +∞.  A matrix entry `m i j = some k` is the constraint
  `v i - v j ≤ k` on a valuation `v : Fin N → Int` of the matrix indices.
  Matrices are stored (`Vector (Vector W N) N`) so that the driver evaluates the closure in
  O(N^3); everything is accessed through `get` / `ofFn` only.
-/
namespace Crab
namespace Dbm

/-- weights: `none` = +∞ -/
abbrev W := Option Int

namespace W

def add : W → W → W
  | some a, some b => some (a + b)
  | _, _ => none

def min : W → W → W
  | some a, some b => some (if a ≤ b then a else b)
  | some a, none => some a
  | none, b => b

/-- pointwise maximum, +∞ absorbing (join of two bounds) -/
def max : W → W → W
  | some a, some b => some (if a ≤ b then b else a)
  | _, _ => none

/-- `a ≤ b` in `Int ∪ {+∞}` -/
def le : W → W → Bool
  | _, none => true
  | none, some _ => false
  | some a, some b => decide (a ≤ b)

def isNeg : W → Bool
  | some a => decide (a < 0)
  | none => false

/-- `2 * ⌊a / 2⌋` (integer tightening of a bound on `±2x`) -/
def tight2 : W → W
  | some a => some (2 * (a / 2))
  | none => none

/-- `⌊a / 2⌋` -/
def half : W → W
  | some a => some (a / 2)
  | none => none

def neg : W → W
  | some a => some (-a)
  | none => none

end W

structure Mat (N : Nat) where
  rows : Vector (Vector W N) N

namespace Mat
variable {N : Nat}

def get (m : Mat N) (i j : Fin N) : W := (m.rows[i.val]'i.isLt)[j.val]'j.isLt

def ofFn (f : Fin N → Fin N → W) : Mat N := ⟨Vector.ofFn fun i => Vector.ofFn fun j => f i j⟩

/-- the unconstrained matrix -/
def top : Mat N := ofFn fun _ _ => none

/-- add the constraint `v i - v j ≤ k` -/
def addEdge (m : Mat N) (i j : Fin N) (k : Int) : Mat N :=
  ofFn fun a b => if a = i ∧ b = j then W.min (m.get a b) (some k) else m.get a b

/-- put the trivially true `v i - v i ≤ 0` on the diagonal -/
def diag0 (m : Mat N) : Mat N :=
  ofFn fun i j => if i = j then W.min (m.get i j) (some 0) else m.get i j

/-- one round of Floyd–Warshall through the intermediate index `k` (computed from the old matrix) -/
def fwStep (m : Mat N) (k : Fin N) : Mat N :=
  ofFn fun i j => W.min (m.get i j) (W.add (m.get i k) (m.get k j))

/-- Floyd–Warshall shortest-path closure -/
def fw (m : Mat N) : Mat N := (List.finRange N).foldl fwStep (diag0 m)

/-- some `v i - v i ≤ k` with `k < 0` -/
def hasNegDiag (m : Mat N) : Bool := (List.finRange N).any fun i => W.isNeg (m.get i i)

def pmin (a b : Mat N) : Mat N := ofFn fun i j => W.min (a.get i j) (b.get i j)
def pmax (a b : Mat N) : Mat N := ofFn fun i j => W.max (a.get i j) (b.get i j)

/-- drop every constraint that mentions an index satisfying `p` -/
def dropIdx (m : Mat N) (p : Fin N → Bool) : Mat N :=
  ofFn fun i j => if p i || p j then none else m.get i j

/-- minimum of `f` over all indices -/
def minOver (f : Fin N → W) : W := (List.finRange N).foldl (fun acc u => W.min acc (f u)) none

/-- shortest distance to `v` from a virtual source that reaches `u` with cost `c u` -/
def potential (m : Mat N) (c : Fin N → Int) (v : Fin N) : W :=
  minOver fun u => W.add (some (c u)) (m.get u v)

/-- the valuation `v ↦ -potential v`: a solution of every closed matrix -/
def solution (m : Mat N) (c : Fin N → Int) : Fin N → Int := fun v => -((potential m c v).getD 0)

def wabs : W → Int
  | some k => if k < 0 then -k else k
  | none => 0

/-- sum of the absolute values of the finite entries -/
def absSum (m : Mat N) : Int :=
  ((List.finRange N).map fun i => ((List.finRange N).map fun j => wabs (m.get i j)).sum).sum

/-- a solution `v` of a closed matrix with `v i - v j = m i j` for every finite entry of row `i`,
    and `v i - v j ≥ L - absSum m` for the infinite ones (`L ≥ 2 * absSum m`) -/
def witness (m : Mat N) (i : Fin N) (L : Int) : Fin N → Int :=
  solution m (fun u => if u = i then 0 else L)

/-- concretisation on valuations of the matrix indices -/
def sat (m : Mat N) (v : Fin N → Int) : Prop := ∀ i j k, m.get i j = some k → v i - v j ≤ k

end Mat
end Dbm
end Crab
