/-
  The cell algebra of `array_adaptive_domain` (array_adaptive.hpp, lib/array_adaptive_impl.cpp):

    cell_t        a synthetic cell `[offset, offset+size-1]` with the mark `m_removed`
    offset_map_t  the cells of one array, at most one cell per (offset, size)

  Model: a cell is a record, an offset map a list of cells (the patricia tree of std::set's is a
  finite map from (offset, size) to the cell; its order only matters for the scan of
  `get_overlap_cells`, which is modelled by its specification, see below).

    Cell.overlap            cell_t::overlap(o, size): `!m_removed && !(x & y).is_bottom()`
    getCell                 offset_map_t::get_cell
    mkCell                  offset_map_t::mk_cell (a cell marked as removed is revived);
    mkCellOld               mk_cell before the repair (an existing cell is returned even if it
                            is marked as removed), kept for the counterexample only
    shouldKill / kill       get_overlap_cells(o, size) followed by kill_cells: every cell that
                            overlaps with [o, o+size) except the cell (o, size) itself is erased
                            (`array_adaptive.is_smashable = false`) or marked as removed (true).
                            NOT modelled: the sorted scan with early exit of get_overlap_cells
                            (it is replaced by the filter it is meant to compute).
    storeConst              the offset-map part of `array_store` with a constant index
    killSymbolic            the offset-map part of `array_store` with a symbolic index that cannot
                            smash: the cells an oracle (`symbolic_overlap`) reports are killed
-/
namespace Crab
namespace Dom
namespace Cells

structure Cell where
  off : Int
  size : Nat
  removed : Bool
  deriving DecidableEq, Repr

abbrev OMap := List Cell

/-- do the byte ranges `[o₁, o₁+s₁-1]` and `[o₂, o₂+s₂-1]` intersect (an empty range meets nothing) -/
def rangesMeet (o₁ : Int) (s₁ : Nat) (o₂ : Int) (s₂ : Nat) : Bool :=
  decide (max o₁ o₂ ≤ min (o₁ + s₁ - 1) (o₂ + s₂ - 1))

/-- `cell_t::overlap(o, size)` -/
def Cell.overlap (c : Cell) (o : Int) (sz : Nat) : Bool := !c.removed && rangesMeet c.off c.size o sz

def Cell.hasKey (c : Cell) (o : Int) (sz : Nat) : Bool := c.off == o && c.size == sz

/-- `offset_map_t::get_cell(o, size)` -/
def getCell (om : OMap) (o : Int) (sz : Nat) : Option Cell := om.find? (fun c => c.hasKey o sz)

/-- `offset_map_t::erase_cell` -/
def eraseCell (om : OMap) (o : Int) (sz : Nat) : OMap := om.filter (fun c => !c.hasKey o sz)

/-- `offset_map_t::mk_cell(o, size)` -/
def mkCell (om : OMap) (o : Int) (sz : Nat) : OMap :=
  match getCell om o sz with
  | none => ⟨o, sz, false⟩ :: om
  | some c => if c.removed then ⟨o, sz, false⟩ :: eraseCell om o sz else om

/-- `mk_cell` BEFORE the repair (counterexample only) -/
def mkCellOld (om : OMap) (o : Int) (sz : Nat) : OMap :=
  match getCell om o sz with
  | none => ⟨o, sz, false⟩ :: om
  | some _ => om

/-- is the cell in the result of `get_overlap_cells(o, size)` -/
def shouldKill (o : Int) (sz : Nat) (c : Cell) : Bool := c.overlap o sz && !c.hasKey o sz

/-- `kill_cells` of the overlapping cells: erase them or mark them as removed -/
def kill (smashable : Bool) (om : OMap) (o : Int) (sz : Nat) : OMap :=
  if smashable then om.map (fun c => if shouldKill o sz c then { c with removed := true } else c)
  else om.filter (fun c => !shouldKill o sz c)

/-- offset map after `array_store(a, size, o, _)` with a constant offset -/
def storeConst (smashable : Bool) (om : OMap) (o : Int) (sz : Nat) : OMap :=
  mkCell (kill smashable om o sz) o sz

/-- the same with `mk_cell` before the repair (counterexample only) -/
def storeConstOld (smashable : Bool) (om : OMap) (o : Int) (sz : Nat) : OMap :=
  mkCellOld (kill smashable om o sz) o sz

/-- offset map after a store at a symbolic index that does not smash: the cells reported by the
    oracle are killed -/
def killSymbolic (smashable : Bool) (may : Cell → Bool) (om : OMap) : OMap :=
  if smashable then om.map (fun c => if !c.removed && may c then { c with removed := true } else c)
  else om.filter (fun c => !(!c.removed && may c))

def live (om : OMap) : List Cell := om.filter (fun c => !c.removed)

/-- stores with constant offsets, the most recent first -/
def runStores (smashable : Bool) : List (Int × Nat) → OMap
  | [] => []
  | s :: older => storeConst smashable (runStores smashable older) s.1 s.2

end Cells
end Dom
end Crab
