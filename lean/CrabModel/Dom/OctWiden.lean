/-
  The widening of crab's split octagons AS CODED
  (`split_oct_domain::operator||`, `widening_thresholds`, `split_widen`, `split_widen_rels`,
   split_oct.hpp) and the inclusion test on which the fixpoint iterator stops (`operator<=`).

  Representation.  The weighted graph of a value is an `Oct n = Mat (2n)` (Octagon.lean): index
  `2x` is the vertex `pos(x)` (value `+x`), index `2x+1` is `neg(x)` (value `-x`), and the entry
  `(i, j) = some k` is the constraint `v i - v j ≤ k`, i.e. crab's graph edge `j → i` of weight `k`
  (crab: edge `s → d` of weight `w` means `val(d) - val(s) ≤ w`).  So the SOURCE of an edge is the
  COLUMN of the entry.  `x ≤ k` is the entry `(2x, 2x+1)` with weight `2k` (edge `neg(x) → pos(x)`),
  `-x ≤ k` the entry `(2x+1, 2x)`.  Crab's graphs have no self loops; every operation below ignores
  the diagonal.  A value (`OVal`) further carries the two pieces of hidden state on which
  `operator||` depends: `m_vert_map` (`vid x` = vertex number of `pos(x)`, `none` = the variable has
  no vertex) and `m_unstable` (`un`, a set of RAW vertex numbers).  `_is_bottom` is the `none` of
  `Val n = Option (OVal n)`.

  What the code does.
  * `if (is_bottom()) return o; else if (o.is_bottom()) return *this;`
  * the LEFT operand is used as it is (`// Do not normalize left operand`), the RIGHT operand is
    normalised first, but only when its `m_unstable` is non-empty (`need_normalization()`);
    the normal form is a parameter `nf` of the model (see below);
  * only variables with a vertex in BOTH operands get a vertex of the result (renumbered
    `0,1 | 2,3 | ..` in the order of the variables); both graphs are viewed through this
    renaming (`GrPerm`), every other edge is invisible (`restrict`);
  * `split_widen`:
      1. "explicit in both": every edge of the left operand (bounds included) for which the right
         operand has an explicit edge of weight `≤` is kept WITH THE LEFT WEIGHT (`stage1`);
      2. `split_widen_rels(g, l, r)`: an edge of the left operand between two different variables
         that was not kept is kept (left weight) if the two unary bounds of the right operand
         imply it — `(Wt)(ws + wd) / (Wt)2 <= e_val`, C++ division, truncating — unless its coherent
         twin `(bar d, bar s)` was kept in 1 ("preserve coherence": `continue`) (`stage2`);
      3. every source vertex one of whose left edges (bounds included) is now missing is added to
         the unstable set, which STARTS as a copy of the left operand's `m_unstable` — raw numbers
         of the LEFT numbering, looked up in the NEW numbering (`unstableAfter`);
      4. `split_widen_rels(g, r, l)` + the `while (!delta.empty())` loop: an explicit edge of the
         RIGHT operand between two different variables that the unary bounds of the LEFT operand
         imply (with a weight `≤` the right one) is ADDED WITH THE RIGHT WEIGHT when it is missing
         or lowers the weight, its twin is not in the graph of step 2, and its source or its
         destination is unstable ("Important for termination") (`stage3`).
    Unary bounds are only ever handled by step 1: kept with the left weight or dropped.
  * `widening_thresholds(o, ts)` is `*this || o`: the thresholds are ignored.
  * `operator<=` (this = `y`, o = `x`): `y` is normalised if needed; every variable of `x` that
    carries an edge must have a vertex in `y`; every edge of `x` must be covered by an explicit edge
    of `y` or (the same formula as in step 2) by the two unary bounds of `y`.

  `normalize()` (run on a COPY of an operand whose `m_unstable` is non-empty) is
  `GrOps::close_after_widen` on the view WITHOUT the unary bounds followed by `update_bounds` for
  the new edges.  Its result depends on potentials and heap order and is NOT a closure (measured:
  it never re-derives a unary bound from a relation and another bound; `vert_set_wrap_t` answers
  membership in `m_unstable` where `close_after_widen` expects `is_stable`).  The model therefore
  takes the normal form as a parameter `nf : OVal n → Oct n`; the theorems hold for EVERY `nf`
  (termination) resp. every sound `nf` (upper bound).  Operands built by `+=`, joins, meets have an
  empty `m_unstable`, for them `nf` is not consulted and the model is exact.
-/
import CrabModel.Dom.Octagon
import CrabModel.Dom.DbmWiden

namespace Crab
namespace OctW
open Dbm Octagon

variable {n : Nat}

/-- `(Wt)(a + b) / (Wt)2` — C++ integer division truncates toward zero -/
def hsum : W → W → W
  | some a, some b => some ((a + b).tdiv 2)
  | _, _ => none

/-- the weight that the two unary bounds of `m` give to the pair `(i, j)`
    (edge `j → i`: `lookup(j, bar j)` and `lookup(bar i, i)`) -/
def implW (m : Oct n) (i j : Fin (2 * n)) : W := hsum (m.get i (bar i)) (m.get (bar j) j)

/-- the pair is visible in `SplitOctGraph` (`x / 2 != y / 2`): two different variables -/
def isRel (i j : Fin (2 * n)) : Bool := decide (varOf i ≠ varOf j)

/-- `e < w` where `w = none` is "no edge" (`!g.lookup(..) || e_val < wy.get()`) -/
def ltW (e : Int) : W → Bool
  | none => true
  | some a => decide (e < a)

/-- step 1, "stable relationships which are explicit both in l and r" -/
def stage1 (l r : Oct n) : Oct n :=
  Mat.ofFn fun i j =>
    match l.get i j with
    | some a => if i ≠ j ∧ W.le (r.get i j) (some a) = true then some a else none
    | none => none

/-- step 2, `split_widen_rels(g, l, r, delta); update_delta(g, delta)` -/
def stage2 (l r g1 : Oct n) : Oct n :=
  Mat.ofFn fun i j =>
    match g1.get i j with
    | some a => some a
    | none =>
      match l.get i j with
      | some e =>
        if isRel i j = true ∧ W.le (implW r i j) (some e) = true ∧ g1.get (bar j) (bar i) = none
        then some e else none
      | none => none

/-- step 3, "remember vertices that need to be re-closed": `U` = the left operand's unstable set
    read in the new numbering; the source (column) `j` joins it when one of its left edges is
    missing in `g2` -/
def unstableAfter (U : Fin (2 * n) → Bool) (l g2 : Oct n) (j : Fin (2 * n)) : Bool :=
  U j || (List.finRange (2 * n)).any fun i =>
    decide (i ≠ j) && (l.get i j).isSome && (g2.get i j).isNone

/-- step 4, `split_widen_rels(g, r, l, delta)` and the loop that applies `delta` -/
def stage3 (U' : Fin (2 * n) → Bool) (l r g2 : Oct n) : Oct n :=
  Mat.ofFn fun i j =>
    match r.get i j with
    | some e =>
      if isRel i j = true ∧ W.le (implW l i j) (some e) = true ∧ ltW e (g2.get i j) = true ∧
          g2.get (bar j) (bar i) = none ∧ (U' j || U' i) = true
      then some e else g2.get i j
    | none => g2.get i j

/-- `split_widen(l, r, unstable)` on the graphs of the common variables: the graph of the result -/
def splitWiden (U : Fin (2 * n) → Bool) (l r : Oct n) : Oct n :=
  let g2 := stage2 l r (stage1 l r)
  stage3 (unstableAfter U l g2) l r g2

/-- .. and the unstable set of the result -/
def splitWidenUnstable (U : Fin (2 * n) → Bool) (l r : Oct n) : Fin (2 * n) → Bool :=
  unstableAfter U l (stage2 l r (stage1 l r))

/-- `leq_op` on the graphs (`yl` = the normalised `this`, `x` = `o`): every off-diagonal edge of
    `x` is explicit in `yl` with a weight `≤`, or implied by the two unary bounds of `yl` -/
def leqG (yl x : Oct n) : Bool :=
  (List.finRange (2 * n)).all fun i => (List.finRange (2 * n)).all fun j =>
    decide (i = j) ||
      match x.get i j with
      | none => true
      | some k => W.le (yl.get i j) (some k) || W.le (implW yl i j) (some k)

/-! ### values with their hidden state -/

/-- a non-bottom `split_oct_domain` value -/
structure OVal (n : Nat) where
  /-- `m_vert_map`: vertex number of `pos(x)` (`neg(x)` is the next one) -/
  vid : Fin n → Option Nat
  /-- `m_graph`, indexed by the variables (not by vertex numbers) -/
  g : Oct n
  /-- `m_unstable`: raw vertex numbers -/
  un : List Nat

abbrev Val (n : Nat) := Option (OVal n)

/-- concretisation over the integers: no state for bottom, the states satisfying every edge -/
def γV : Val n → State n → Prop
  | none, _ => False
  | some a, σ => γ a.g σ

/-- the graph an operand is read through: `if (need_normalization()) { copy.normalize(); }` -/
def normOf (nf : OVal n → Oct n) (a : OVal n) : Oct n := if a.un.isEmpty then a.g else nf a

/-- variables with a vertex in both operands -/
def common (a b : OVal n) (v : Fin n) : Bool := (a.vid v).isSome && (b.vid v).isSome

/-- number of common variables before `v` = half the new vertex number of `pos(v)` -/
def rank (c : Fin n → Bool) (v : Fin n) : Nat := ((List.finRange n).filter fun u => decide (u < v) && c u).length

/-- new vertex number of the literal `i` -/
def newId (c : Fin n → Bool) (i : Fin (2 * n)) : Nat := 2 * rank c (varOf i) + i.val % 2

/-- the `GrPerm` view: only edges between common variables are visible -/
def restrict (c : Fin n → Bool) (m : Oct n) : Oct n :=
  Mat.ofFn fun i j => if c (varOf i) = true ∧ c (varOf j) = true then m.get i j else none

/-- `widen_op(left, right)` -/
def widenOV (a : OVal n) (r : Oct n) (c : Fin n → Bool) : OVal n :=
  let l' := restrict c a.g
  let r' := restrict c r
  let U : Fin (2 * n) → Bool := fun j => a.un.contains (newId c j)
  let U' := splitWidenUnstable U l' r'
  { vid := fun v => if c v then some (2 * rank c v) else none
    g := splitWiden U l' r'
    un := (a.un ++ ((List.finRange (2 * n)).filter fun j => c (varOf j) && U' j).map (newId c)).eraseDups }

/-- `split_oct_domain::operator||` (`this` = `x`, `o` = `y`) -/
def widenV (nf : OVal n → Oct n) (x y : Val n) : Val n :=
  match x, y with
  | none, y => y                          -- `if (is_bottom()) return o;`
  | some a, none => some a                -- `else if (o.is_bottom()) return *this;`
  | some a, some b => some (widenOV a (normOf nf b) (common a b))

/-- `split_oct_domain::widening_thresholds`: the thresholds are ignored by the code -/
def widenThresholds (nf : OVal n → Oct n) (x y : Val n) (_ts : List Int) : Val n := widenV nf x y

/-- some edge of `m` touches the variable `v` (`succs` / `preds` of its two vertices non-empty) -/
def touches (m : Oct n) (v : Fin n) : Bool :=
  (List.finRange (2 * n)).any fun i => (List.finRange (2 * n)).any fun j =>
    decide (i ≠ j) && (decide (varOf i = v) || decide (varOf j = v)) && (m.get i j).isSome

/-- `split_oct_domain::operator<=` (`this` = `y`, `o` = `x`); the `is_top` shortcuts agree with
    the general case -/
def leqV (nf : OVal n → Oct n) (y x : Val n) : Bool :=
  match y, x with
  | none, _ => true                       -- `if (is_bottom()) return true;`
  | some _, none => false                 -- `else if (o.is_bottom()) return false;`
  | some b, some a =>
    -- "An unconstrained variable of o says nothing"; a constrained one must exist in `this`
    ((List.finRange n).all fun v => !touches a.g v || (b.vid v).isSome) && leqG (normOf nf b) a.g

/-! ### the measure -/

/-- the literal `i` carries a unary bound (entry `(i, bar i)`) -/
def hasBnd (m : Oct n) (i : Fin (2 * n)) : Bool := (m.get i (bar i)).isSome

/-- number of unary bounds -/
def nBnd (m : Oct n) : Nat := (List.finRange (2 * n)).countP (hasBnd m)

/-- a relational edge that the unary bounds of the same graph do NOT imply -/
def isTight (m : Oct n) (p : Fin (2 * n) × Fin (2 * n)) : Bool :=
  isRel p.1 p.2 &&
    match m.get p.1 p.2 with
    | none => false
    | some w => !W.le (implW m p.1 p.2) (some w)

/-- number of relational edges not implied by the unary bounds -/
def nTight (m : Oct n) : Nat := (Zones.allPairs (2 * n)).countP (isTight m)

/-- the measure: (bottom, number of unary bounds, number of non-implied relational edges),
    lexicographically -/
def omeas : Val n → Nat × Nat × Nat
  | none => (1, 0, 0)
  | some a => (0, nBnd a.g, nTight a.g)

/-- the graph representation has no self loops -/
def NoSelfLoop (m : Oct n) : Prop := ∀ i, m.get i i = none

/-- a normal form is sound when it only adds implied constraints -/
def SoundNf (nf : OVal n → Oct n) : Prop := ∀ (a : OVal n) (σ : State n), γ a.g σ → γ (nf a) σ

/-- both copies of every constraint: the widening may keep or add only one of the two coherent
    twins `(i, j)`, `(bar j, bar i)`; they mean the same -/
def cohere (m : Oct n) : Oct n := Mat.ofFn fun i j => W.min (m.get i j) (m.get (bar j) (bar i))

/-- tight closure of a possibly incoherent graph -/
def closeC (m : Oct n) : Oct n := Octagon.close (cohere m)

/-- the proved normal form: the tight closure without its diagonal (what an exact `normalize()`
    would compute; the code's is weaker) -/
def nfTight (a : OVal n) : Oct n :=
  Mat.ofFn fun i j => if i = j then none else (closeC a.g).get i j

/-- a value as built by `+=` from top: all variables have a vertex, nothing is unstable -/
def ofGraph (m : Oct n) : Val n := some { vid := fun v => some (2 * v.val), g := m, un := [] }

/-! ### closing the left operand (NOT what the code does) -/

/-- the stored value replaced by its exact (tight) closure, nothing unstable: what a client would
    hold that re-closes the left operand exactly before every widening.  `split_oct_domain`'s own
    `normalize()` does NOT do this (it closes the relational part only and never re-derives a
    unary bound), so calling `operator[]` on the stored value is harmless there (harness modes
    `index` / `indexj`). -/
def closeLeft (a : OVal n) : OVal n := { a with g := nfTight a, un := [] }

def widenClosedLeft (nf : OVal n → Oct n) (x y : Val n) : Val n := widenV nf (x.map closeLeft) y

/-! the two-counter example of the zones part (variables: `v0 = x`, `v1 = y`) -/
namespace TwoCounter

/-- `{0 ≤ y ≤ x ≤ y+1, x ≤ a, y ≤ b}` as the constraints are added (nothing derived) -/
def raw (a b : Int) : Oct 2 :=
  assumeAll Octagon.top [.lb 1 0, .diff 1 0 0, .diff 0 1 1, .ub 0 a, .ub 1 b]

/-- a closed value (as `+=` would leave it if it closed exactly) -/
def cval (m : Oct 2) : Val 2 := (ofGraph m).map closeLeft

def x0 : Val 2 := cval (raw 1 1)

/-- step `2m` raises the bound of `x`, step `2m+1` the bound of `y` -/
def ys (k : Nat) : Val 2 := cval (raw ((k / 2 : Nat) + 2) (((k + 1) / 2 : Nat) + 1))

/-- the left operand is closed exactly before each widening -/
def badChain : Nat → Val 2 := Zones.chainOf (widenClosedLeft nfTight) x0 ys

/-- the chain of the code: the left operand is left as it is -/
def goodChain : Nat → Val 2 := Zones.chainOf (widenV nfTight) x0 ys

end TwoCounter

end OctW
end Crab
