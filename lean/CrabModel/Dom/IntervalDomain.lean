/-
  Model of `ikos::interval_domain<z_number, VariableName>` (include/crab/domains/intervals.hpp)
  with everything it is made of:

   * `separate_domain<variable_t, interval_t>` (include/crab/domains/separate_domains.hpp): a
     bottom flag and a finite map variable -> interval in which `top` is never stored.  At this
     level the map is an association list kept sorted by variable index (the Patricia tree that
     implements it is verified separately, property C19): `find` = `lookup`, `insert`, `remove`,
     `merge_with` (pointwise combination of the common keys; the other keys are dropped when
     `default_is_absorbing()` — join, widenings — and kept otherwise — meet, narrowing),
     `leq` (`compare` with `default_is_top()`);
   * `linear_interval_solver` (include/crab/domains/linear_interval_solver.hpp), function by
     function: constructor (preprocessing), `refine`, `compute_residual`, `propagate`,
     `solve_small_system`, `solve_large_system`, `run`;
   * `constraint_simp_domain_traits::lower_disequality`
     (include/crab/domains/abstract_domain_specialized_traits.hpp);
   * `crab::thresholds<z_number>` (include/crab/fixpoint/thresholds.hpp) for
     `widening_thresholds`.

  A variable is its index (`Lin.Var`), linear expressions and constraints are the models of
  `CrabModel/Lin`.

  CRAB_ERROR.  `interval::operator+` / `operator-` raise CRAB_ERROR only on `-oo + +oo`, which
  needs an interval whose lower bound is `+oo` or whose upper bound is `-oo`; no operation of
  the domain produces or stores such an interval: `Env.ValWF` holds of top and bottom and is
  preserved by every operation (`CrabProofs/Lemmas/IDomWF.lean`, `C03.idom_stmt_valwf`,
  `C03.idom_lattice_valwf`, `C03.idom_history_valwf`), and on such environments the transcriptions
  with `Option` of the three code paths concerned return `some` of the total functions used here
  (`C03.idom_no_crab_error_eval`, `_residual`, `_apply`; `Itv.div` is always defined).  The three
  operations are therefore used through the total wrappers `addT`, `subT`, `divT` below (value
  `top` on the unreachable error).  The only reachable CRAB_ERROR is the one of `rename` on
  vectors of different lengths (`Option`).

  Fuel.  The only loop not bounded syntactically is the `do … while` of `solve_large_system`; it is
  given the fuel `m_max_op + 1`, which is never exhausted (`C03.idom_solver_fuel_exact`).

  Correspondence: harness/h_idom.cpp + Driver/IDomH.lean compare, after every operation of random
  and hand-written histories, the bottom/top flags, every binding, the exported constraint system
  and the answers of `entails`, `<=`, `at` with this model.
-/
import CrabModel.Scalar.Interval
import CrabModel.Lin.System

namespace Crab
namespace IDom
open Lin

/-! ### total wrappers of the partial interval operations (see the header comment) -/

def addT (a b : Itv) : Itv := match Itv.add a b with | some r => r | none => Itv.top
def subT (a b : Itv) : Itv := match Itv.sub a b with | some r => r | none => Itv.top
def divT (a b : Itv) : Itv := match Itv.div a b with | some r => r | none => Itv.top

/-! ### the map of `separate_domain` (specification level) -/

abbrev Map := List (Var × Itv)

namespace Map

/-- `_tree.lookup(k)` / `_tree.find(k)` -/
def find : Map → Var → Option Itv
  | [], _ => none
  | (k', v) :: rest, k => if k = k' then some v else find rest k

/-- `_tree.insert(k, v)` (replaces an existing binding) -/
def insert : Map → Var → Itv → Map
  | [], k, v => [(k, v)]
  | (k', v') :: rest, k, v =>
    if k = k' then (k, v) :: rest
    else if k < k' then (k, v) :: (k', v') :: rest
    else (k', v') :: insert rest k v

/-- `_tree.remove(k)` -/
def remove (m : Map) (k : Var) : Map := m.filter (fun p => p.1 != k)

/-- `merge_with` for an operation with `default_is_absorbing() = true` (join, widening,
    widening with thresholds): only the keys bound on both sides survive, and the combined value
    is dropped when it is top (`apply` returns no value) -/
def mergeAbs (op : Itv → Itv → Itv) (a b : Map) : Map :=
  a.filterMap (fun p => match find b p.1 with
    | some y => let z := op p.2 y; if z.isTop then none else some (p.1, z)
    | none => none)

/-- `merge_with` for meet / narrowing: does some common key combine to bottom
    (`apply` returns `{true, _}`, the merge is abandoned) -/
def mergeBot (op : Itv → Itv → Itv) (a b : Map) : Bool :=
  a.any (fun p => match find b p.1 with
    | some y => (op p.2 y).isBottom
    | none => false)

/-- `merge_with` for meet / narrowing (`default_is_absorbing() = false`): common keys are
    combined (the value is stored as it is), the others are kept -/
def mergeKeep (op : Itv → Itv → Itv) (a b : Map) : Map :=
  b.foldr (fun p acc => match find a p.1 with
    | some x => insert acc p.1 (op x p.2)
    | none => insert acc p.1 p.2) a

/-- `_tree.leq(t, po)` with `default_is_top() = true`: every binding of the right map is
    matched by a smaller binding of the left map (an unbound key is top) -/
def leq (a b : Map) : Bool :=
  b.all (fun p => match find a p.1 with
    | some x => Itv.leq x p.2
    | none => false)

def keys (m : Map) : List Var := m.map (·.1)

end Map

/-! ### `separate_domain<variable_t, interval_t>` -/

structure Env where
  bottom : Bool
  m : Map
  deriving DecidableEq, Repr, Inhabited

namespace Env

/-- `separate_domain::top()` -/
def top : Env := ⟨false, []⟩
/-- `separate_domain::bottom()`, `set_to_bottom()` -/
def bot : Env := ⟨true, []⟩

def isBottom (e : Env) : Bool := e.bottom
/-- `is_top()` : `!is_bottom() && _tree.size() == 0` -/
def isTop (e : Env) : Bool := !e.bottom && e.m.isEmpty

/-- `at(k)` -/
def get (e : Env) (k : Var) : Itv :=
  if e.bottom then Itv.bot
  else match e.m.find k with
    | some v => v
    | none => Itv.top

/-- `set(k, v)` -/
def set (e : Env) (k : Var) (v : Itv) : Env :=
  if e.bottom then e
  else if v.isBottom then bot
  else if v.isTop then ⟨false, e.m.remove k⟩
  else ⟨false, e.m.insert k v⟩

/-- `join(k, v)` (used by `weak_assign`); top is never stored: the binding is removed when the
    join of the old and the new value is top -/
def joinKey (e : Env) (k : Var) (v : Itv) : Env :=
  if e.bottom then e
  else if v.isBottom then bot
  else if v.isTop then ⟨false, e.m.remove k⟩
  else match e.m.find k with
    | none => ⟨false, e.m.remove k⟩
    | some old =>
      let nv := Itv.join old v
      if nv.isTop then ⟨false, e.m.remove k⟩ else ⟨false, e.m.insert k nv⟩

/-- `operator-=(k)` -/
def forget (e : Env) (k : Var) : Env := if e.bottom then e else ⟨false, e.m.remove k⟩

/-- `operator<=` -/
def leq (a b : Env) : Bool :=
  if a.bottom then true else if b.bottom then false else Map.leq a.m b.m

/-- the three upper-bound operations share their code -/
def upperWith (op : Itv → Itv → Itv) (a b : Env) : Env :=
  if a.bottom then b else if b.bottom then a else ⟨false, Map.mergeAbs op a.m b.m⟩

/-- meet and narrowing share their code -/
def lowerWith (op : Itv → Itv → Itv) (a b : Env) : Env :=
  if a.bottom || b.bottom then bot
  else if Map.mergeBot op a.m b.m then bot
  else ⟨false, Map.mergeKeep op a.m b.m⟩

/-- `operator|` -/
def join (a b : Env) : Env := upperWith Itv.join a b
/-- `operator||` -/
def widen (a b : Env) : Env := upperWith Itv.widen a b
/-- `operator&` -/
def meet (a b : Env) : Env := lowerWith Itv.meet a b
/-- `operator&&` -/
def narrow (a b : Env) : Env := lowerWith Itv.narrow a b

/-- `project(keys)`: both branches (copy of the kept keys into a new environment when the
    environment is small or less than 60% of it is kept, removal of the others otherwise) -/
def project (e : Env) (keys : List Var) : Env :=
  if e.bottom || e.isTop then e
  else
    let n := e.m.length
    let k := keys.length
    if n ≤ 5 || k < n * 60 / 100 then
      keys.foldl (fun env key => env.set key (e.get key)) top
    else
      ((e.m.keys).filter (fun key => !keys.contains key)).foldl (fun env key => env.forget key) e

/-- the loop of `rename(from, to)` (both vectors have the same length here) -/
def renameLoop : List Var → List Var → Map → Map
  | k :: from', nk :: to', m =>
    if k = nk then renameLoop from' to' m
    else match m.find k with
      | some v => renameLoop from' to' ((if !v.isTop then m.insert nk v else m).remove k)
      | none => renameLoop from' to' m
  | _, _, m => m

/-- `rename(from, to)`; `none` = CRAB_ERROR (vectors of different sizes).
    `CrabSanityCheckFlag` is off (its default) -/
def rename (e : Env) (from' to' : List Var) : Option Env :=
  if e.isTop || e.bottom then some e
  else if from'.length ≠ to'.length then none
  else some ⟨false, renameLoop from' to' e.m⟩

end Env

/-! ### thresholds (`crab::thresholds<z_number>`) and `interval::widening_thresholds` -/

abbrev Thresholds := List Bound

namespace Thresholds

/-- the constructor: `-oo, 0, +oo` -/
def init : Thresholds := [.ninf, .fin 0, .pinf]

/-- `std::upper_bound(ts, v)`: position of the first element `> v` (the vector is sorted) -/
def upperBound (ts : Thresholds) (v : Bound) : Nat := (ts.takeWhile (fun t => !(Bound.lt v t))).length
/-- `std::lower_bound(ts, v)`: position of the first element `>= v` -/
def lowerBound (ts : Thresholds) (v : Bound) : Nat := (ts.takeWhile (fun t => Bound.lt t v)).length

/-- `add(v)` for a finite `v` with capacity `cap` (`m_size`) -/
def add (ts : Thresholds) (cap : Nat) (v : Int) : Thresholds :=
  if ts.length < cap then
    if ts.contains (.fin v) then ts
    else
      let ub := upperBound ts (.fin v)
      if v > 0 then
        -- `prev = ub - 1`; merged with the previous threshold when consecutive
        let prev := ub - 1
        if prev ≠ 0 ∧ ts.getD prev .pinf = .fin (v - 1) then ts.set prev (.fin v)
        else (ts.take ub) ++ [.fin v] ++ (ts.drop ub)
      else if v < 0 then
        if ts.getD ub .pinf = .fin (v + 1) then ts.set ub (.fin v)
        else (ts.take ub) ++ [.fin v] ++ (ts.drop ub)
      else (ts.take ub) ++ [.fin v] ++ (ts.drop ub)
  else ts

/-- `get_next(v)` -/
def getNext (ts : Thresholds) (v : Bound) : Bound :=
  if v = .pinf then v
  else
    let ub := upperBound ts v
    if ub < ts.length then ts.getD ub .pinf else ts.getD (ts.length - 1) .pinf

/-- `get_prev(v)` -/
def getPrev (ts : Thresholds) (v : Bound) : Bound :=
  if v = .ninf then v
  else
    let lb := lowerBound ts v
    if lb < ts.length ∧ lb ≠ 0 then ts.getD (lb - 1) .ninf else ts.getD 0 .ninf

end Thresholds

/-- `interval::widening_thresholds(x, ts)` -/
def widenTh (ts : Thresholds) (a b : Itv) : Itv :=
  if a.isBottom then b else if b.isBottom then a
  else Itv.mk' (if Bound.lt b.lb a.lb then ts.getPrev b.lb else a.lb)
               (if Bound.lt a.ub b.ub then ts.getNext b.ub else a.ub)

/-- `separate_domain::widening_thresholds` -/
def Env.widenTh (ts : Thresholds) (a b : Env) : Env := Env.upperWith (IDom.widenTh ts) a b

/-! ### `linear_interval_solver` -/

/-- `m_refined_variables.insert(v)` (a `std::set`: sorted, no duplicates) -/
def insertSet : List Var → Var → List Var
  | [], v => [v]
  | w :: rest, v => if v = w then w :: rest else if v < w then v :: w :: rest else w :: insertSet rest v

/-- the mutable state of the solver during `run`: the interval collection, `m_refined_variables`,
    `m_op_count` -/
structure SolverSt where
  env : Env
  refined : List Var
  ops : Nat
  deriving Repr, Inhabited

/-- `refine(v, i, env)`; the Boolean is "bottom found" -/
def refine (st : SolverSt) (v : Var) (i : Itv) : Bool × SolverSt :=
  let old := st.env.get v
  let new := Itv.meet old i
  if new.isBottom then (true, st)
  else if !(Itv.beq old new) then
    (false, ⟨st.env.set v new, insertSet st.refined v, st.ops + 1⟩)
  else (false, st)

/-- the loop of `compute_residual(cst, pivot, env)` with its exit on top; returns the residual
    and the updated `m_op_count` -/
def residualLoop (env : Env) (pivot : Var) : List (Var × Int) → Itv → Nat → Itv × Nat
  | [], r, n => (r, n)
  | (v, c) :: rest, r, n =>
    if v = pivot then residualLoop env pivot rest r n
    else
      let r' := subT r (Itv.mul (Itv.single c) (env.get v))
      if r'.isTop then (r', n + 1) else residualLoop env pivot rest r' (n + 1)

/-- `compute_residual` -/
def computeResidual (c : Cst) (pivot : Var) (env : Env) (ops : Nat) : Itv × Nat :=
  residualLoop env pivot c.expr.terms (Itv.single c.constant) ops

/-- body of the loop of `propagate` for the term `coef * pivot` -/
def propagateTerm (c : Cst) (st : SolverSt) (pivot : Var) (coef : Int) : Bool × SolverSt :=
  let ro := computeResidual c pivot st.env st.ops
  let res := ro.1
  let st : SolverSt := ⟨st.env, st.refined, ro.2⟩
  let ic := Itv.single coef
  let rhs := if !res.isTop then divT res ic else Itv.top
  match c.kind with
  | .eq => refine st pivot rhs
  | .leq =>
    if coef > 0 then refine st pivot rhs.lowerHalfLine
    else refine st pivot rhs.upperHalfLine
  | .lt => (false, st)
  | .neq =>
    -- only if the division is exact
    if !(Itv.beq (Itv.mul rhs ic) res) then (false, st)
    else
      let old := st.env.get pivot
      let new := Itv.trim old rhs
      if new.isBottom then (true, st)
      else if !(Itv.beq old new) then
        (false, ⟨st.env.set pivot new, insertSet st.refined pivot, st.ops + 1⟩)
      else (false, ⟨st.env, st.refined, st.ops + 1⟩)

def propagateLoop (c : Cst) : List (Var × Int) → SolverSt → Bool × SolverSt
  | [], st => (false, st)
  | (v, k) :: rest, st =>
    match propagateTerm c st v k with
    | (true, st') => (true, st')
    | (false, st') => propagateLoop c rest st'

/-- `propagate(cst, env)` -/
def propagate (c : Cst) (st : SolverSt) : Bool × SolverSt := propagateLoop c c.expr.terms st

/-- `for (cst : table) if (propagate(cst, env)) return true;` -/
def propagateAll : List Cst → SolverSt → Bool × SolverSt
  | [], st => (false, st)
  | c :: rest, st =>
    match propagate c st with
    | (true, st') => (true, st')
    | (false, st') => propagateAll rest st'

/-- `solve_small_system`: `fuel` is the number of further cycles allowed after this one
    (`cycle <= m_max_cycles` is tested after the cycle has run) -/
def solveSmallLoop (tbl : List Cst) : Nat → SolverSt → Bool × SolverSt
  | fuel, st =>
    match propagateAll tbl ⟨st.env, [], st.ops⟩ with
    | (true, st') => (true, st')
    | (false, st') =>
      match fuel with
      | 0 => (false, st')
      | fuel' + 1 => if !st'.refined.isEmpty then solveSmallLoop tbl fuel' st' else (false, st')

def solveSmall (tbl : List Cst) (maxCycles : Nat) (st : SolverSt) : Bool × SolverSt :=
  solveSmallLoop tbl maxCycles st

/-- `m_trigger_table[v]` as the sub-table (in index order) of the constraints mentioning `v` -/
def trigger (tbl : List Cst) (v : Var) : List Cst := tbl.filter (fun c => c.expr.variables.contains v)

/-- the `do … while (!refined.empty() && m_op_count <= m_max_op)` of `solve_large_system`.
    Every iteration that goes on has refined a variable, hence increased `m_op_count`; at most
    `m_max_op + 1` iterations are possible, which is the fuel given by `solveLarge`. -/
def solveLargeLoop (tbl : List Cst) (maxOp : Nat) : Nat → SolverSt → Bool × SolverSt
  | fuel, st =>
    let vars := st.refined
    match propagateAll (vars.flatMap (trigger tbl)) ⟨st.env, [], st.ops⟩ with
    | (true, st') => (true, st')
    | (false, st') =>
      match fuel with
      | 0 => (false, st')
      | fuel' + 1 =>
        if !st'.refined.isEmpty && decide (st'.ops ≤ maxOp) then solveLargeLoop tbl maxOp fuel' st'
        else (false, st')

/-- `solve_large_system` -/
def solveLarge (tbl : List Cst) (maxOp : Nat) (st : SolverSt) : Bool × SolverSt :=
  match propagateAll tbl ⟨st.env, [], 0⟩ with
  | (true, st') => (true, st')
  | (false, st') => solveLargeLoop tbl maxOp (maxOp + 1) st'

/-- result of the constructor: `m_is_contradiction`, `m_cst_table`, `op_per_cycle` -/
structure Prep where
  contradiction : Bool
  tbl : List Cst
  opc : Nat
  deriving Repr, Inhabited

/-- the loop of the constructor -/
def prepLoop : List Cst → List Cst → Nat → Prep
  | [], tbl, opc => ⟨false, tbl, opc⟩
  | c :: rest, tbl, opc =>
    if c.isContradiction then ⟨true, tbl, opc⟩
    else if c.isTautology then prepLoop rest tbl opc
    else if c.kind = .lt then
      -- convert e < c into {e <= c, e != c}
      let c1 : Cst := ⟨c.expr, .leq⟩
      let c2 : Cst := ⟨c.expr, .neq⟩
      let sz := c1.expr.size + c2.expr.size
      prepLoop rest (tbl ++ [c1, c2]) (opc + sz * sz)
    else prepLoop rest (tbl ++ [c]) (opc + c.expr.size * c.expr.size)

def largeCstThreshold : Nat := 3
def largeOpThreshold : Nat := 27

/-- constructor + `run(env)` -/
def solverRun (csts : Sys) (maxCycles : Nat) (env : Env) : Env :=
  let p := prepLoop csts [] 0
  if p.contradiction then Env.bot
  else
    let large := decide (p.tbl.length > largeCstThreshold) || decide (p.opc > largeOpThreshold)
    let r := if large then solveLarge p.tbl (p.opc * maxCycles) ⟨env, [], 0⟩
             else solveSmall p.tbl maxCycles ⟨env, [], 0⟩
    if r.1 then Env.bot else r.2.env

/-! ### `interval_domain` -/

/-- the template parameter `max_reduction_cycles` (default of the class, used by every shipped
    instantiation) -/
def maxReductionCycles : Nat := 10

namespace Env

/-- `add(csts)` without the lowering of disequations: `solver_t solver(csts, threshold);
    solver.run(_env)` guarded by `is_bottom()` -/
def addRaw (e : Env) (csts : Sys) : Env :=
  if e.bottom then e else solverRun csts maxReductionCycles e

/-- the lambda `entailmentFn` of `entails`: `val += c.negate(); return val.is_bottom()`.
    The constraints that reach it are never equalities (see `entails`), so the negation is never a
    disequation and `+=` does no lowering (`add_single_eq_addRaw`): this is what breaks the
    recursion `add -> lower_disequality -> entails -> add`. -/
def entailFn (val : Env) (c : Cst) : Bool := (val.addRaw [c.negate]).bottom

/-- `entails(cst)` -/
def entails (e : Env) (c : Cst) : Bool :=
  if e.bottom then true
  else if c.isTautology then true
  else if c.isContradiction then false
  else
    -- only the relevant state wrt the variables of the constraint
    let val := c.expr.variables.foldl (fun val v => val.set v (e.get v)) top
    if c.kind = .eq then
      if !entailFn val ⟨c.expr, .leq⟩ then false
      else entailFn val ⟨c.expr.scale (-1), .leq⟩
    else entailFn val c

/-- `get_binary_operands` of `lower_disequality` -/
def binaryOperands (c : Cst) : Option (Var × Var) :=
  if c.kind = .neq then
    if c.expr.size = 2 ∧ c.constant = 0 then
      match c.expr.terms with
      | [(vx, nx), (vy, ny)] => if nx = ny * -1 then some (vx, vy) else none
      | _ => none
    else none
  else none

/-- `constraint_simp_domain_traits::lower_disequality(abs_val, cst, out)` -/
def lowerDisequality (e : Env) (c : Cst) (out : Sys) : Sys :=
  match binaryOperands c with
  | some (x, y) =>
    let x_le_y : Cst := ⟨(Expr.var x).subVar y, .leq⟩
    let x_lt_y : Cst := ⟨Expr.sub (Expr.var x) (Expr.var y), .lt⟩
    if e.entails x_le_y then Sys.addCst out x_lt_y
    else
      let x_ge_y : Cst := ⟨(Expr.var y).subVar x, .leq⟩
      let x_gt_y : Cst := ⟨Expr.sub (Expr.var y) (Expr.var x), .lt⟩
      if e.entails x_ge_y then Sys.addCst out x_gt_y else out
  | none => out

/-- the loop of `add` that builds `pp_csts` -/
def preprocess (e : Env) : List Cst → Sys → Sys
  | [], pp => pp
  | c :: rest, pp =>
    let pp := if c.kind = .neq then lowerDisequality e c pp else pp
    preprocess e rest (Sys.addCst pp c)

/-- `operator+=(csts)` / `add(csts)` -/
def add (e : Env) (csts : Sys) : Env :=
  if e.bottom then e else solverRun (preprocess e csts []) maxReductionCycles e

/-- `operator[](linear_expression_t)` and the loop of `assign` -/
def evalExpr (e : Env) (ex : Expr) : Itv :=
  ex.terms.foldl (fun r p => addT r (Itv.mul (Itv.single p.2) (e.get p.1))) (Itv.single ex.cst)

/-- `linear_expression::get_variable()` -/
def getVariable (ex : Expr) : Option Var :=
  if ex.isConstant then none
  else if ex.cst = 0 ∧ ex.size = 1 then
    match ex.terms with
    | [(v, c)] => if c = 1 then some v else none
    | _ => none
  else none

/-- `assign(x, e)` -/
def assign (e : Env) (x : Var) (ex : Expr) : Env :=
  match getVariable ex with
  | some v => e.set x (e.get v)
  | none => e.set x (e.evalExpr ex)

/-- `weak_assign(x, e)` -/
def weakAssign (e : Env) (x : Var) (ex : Expr) : Env :=
  match getVariable ex with
  | some v => e.joinKey x (e.get v)
  | none => e.joinKey x (e.evalExpr ex)

end Env

/-- `crab::domains::arith_operation_t` -/
inductive ArithOp where
  | add | sub | mul | sdiv | udiv | srem | urem
  deriving DecidableEq, Repr, Inhabited

/-- `crab::domains::bitwise_operation_t` -/
inductive BitOp where
  | and | or | xor | shl | lshr | ashr
  deriving DecidableEq, Repr, Inhabited

/-- the `switch` of `apply(arith_operation_t, x, y, z|k)` -/
def ArithOp.eval (op : ArithOp) (yi zi : Itv) : Itv :=
  match op with
  | .add => addT yi zi
  | .sub => subT yi zi
  | .mul => Itv.mul yi zi
  | .sdiv => divT yi zi
  | .udiv => Itv.udiv yi zi
  | .srem => Itv.srem yi zi
  | .urem => Itv.urem yi zi

/-- the `switch` of `apply(bitwise_operation_t, x, y, z|k)` -/
def BitOp.eval (op : BitOp) (yi zi : Itv) : Itv :=
  match op with
  | .and => Itv.and yi zi
  | .or => Itv.or yi zi
  | .xor => Itv.xor yi zi
  | .shl => Itv.shl yi zi
  | .lshr => Itv.lshr yi zi
  | .ashr => Itv.ashr yi zi

namespace Env

/-- `apply(op, x, y, z)` with a variable operand -/
def applyVar (e : Env) (op : ArithOp) (x y z : Var) : Env := e.set x (op.eval (e.get y) (e.get z))
/-- `apply(op, x, y, k)` with a constant operand -/
def applyCst (e : Env) (op : ArithOp) (x y : Var) (k : Int) : Env := e.set x (op.eval (e.get y) (Itv.single k))
def applyBitVar (e : Env) (op : BitOp) (x y z : Var) : Env := e.set x (op.eval (e.get y) (e.get z))
def applyBitCst (e : Env) (op : BitOp) (x y : Var) (k : Int) : Env := e.set x (op.eval (e.get y) (Itv.single k))

/-- `select(lhs, cond, e1, e2)` -/
def select (e : Env) (lhs : Var) (cond : Cst) (e1 e2 : Expr) : Env :=
  if e.bottom then e
  else if (e.add [cond]).bottom then e.assign lhs e2
  else if (e.add [cond.negate]).bottom then e.assign lhs e1
  else e.set lhs (Itv.join (e.evalExpr e1) (e.evalExpr e2))

/-- `forget(variables)` -/
def forgetAll (e : Env) (vs : List Var) : Env :=
  if e.bottom || e.isTop then e else vs.foldl (fun env v => env.forget v) e

/-- `expand(x, new_x)` -/
def expand (e : Env) (x nx : Var) : Env :=
  if e.bottom || e.isTop then e else e.set nx (e.get x)

/-- `apply(int_conv_operation_t, dst, src)` through `int_cast_domain_traits` for two integer
    (non Boolean) variables: `assign(dst, src)`, and for `OP_ZEXT` the constraint
    `dst <= 2^bitwidth(src) - 1` -/
def intCast (e : Env) (zext : Bool) (srcBitwidth : Nat) (dst src : Var) : Env :=
  let e1 := e.assign dst (Expr.var src)
  if zext then e1.add [⟨(Expr.var dst).subNum (2 ^ srcBitwidth - 1), .leq⟩] else e1

/-- `to_linear_constraint_system()` (bindings in increasing variable order; the real
    iteration order is the one of the Patricia tree: compare as sets) -/
def toCsts (e : Env) : Sys :=
  if e.bottom then Sys.addCst [] Cst.getFalse
  else e.m.foldl (fun s p =>
    let s := match p.2.lb.number? with
      | some lb => Sys.addCst s ⟨(Expr.term (-1) p.1).addNum lb, .leq⟩   -- v >= lb : lb - v <= 0
      | none => s
    match p.2.ub.number? with
      | some ub => Sys.addCst s ⟨(Expr.var p.1).subNum ub, .leq⟩          -- v <= ub : v - ub <= 0
      | none => s) []

end Env

end IDom
end Crab
