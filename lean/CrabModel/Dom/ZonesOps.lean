/-
  Further operations on the canonical zone model (`Dom/Zones.lean`, the reference of exactness of
  property C12) needed to state C03 / C04 / C01 for zones: bottom, `is_top`, `forget` of several
  variables, `project`, the assignments expressible in the constraint language
  (`x := k`, `x := y + k`, `x := x + k`; everything else is a havoc = forget), a statement
  language with its concrete relation, and the lifting of every operation to the values
  `ZVal n = Option (Zone n)` of the widening model (`Dom/DbmWiden.lean`, `none` = `_is_bottom`).

  These are operations of the CANONICAL model (dense matrix, closure on demand), defined through
  `forget` + `assumeCst` (and a translation of the matrix for `x := x + k`), not a transcription
  of `split_dbm_domain::assign` / `apply`.  The shipped zone domains are tied to the canonical
  model by `h_exact` for assume / join / meet / forget only.
-/
import CrabModel.Dom.Zones
import CrabModel.Dom.DbmWiden
import CrabModel.Fix.Interleaved

namespace Crab
namespace Dbm
namespace Mat
variable {N : Nat}

/-- translate the valuations by the vector `d`: `v ↦ v + d`
    (entry `(i, j)` bounds `v i - v j`, which grows by `d i - d j`) -/
def shiftBy (m : Mat N) (d : Fin N → Int) : Mat N :=
  ofFn fun i j => W.add (m.get i j) (some (d i - d j))

/-- rename the indices: `v ↦ v ∘ π` for an involution `π` -/
def permute (m : Mat N) (π : Fin N → Fin N) : Mat N := ofFn fun i j => m.get (π i) (π j)

/-- the textbook widening of difference-bound matrices: keep the entries of the (unclosed) left
    operand that the right operand does not exceed, drop the others -/
def widenStd (l r : Mat N) : Mat N :=
  ofFn fun i j => if W.le (r.get i j) (l.get i j) then l.get i j else none

end Mat
end Dbm

namespace Zones
open Dbm

variable {n : Nat}

/-- a canonical unsatisfiable matrix: `0 - 0 ≤ -1` -/
def bot : Zone n := (top : Zone n).addEdge 0 0 (-1)

/-- `is_top`: every state is described, i.e. `top ⊑ z` -/
def isTop (z : Zone n) : Bool := leq top z

/-- `forget(variables)` -/
def forgetAll (z : Zone n) (xs : List (Fin n)) : Zone n := xs.foldl forget z

/-- `project(variables)`: forget every other variable -/
def project (z : Zone n) (keep : List (Fin n)) : Zone n :=
  forgetAll z ((List.finRange n).filter fun x => !keep.contains x)

/-- the translation vector of `x := x + k` -/
def shiftVec (x : Fin n) (k : Int) : Fin (n + 1) → Int := fun i => if i = x.succ then k else 0

/-- `x := k`: forget `x`, then `x ≤ k ∧ -x ≤ -k` -/
def assignCst (z : Zone n) (x : Fin n) (k : Int) : Zone n :=
  assumeAll (forget z x) [.ub x k, .lb x (-k)]

/-- `x := y + k`.  For `y ≠ x`: forget `x`, then `x - y ≤ k ∧ y - x ≤ -k`;
    `x := x + k` translates the matrix -/
def assignVar (z : Zone n) (x y : Fin n) (k : Int) : Zone n :=
  if x = y then z.shiftBy (shiftVec x k)
  else assumeAll (forget z x) [.diff x y k, .diff y x (-k)]

/-- statements a zone executes without leaving its constraint language -/
inductive Stmt (n : Nat) where
  | assume (cs : List (Cst n))            -- `+=` of a system of in-language constraints
  | assignCst (x : Fin n) (k : Int)       -- `x := k`
  | assignVar (x y : Fin n) (k : Int)     -- `x := y + k` (`y = x` allowed)
  | havoc (x : Fin n)                     -- `-=`, and every assignment outside the language
  | forget (xs : List (Fin n))            -- `forget(vars)`
  | project (keep : List (Fin n))         -- `project(vars)`

/-- the concrete transition relation of a statement -/
def Stmt.rel : Stmt n → State n → State n → Prop
  | .assume cs, s, s' => s' = s ∧ ∀ c ∈ cs, c.sat s
  | .assignCst x k, s, s' => s' = fun y => if y = x then k else s y
  | .assignVar x y k, s, s' => s' = fun v => if v = x then s y + k else s v
  | .havoc x, s, s' => ∀ y, y ≠ x → s' y = s y
  | .forget xs, s, s' => ∀ y, y ∉ xs → s' y = s y
  | .project keep, s, s' => ∀ y, y ∈ keep → s' y = s y

/-- the abstract execution on the canonical model -/
def Stmt.exec : Stmt n → Zone n → Zone n
  | .assume cs, z => Zones.assumeAll z cs
  | .assignCst x k, z => Zones.assignCst z x k
  | .assignVar x y k, z => Zones.assignVar z x y k
  | .havoc x, z => Zones.forget z x
  | .forget xs, z => Zones.forgetAll z xs
  | .project keep, z => Zones.project z keep

/-! ### the operations on `ZVal n` (explicit bottom flag) -/
namespace ZVal

def bot : ZVal n := none
def top : ZVal n := some Zones.top

/-- `is_bottom()`: the flag, or an unsatisfiable matrix -/
def isBottom : ZVal n → Bool
  | none => true
  | some z => Zones.isBottom z

def isTop : ZVal n → Bool
  | none => false
  | some z => Zones.isTop z

def exec (st : Stmt n) (v : ZVal n) : ZVal n := v.map st.exec

def copy (v : ZVal n) : ZVal n := v

def join : ZVal n → ZVal n → ZVal n
  | none, y => y
  | x, none => x
  | some a, some b => some (Zones.join a b)

def meet : ZVal n → ZVal n → ZVal n
  | some a, some b => some (Zones.meet a b)
  | _, _ => none

/-- the inclusion test of the canonical model (exact: `C04.zones_leq_iff`) -/
def leq : ZVal n → ZVal n → Bool
  | none, _ => true
  | some a, none => Zones.isBottom a
  | some a, some b => Zones.leq a b

/-- the operations handed to the fixpoint engine: exact inclusion test, join, meet, the widening
    of the code for the reading `ew` of the right operand, narrowing = meet (as in the code:
    `operator&&` is `*this & o`) -/
def ops (ew : Zone n → Fin (n + 1) → Fin (n + 1) → W) : Fix.Ops (ZVal n) :=
  { bot := bot, top := top, leq := leq, join := join, meet := meet, widen := widenE ew, narrow := meet }

end ZVal

end Zones
end Crab
