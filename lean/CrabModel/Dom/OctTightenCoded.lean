/-
  The integer tightening of `split_oct_domain` AS CODED (split_oct.hpp, `integer_tightening()`):

      Wt tightened_w = 2 * (Wt)std::floor((float)w.get() / 2);

  The odd unary weight `w` (a bound on `±2x`) goes through a 32-bit `float` (24-bit significand,
  round to nearest, ties to even).  Division by 2 and `floor` are exact on the rounded value, so the
  result is `2 * ⌊f32(w) / 2⌋`; it equals the intended `2 * ⌊w / 2⌋` only while `|w| < 2^24`.
-/
namespace Crab
namespace Octagon

/-- `(float)k` for an integer `k` (valid for `|k| < 2^127`): nearest multiple of the ulp, ties to even -/
def f32round (k : Int) : Int :=
  let a := k.natAbs
  if a < 2 ^ 24 then k
  else
    let u := 2 ^ (Nat.log2 a - 23)
    let q := a / u
    let r := a % u
    let q' := if 2 * r < u then q else if 2 * r > u then q + 1 else (if q % 2 = 0 then q else q + 1)
    let m : Int := ((q' * u : Nat) : Int)
    if k < 0 then -m else m

/-- the tightening as coded -/
def tightenCoded (w : Int) : Int := 2 * (f32round w / 2)

/-- the tightening of the reference model (`Dbm.W.tight2`) -/
def tightenExact (w : Int) : Int := 2 * (w / 2)

end Octagon
end Crab
