/-
  Model of `crab::domains::sign_domain<z_number, VariableName>`
  (include/crab/domains/sign_domain.hpp), function by function.

   * environment: `separate_domain<variable_t, sign<z_number>>` = `SepDom Sign` with the lattice
     `signLattice` (CrabModel/Dom/NonRelEnv.lean for the forwarded operations);
   * the scalar operations are the ones of the model of `sign<z_number>`
     (CrabModel/Scalar/Sign.lean): lookups in the table extracted from the code.  The table is
     complete and contains no CRAB_ERROR (`C08.sgn_table_complete`, `C08.sgn_table_ok`), so the
     lookups are used through the total wrapper `sop` (value `top` on a missing entry, which
     never happens: `C03.sgndom_sop_defined`);
   * `compute_residual`, `extract_sign_constraints`, the two lambdas of `solve_constraints`
     and its six loops, `eval_expr`, `assign`, `weak_assign`, the `switch`es of `apply`,
     `select`, `int_cast_domain_traits::apply`, `DEFAULT_ENTAILS`, `at`,
     `to_linear_constraint_system`.  Widening is the join and narrowing the meet
     (`operator||`, `widening_thresholds`, `operator&&` call `m_env | o.m_env` / `m_env & o.m_env`).

  Correspondence: harness/h_cdom.cpp (-DXDOM=2) + Driver/XDomH.lean.
-/
import CrabModel.Dom.NonRelEnv
import CrabModel.Scalar.Sign

namespace Crab
namespace SDom
open XDom

/-- `x op y` of `sign<z_number>` -/
def sop (op : SOp) (x y : Sign) : Sign := (Sign.binop op x y).getD .top

/-- `sign<z_number>` as the value parameter of `separate_domain` (`operator||`/`operator&&` of
    the value class are never called by this domain) -/
def signLattice : Lattice Sign :=
  { top := .top, bottom := .bot, isTop := fun s => decide (s = .top), isBottom := fun s => decide (s = .bot),
    leq := fun x y => (Sign.leq x y).getD false, join := sop .join, meet := sop .meet,
    widen := sop .join, narrow := sop .meet, beq := fun x y => (Sign.beq x y).getD false }

local notation "SL" => signLattice

abbrev Env := XDom.Env Sign

namespace Env

def top : Env := XDom.Env.top
def bot : Env := XDom.Env.bot
/-- `get_sign(v)` / `m_env.at(v)` -/
def get (e : Env) (x : Lin.Var) : Sign := XDom.Env.get SL e x
/-- `set_sign(v, s)` / `m_env.set(v, s)` -/
def set (e : Env) (x : Lin.Var) (s : Sign) : Env := XDom.Env.set SL e x s

/-- `eval_expr(expr)` -/
def eval (e : Env) (ex : Lin.Expr) : Sign :=
  if e.isBot then .bot
  else ex.terms.foldl (fun r p => sop .add r (sop .mul (Sign.ofInt p.2) (e.get p.1))) (Sign.ofInt ex.cst)

/-- `compute_residual(e, pivot)` -/
def computeResidual (e : Env) (ex : Lin.Expr) (pivot : Lin.Var) : Sign :=
  ex.terms.foldl (fun r p =>
    if p.1 ≠ pivot then sop .sub r (sop .mul (Sign.ofInt p.2) (e.get p.1)) else r) (Sign.ofInt (-ex.cst))

/-- `extract_sign_constraints(c, ...)`: the facts `pivot OP res` (with the coefficient of the
    pivot, whose sign selects the vector the fact goes to), in the order of the terms -/
def extract (e : Env) (ex : Lin.Expr) : List (Lin.Var × Int × Sign) :=
  ex.terms.filterMap (fun p =>
    let res := sop .div (e.computeResidual ex p.1) (Sign.ofInt p.2)
    if res = .bot then none          -- this shouldn't happen
    else if res ≠ .top then some (p.1, p.2, res) else none)

/-- the lambda `solve_strict_inequality(v, rhs, is_less_than)` -/
def solveStrict (e : Env) (v : Lin.Var) (rhs : Sign) (isLess : Bool) : Env :=
  let lhs := e.get v
  if rhs = .eqz then e.set v (sop .meet (e.get v) (if isLess then .ltz else .gtz))
  else
    let l := if isLess then lhs else rhs
    let r := if isLess then rhs else lhs
    if (l = .gtz ∨ l = .gez) ∧ (r = .ltz ∨ r = .lez) then bot else e

/-- the lambda `solve_inequality(v, rhs, is_less_equal)` -/
def solveIneq (e : Env) (v : Lin.Var) (rhs : Sign) (isLessEq : Bool) : Env :=
  let lhs := e.get v
  if rhs = .eqz then e.set v (sop .meet (e.get v) (if isLessEq then .lez else .gez))
  else
    let l := if isLessEq then lhs else rhs
    let r := if isLessEq then rhs else lhs
    if l = .gez ∧ r = .ltz then bot
    else if l = .gtz ∧ (r = .ltz ∨ r = .lez) then bot
    else e

/-- the loop over `equal`; the Boolean is "`return` executed" -/
def eqLoop : List (Lin.Var × Int × Sign) → Env → Bool × Env
  | [], e => (false, e)
  | (v, _, rhs) :: rest, e =>
    let e' := e.set v (sop .meet (e.get v) rhs)
    if e'.isBot then (true, e') else eqLoop rest e'

/-- the loop over `not_equal` -/
def neqLoop : List (Lin.Var × Int × Sign) → Env → Bool × Env
  | [], e => (false, e)
  | (v, _, rhs) :: rest, e =>
    if rhs = .eqz then
      let e' := e.set v (sop .meet (e.get v) .nez)
      if e'.isBot then (true, e') else neqLoop rest e'
    else if rhs = .nez then
      let e' := e.set v (sop .meet (e.get v) .eqz)
      if e'.isBot then (true, e') else neqLoop rest e'
    else neqLoop rest e

/-- the body of the loop of `solve_constraints` for a constraint that is neither a tautology
    nor a contradiction: the six vectors are filled by `extract_sign_constraints`, then walked
    in the order `less_than`, `greater_than`, `less_equal`, `greater_equal`, `equal`,
    `not_equal` (for each kind of constraint only its own vectors are non-empty) -/
def solveOne (e : Env) (c : Lin.Cst) : Bool × Env :=
  let xs := e.extract c.expr
  let pos := xs.filter (fun t => !decide (t.2.1 < 0))   -- `less_than` / `less_equal`
  let neg := xs.filter (fun t => decide (t.2.1 < 0))    -- `greater_than` / `greater_equal`
  match c.kind with
  | .lt =>
    let e1 := pos.foldl (fun e t => e.solveStrict t.1 t.2.2 true) e
    (false, neg.foldl (fun e t => e.solveStrict t.1 t.2.2 false) e1)
  | .leq =>
    let e1 := pos.foldl (fun e t => e.solveIneq t.1 t.2.2 true) e
    (false, neg.foldl (fun e t => e.solveIneq t.1 t.2.2 false) e1)
  | .eq => eqLoop xs e
  | .neq => neqLoop xs e

/-- the loop of `solve_constraints` (bottom is tested before the loop only) -/
def solveLoop : List Lin.Cst → Env → Env
  | [], e => e
  | c :: rest, e =>
    if c.isTautology then solveLoop rest e
    else if c.isContradiction then bot
    else match e.solveOne c with
      | (true, e') => e'
      | (false, e') => solveLoop rest e'

/-- `operator+=(csts)` / `solve_constraints(csts)` -/
def add (e : Env) (csts : Lin.Sys) : Env := if e.isBot then e else solveLoop csts e

/-- `assign(x, e)` -/
def assign (e : Env) (x : Lin.Var) (ex : Lin.Expr) : Env :=
  if e.isBot then e
  else match getVariable ex with
    | some v => e.set x (e.get v)
    | none => e.set x (e.eval ex)

/-- `weak_assign(x, e)` -/
def weakAssign (e : Env) (x : Lin.Var) (ex : Lin.Expr) : Env :=
  if e.isBot then e
  else match getVariable ex with
    | some v => XDom.Env.joinKey SL e x (e.get v)
    | none => XDom.Env.joinKey SL e x (e.eval ex)

end Env

/-- the `switch` of `apply(arith_operation_t, x, y, z|k)` -/
def arithEval (op : ArithOp) (yi zi : Sign) : Sign :=
  match op with
  | .add => sop .add yi zi
  | .sub => sop .sub yi zi
  | .mul => sop .mul yi zi
  | .sdiv => sop .div yi zi
  | .udiv => sop .udiv yi zi
  | .srem => sop .srem yi zi
  | .urem => sop .urem yi zi

/-- the `switch` of `apply(bitwise_operation_t, x, y, z|k)` -/
def bitEval (op : BitOp) (yi zi : Sign) : Sign :=
  match op with
  | .and => sop .and yi zi
  | .or => sop .or yi zi
  | .xor => sop .xor yi zi
  | .shl => sop .shl yi zi
  | .lshr => sop .lshr yi zi
  | .ashr => sop .ashr yi zi

namespace Env

def applyVar (e : Env) (op : ArithOp) (x y z : Lin.Var) : Env :=
  if e.isBot then e else e.set x (arithEval op (e.get y) (e.get z))
def applyCst (e : Env) (op : ArithOp) (x y : Lin.Var) (k : Int) : Env :=
  if e.isBot then e else e.set x (arithEval op (e.get y) (Sign.ofInt k))
def applyBitVar (e : Env) (op : BitOp) (x y z : Lin.Var) : Env :=
  if e.isBot then e else e.set x (bitEval op (e.get y) (e.get z))
def applyBitCst (e : Env) (op : BitOp) (x y : Lin.Var) (k : Int) : Env :=
  if e.isBot then e else e.set x (bitEval op (e.get y) (Sign.ofInt k))

/-- `select(lhs, cond, e1, e2)` -/
def select (e : Env) (lhs : Lin.Var) (cond : Lin.Cst) (e1 e2 : Lin.Expr) : Env :=
  if e.isBot then e
  else if (e.add [cond]).isBot then e.assign lhs e2
  else if (e.add [cond.negate]).isBot then e.assign lhs e1
  else e.set lhs (sop .join (e.eval e1) (e.eval e2))

/-- `apply(int_conv_operation_t, dst, src)` through `int_cast_domain_traits` (integer variables) -/
def intCast (e : Env) (zext : Bool) (srcBitwidth : Nat) (dst src : Lin.Var) : Env :=
  let e1 := e.assign dst (Lin.Expr.var src)
  if zext then e1.add [⟨(Lin.Expr.var dst).subNum (2 ^ srcBitwidth - 1), .leq⟩] else e1

/-- the lambda `entailmentFn` of `DEFAULT_ENTAILS` -/
def entailFn (e : Env) (c : Lin.Cst) : Bool := (e.add [c.negate]).isBot

/-- `entails(cst)` (`DEFAULT_ENTAILS`) -/
def entails (e : Env) (c : Lin.Cst) : Bool :=
  if e.isBot then true
  else if c.isTautology then true
  else if c.isContradiction then false
  else if c.kind = .eq then
    (Lin.Sys.addCst (Lin.Sys.addCst [] ⟨c.expr, .leq⟩) ⟨c.expr.scale (-1), .leq⟩).all (entailFn e)
  else entailFn e c

/-- `at(v)` / `operator[](v)`: `m_env.at(v).to_interval()` -/
def atItv (e : Env) (x : Lin.Var) : Itv :=
  if e.isBot then Itv.bot else (Sign.toInterval (e.get x)).getD Itv.top

/-- the constraint exported for one binding -/
def bindingCst (p : Lin.Var × Sign) : Option Lin.Cst :=
  match p.2 with
  | .eqz => some ⟨(Lin.Expr.var p.1).subNum 0, .eq⟩
  | .ltz => some ⟨(Lin.Expr.var p.1).subNum 0, .lt⟩
  | .gtz => some ⟨(Lin.Expr.term (-1) p.1).addNum 0, .lt⟩
  | .lez => some ⟨(Lin.Expr.var p.1).subNum 0, .leq⟩
  | .gez => some ⟨(Lin.Expr.term (-1) p.1).addNum 0, .leq⟩
  | _ => none     -- we cannot represent not_equal_zero as a linear constraint

/-- `to_linear_constraint_system()` (bindings in increasing variable order; compared as a set) -/
def toCsts (e : Env) : Lin.Sys := XDom.Env.exportCsts bindingCst e

end Env
end SDom
end Crab
