/-
  Model of the "ric" domain `crab::domains::numerical_congruence_domain<interval_domain<z_number>>`
  (include/crab/domains/combined_congruences.hpp) with everything it is made of:

   * `basic_domain_product2<Domain1, Domain2>` (include/crab/domains/combined_domains.hpp): the
     flag `m_is_bottom` and the two components, *lazily* canonicalised (`canonicalize()` is called
     by the non-const accessors `first()` / `second()` and by the constructor unless it is told
     not to — the widenings): a value can have a bottom component and `m_is_bottom == false`;
   * `reduced_domain_product2` (same file): every operation applied to `m_product.first()` then to
     `m_product.second()` (so with a canonicalisation before each), followed by `reduce()` for
     `apply`, `select`, `+=` and the casts (not for `assign`, `weak_assign`, `-=`, `forget`,
     `project`, `expand`, `rename`);
   * `numerical_congruence_domain`: the product followed by `reduce_variable(x)`, the per-variable
     reduction through the constructor of `interval_congruence` (`IC.reduce`,
     CrabModel/Scalar/IntervalCongruence.lean: Granger's rules);
   * the components are the existing exact models `Crab.IDom` (`interval_domain`) and `Crab.GDom`
     (`congruence_domain`).

  `IC.reduce` never raises CRAB_ERROR (`C08.ic_reduce_defined`): it is used through the total
  wrapper `icReduce` (the unreduced pair on the unreachable error).  The only reachable
  CRAB_ERROR is the one of `rename` on vectors of different lengths (`Option`).

  Correspondence: harness/h_cdom.cpp (-DXDOM=4) + Driver/XDomH.lean compare `is_bottom`, `is_top`,
  both components as printed by `write` (the class gives no other access to the congruences), the
  exported constraints and the answers of `entails`, `<=`, `at` after every operation.
-/
import CrabModel.Dom.IntervalDomain
import CrabModel.Dom.CongruenceDomain
import CrabModel.Scalar.IntervalCongruence

namespace Crab
namespace RDom
open XDom

/-- `basic_domain_product2<interval_domain, congruence_domain>` -/
structure Env where
  isBot : Bool        -- `m_is_bottom`
  f : IDom.Env        -- `m_first`
  s : GDom.Env        -- `m_second`

/-- the operations of the two component models use their own copies of the enumerations -/
def toIA : ArithOp → IDom.ArithOp
  | .add => .add | .sub => .sub | .mul => .mul | .sdiv => .sdiv | .udiv => .udiv | .srem => .srem | .urem => .urem
def toIB : BitOp → IDom.BitOp
  | .and => .and | .or => .or | .xor => .xor | .shl => .shl | .lshr => .lshr | .ashr => .ashr

/-- `interval_congruence(interval&&, congruence&&)` (the constructor reduces) -/
def icReduce (i : Itv) (c : Cong) : IC := (IC.reduce ⟨i, c⟩).getD ⟨i, c⟩

namespace Env

/-- `set_to_bottom()`, `make_bottom()` -/
def bot : Env := ⟨true, IDom.Env.bot, GDom.Env.bot⟩
/-- the default constructor, `set_to_top()`, `make_top()` -/
def top : Env := ⟨false, IDom.Env.top, GDom.Env.top⟩

/-- `canonicalize()` -/
def canon (e : Env) : Env :=
  if !e.isBot then (if e.f.bottom || e.s.isBot then bot else e) else e

/-- `basic_domain_product2(first, second, apply_reduction)` -/
def mk' (f : IDom.Env) (s : GDom.Env) (applyReduction : Bool) : Env :=
  if applyReduction then canon ⟨false, f, s⟩ else ⟨false, f, s⟩

/-- `is_bottom()` -/
def isBottom (e : Env) : Bool := if e.isBot then true else e.f.bottom || e.s.isBot
/-- `is_top()` -/
def isTop (e : Env) : Bool := e.f.isTop && SepDom.isTop e.s

/-- `m_product.first().g1(...); m_product.second().g2(...)`: each accessor canonicalises -/
def both (g1 : IDom.Env → IDom.Env) (g2 : GDom.Env → GDom.Env) (e : Env) : Env :=
  let e1 := canon e
  let e2 := canon ⟨e1.isBot, g1 e1.f, e1.s⟩
  ⟨e2.isBot, e2.f, g2 e2.s⟩

/-- `reduced_domain_product2::reduce()` -/
def reduceP (e : Env) : Env :=
  let e1 := canon e
  if e1.f.bottom then bot
  else
    let e2 := canon e1
    if e2.s.isBot then bot else e2

/-- `val.first() != i` in `reduce_variable`, AS CODED: `i` has been moved into `val`
    (`interval_congruence_t val(std::move(i), std::move(c))`), and a moved-from `z_number` is 0
    (`z_number(z_number &&o)` re-initialises `o`): the comparison is made with an interval whose
    bounds keep their infinity flags and have the number 0.  `bound::operator==` compares the
    flag and the number, so the test answers "equal" exactly when the reduced interval is `[0, 0]`
    and both bounds of the original interval were finite (an infinite bound of `val.first()` has
    the number ±1 and is never equal) -/
def firstChanged (vi i : Itv) : Bool :=
  !(decide (vi = ⟨.fin 0, .fin 0⟩) && i.lb.number?.isSome && i.ub.number?.isSome)

/-- `val.second() != c`, AS CODED: the moved-from `c` keeps its bottom flag and has modulus and
    residue 0, i.e. it is the constant 0 -/
def secondChanged (vc c : Cong) : Bool := !(vc.isBot == c.isBot && vc.a == 0 && vc.b == 0)

/-- `numerical_congruence_domain::reduce_variable(v)` -/
def reduceVar (e : Env) (v : Lin.Var) : Env :=
  if e.isBottom then e
  else
    let e1 := canon e
    let i := e1.f.get v                 -- `m_product.first()[v]`
    let e2 := canon e1
    let c := e2.s.get v                 -- `m_product.second().to_congruence(v)`
    let val := icReduce i c
    if val.isBottom then bot
    else
      let e3 := if firstChanged val.i i then (let e' := canon e2; (⟨e'.isBot, e'.f.set v val.i, e'.s⟩ : Env)) else e2
      if secondChanged val.c c then (let e' := canon e3; ⟨e'.isBot, e'.f, e'.s.set v val.c⟩) else e3

/-- the same with the comparisons the code intends (`val.first() != i`, `val.second() != c` on
    the values before the move): what `reduce_variable` would do without the use after move -/
def reduceVarIntended (e : Env) (v : Lin.Var) : Env :=
  if e.isBottom then e
  else
    let e1 := canon e
    let i := e1.f.get v
    let e2 := canon e1
    let c := e2.s.get v
    let val := icReduce i c
    if val.isBottom then bot
    else
      let e3 := if !(Itv.beq val.i i) then (let e' := canon e2; (⟨e'.isBot, e'.f.set v val.i, e'.s⟩ : Env)) else e2
      if !(Cong.beq val.c c) then (let e' := canon e3; ⟨e'.isBot, e'.f, e'.s.set v val.c⟩) else e3

/-! ### lattice operations (`basic_domain_product2`) -/

/-- `operator<=` -/
def leq (a b : Env) : Bool :=
  if a.isBottom then true
  else if b.isBottom then false
  else IDom.Env.leq a.f b.f && XDom.Env.leq GDom.congLattice a.s b.s

/-- `operator|` -/
def join (a b : Env) : Env :=
  if a.isBottom then b
  else if b.isBottom then a
  else mk' (IDom.Env.join a.f b.f) (XDom.Env.join GDom.congLattice a.s b.s) true

/-- `operator|=` (no canonicalisation) -/
def joinEq (a b : Env) : Env :=
  if a.isBottom then b
  else if b.isBottom then a
  else ⟨a.isBot, IDom.Env.join a.f b.f, XDom.Env.join GDom.congLattice a.s b.s⟩

/-- `operator||`: no bottom test, no canonicalisation -/
def widen (a b : Env) : Env :=
  mk' (IDom.Env.widen a.f b.f) (XDom.Env.widen GDom.congLattice a.s b.s) false

/-- `widening_thresholds` (`congruence_domain` ignores the thresholds) -/
def widenTh (ts : IDom.Thresholds) (a b : Env) : Env :=
  mk' (IDom.Env.widenTh ts a.f b.f) (XDom.Env.widen GDom.congLattice a.s b.s) false

/-- `operator&` -/
def meet (a b : Env) : Env :=
  if a.isBottom || b.isTop then a
  else if b.isBottom || a.isTop then b
  else mk' (IDom.Env.meet a.f b.f) (XDom.Env.meet GDom.congLattice a.s b.s) true

/-- `operator&=` (no canonicalisation) -/
def meetEq (a b : Env) : Env :=
  if a.isBottom then a
  else if b.isBottom then b
  else ⟨a.isBot, IDom.Env.meet a.f b.f, XDom.Env.meet GDom.congLattice a.s b.s⟩

/-- `operator&&` -/
def narrow (a b : Env) : Env :=
  if a.isBottom || b.isTop then a
  else if b.isBottom || a.isTop then b
  else mk' (IDom.Env.narrow a.f b.f) (XDom.Env.narrow GDom.congLattice a.s b.s) true

/-! ### transformers (`numerical_congruence_domain` over `reduced_domain_product2`) -/

/-- `assign(x, e)` -/
def assign (e : Env) (x : Lin.Var) (ex : Lin.Expr) : Env :=
  (both (fun f => f.assign x ex) (fun s => s.assign x ex) e).reduceVar x

/-- `weak_assign(x, e)` -/
def weakAssign (e : Env) (x : Lin.Var) (ex : Lin.Expr) : Env :=
  (both (fun f => f.weakAssign x ex) (fun s => s.weakAssign x ex) e).reduceVar x

def applyVar (e : Env) (op : ArithOp) (x y z : Lin.Var) : Env :=
  (reduceP (both (fun f => f.applyVar (toIA op) x y z) (fun s => s.applyVar op x y z) e)).reduceVar x
def applyCst (e : Env) (op : ArithOp) (x y : Lin.Var) (k : Int) : Env :=
  (reduceP (both (fun f => f.applyCst (toIA op) x y k) (fun s => s.applyCst op x y k) e)).reduceVar x
def applyBitVar (e : Env) (op : BitOp) (x y z : Lin.Var) : Env :=
  (reduceP (both (fun f => f.applyBitVar (toIB op) x y z) (fun s => s.applyBitVar op x y z) e)).reduceVar x
def applyBitCst (e : Env) (op : BitOp) (x y : Lin.Var) (k : Int) : Env :=
  (reduceP (both (fun f => f.applyBitCst (toIB op) x y k) (fun s => s.applyBitCst op x y k) e)).reduceVar x

/-- the loops of `operator+=`: `reduce_variable` of every variable of every constraint, with
    the exit on bottom -/
def reduceVars : List Lin.Var → Env → Env
  | [], e => e
  | v :: rest, e =>
    let e' := e.reduceVar v
    if e'.isBottom then e' else reduceVars rest e'

def reduceCsts : List Lin.Cst → Env → Env
  | [], e => e
  | c :: rest, e =>
    let e' := reduceVars c.expr.variables e
    if e'.isBottom then e' else reduceCsts rest e'

/-- `operator+=(csts)` -/
def add (e : Env) (csts : Lin.Sys) : Env :=
  let e1 := reduceP (both (fun f => f.add csts) (fun s => s.add csts) e)
  if !e1.isBottom then reduceCsts csts e1 else e1

/-- `entails(cst)` (const: no canonicalisation) -/
def entails (e : Env) (c : Lin.Cst) : Bool := e.f.entails c || e.s.entails c

/-- `operator-=(v)` -/
def forget (e : Env) (x : Lin.Var) : Env := both (fun f => f.forget x) (fun s => s.forget x) e
/-- `forget(variables)` -/
def forgetAll (e : Env) (vs : List Lin.Var) : Env := both (fun f => f.forgetAll vs) (fun s => s.forgetAll vs) e
/-- `project(variables)` -/
def project (e : Env) (vs : List Lin.Var) : Env := both (fun f => f.project vs) (fun s => s.project vs) e
/-- `expand(x, new_x)` -/
def expand (e : Env) (x nx : Lin.Var) : Env := both (fun f => f.expand x nx) (fun s => s.expand x nx) e

/-- `rename(from, to)`; `none` = CRAB_ERROR (raised by the first component already) -/
def rename (e : Env) (frm to : List Lin.Var) : Option Env :=
  let e1 := canon e
  match e1.f.rename frm to with
  | none => none
  | some f' =>
    let e2 := canon ⟨e1.isBot, f', e1.s⟩
    match e2.s.rename frm to with
    | none => none
    | some s' => some ⟨e2.isBot, e2.f, s'⟩

/-- `select(lhs, cond, e1, e2)` -/
def select (e : Env) (lhs : Lin.Var) (cond : Lin.Cst) (e1 e2 : Lin.Expr) : Env :=
  (reduceP (both (fun f => f.select lhs cond e1 e2) (fun s => s.select lhs cond e1 e2) e)).reduceVar lhs

/-- `apply(int_conv_operation_t, dst, src)` -/
def intCast (e : Env) (zext : Bool) (bw : Nat) (dst src : Lin.Var) : Env :=
  (reduceP (both (fun f => f.intCast zext bw dst src) (fun s => s.intCast zext bw dst src) e)).reduceVar dst

/-- `set(v, x)` ("pre: x is already reduced") -/
def set (e : Env) (x : Lin.Var) (v : IC) : Env := both (fun f => f.set x v.i) (fun s => s.set x v.c) e

/-- `at(v)`: the interval of the first component (const: no canonicalisation) -/
def atItv (e : Env) (x : Lin.Var) : Itv := e.f.get x

/-- `to_linear_constraint_system()`: the systems of the two components -/
def toCsts (e : Env) : Lin.Sys := Lin.Sys.addSys (Lin.Sys.addSys [] e.f.toCsts) e.s.toCsts

end Env
end RDom
end Crab
