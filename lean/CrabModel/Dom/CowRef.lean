/-
  Model of the copy-on-write wrapper `crab::domains::abstract_domain_ref<Variable>`
  (include/crab/domains/generic_abstract_domain.hpp).

  C++ object                                   model
  ------------------------------------------   -------------------------------------------
  heap object owned by a `std::shared_ptr`     a cell `⟨val, rc⟩` of the store (`rc` = use_count)
  `abstract_domain_ref` object                 a handle `⟨base, norm⟩` = (`m_base_ref`, `m_norm_ref`),
                                               `base = none` is the null pointer
  the wrapper variables of the client          a pool of slots, `none` = no object / moved-from
  `std::make_shared`                           `alloc`   (fresh cell id, rc = 1)
  shared_ptr copy / reset / destruction        `incr` / `decr` (the cell is freed when rc reaches 0)
  `m_norm_ref.unique()`                        `rc = 1`

  The wrapped value type `A` is arbitrary (`abstract_domain<Variable>`); a mutating method of the
  wrapped value is a function `A → A`, a const method a function `A → B`.
-/
namespace Crab
namespace Dom
namespace Cow

/-- `abstract_domain_ref`: `m_base_ref` (may be null) and `m_norm_ref` -/
structure Handle where
  base : Option Nat
  norm : Nat
deriving DecidableEq, Repr

/-- control block + object of a `std::shared_ptr<abstract_domain_t>` -/
structure Cell (A : Type) where
  val : A
  rc : Nat

structure State (A : Type) where
  cells : Nat → Option (Cell A)
  next : Nat
  pool : List (Option Handle)

variable {A : Type}

/-- `n` client variables, none constructed yet; empty heap -/
def init (n : Nat) : State A := ⟨fun _ => none, 0, List.replicate n none⟩

/-- copying a shared_ptr that owns `c`: use_count + 1 -/
def incr (st : State A) (c : Nat) : State A :=
  { st with cells := fun i => if i = c then
      (match st.cells c with | some x => some ⟨x.val, x.rc + 1⟩ | none => none) else st.cells i }

/-- destroying / resetting a shared_ptr that owns `c`: use_count - 1, the object dies at 0 -/
def decr (st : State A) (c : Nat) : State A :=
  { st with cells := fun i => if i = c then
      (match st.cells c with
       | some x => if x.rc ≤ 1 then none else some ⟨x.val, x.rc - 1⟩
       | none => none) else st.cells i }

def incrO (st : State A) : Option Nat → State A
  | none => st
  | some c => incr st c

def decrO (st : State A) : Option Nat → State A
  | none => st
  | some c => decr st c

/-- memberwise copy of the two shared_ptrs of a wrapper (defaulted copy constructor).
    The defaulted copy ASSIGNMENT interleaves acquire/release per member; under the store
    invariant (every pointer is counted) no count reaches 0 in between, so `acquire` followed
    by `release` of the old content is the same. -/
def acquire (st : State A) (h : Handle) : State A := incrO (incr st h.norm) h.base

/-- destruction of the two shared_ptrs of a wrapper (members die in reverse declaration
    order: `m_norm_ref`, then `m_base_ref`) -/
def release (st : State A) (h : Handle) : State A := decrO (decr st h.norm) h.base

/-- `std::make_shared<abstract_domain_t>(v)` -/
def alloc (st : State A) (v : A) : State A × Nat :=
  ({ st with cells := fun i => if i = st.next then some ⟨v, 1⟩ else st.cells i, next := st.next + 1 },
   st.next)

/-- in-place update of the object in cell `c` (a non-const method of the wrapped value) -/
def write (st : State A) (c : Nat) (f : A → A) : State A :=
  { st with cells := fun i => if i = c then
      (match st.cells c with | some x => some ⟨f x.val, x.rc⟩ | none => none) else st.cells i }

def setSlot (st : State A) (d : Nat) (x : Option Handle) : State A :=
  { st with pool := st.pool.set d x }

/-- the live wrapper in slot `d` -/
def getH (st : State A) (d : Nat) : Option Handle :=
  match st.pool[d]? with
  | some (some h) => some h
  | _ => none

def valOf (st : State A) (c : Nat) : Option A :=
  match st.cells c with | some x => some x.val | none => none

def rcOf (st : State A) (c : Nat) : Nat :=
  match st.cells c with | some x => x.rc | none => 0

/-- `norm()` : `*m_norm_ref` -/
def readNorm (st : State A) (h : Handle) : Option A := valOf st h.norm

/-- `base()` : `*m_base_ref` if the pointer is not null, else `*m_norm_ref` -/
def readBase (st : State A) (h : Handle) : Option A :=
  match h.base with
  | some b => valOf st b
  | none => valOf st h.norm

/-- destroy whatever wrapper lives in slot `d` (both shared_ptrs) -/
def releaseSlot (st : State A) (d : Nat) : State A :=
  match getH st d with
  | some h => release st h
  | none => st

/-- slot `d` receives the content `o` (a wrapper whose pointers are already counted, or nothing);
    the previous content is destroyed -/
def place (st : State A) (d : Nat) (o : Option Handle) : State A :=
  setSlot (releaseSlot st d) d o

/-- (move / copy) assignment of an already counted wrapper to the variable `d` -/
def assign (st : State A) (d : Nat) (h : Handle) : Option (State A) :=
  if d < st.pool.length then some (place st d (some h)) else none

/-- `abstract_domain_ref::detach()`:
    `if (!m_norm_ref.unique()) m_norm_ref = std::make_shared<abstract_domain_t>(*m_norm_ref);`
    `m_base_ref.reset();`     — returns the new state and the cell `m_norm_ref` now points to -/
def detach (st : State A) (d : Nat) : Option (State A × Nat) :=
  match getH st d with
  | none => none
  | some h =>
    match st.cells h.norm with
    | none => none
    | some x =>
      if x.rc = 1 then
        some (setSlot (decrO st h.base) d (some ⟨none, h.norm⟩), h.norm)
      else
        some (setSlot (release (alloc st x.val).1 h) d (some ⟨none, (alloc st x.val).2⟩),
              (alloc st x.val).2)

/-- operations of a client on its wrapper variables (slots) -/
inductive Op (A : Type) where
  /-- `d = abstract_domain_ref(v)` : the templated constructor (fresh object) -/
  | mk (d : Nat) (v : A)
  /-- copy constructor / copy assignment `d = s` -/
  | copy (d s : Nat)
  /-- move constructor / move assignment `d = std::move(s)`; `s` is left empty -/
  | move (d s : Nat)
  /-- destructor -/
  | destroy (d : Nat)
  /-- a mutating method `{ detach(); norm().f(...); }` -/
  | mutate (d : Nat) (f : A → A)
  /-- a mutating method with a wrapper argument `{ detach(); norm().f(..., o.norm()); }`
      (`|=`, `&=`, `backward_*`) -/
  | mutate2 (d s : Nat) (f : A → A → A)
  /-- a const method `{ return norm().q(...); }` -/
  | query (d : Nat)
  /-- `d = a.g(b)` with `g` a const method returning `create(norm().g(o.norm()))`
      (`|`, `&`, `&&`, and `make_top`/`make_bottom` with a constant `g`) -/
  | binary (d a b : Nat) (g : A → A → A)
  /-- `d = a.g(b)` with `g` returning `create_base(base().g(o.norm()))`
      (`||`, `widening_thresholds`) -/
  | binaryBase (d a b : Nat) (g : A → A → A)

/-- one client operation on the store of shared cells; `none` = use of an empty (moved-from,
    destroyed, never constructed) variable, a non-existing variable, or a dangling pointer -/
def step (st : State A) : Op A → Option (State A)
  | .mk d v => assign (alloc st v).1 d ⟨none, (alloc st v).2⟩
  | .copy d s =>
    match getH st s with
    | none => none
    | some h => assign (acquire st h) d h
  | .move d s =>
    match getH st s with
    | none => none
    | some h => if d = s then some st else assign (setSlot st s none) d h
  | .destroy d =>
    if d < st.pool.length then some (place st d none) else none
  | .mutate d f =>
    match detach st d with
    | none => none
    | some (st1, n) => some (write st1 n f)
  | .mutate2 d s f =>
    match detach st d with
    | none => none
    | some (st1, n) =>
      match getH st1 s with
      | none => none
      | some hs =>
        match readNorm st1 hs with
        | none => none
        | some w => some (write st1 n (fun a => f a w))
  | .query d =>
    match getH st d with
    | none => none
    | some _ => some st
  | .binary d a b g =>
    match getH st a, getH st b with
    | some ha, some hb =>
      match readNorm st ha, readNorm st hb with
      | some va, some vb => assign (alloc st (g va vb)).1 d ⟨none, (alloc st (g va vb)).2⟩
      | _, _ => none
    | _, _ => none
  | .binaryBase d a b g =>
    match getH st a, getH st b with
    | some ha, some hb =>
      match readBase st ha, readNorm st hb with
      | some va, some vb =>
        assign (alloc (alloc st (g va vb)).1 (g va vb)).1 d
          ⟨some (alloc st (g va vb)).2, (alloc (alloc st (g va vb)).1 (g va vb)).2⟩
      | _, _ => none
    | _, _ => none

def run (st : State A) : List (Op A) → Option (State A)
  | [] => some st
  | op :: ops =>
    match step st op with
    | none => none
    | some st' => run st' ops

/-- the value seen through a wrapper (or through nothing) -/
def slotVal (st : State A) : Option Handle → Option A
  | some h => readNorm st h
  | none => none

/-- the value described by each client variable -/
def view (st : State A) : List (Option A) := st.pool.map (slotVal st)

/-- what a const method sees through the wrapper in slot `d` (`none`: no live wrapper) -/
def observe (st : State A) (d : Nat) : Option A :=
  match getH st d with
  | some h => readNorm st h
  | none => none

/-! ## reference semantics: the same operations on plain (unshared) values -/

def pget (p : List (Option A)) (d : Nat) : Option A :=
  match p[d]? with
  | some (some v) => some v
  | _ => none

def passign (p : List (Option A)) (d : Nat) (v : A) : Option (List (Option A)) :=
  if d < p.length then some (p.set d (some v)) else none

def pstep (p : List (Option A)) : Op A → Option (List (Option A))
  | .mk d v => passign p d v
  | .copy d s =>
    match pget p s with
    | none => none
    | some v => passign p d v
  | .move d s =>
    match pget p s with
    | none => none
    | some v => if d = s then some p else passign (p.set s none) d v
  | .destroy d => if d < p.length then some (p.set d none) else none
  | .mutate d f =>
    match pget p d with
    | none => none
    | some v => some (p.set d (some (f v)))
  | .mutate2 d s f =>
    match pget p d, pget p s with
    | some v, some w => some (p.set d (some (f v w)))
    | _, _ => none
  | .query d =>
    match pget p d with
    | none => none
    | some _ => some p
  | .binary d a b g =>
    match pget p a, pget p b with
    | some va, some vb => passign p d (g va vb)
    | _, _ => none
  | .binaryBase d a b g =>
    match pget p a, pget p b with
    | some va, some vb => passign p d (g va vb)
    | _, _ => none

def prun (p : List (Option A)) : List (Op A) → Option (List (Option A))
  | [] => some p
  | op :: ops =>
    match pstep p op with
    | none => none
    | some p' => prun p' ops

/-- the variables an operation may change (all others keep their value) -/
def Op.targets : Op A → List Nat
  | .mk d _ => [d]
  | .copy d _ => [d]
  | .move d s => [d, s]
  | .destroy d => [d]
  | .mutate d _ => [d]
  | .mutate2 d _ _ => [d]
  | .query _ => []
  | .binary d _ _ _ => [d]
  | .binaryBase d _ _ _ => [d]

/-! ## the faulty protocol: a mutating method that forgets `detach()` -/

/-- `{ norm().f(...); }` without `detach()` -/
def mutateNoDetach (st : State A) (d : Nat) (f : A → A) : Option (State A) :=
  match getH st d with
  | none => none
  | some h => some (write st h.norm f)

/-- operations of a wrapper some of whose mutators do not detach -/
inductive XOp (A : Type) where
  | good (op : Op A)
  | mutateNoDetach (d : Nat) (f : A → A)

def xstep (st : State A) : XOp A → Option (State A)
  | .good op => step st op
  | .mutateNoDetach d f => mutateNoDetach st d f

/-- the intended meaning of a mutator is the same with or without `detach()` -/
def XOp.toOp : XOp A → Op A
  | .good op => op
  | .mutateNoDetach d f => .mutate d f

def xrun (st : State A) : List (XOp A) → Option (State A)
  | [] => some st
  | op :: ops =>
    match xstep st op with
    | none => none
    | some st' => xrun st' ops

/-! ## pointer counting (used by the invariant) -/

def hrefs : Option Handle → List Nat
  | none => []
  | some h => h.norm :: (match h.base with | some b => [b] | none => [])

/-- every pointer held by a client variable -/
def refs (pool : List (Option Handle)) : List Nat := pool.flatMap hrefs

/-- number of pointers to cell `c` held by the client variables -/
def cnt (c : Nat) (pool : List (Option Handle)) : Nat := (refs pool).count c

/-- number of pointers to cell `c` held by one wrapper -/
def hcnt (c : Nat) (o : Option Handle) : Nat := (hrefs o).count c

end Cow
end Dom
end Crab
