/-
  Concrete semantics of the five array operations of the abstract-domain API
  (abstract_domain.hpp "Array operations", CrabIR array statements in cfg.hpp):

    array_init(a, elem_size, lb, ub, val)     a := fresh array, a[j] = val for the cells j in [lb,ub]
                                               (cfg.hpp: "forall j < lb or j > ub :: arr[j] is undefined")
    array_load(lhs, a, elem_size, i)          lhs := a[i]
    array_store(a, elem_size, i, val, _)      a[i] := val
    array_store_range(a, elem_size, i, j, v)  a[k] := v for the cells k in [i,j]
    array_assign(a, b)                        a := b

  Word-level assumption (array_smashing.hpp:4): all accesses to one array read/write the same
  number `e` of bytes, at byte offsets that are non-negative multiples of `e`.  An array is a map
  from the byte offset of a cell to the value of the cell; `none` = the cell was never written.
  An execution that leaves the assumption (negative or unaligned offset) or that reads a
  never-written cell has no successor state (`none`): such an execution is not counted.

  Two representations: `Mem` (total function, used by the theorems) and `FMem` (finite sorted
  association list, used by the driver to replay histories); `FMem.toMem` relates them.
-/
namespace Crab
namespace Dom
namespace Arr

/-- contents of one array: byte offset of a cell ↦ value (`none` = never written) -/
abbrev Mem := Nat → Option Int

/-- a concrete state: integer variables and arrays -/
structure CState where
  iv : Nat → Int
  ar : Nat → Mem

def Mem.empty : Mem := fun _ => none

/-- byte offset `o` is a legal cell offset for element size `e` -/
def alignedOff (e : Nat) (o : Int) : Option Nat :=
  if 0 ≤ o ∧ o % (e : Int) = 0 then some o.toNat else none

/-- is offset `o` one of the cells `lb, lb+e, lb+2e, ... ≤ ub` ? -/
def inCells (e lb : Nat) (ub : Int) (o : Nat) : Bool :=
  decide (lb ≤ o) && decide ((o : Int) ≤ ub) && decide ((o - lb) % e = 0)

def Mem.store (m : Mem) (o : Nat) (v : Int) : Mem := fun o' => if o' = o then some v else m o'

def Mem.storeRange (m : Mem) (e lb : Nat) (ub : Int) (v : Int) : Mem :=
  fun o => if inCells e lb ub o then some v else m o

def Mem.init (e lb : Nat) (ub : Int) (v : Int) : Mem := Mem.storeRange Mem.empty e lb ub v

def CState.setVar (s : CState) (x : Nat) (v : Int) : CState :=
  { s with iv := fun y => if y = x then v else s.iv y }

def CState.setArr (s : CState) (a : Nat) (m : Mem) : CState :=
  { s with ar := fun b => if b = a then m else s.ar b }

/-- expressions over the integer variables are abstracted as functions of the valuation -/
abbrev Expr := (Nat → Int) → Int

/-- `array_init(a, e, lb, ub, val)` -/
def cInit (e a : Nat) (lb ub val : Expr) (s : CState) : Option CState :=
  match alignedOff e (lb s.iv) with
  | none => none
  | some l => some (s.setArr a (Mem.init e l (ub s.iv) (val s.iv)))

/-- `array_store(a, e, i, val, _)` (the strong-update flag is a hint, not part of the semantics) -/
def cStore (e a : Nat) (i val : Expr) (s : CState) : Option CState :=
  match alignedOff e (i s.iv) with
  | none => none
  | some o => some (s.setArr a ((s.ar a).store o (val s.iv)))

/-- `array_store_range(a, e, lb, ub, val)` -/
def cStoreRange (e a : Nat) (lb ub val : Expr) (s : CState) : Option CState :=
  match alignedOff e (lb s.iv) with
  | none => none
  | some l => some (s.setArr a ((s.ar a).storeRange e l (ub s.iv) (val s.iv)))

/-- `array_load(x, a, e, i)` -/
def cLoad (e x a : Nat) (i : Expr) (s : CState) : Option CState :=
  match alignedOff e (i s.iv) with
  | none => none
  | some o =>
    match s.ar a o with
    | none => none
    | some v => some (s.setVar x v)

/-- `array_assign(a, b)` -/
def cAssign (a b : Nat) (s : CState) : Option CState := some (s.setArr a (s.ar b))

/-- the client contract of `is_strong_update = true` (cfg.hpp:892 "Only makes sense if m_lb is
    equal to m_ub", array_smashing.hpp `array_store`: the summary is overwritten): the store hits
    the only cell the array has -/
def singleCell (m : Mem) (o : Nat) : Prop := ∀ o' v, m o' = some v → o' = o

/-! ### finite representation used by the driver -/

/-- association list sorted by offset, one entry per written cell -/
abbrev FMem := List (Nat × Int)

def FMem.get : FMem → Nat → Option Int
  | [], _ => none
  | (k, v) :: rest, o => if k = o then some v else FMem.get rest o

def FMem.set : FMem → Nat → Int → FMem
  | [], o, v => [(o, v)]
  | (k, w) :: rest, o, v =>
    if o < k then (o, v) :: (k, w) :: rest
    else if o = k then (k, v) :: rest
    else (k, w) :: FMem.set rest o v

def FMem.toMem (m : FMem) : Mem := fun o => m.get o

/-- store `v` into `n` cells starting at `lb` -/
def FMem.setCells (m : FMem) (e lb : Nat) (v : Int) : Nat → FMem
  | 0 => m
  | n + 1 => (FMem.setCells m e lb v n).set (lb + n * e) v

/-- number of cells `lb, lb+e, ... ≤ ub` -/
def cellCount (e lb : Nat) (ub : Int) : Nat :=
  if ub < lb then 0 else ((ub - lb) / (e : Int)).toNat + 1

def FMem.storeRange (m : FMem) (e lb : Nat) (ub : Int) (v : Int) : FMem :=
  m.setCells e lb v (cellCount e lb ub)

theorem FMem.get_set (m : FMem) (o : Nat) (v : Int) (o' : Nat) :
    (m.set o v).get o' = if o' = o then some v else m.get o' := by
  induction m with
  | nil =>
    simp only [FMem.set, FMem.get]
    by_cases h : o = o'
    · subst h; simp
    · have : ¬ o' = o := fun h' => h h'.symm
      simp [h, this]
  | cons kv rest ih =>
    obtain ⟨k, w⟩ := kv
    simp only [FMem.set]
    by_cases h1 : o < k
    · simp only [h1, if_true, FMem.get]
      by_cases h : o = o'
      · subst h; simp
      · have : ¬ o' = o := fun h' => h h'.symm
        simp [h, this]
    · simp only [h1, if_false]
      by_cases h2 : o = k
      · subst h2
        simp only [if_true, FMem.get]
        by_cases h : o = o'
        · subst h; simp
        · have : ¬ o' = o := fun h' => h h'.symm
          simp [h, this]
      · simp only [h2, if_false, FMem.get, ih]
        by_cases h : k = o'
        · subst h
          have : ¬ k = o := fun h' => h2 h'.symm
          simp [this]
        · simp [h]

/-- the list store refines the function store -/
theorem FMem.toMem_set (m : FMem) (o : Nat) (v : Int) :
    (m.set o v).toMem = (m.toMem).store o v := by
  funext o'
  simp [FMem.toMem, Mem.store, FMem.get_set]

end Arr
end Dom
end Crab
