import CrabModel.Inter.ISemantics
import CrabModel.Inter.TopDown
import CrabModel.Fix.Semantics
import CrabModel.Graph.Wto

/-!
  Model of `bottom_up_inter_analyzer<CallGraph, BU_Dom, TD_Dom>::run`
  (include/crab/analysis/inter/bottom_up_inter_analyzer.hpp), property C10.

  * `IDom`            : the abstract-domain contract (`AbsDom` of `TopDown.lean` + bottom, widening,
                        narrowing, the transformer of the non-call statements), soundness fields over
                        total states `St = Var → Int`;
  * `Summary`, `SumTable`      = `summary`, `summary_table` (`insert` never overwrites);
  * `reuseSummary`, `buCall`   = `bu_summ_abs_transformer::reuse_summary` / `::exec(callsite_t&)`;
  * `tdCalleeCtx`, `tdCall`    = `td_summ_abs_transformer::exec(callsite_t&)` (context stored in the
                                 `call_ctx_table`, continuation through `convert_domains`);
  * `solve`                    = `fwd_analyzer::run_forward` : the interleaved fixpoint iterator of
                                 `CrabModel/Fix/Interleaved.lean` with `analyze` = the statements of the
                                 block in order (`prune_dead_variables` is not modelled: `live_map = nullptr`);
  * `buStep`, `buPhase`        = the body / the loop of the bottom-up phase;
  * `tdStep`, `tdRun`, `analyze` = the top-down phase and `run(init)`.

  What is an *input* of the model: the list of call-graph components in the order computed by
  `rev_topo_sort(scc_graph)` (boost), the weak topological ordering of every function (`FixCfg.wto`;
  `crabWto` instantiates it with the model of `ikos::wto`), the fixpoint parameters.

  Internal names of a summary (`"$0", "$1", ...` taken from the variable factory): the variables
  `nv, nv+1, ...` (the program uses `0 .. nv-1`).

  The second half of the file is the *specification* side: the local (per function) collecting
  semantics relative to a relation describing the calls, and the concretisation of abstract
  values on frames of the call-stack semantics.
-/
namespace Crab.Inter

/-! ### expressions and statements over total states -/

def ILin.evalSt (l : ILin) (σ : St) : Int :=
  l.ts.foldl (fun a (kv : Int × Var) => a + kv.1 * σ kv.2) l.c

def IArg.evalSt : IArg → St → Int
  | .var v, σ => σ v
  | .cst k, _ => k

def ICst.satSt (c : ICst) (σ : St) : Bool :=
  let v := c.e.evalSt σ
  match c.k with
  | .le => decide (v ≤ 0)
  | .lt => decide (v < 0)
  | .eq => decide (v = 0)
  | .ne => decide (v ≠ 0)

/-- concrete effect of a non-call statement (a forward analysis treats `assert` as `assume`:
    executions that fail the assertion stop there) -/
def StStep : IStmt → St → St → Prop
  | .assign x e, σ, σ' => σ' = σ.upd x (e.evalSt σ)
  | .bin op x y z, σ, σ' => σ' = σ.upd x (op.eval (σ y) (z.evalSt σ))
  | .havoc x, σ, σ' => ∃ v, σ' = σ.upd x v
  | .assume c, σ, σ' => c.satSt σ = true ∧ σ' = σ
  | .assert _ c, σ, σ' => c.satSt σ = true ∧ σ' = σ
  | .call _ _ _, _, _ => False

/-- abstract-domain contract of the summary-based analysis -/
structure IDom extends AbsDom where
  bot : A
  widen : A → A → A
  narrow : A → A → A
  /-- `intra_abs_transformer::exec` of the statements other than call sites -/
  stmt : A → IStmt → A
  widen_left : ∀ {a b : A} {σ : St}, γ a σ → γ (widen a b) σ
  widen_right : ∀ {a b : A} {σ : St}, γ b σ → γ (widen a b) σ
  narrow_sound : ∀ {a b : A} {σ : St}, γ a σ → γ b σ → γ (narrow a b) σ
  stmt_sound : ∀ {a : A} {σ σ' : St} (s : IStmt), γ a σ → StStep s σ σ' → γ (stmt a s) σ'

def IDom.ops (D : IDom) : Fix.Ops D.A :=
  { bot := D.bot, top := D.top, leq := D.leq, join := D.join, meet := D.meet,
    widen := D.widen, narrow := D.narrow }

/-- conversion between the top-down and the bottom-up domain (`convert_domains`):
    `toBU a` = top of `BU` met with the constraints of `a`; `fromBU b t` = `b` itself when the two
    domains are the same type (`to = from`), `t` met with the constraints of `b` otherwise -/
structure Conv (BU TD : IDom) where
  toBU : TD.A → BU.A
  fromBU : BU.A → TD.A → TD.A
  toBU_sound : ∀ {a : TD.A} {σ : St}, TD.γ a σ → BU.γ (toBU a) σ
  fromBU_sound : ∀ {b : BU.A} {t : TD.A} {σ : St}, BU.γ b σ → TD.γ t σ → TD.γ (fromBU b t) σ

/-- `convert_domains(Domain from, Domain &to)` for one and the same domain type -/
def Conv.same (D : IDom) : Conv D D where
  toBU := fun a => a
  fromBU := fun b _ => b
  toBU_sound := fun h => h
  fromBU_sound := fun h _ => h

/-! ### program helpers -/

abbrev IProg.fn (p : IProg) (g : Nat) : IFun := p.funs.getD g default
abbrev IFun.blk (f : IFun) (b : Nat) : IBlock := f.blocks.getD b default

def IStmt.vars : IStmt → List Var
  | .assign x e => x :: e.vars
  | .bin _ x y z => x :: y :: (match z with | .var v => [v] | .cst _ => [])
  | .havoc x => [x]
  | .assume c => c.e.vars
  | .assert _ c => c.e.vars
  | .call _ lhs args => lhs ++ args

/-- every variable of the function is one of `0 .. nv-1` -/
def IFun.scoped (nv : Nat) (f : IFun) : Bool :=
  f.ins.all (· < nv) && f.outs.all (· < nv) &&
  f.blocks.all (fun b => b.stmts.all (fun s => s.vars.all (· < nv)))

def IProg.scoped (p : IProg) : Bool := p.funs.all (fun f => f.scoped p.nv)

/-- callees of the call sites of `f`, in program order -/
def IFun.callees (f : IFun) : List Nat :=
  f.blocks.toList.flatMap (fun b => b.stmts.toList.filterMap (fun s =>
    match s with | .call c _ _ => some c | _ => none))

/-- `SeqOK` as a Boolean -/
def seqOKb : List Var → List Var → Bool
  | x :: xs, y :: ys => (x == y || !ys.contains x) && seqOKb xs ys
  | _, _ => true

/-- at every call site the sequential wiring `formals := actuals` of the top-down phase is a
    parallel assignment (no formal written earlier is an actual read later).
    Implied by `crossShare = false`. -/
def IProg.callsSeqOK (p : IProg) : Bool :=
  p.funs.all (fun f => f.blocks.all (fun b => b.stmts.all (fun s =>
    match s with
    | .call c _ args => seqOKb (p.fn c).ins args
    | _ => true)))

/-! ### summaries -/

/-- `summary<CFG, AbsDomain>`: `m_sum` over the formal parameters, `m_inputs`, `m_outputs` -/
structure Summary (D : IDom) where
  sum : D.A
  ins : List Var
  outs : List Var

/-- `m_internal_inputs` = `$0 .. $(k-1)` -/
def Summary.rin {D : IDom} (nv : Nat) (s : Summary D) : List Var :=
  (List.range s.ins.length).map (fun i => nv + i)
/-- `m_internal_outputs` = `$k .. $(k+m-1)` -/
def Summary.rout {D : IDom} (nv : Nat) (s : Summary D) : List Var :=
  (List.range s.outs.length).map (fun i => nv + s.ins.length + i)

/-- `summary_table`, keyed by the function (`callsite_or_fdecl` equality = same callee) -/
abbrev SumTable (D : IDom) := Nat → Option (Summary D)

/-- `unordered_map::insert`: no effect when the key is present -/
def optInsert {α : Type} (T : Nat → Option α) (g : Nat) (v : α) : Nat → Option α :=
  fun i => if i = g then (match T g with | some x => some x | none => some v) else T i

/-! ### the transformers -/

/-- `for (auto vt : cs.get_lhs()) m_inv -= vt` -/
def havocList (D : IDom) (inv : D.A) (lhs : List Var) : D.A :=
  lhs.foldl (fun a v => D.forget a [v]) inv

/-- `bu_summ_abs_transformer::reuse_summary(caller, cs, summ)` -/
def reuseSummary (D : IDom) (nv : Nat) (s : Summary D) (lhs args : List Var) (caller : D.A) : D.A :=
  instantiate D.toAbsDom s.ins s.outs (s.rin nv) (s.rout nv) lhs args caller s.sum

/-- `bu_summ_abs_transformer::exec(callsite_t &cs)` -/
def buCall (D : IDom) (nv : Nat) (T : SumTable D) (callee : Nat) (lhs args : List Var) (inv : D.A) : D.A :=
  match T callee with
  | some s => reuseSummary D nv s lhs args inv
  | none => havocList D inv lhs

/-- the calling context generated by `td_summ_abs_transformer::exec(callsite_t&)`:
    `unify(callee_ctx_inv, p, a)` for the formal inputs in order (skipped when `a == p`), then
    `project(inputs)` -/
def tdCalleeCtx (TD : IDom) {BU : IDom} (s : Summary BU) (args : List Var) (inv : TD.A) : TD.A :=
  TD.project (unifySeq TD.toAbsDom inv s.ins args) s.ins

/-- the continuation computed by `td_summ_abs_transformer::exec(callsite_t&)` -/
def tdCall (BU TD : IDom) (cv : Conv BU TD) (nv : Nat) (T : SumTable BU)
    (callee : Nat) (lhs args : List Var) (inv : TD.A) : TD.A :=
  match T callee with
  | some s => cv.fromBU (reuseSummary BU nv s lhs args (cv.toBU inv)) (havocList TD inv lhs)
  | none => havocList TD inv lhs

/-- one statement: call sites go to `call`, everything else to the domain -/
def execStmt (D : IDom) (call : Nat → List Var → List Var → D.A → D.A) (a : D.A) : IStmt → D.A
  | .call c lhs args => call c lhs args a
  | s => D.stmt a s

/-- the first `k` statements of a block -/
def execPrefix (D : IDom) (call : Nat → List Var → List Var → D.A → D.A) (b : IBlock) (k : Nat) (a : D.A) : D.A :=
  (b.stmts.toList.take k).foldl (execStmt D call) a

/-- `fwd_analyzer::analyze(node, inv)`: `for (auto &s : b) s.accept(m_abs_tr)` -/
def execBlock (D : IDom) (call : Nat → List Var → List Var → D.A → D.A) (b : IBlock) (a : D.A) : D.A :=
  b.stmts.toList.foldl (execStmt D call) a

/-! ### the intra-procedural solver -/

/-- fixpoint parameters, and per function (index) the weak topological ordering of its CFG with
    its nesting table (`m_wto`, `m_wto.nesting`) -/
structure FixCfg where
  fuel : Nat
  delay : Nat
  descending : Nat
  wto : Nat → List Fix.Comp
  nesting : Nat → Nat → Option (List Nat)

/-- predecessors of block `n` (`prev_nodes`; listed by block index) -/
def IFun.preds (f : IFun) (n : Nat) : List Nat :=
  (List.range f.blocks.size).filter (fun b => (f.blk b).succs.toList.contains n)

def mkCtx (D : IDom) (cfg : FixCfg) (g : Nat) (f : IFun) (analyze : Nat → D.A → D.A) (init : D.A) :
    Fix.Ctx D.A :=
  { ops := D.ops, analyze := analyze, preds := f.preds, nesting := cfg.nesting g, entry := 0,
    init := init, assumptions := none, delay := cfg.delay, descending := cfg.descending }

/-- `fwd_analyzer(cfg, abs_tr, ..).run_forward(init)`; `none` = the fuel of the model ran out -/
def solve (D : IDom) (cfg : FixCfg) (g : Nat) (f : IFun)
    (call : Nat → List Var → List Var → D.A → D.A) (init : D.A) : Option (Fix.St D.A) :=
  Fix.run (mkCtx D cfg g f (fun n a => execBlock D call (f.blk n) a) init) cfg.fuel (cfg.wto g)

/-- the CFG of a function as a graph of the WTO model (`succ` in the order of `next_blocks`) -/
def IFun.graph (f : IFun) : Wto.Graph := ⟨f.blocks.size, fun u => (f.blk u).succs.toList⟩

mutual
def wtoComp : Wto.WtoC → Fix.Comp
  | .vertex v => .vertex v
  | .cycle h body => .cycle h (wtoCompL body)
def wtoCompL : List Wto.WtoC → List Fix.Comp
  | [] => []
  | c :: cs => wtoComp c :: wtoCompL cs
end

/-- the orderings `ikos::wto` builds (model `Wto.build`, proved well formed in C07) -/
def crabWto (p : IProg) (fuel delay descending : Nat) : FixCfg :=
  { fuel := fuel, delay := delay, descending := descending,
    wto := fun g => wtoCompL (Wto.build (p.fn g).graph 0),
    nesting := fun g => Wto.nesting (Wto.build (p.fn g).graph 0) }

/-! ### phase 1: bottom-up -/

/-- body of the loop `for (auto m : scc_mems)` of the bottom-up phase -/
def buStep (D : IDom) (p : IProg) (cfg : FixCfg) (T : SumTable D) (g : Nat) : Option (SumTable D) :=
  let f := p.fn g
  if g = p.main then some T                        -- `fun_name != "main"`
  else if f.outs.isEmpty then                      -- "Skipped summary because function has no output parameters"
    some (optInsert T g ⟨D.top, f.ins, f.outs⟩)
  else                                             -- (every `IFun` has an exit block)
    match solve D cfg g f (buCall D p.nv T) D.top with
    | none => none
    | some st => some (optInsert T g ⟨D.project (st.post f.exit) (f.ins ++ f.outs), f.ins, f.outs⟩)

/-- the bottom-up loop over the members of the components, in `rev_order` -/
def buPhase (D : IDom) (p : IProg) (cfg : FixCfg) : List Nat → SumTable D → Option (SumTable D)
  | [], T => some T
  | g :: gs, T =>
    match buStep D p cfg T g with
    | none => none
    | some T' => buPhase D p cfg gs T'

/-! ### phase 2: top-down -/

/-- `call_ctx_table::insert_helper`: join with the stored context -/
def ctxJoin (D : IDom) (C : Nat → Option D.A) (g : Nat) (v : D.A) : Nat → Option D.A :=
  fun i => if i = g then (match C g with | some x => some (D.join x v) | none => some v) else C i

def ctxJoinAll (D : IDom) (C : Nat → Option D.A) : List (Nat × D.A) → Nat → Option D.A
  | [] => C
  | (g, v) :: rest => ctxJoinAll D (ctxJoin D C g v) rest

/-- the contexts stored while the statements `ss` are executed from `a` -/
def blockCtxs (TD : IDom) {BU : IDom} (call : Nat → List Var → List Var → TD.A → TD.A) (T : SumTable BU) :
    List IStmt → TD.A → List (Nat × TD.A)
  | [], _ => []
  | s :: ss, a =>
    (match s with
     | .call c _ args => (match T c with | some sm => [(c, tdCalleeCtx TD sm args a)] | none => [])
     | _ => []) ++ blockCtxs TD call T ss (execStmt TD call a s)

/-- the contexts stored by the executions of the transformer on the final invariants -/
def funCtxs (TD : IDom) {BU : IDom} (call : Nat → List Var → List Var → TD.A → TD.A) (T : SumTable BU)
    (f : IFun) (pre : Nat → TD.A) : List (Nat × TD.A) :=
  (List.range f.blocks.size).flatMap (fun b => blockCtxs TD call T (f.blk b).stmts.toList (pre b))

structure TDState (TD : IDom) where
  /-- `m_call_tbl` -/
  ctxs : Nat → Option TD.A
  /-- `m_inv_map` -/
  invs : Nat → Option (Fix.St TD.A)
  /-- the `init_inv` every analysed function was started with -/
  entry : Nat → Option TD.A
  isRoot : Bool

/-- Body of the loop `for (auto m : scc_mems)` of the top-down phase.
    The real transformer stores a context at *every* execution on a call site, also on the
    intermediate iterates of the fixpoint computation: `extra g` lists those (callee, context)
    pairs; they are joined before the ones of the final invariants (only callees with a summary
    store contexts). -/
def tdStep (BU TD : IDom) (cv : Conv BU TD) (p : IProg) (cfg : FixCfg) (T : SumTable BU) (init : TD.A)
    (extra : Nat → List (Nat × TD.A)) (s : TDState TD) (gr : Nat × Bool) : Option (TDState TD) :=
  let g := gr.1
  let f := p.fn g
  -- `if (is_recursive) m_call_tbl.insert(fdecl, make_td_top())`
  let ctxs1 := if gr.2 then ctxJoin TD s.ctxs g TD.top else s.ctxs
  -- `init_inv = is_root ? init : m_call_tbl.get_call_ctx(fdecl)` (top when absent)
  let initInv := if s.isRoot then init else (ctxs1 g).getD TD.top
  let call := tdCall BU TD cv p.nv T
  match solve TD cfg g f call initInv with
  | none => none
  | some st =>
    some { ctxs := ctxJoinAll TD ctxs1
                     ((extra g).filter (fun hc => (T hc.1).isSome) ++ funCtxs TD call T f st.pre),
           invs := optInsert s.invs g st,
           entry := optInsert s.entry g initInv,
           isRoot := false }

def tdRun (BU TD : IDom) (cv : Conv BU TD) (p : IProg) (cfg : FixCfg) (T : SumTable BU) (init : TD.A)
    (extra : Nat → List (Nat × TD.A)) : List (Nat × Bool) → TDState TD → Option (TDState TD)
  | [], s => some s
  | gr :: rest, s =>
    match tdStep BU TD cv p cfg T init extra s gr with
    | none => none
    | some s' => tdRun BU TD cv p cfg T init extra rest s'

/-- does `f` contain a call site of `h`? -/
def IFun.callsFn (f : IFun) (h : Nat) : Bool := f.callees.contains h

/-- `is_recursive`: more than one member, or the only member calls itself -/
def isRecComp (p : IProg) (mems : List Nat) : Bool :=
  decide (mems.length > 1) || mems.any (fun g => mems.any (fun h => (p.fn g).callsFn h))

/-- the functions in top-down order with the `is_recursive` flag of their component;
    `comps` = the components in the order of `rev_order` (callees first) -/
def tdSeq (p : IProg) (comps : List (List Nat)) : List (Nat × Bool) :=
  comps.reverse.flatMap (fun mems => mems.map (fun g => (g, isRecComp p mems)))

/-- `has_noedges`: no call site at all -/
def IProg.noEdges (p : IProg) : Bool := p.funs.toList.all (fun f => f.callees.isEmpty)

structure BUResult (BU TD : IDom) where
  sums : SumTable BU
  td : TDState TD

def TDState.empty (TD : IDom) : TDState TD :=
  { ctxs := fun _ => none, invs := fun _ => none, entry := fun _ => none, isRoot := true }

/-- `bottom_up_inter_analyzer::run(init)` -/
def analyze (BU TD : IDom) (cv : Conv BU TD) (p : IProg) (cfg : FixCfg) (comps : List (List Nat))
    (init : TD.A) (extra : Nat → List (Nat × TD.A)) : Option (BUResult BU TD) :=
  if p.noEdges then
    -- special case: only `main` is analysed, no summaries
    match tdRun BU TD cv p cfg (fun _ => none) init extra [(p.main, false)] (TDState.empty TD) with
    | none => none
    | some s => some ⟨fun _ => none, s⟩
  else
    match buPhase BU p cfg comps.flatten (fun _ => none) with
    | none => none
    | some T =>
      match tdRun BU TD cv p cfg T init extra (tdSeq p comps) (TDState.empty TD) with
      | none => none
      | some s => some ⟨T, s⟩

/-- `get_pre(cfg, b)` / `get_post(cfg, b)`: top for a function that was not analysed -/
def BUResult.pre {BU TD : IDom} (r : BUResult BU TD) (g b : Nat) : TD.A :=
  match r.td.invs g with | some st => st.pre b | none => TD.top
def BUResult.post {BU TD : IDom} (r : BUResult BU TD) (g b : Nat) : TD.A :=
  match r.td.invs g with | some st => st.post b | none => TD.top

/-! ## specification side -/

/-! ### concretisation on frames of the call-stack semantics -/

/-- the total state `σ` extends the frame `env` -/
def Ext (env : Env) (σ : St) : Prop := ∀ v, v < env.size → σ v = env.getD v 0

/-- the frame `env` is described by `a`: *every* total state extending the frame is in `γ a`
    (the variables beyond the frame are the internal names of the summaries; no invariant the
    analysis reports constrains them) -/
def EnvIn (D : AbsDom) (a : D.A) (env : Env) : Prop := ∀ σ, Ext env σ → D.γ a σ

/-- `σ` gives the variables `xs` the values `vs` (position by position) -/
def MatchVals : List Var → List Int → St → Prop
  | x :: xs, v :: vs, σ => σ x = v ∧ MatchVals xs vs σ
  | _, _, _ => True

/-! ### the collecting semantics of one function relative to a description of its calls -/

/-- `CR callee inputs outputs`: a call of `callee` with these input values may return these outputs -/
abbrev CallRel := Nat → List Int → List Int → Prop

/-- one statement on a frame; a call site is a step `lhs := outs` allowed by `CR` -/
def LStep (CR : CallRel) : IStmt → Env → Env → Prop
  | .assign x e, σ, σ' => σ' = σ.setIfInBounds x (e.eval σ)
  | .bin op x y z, σ, σ' => σ' = σ.setIfInBounds x (op.eval (σ.getD y 0) (z.eval σ))
  | .havoc x, σ, σ' => ∃ v, σ' = σ.setIfInBounds x v
  | .assume c, σ, σ' => c.sat σ = true ∧ σ' = σ
  | .assert _ c, σ, σ' => c.sat σ = true ∧ σ' = σ
  | .call h lhs args, σ, σ' => ∃ outs, CR h (args.map (fun a => σ.getD a 0)) outs ∧ σ' = setMany σ lhs outs

/-- `Pref CR b k s e`: executing the first `k` statements of `b` from `s` can give `e` -/
inductive Pref (CR : CallRel) (b : IBlock) : Nat → Env → Env → Prop
  | nil (s : Env) : Pref CR b 0 s s
  | snoc {k : Nat} {s e e' : Env} : Pref CR b k s e → k < b.stmts.size →
      LStep CR (b.stmts.getD k default) e e' → Pref CR b (k + 1) s e'

/-- frames with which an execution of `f`, entered with a frame in `E`, arrives at block `n` -/
inductive LPre (CR : CallRel) (f : IFun) (E : Env → Prop) : Nat → Env → Prop
  | init {s : Env} : E s → LPre CR f E 0 s
  | flow {b n : Nat} {s s' : Env} : LPre CR f E b s → Pref CR (f.blk b) (f.blk b).stmts.size s s' →
      n ∈ (f.blk b).succs.toList → LPre CR f E n s'

/-- the frame `env` occurs at statement `k` of block `b` -/
def LocalAt (CR : CallRel) (f : IFun) (E : Env → Prop) (b k : Nat) (env : Env) : Prop :=
  ∃ s0, LPre CR f E b s0 ∧ Pref CR (f.blk b) k s0 env

/-! ### call-graph order, start configurations -/

/-- What the top-down phase needs of the order `l` (functions in top-down order with the
    `is_recursive` flag of their component): no function is listed twice; every caller of a listed
    function is listed, and either the callee's component is flagged recursive or the caller comes
    strictly earlier.  A reverse topological order of the components of the call graph has it. -/
def seqOrderOK (p : IProg) (l : List (Nat × Bool)) : Bool :=
  let names := l.map (·.1)
  decide names.Nodup &&
  (List.range p.funs.size).all (fun g => (p.fn g).callees.all (fun h =>
    !names.contains h ||
    (names.contains g && (l.contains (h, true) || decide (names.idxOf g < names.idxOf h)))))

/-- the check on `rev_order` (`comps`, callees first) -/
def orderOK (p : IProg) (comps : List (List Nat)) : Bool := seqOrderOK p (tdSeq p comps)

/-- the function the top-down phase starts with (`is_root`) -/
def rootFn (p : IProg) (comps : List (List Nat)) : Nat :=
  if p.noEdges then p.main else ((tdSeq p comps).head?.map (·.1)).getD p.main

/-- the initial value of the top-down phase describes the frames the root function is entered
    with: it describes every frame (it is `top`, as in every use of the analysis), or the root is
    `main`, `main` is never called, and it describes the initial frame of the execution -/
def InitOK (p : IProg) (TD : IDom) (init : TD.A) (root : Nat) (ch : Choices) : Prop :=
  (∀ env : Env, env.size = p.nv → EnvIn TD.toAbsDom init env) ∨
  (root = p.main ∧ (∀ g, g < p.funs.size → p.main ∉ (p.fn g).callees) ∧
   EnvIn TD.toAbsDom init (mkFrame p ch 0 p.main []).env)

/-- a configuration that starts `g` in isolation with the input values `inVals` -/
def callConfig (p : IProg) (ch : Choices) (g : Nat) (inVals : List Int) : Config :=
  let fr := mkFrame p ch 0 g inVals
  { stack := [fr], ci := p.nv, tr := ({} : Trace).event fr false, status := .running }

end Crab.Inter
