import CrabModel.Inter.ISyntax

/-!
  Model of the call / return transformers and of the calling-context table of
  `include/crab/analysis/inter/top_down_inter_analyzer.hpp`, and of the summary instantiation of
  `bottom_up_inter_analyzer.hpp`, over a generic abstract-domain contract.

  * `restrict`     = `top_down_inter_transformer::get_callee_entry`
  * `extend`       = `top_down_inter_transformer::get_caller_continuation`
  * `callReturn`   = the `callee_exit.project(callee_exit_vars)` of `analyze_callee` followed by `extend`
  * `Ctx.isSubsumed`, `lookup`, `policyAdd`
                   = `calling_context::is_subsumed`, the scan of `analyze_callee`,
                     `default_context_sensitivity_policy::add` (join of the two oldest contexts + compression)
  * `instantiate`  = `bu_summ_abs_transformer::reuse_summary`

  Concrete states are total maps `Var → Int`.
-/
namespace Crab.Inter

abbrev St := Var → Int

def St.upd (σ : St) (x : Var) (v : Int) : St := fun y => if y = x then v else σ y

/-- the lattice part of the contract (what the calling-context table needs) -/
structure Lat where
  A : Type
  γ : A → St → Prop
  leq : A → A → Bool
  join : A → A → A
  leq_sound : ∀ {a b : A} {σ : St}, leq a b = true → γ a σ → γ b σ
  join_left : ∀ {a b : A} {σ : St}, γ a σ → γ (join a b) σ
  join_right : ∀ {a b : A} {σ : St}, γ b σ → γ (join a b) σ

/-- abstract-domain contract: the operations used by the call / return transformers with their
    soundness fields -/
structure AbsDom extends Lat where
  top : A
  isBot : A → Bool
  meet : A → A → A
  /-- `x := y` -/
  assignVar : A → Var → Var → A
  forget : A → List Var → A
  project : A → List Var → A
  /-- `rename(from, to)` -/
  rename : A → List Var → List Var → A
  top_sound : ∀ σ : St, γ top σ
  isBot_sound : ∀ {a : A} {σ : St}, isBot a = true → ¬ γ a σ
  meet_sound : ∀ {a b : A} {σ : St}, γ a σ → γ b σ → γ (meet a b) σ
  assign_sound : ∀ {a : A} {σ : St} (x y : Var), γ a σ → γ (assignVar a x y) (σ.upd x (σ y))
  forget_sound : ∀ {a : A} {σ τ : St} (xs : List Var), γ a σ → (∀ v, v ∉ xs → τ v = σ v) → γ (forget a xs) τ
  project_sound : ∀ {a : A} {σ τ : St} (xs : List Var), γ a σ → (∀ v, v ∈ xs → τ v = σ v) → γ (project a xs) τ

/-- positional pairing of two lists -/
def AllPairs (P : Var → Var → Prop) : List Var → List Var → Prop
  | x :: xs, y :: ys => P x y ∧ AllPairs P xs ys
  | _, _ => True

/-- `rename_sound` as a separate predicate on a domain (only the bottom-up instantiation needs it):
    the new names carry the values of the old ones, every other variable outside `from` keeps its value -/
def AbsDom.RenameSound (D : AbsDom) : Prop :=
  ∀ (a : D.A) (σ τ : St) (frm to : List Var), D.γ a σ →
    AllPairs (fun x y => τ y = σ x) frm to → (∀ v, v ∉ frm → v ∉ to → τ v = σ v) →
    D.γ (D.rename a frm to) τ

/-! ### sequential wiring of parameters -/

/-- `for i: if (!(xs[i] == ys[i])) unify(d, xs[i], ys[i])`  (i.e. `xs[i] := ys[i]`, one after the other) -/
def unifySeq (D : AbsDom) : D.A → List Var → List Var → D.A
  | d, x :: xs, y :: ys => unifySeq D (if x = y then d else D.assignVar d x y) xs ys
  | d, _, _ => d

/-- the same loop without the equality test (`reuse_summary`, outputs) -/
def assignSeq (D : AbsDom) : D.A → List Var → List Var → D.A
  | d, x :: xs, y :: ys => assignSeq D (D.assignVar d x y) xs ys
  | d, _, _ => d

/-- effect of the loop on a concrete state -/
def seqAssign : St → List Var → List Var → St
  | σ, x :: xs, y :: ys => seqAssign (σ.upd x (σ y)) xs ys
  | σ, _, _ => σ

/-- the sequential loop is a parallel assignment when no target written earlier is read later -/
def SeqOK : List Var → List Var → Prop
  | x :: xs, y :: ys => (x = y ∨ x ∉ ys) ∧ SeqOK xs ys
  | _, _ => True

/-! ### restrict : `get_callee_entry` -/

def restrict (D : AbsDom) (ins args : List Var) (caller callee : D.A) : D.A :=
  if D.isBot caller then caller
  else D.project (D.meet callee (unifySeq D caller ins args)) ins

/-! ### extend : `get_caller_continuation` -/

/-- the loop over the formal inputs: a formal that is not itself an argument of the call site is
    propagated up to its actual unless the actual is killed (re-defined by the call site) -/
def wireInputs (D : AbsDom) (allArgs lhs : List Var) : D.A → List Var → List Var → D.A
  | s, f :: fs, a :: as =>
    wireInputs D allArgs lhs (if f ∈ allArgs then s else if a ∈ lhs then s else D.assignVar s a f) fs as
  | s, _, _ => s

def wireInputsSt (allArgs lhs : List Var) : St → List Var → List Var → St
  | ρ, f :: fs, a :: as =>
    wireInputsSt allArgs lhs (if f ∈ allArgs then ρ else if a ∈ lhs then ρ else ρ.upd a (ρ f)) fs as
  | ρ, _, _ => ρ

/-- callee variables forgotten in the continuation: `sum_out_variables \ (caller_and_callee_vars ∪ lhs)` -/
def calleeLocals (ins outs lhs args : List Var) : List Var :=
  (ins ++ outs).filter (fun v => !((ins.filter (fun f => f ∈ args)) ++ lhs).contains v)

def extend (D : AbsDom) (ins outs lhs args : List Var) (caller sumOut : D.A) : D.A :=
  if D.isBot caller then caller
  else if D.isBot sumOut then sumOut
  else
    let c1 := D.forget caller lhs
    let s1 := unifySeq D sumOut lhs outs
    let s2 := wireInputs D args lhs s1 ins args
    D.meet c1 (D.forget s2 (calleeLocals ins outs lhs args))

/-- `callee_exit.project(callee_exit_vars)` then `get_caller_continuation` -/
def callReturn (D : AbsDom) (ins outs lhs args : List Var) (caller exit : D.A) : D.A :=
  extend D ins outs lhs args caller (D.project exit (ins ++ outs))

/-- name-sharing conditions under which the sequential wiring of `extend` is the parallel one:
    * an lhs written earlier is not a formal output read later (`SeqOK lhs outs`);
    * a formal input that is also an argument of the call site is the argument *of its own position*;
    * a formal input that is an lhs of the call site is also an argument of the call site. -/
def CallOK (ins outs lhs args : List Var) : Prop :=
  ins.length = args.length ∧ lhs.length = outs.length ∧ lhs.Nodup ∧ SeqOK lhs outs ∧
  AllPairs (fun f a => f ∈ args → a = f) ins args ∧ (∀ f, f ∈ ins → f ∈ lhs → f ∈ args)

/-! ### calling contexts -/

structure Ctx (L : Lat) where
  pre : L.A
  post : L.A
  /-- `m_exact`: not the result of a join -/
  exact : Bool

/-- `calling_context::is_subsumed(d, exact_check)` -/
def Ctx.isSubsumed {L : Lat} (c : Ctx L) (d : L.A) (exactCheck : Bool) : Bool :=
  if c.exact && exactCheck then L.leq d c.pre && L.leq c.pre d else L.leq d c.pre

/-- the scan of `analyze_callee`: post summary of the first context that subsumes `d` -/
def lookup {L : Lat} (ccs : List (Ctx L)) (d : L.A) (exactCheck : Bool) : Option L.A :=
  match ccs with
  | [] => none
  | c :: cs => if c.isSubsumed d exactCheck then some c.post else lookup cs d exactCheck

/-- `calling_context::join_with` -/
def Ctx.joinWith {L : Lat} (c1 c2 : Ctx L) : Ctx L :=
  ⟨L.join c1.pre c2.pre, L.join c1.post c2.post, false⟩

/-- `default_context_sensitivity_policy::add`; `max = none` is `UINT_MAX` -/
def policyAdd {L : Lat} (max : Option Nat) (ccs : List (Ctx L)) (cc : Ctx L) : List (Ctx L) :=
  match max with
  | none => ccs ++ [cc]
  | some m =>
    match ccs with
    | c1 :: c2 :: rest =>
      if ccs.length > m then
        let j := c1.joinWith c2
        j :: (rest ++ [cc]).filter (fun c => !(L.leq c.pre j.pre && L.leq c.post j.post))
      else ccs ++ [cc]
    | _ => ccs ++ [cc]

/-- `(pre, post)` is a valid summary of the concrete input/output relation `F` of the callee:
    every concrete call whose entry state satisfies `pre` ends in a state satisfying `post` -/
def SummaryValid (L : Lat) (F : St → St → Prop) (pre post : L.A) : Prop :=
  ∀ σ τ, L.γ pre σ → F σ τ → L.γ post τ

def TableValid (L : Lat) (F : St → St → Prop) (ccs : List (Ctx L)) : Prop :=
  ∀ c, c ∈ ccs → SummaryValid L F c.pre c.post

/-! ### the repaired table (patch `triage/c09_fixes/0002`): a joined context is marked *stale*;
    the first call it subsumes drops it and re-analyses the callee from the joined precondition;
    `get_summary` does not expose stale contexts -/

structure FCtx (L : Lat) where
  pre : L.A
  post : L.A
  exact : Bool
  /-- `m_stale`: produced by `join_with`, the post was not computed from the pre -/
  stale : Bool

def FCtx.isSubsumed {L : Lat} (c : FCtx L) (d : L.A) (exactCheck : Bool) : Bool :=
  if c.exact && exactCheck then L.leq d c.pre && L.leq c.pre d else L.leq d c.pre

def FCtx.joinWith {L : Lat} (c1 c2 : FCtx L) : FCtx L :=
  ⟨L.join c1.pre c2.pre, L.join c1.post c2.post, false, true⟩

def policyAddFixed {L : Lat} (max : Option Nat) (ccs : List (FCtx L)) (cc : FCtx L) : List (FCtx L) :=
  match max with
  | none => ccs ++ [cc]
  | some m =>
    match ccs with
    | c1 :: c2 :: rest =>
      if ccs.length > m then
        let j := c1.joinWith c2
        j :: (rest ++ [cc]).filter (fun c => !(L.leq c.pre j.pre && L.leq c.post j.post))
      else ccs ++ [cc]
    | _ => ccs ++ [cc]

inductive Reuse (L : Lat) where
  /-- reuse this post summary -/
  | hit (post : L.A)
  /-- the subsuming context is stale: drop it and analyse the callee with this entry -/
  | reanalyze (entry : L.A)
  | miss

def lookupFixed {L : Lat} (ccs : List (FCtx L)) (d : L.A) (exactCheck : Bool) : Reuse L :=
  match ccs with
  | [] => .miss
  | c :: cs =>
    if c.isSubsumed d exactCheck then (if c.stale then .reanalyze c.pre else .hit c.post)
    else lookupFixed cs d exactCheck

/-- `get_summary` of the repaired code -/
def exposedFixed {L : Lat} (ccs : List (FCtx L)) : List (FCtx L) := ccs.filter (fun c => !c.stale)

/-- only the contexts that are not stale have to be valid summaries -/
def TableValidF (L : Lat) (F : St → St → Prop) (ccs : List (FCtx L)) : Prop :=
  ∀ c, c ∈ ccs → c.stale = false → SummaryValid L F c.pre c.post

/-! ### bottom-up: instantiation of a summary at a call site -/

/-- `bu_summ_abs_transformer::reuse_summary`: `rin`, `rout` are the internal (fresh) names of the
    summary's inputs and outputs -/
def instantiate (D : AbsDom) (ins outs rin rout lhs args : List Var) (caller sum : D.A) : D.A :=
  let c1 := unifySeq D caller rin args
  let rs := D.rename sum (ins ++ outs) (rin ++ rout)
  let c2 := D.meet c1 rs
  let c3 := assignSeq D c2 lhs rout
  D.forget c3 ((rin ++ rout).filter (fun v => !(args ++ lhs).contains v))

end Crab.Inter
