import CrabModel.Inter.BottomUp
import CrabModel.Fix.InterleavedS

/-!
  Model of the whole top-down inter-procedural analysis
  `top_down_inter_analyzer<CallGraph, AbsDom>::run` (include/crab/analysis/inter/top_down_inter_analyzer.hpp),
  property C09, over the abstract-domain contract `IDom` of `BottomUp.lean`.

  * `TDSt`        = the state kept in `global_context` / `top_down_inter_transformer`:
                    `m_cc_table` (calling contexts `FCtx` of `TopDown.lean`: pre, post, `m_exact`, `m_stale`),
                    `m_pre_invariants` / `m_post_invariants` (context-insensitive invariants),
                    `m_func_fixpoint_table`, `m_call_stack`; plus the *ghost* list `runs` of the completed
                    runs of the intra-procedural analyser (used by the proofs and the driver only);
  * `scanCtx`     = the scan of the contexts of the callee in `analyze_callee` (subsumption / exact reuse,
                    a stale = joined context is erased and its pre summary re-analysed);
  * `callBody`    = `analyze_callee` (restrict, scan, 4.a pre-fixpoint of a recursive call, 4.b `top` for a
                    callee on the call stack, 4.c analysis of the callee, storing the context through
                    `policyAddFixed`, `get_caller_continuation`);
  * `afBody`      = `analyze_function` (fixpoint over the (entry, exit) pair of a widening point of the call
                    graph when `analyze_recursive_functions`, join of the invariants into the global tables);
  * `tdAF`        = the two tied together; the intra-procedural analyser is the state-passing iterator
                    `Fix.runS`, its block transformer `blockS` executes `callBody` at call sites
                    (`exec(callsite_t&)`: nothing happens on a bottom value);
  * `tdAnalyze`   = `run(init)`: one analysis per call-graph entry.

  Inputs of the model: `TDParams.wset` (heads of the cycles of the call-graph WTOs, `m_widening_set`),
  `TDParams.cgNest` (`wto_cg.nesting`), the orderings of the CFGs (`FixCfg`), the fuel `lvl` that bounds the
  depth of nested callee analyses plus fixpoint rounds.
  Not modelled: the checker phase (`check_function`), liveness pruning, `keep_cc_invariants`, thresholds.
-/
namespace Crab.Inter

open Crab.Fix (upd)

structure TDParams where
  /-- `max_call_contexts`; `none` = `UINT_MAX` -/
  maxCtx : Option Nat
  exactReuse : Bool
  /-- `analyze_recursive_functions` -/
  recursive : Bool
  onlyMain : Bool
  /-- `m_widening_set` -/
  wset : List Nat
  /-- `wto_cg.nesting(f)`: heads of the call-graph components enclosing `f` -/
  cgNest : Nat → List Nat

/-- ghost record of one completed run of the intra-procedural analyser -/
structure RunRec (D : IDom) where
  fn : Nat
  entry : D.A
  pre : Nat → D.A
  post : Nat → D.A

structure TDSt (D : IDom) where
  cc : Nat → List (FCtx D.toLat)
  gpre : Nat → Option (Nat → D.A)
  gpost : Nat → Option (Nat → D.A)
  /-- `m_func_fixpoint_table`: (entry, exit) -/
  fix : Nat → Option (D.A × D.A)
  /-- `m_call_stack` (top first) -/
  stack : List Nat
  runs : List (RunRec D)

def TDSt.empty (D : IDom) : TDSt D :=
  { cc := fun _ => [], gpre := fun _ => none, gpost := fun _ => none, fix := fun _ => none,
    stack := [], runs := [] }

/-- result of the scan of the stored contexts -/
inductive Scan (D : IDom) where
  | hit (post : D.A)
  /-- the first subsuming context is stale: it is erased (`rest`), the callee is analysed from its pre -/
  | reanalyze (entry : D.A) (rest : List (FCtx D.toLat))
  | miss

/-- `for (i ...) if (call_contexts[i]->is_subsumed(callee_entry, use_exact_subsumption)) ...` -/
def scanCtx (D : IDom) : List (FCtx D.toLat) → D.A → Bool → Scan D
  | [], _, _ => .miss
  | c :: cs, d, e =>
    if c.isSubsumed d e then (if c.stale then .reanalyze c.pre cs else .hit c.post)
    else
      match scanCtx D cs d e with
      | .reanalyze en rest => .reanalyze en (c :: rest)
      | .hit post => .hit post
      | .miss => .miss

/-- `global_context::join_with` on one table -/
def joinTable (D : IDom) (g : Option (Nat → D.A)) (t : Nat → D.A) : Option (Nat → D.A) :=
  match g with
  | none => some t
  | some old => some (fun b => D.join (old b) (t b))

/-- `join_invariants_with(cg_node, pre_invariants, post_invariants)` (with `keep_invariants`),
    and the ghost record of the run -/
def joinInv (D : IDom) (s : TDSt D) (g : Nat) (entry : D.A) (st : Fix.St D.A) : TDSt D :=
  { s with gpre := upd s.gpre g (joinTable D (s.gpre g) st.pre),
           gpost := upd s.gpost g (joinTable D (s.gpost g) st.post),
           runs := s.runs ++ [⟨g, entry, st.pre, st.post⟩] }

/-- `(analyzer != nullptr, the tables of the last run of the analyser object, state)` -/
abbrev AFRes (D : IDom) := Option (Bool × Fix.St D.A × TDSt D)
/-- `analyze_function(cg_node, ..., iteration)` with the value of the transformer as `entry` -/
abbrev AF (D : IDom) := Nat → D.A → Nat → TDSt D → AFRes D

section Body
variable (D : IDom) (p : IProg) (cfg : FixCfg) (P : TDParams)

/-- `has_been_stabilized(node)` -/
def stabilized (s : TDSt D) (h : Nat) : Bool :=
  !P.recursive || ((s.fix h).isNone && (P.cgNest h).all (fun w => (s.fix w).isNone))

/-- `add_calling_context` -/
def addCtx (s : TDSt D) (h : Nat) (c : FCtx D.toLat) : TDSt D :=
  { s with cc := upd s.cc h (policyAddFixed P.maxCtx (s.cc h) c) }

/-- `analyze_callee` when no stored context is reused: `d` = the value the callee is entered with,
    `rean` = it is the pre summary of a joined context that has just been erased -/
def callMiss (rec : AF D) (h : Nat) (lhs args : List Var) (caller d : D.A) (rean : Bool) (s1 : TDSt D) :
    Option (D.A × TDSt D) :=
  let f := p.fn h
  let recBeing := P.recursive && P.wset.contains h
  let formals := f.ins ++ f.outs
  match s1.fix h with
  | some (fe, fx) =>
    -- 4.a the recursive call is replaced by the pre-fixpoint; its entry is joined
    let s2 := { s1 with fix := upd s1.fix h (some (D.join d fe, fx)) }
    some (extend D.toAbsDom f.ins f.outs lhs args caller (D.project fx formals), s2)
  | none =>
    if s1.stack.contains h then
      -- 4.b the callee is being analysed: top
      some (extend D.toAbsDom f.ins f.outs lhs args caller (D.project D.top formals), s1)
    else
      -- 4.c analyse the callee
      match rec h d 0 { s1 with stack := h :: s1.stack } with
      | none => none
      | some (nonnull, st, s2) =>
        let s3 := { s2 with stack := s2.stack.tail }
        let exit0 := if nonnull then st.post f.exit else D.bot
        let d' := if nonnull && recBeing then st.pre 0 else d
        let exit := D.project exit0 formals
        -- 5. store the context
        let s4 := if nonnull && stabilized D P s3 h then addCtx D P s3 h ⟨d', exit, !rean, false⟩ else s3
        some (extend D.toAbsDom f.ins f.outs lhs args caller exit, s4)

/-- `analyze_callee(cs, callee)` on the caller's value `caller`; returns the continuation -/
def callBody (rec : AF D) (h : Nat) (lhs args : List Var) (caller : D.A) (s : TDSt D) :
    Option (D.A × TDSt D) :=
  let f := p.fn h
  let isW := P.wset.contains h
  -- 2. initial value of the callee (`top` for a widening point when recursion is not analysed)
  let d0 := if P.recursive || !isW then restrict D.toAbsDom f.ins args caller D.top else D.top
  -- 3. has the calling context been seen?  (no exact test for a recursive call being analysed)
  match scanCtx D (s.cc h) d0 (!(P.recursive && isW) && P.exactReuse) with
  | .hit post => some (extend D.toAbsDom f.ins f.outs lhs args caller post, s)
  | .reanalyze en rest => callMiss D p P rec h lhs args caller en true { s with cc := upd s.cc h rest }
  | .miss => callMiss D p P rec h lhs args caller d0 false s

/-- one statement with the state of the transformer (`exec(callsite_t&)` does nothing on bottom) -/
def stmtS (rec : AF D) (a : D.A) (s : TDSt D) : IStmt → Option (D.A × TDSt D)
  | .call c lhs args => if D.isBot a then some (a, s) else callBody D p P rec c lhs args a s
  | st => some (D.stmt a st, s)

def stmtsS (rec : AF D) : List IStmt → D.A → TDSt D → Option (D.A × TDSt D)
  | [], a, s => some (a, s)
  | st :: rest, a, s =>
    match stmtS D p P rec a s st with
    | none => none
    | some (a', s') => stmtsS rec rest a' s'

/-- `fwd_analyzer::analyze(node, inv)` -/
def blockS (rec : AF D) (f : IFun) : Fix.AnS D.A (TDSt D) :=
  fun n a s => stmtsS D p P rec (f.blk n).stmts.toList a s

/-- `analyze_function` -/
def afBody (rec : AF D) : AF D := fun g entry iter s =>
  let f := p.fn g
  let recG := P.recursive && P.wset.contains g
  -- the initial value of a recursive function is the entry of its fixpoint
  let en := if recG then (match s.fix g with | some (fe, _) => fe | none => entry) else entry
  let s1 := if recG then (match s.fix g with
                          | some _ => s
                          | none => { s with fix := upd s.fix g (some (entry, D.bot)) }) else s
  match Fix.runS (mkCtx D cfg g f (fun _ _ => D.top) en) (blockS D p P rec f) cfg.fuel (cfg.wto g) s1 with
  | none => none
  | some (st, s2) =>
    match s2.fix g with
    | some (newEntry, oldExit) =>
      let newExit := st.post f.exit
      if D.leq newEntry en && D.leq newExit oldExit then
        -- fixpoint reached
        let s3 := { s2 with fix := upd s2.fix g none }
        some (false, st, if iter = 0 then joinInv D s3 g en st else s3)
      else
        let ne := if iter ≥ cfg.delay then D.widen en newEntry else D.join newEntry en
        let nx := if iter ≥ cfg.delay then D.widen oldExit newExit else D.join newExit oldExit
        match rec g entry (iter + 1) { s2 with fix := upd s2.fix g (some (ne, nx)) } with
        | none => none
        | some (true, st', s3) => some (true, st', s3)
        | some (false, st', s3) =>
          -- the analyser object holds the tables of the run that converged
          some (true, st', joinInv D s3 g ne st')
    | none =>
      -- 4. store the invariants
      some (true, st, joinInv D s2 g en st)

end Body

/-- `lvl` bounds the depth of nested callee analyses plus the rounds of the recursion fixpoints -/
def tdAF (D : IDom) (p : IProg) (cfg : FixCfg) (P : TDParams) : Nat → AF D
  | 0 => fun _ _ _ _ => none
  | k + 1 => afBody D p cfg P (tdAF D p cfg P k)

/-- does some function call `g`? -/
def IProg.isCalled (p : IProg) (g : Nat) : Bool :=
  (List.range p.funs.size).any (fun f => (p.fn f).callsFn g)

/-- `m_cg.entries()` (nodes without predecessors; all nodes when there is none), filtered by
    `only_main_as_entry` -/
def tdEntries (p : IProg) (P : TDParams) : List Nat :=
  let noPred := (List.range p.funs.size).filter (fun g => !p.isCalled g)
  let es := if noPred.isEmpty then List.range p.funs.size else noPred
  if P.onlyMain then es.filter (fun g => g == p.main) else es

/-- the loop over the entries in `run(init)` -/
def tdEntryLoop (D : IDom) (p : IProg) (cfg : FixCfg) (P : TDParams) (lvl : Nat) (init : D.A) :
    List Nat → TDSt D → Option (TDSt D)
  | [], s => some s
  | e :: es, s =>
    match tdAF D p cfg P lvl e init 0 { s with stack := [e] } with
    | none => none
    | some (_, _, s') => tdEntryLoop D p cfg P lvl init es { s' with stack := s'.stack.tail }

/-- `top_down_inter_analyzer::run(init)` -/
def tdAnalyze (D : IDom) (p : IProg) (cfg : FixCfg) (P : TDParams) (lvl : Nat) (init : D.A) :
    Option (TDSt D) :=
  tdEntryLoop D p cfg P lvl init (tdEntries p P) (TDSt.empty D)

/-- `get_pre(cfg, b)` / `get_post(cfg, b)`: bottom for a function / block that was never analysed -/
def TDSt.getPre {D : IDom} (s : TDSt D) (g b : Nat) : D.A :=
  match s.gpre g with | some t => t b | none => D.bot
def TDSt.getPost {D : IDom} (s : TDSt D) (g b : Nat) : D.A :=
  match s.gpost g with | some t => t b | none => D.bot

/-- `get_summary(cfg)`: the contexts that are not stale -/
def TDSt.summaries {D : IDom} (s : TDSt D) (g : Nat) : List (D.A × D.A) :=
  ((s.cc g).filter (fun c => !c.stale)).map (fun c => (c.pre, c.post))

/-! ## specification side: the decidable hypotheses of the C09 theorems -/

/-- `CallOK` (`TopDown.lean`) as a Boolean: the name-sharing conditions under which the sequential
    wiring of `get_caller_continuation` is the parallel one -/
def callOKb (ins outs lhs args : List Var) : Bool :=
  decide (ins.length = args.length) && decide (lhs.length = outs.length) && decide lhs.Nodup &&
  seqOKb lhs outs &&
  (List.range ins.length).all (fun i => !args.contains (ins.getD i 0) || args.getD i 0 == ins.getD i 0) &&
  ins.all (fun f => !lhs.contains f || args.contains f)

/-- finding F29 excluded: at every call site the parameter wiring of `get_callee_entry` and of
    `get_caller_continuation` is a parallel assignment.  Implied by `crossShare = false`. -/
def IProg.callsWiringOK (p : IProg) : Bool :=
  p.funs.all (fun f => f.blocks.all (fun b => b.stmts.all (fun s =>
    match s with
    | .call c lhs args => seqOKb (p.fn c).ins args && callOKb (p.fn c).ins (p.fn c).outs lhs args
    | _ => true)))

/-- finding F30 excluded: along every call path from the bottom of `stk` (top first) that the
    analysis can have on its call stack, a call of a function that is already on the stack is a call
    of a widening point of the call graph (so it was entered with `top`, resp. is under fixpoint).
    `k` = fuel (the number of functions + 1 is enough); `false` when it runs out. -/
def pathsOK (p : IProg) (W : List Nat) : Nat → List Nat → Bool
  | 0, _ => false
  | _ + 1, [] => true
  | k + 1, x :: stk =>
    (p.fn x).callees.all (fun h =>
      if (x :: stk).contains h then W.contains h else pathsOK p W k (h :: x :: stk))

/-- one round of the closure of a set of functions under "calls a function outside `W`" -/
def reachStepNoW (p : IProg) (W : List Nat) (S : List Nat) : List Nat :=
  (S ++ S.flatMap (fun g => (p.fn g).callees.filter (fun h => !W.contains h))).eraseDups

/-- the functions reachable from the callees of `g` by calls that avoid `W` -/
def reachNoW (p : IProg) (W : List Nat) (g : Nat) : List Nat :=
  (List.range p.funs.size).foldl (fun S _ => reachStepNoW p W S)
    ((p.fn g).callees.filter (fun h => !W.contains h))

/-- `W` is a legitimate set of widening points of the call graph: every call cycle goes through
    a member of `W` (the heads of the cycles of any weak topological ordering have this property) -/
def wsetCutsCycles (p : IProg) (W : List Nat) : Bool :=
  (List.range p.funs.size).all (fun g => W.contains g || !(reachNoW p W g).contains g)

/-- the entries are analysed one after the other from `init`: they must not be called themselves,
    `main` must be one of them, and the call stacks starting at them satisfy `pathsOK` -/
def entriesOK (p : IProg) (P : TDParams) : Bool :=
  (tdEntries p P).contains p.main &&
  (tdEntries p P).all (fun e => !p.isCalled e && decide (e < p.funs.size) &&
    pathsOK p P.wset (p.funs.size + 1) [e])

/-- the treatment of recursion covered by the end-to-end theorems: the default one
    (`analyze_recursive_functions = false`), or no widening point at all -/
def TDParams.simpleRec (P : TDParams) : Bool := !P.recursive || P.wset.isEmpty

end Crab.Inter
