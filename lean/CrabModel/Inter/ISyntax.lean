/-!
  Multi-function integer programs of the inter-procedural harness (component `inter`,
  properties C09 / C10).  Text format: `harness/iprog.hpp`.

  Variables are indices `0 .. nv-1`; the names are shared by all functions of a program, a
  frame of any function is an `Array Int` of size `nv`.  A function's first block is its entry,
  its last block is its exit; it returns when control reaches the end of the exit block.
-/
namespace Crab.Inter

abbrev Var := Nat
abbrev Env := Array Int

/-- linear expression `c + Σ k·v` -/
structure ILin where
  c : Int
  ts : List (Int × Var)
  deriving Repr, Inhabited, BEq

def ILin.eval (l : ILin) (σ : Env) : Int :=
  l.ts.foldl (fun a (kv : Int × Var) => a + kv.1 * σ.getD kv.2 0) l.c

def ILin.vars (l : ILin) : List Var := l.ts.map (·.2)

inductive IRel | le | lt | eq | ne
  deriving Repr, Inhabited, BEq, DecidableEq

/-- linear constraint `lin ⋈ 0` -/
structure ICst where
  k : IRel
  e : ILin
  deriving Repr, Inhabited, BEq

def ICst.sat (c : ICst) (σ : Env) : Bool :=
  let v := c.e.eval σ
  match c.k with
  | .le => decide (v ≤ 0)
  | .lt => decide (v < 0)
  | .eq => decide (v = 0)
  | .ne => decide (v ≠ 0)

inductive IOp | add | sub | mul
  deriving Repr, Inhabited, BEq, DecidableEq

def IOp.eval : IOp → Int → Int → Int
  | .add, a, b => a + b
  | .sub, a, b => a - b
  | .mul, a, b => a * b

/-- second operand of a binary operation -/
inductive IArg
  | var (v : Var)
  | cst (k : Int)
  deriving Repr, Inhabited, BEq

def IArg.eval : IArg → Env → Int
  | .var v, σ => σ.getD v 0
  | .cst k, _ => k

inductive IStmt
  | assign (x : Var) (e : ILin)
  | bin (op : IOp) (x y : Var) (z : IArg)
  | havoc (x : Var)
  | assume (c : ICst)
  | assert (id : Nat) (c : ICst)
  | call (callee : Nat) (lhs : List Var) (args : List Var)
  deriving Repr, Inhabited

structure IBlock where
  stmts : Array IStmt
  succs : Array Nat
  deriving Repr, Inhabited

structure IFun where
  name : String
  ins : List Var
  outs : List Var
  blocks : Array IBlock
  deriving Repr, Inhabited

def IFun.exit (f : IFun) : Nat := f.blocks.size - 1

structure IProg where
  nv : Nat
  funs : Array IFun
  /-- index of `main` -/
  main : Nat
  deriving Repr, Inhabited

/-- variables written by a statement -/
def IStmt.defs : IStmt → List Var
  | .assign x _ => [x]
  | .bin _ x _ _ => [x]
  | .havoc x => [x]
  | .call _ lhs _ => lhs
  | _ => []

/-- Well-formedness required by the top-down analysis (header comment of
    `top_down_inter_analyzer.hpp`): a function never re-defines its input parameters; inputs,
    outputs and the lhs of a call site are duplicate-free; inputs and outputs are disjoint; arities match. -/
def IFun.wf (p : IProg) (f : IFun) : Bool :=
  f.blocks.size > 0 && f.ins.Nodup && f.outs.Nodup && f.ins.all (fun v => !f.outs.contains v) &&
  f.blocks.all (fun b =>
    b.succs.all (· < f.blocks.size) &&
    b.stmts.all (fun s =>
      s.defs.all (fun v => !f.ins.contains v) &&
      (match s with
       | .call c lhs args =>
         (match p.funs[c]? with
          | some g => lhs.Nodup && lhs.length == g.outs.length && args.length == g.ins.length
          | none => false)
       | _ => true)))

def IProg.wf (p : IProg) : Bool :=
  p.main < p.funs.size && p.funs.all (fun f => f.wf p)

/-- `true` when some call site uses a name of the callee's declaration at a *different* position
    (an actual that is another formal input / a formal output, an lhs that is another formal
    output / a formal input).  `get_callee_entry` / `get_caller_continuation` wire parameters by
    a sequence of assignments, which is only a parallel assignment without such sharing. -/
def IProg.crossShare (p : IProg) : Bool :=
  p.funs.any (fun f => f.blocks.any (fun b => b.stmts.any (fun s =>
    match s with
    | .call c lhs args =>
      (match p.funs[c]? with
       | some g =>
         (List.range args.length).any (fun i =>
           let a := args.getD i 0
           (List.range g.ins.length).any (fun j => j != i && g.ins.getD j 0 == a) || g.outs.contains a) ||
         (List.range lhs.length).any (fun i =>
           let l := lhs.getD i 0
           (List.range g.outs.length).any (fun j => j != i && g.outs.getD j 0 == l) || g.ins.contains l)
       | none => false)
    | _ => false)))

end Crab.Inter
