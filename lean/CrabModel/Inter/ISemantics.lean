import CrabModel.Inter.ISyntax

/-!
  Executable call-stack semantics of `IProg` with an explicit choice stream.

  * every non-deterministic choice (initial value of a local variable, `havoc`, successor of a
    block) reads the next element of the stream `ch : Nat → Int`; the replay of an execution is
    the program plus the stream;
  * parameter passing by value: a call creates a fresh frame whose variables all get arbitrary
    values (next `nv` choices) and then `formals := actuals` (simultaneously, from the caller's
    frame); at the end of the callee's exit block `lhs := outputs` (simultaneously) in the
    caller's frame and the callee's frame is dropped;
  * `assume` with a false condition has no successor (status `blocked`), a failed `assert`
    stops the execution (status `failed id`), a non-exit block without successors is a dead end;
  * the trace records the events `(function, block, at-exit?, frame)`, one call record
    `(callee, input values at entry, output values at return)` per *returned* call and the outcome
    of every executed assert.
  Everything is total: `run` takes a step bound.
-/
namespace Crab.Inter

abbrev Choices := Nat → Int

structure Frame where
  fn : Nat
  blk : Nat
  pc : Nat
  env : Env
  /-- values of the input parameters when the frame was created -/
  inVals : List Int
  deriving Repr, Inhabited

inductive Status
  | running
  | done
  | blocked
  | failed (id : Nat)
  | stuck
  deriving Repr, Inhabited, BEq

structure Event where
  fn : Nat
  blk : Nat
  atExit : Bool
  env : Env
  deriving Repr, Inhabited

structure CallRec where
  fn : Nat
  ins : List Int
  outs : List Int
  deriving Repr, Inhabited

structure Trace where
  events : Array Event := #[]
  calls : Array CallRec := #[]
  asserts : Array (Nat × Bool) := #[]
  deriving Repr, Inhabited

structure Config where
  stack : List Frame
  /-- index of the next unread choice -/
  ci : Nat
  tr : Trace
  status : Status
  deriving Repr, Inhabited

/-- simultaneous assignment `xs := vals` -/
def setMany (σ : Env) : List Var → List Int → Env
  | x :: xs, v :: vs => setMany (σ.setIfInBounds x v) xs vs
  | _, _ => σ

/-- fresh frame of function `fn`: all variables arbitrary, then the formals get `inVals` -/
def mkFrame (p : IProg) (ch : Choices) (ci : Nat) (fn : Nat) (inVals : List Int) : Frame :=
  let f := p.funs.getD fn default
  let env0 : Env := (Array.range p.nv).map (fun i => ch (ci + i))
  { fn := fn, blk := 0, pc := 0, env := setMany env0 f.ins inVals, inVals := inVals }

def Trace.event (t : Trace) (fr : Frame) (atExit : Bool) : Trace :=
  { t with events := t.events.push ⟨fr.fn, fr.blk, atExit, fr.env⟩ }

def initConfig (p : IProg) (ch : Choices) : Config :=
  let fr := mkFrame p ch 0 p.main []
  { stack := [fr], ci := p.nv, tr := ({} : Trace).event fr false, status := .running }

/-- one step of the top frame -/
def step (p : IProg) (ch : Choices) (c : Config) : Config :=
  match c.stack with
  | [] => { c with status := .done }
  | fr :: rest =>
    let f := p.funs.getD fr.fn default
    let b := f.blocks.getD fr.blk default
    if fr.pc < b.stmts.size then
      match b.stmts.getD fr.pc default with
      | .assign x e =>
        { c with stack := { fr with env := fr.env.setIfInBounds x (e.eval fr.env), pc := fr.pc + 1 } :: rest }
      | .bin op x y z =>
        { c with stack := { fr with env := fr.env.setIfInBounds x (op.eval (fr.env.getD y 0) (z.eval fr.env)),
                                     pc := fr.pc + 1 } :: rest }
      | .havoc x =>
        { c with stack := { fr with env := fr.env.setIfInBounds x (ch c.ci), pc := fr.pc + 1 } :: rest, ci := c.ci + 1 }
      | .assume cst =>
        if cst.sat fr.env then { c with stack := { fr with pc := fr.pc + 1 } :: rest }
        else { c with status := .blocked }
      | .assert id cst =>
        let ok := cst.sat fr.env
        let tr := { c.tr with asserts := c.tr.asserts.push (id, ok) }
        if ok then { c with stack := { fr with pc := fr.pc + 1 } :: rest, tr := tr }
        else { c with tr := tr, status := .failed id }
      | .call callee _ args =>
        if callee < p.funs.size then
          let nf := mkFrame p ch c.ci callee (args.map (fun a => fr.env.getD a 0))
          { c with stack := nf :: fr :: rest, ci := c.ci + p.nv, tr := c.tr.event nf false }
        else { c with status := .stuck }
    else
      -- end of the block
      let tr := c.tr.event fr true
      if fr.blk == f.exit then
        -- return
        let outs := f.outs.map (fun o => fr.env.getD o 0)
        let tr := { tr with calls := tr.calls.push ⟨fr.fn, fr.inVals, outs⟩ }
        match rest with
        | [] => { c with stack := [], tr := tr, status := .done }
        | caller :: rest' =>
          let cf := p.funs.getD caller.fn default
          let cb := cf.blocks.getD caller.blk default
          match cb.stmts.getD caller.pc default with
          | .call _ lhs _ =>
            { c with stack := { caller with env := setMany caller.env lhs outs, pc := caller.pc + 1 } :: rest', tr := tr }
          | _ => { c with tr := tr, status := .stuck }
      else if b.succs.size == 0 then { c with tr := tr, status := .blocked }
      else
        let k := (ch c.ci).natAbs % b.succs.size
        let fr' := { fr with blk := b.succs.getD k 0, pc := 0 }
        { c with stack := fr' :: rest, ci := c.ci + 1, tr := tr.event fr' false }

/-- run at most `fuel` steps -/
def runFrom (p : IProg) (ch : Choices) : Nat → Config → Config
  | 0, c => c
  | fuel + 1, c =>
    match c.status with
    | .running => runFrom p ch fuel (step p ch c)
    | _ => c

def run (p : IProg) (ch : Choices) (fuel : Nat) : Config := runFrom p ch fuel (initConfig p ch)

end Crab.Inter
