import CrabModel.Transform.Liveness

/-!
  The assertion crawler (property C18, second half).

  * The CODE: `assertion_crawler` (include/crab/analysis/dataflow/assertion_crawler.hpp), a
    backward analysis run by `killgen_fixpoint_iterator::run_bwd_fixpo`.  A fact is a pair
    (assertion, set of variables); per block the crawler answers the facts at the ENTRY of the
    block (`get_results(b)`) and, on request, per statement (`get_results(b, map)`).
      - `transfer_function::visit`:
          assert            `process_assertion`: the FIRST time the statement is visited its entry
                            is set to the variables of the condition; later visits do nothing;
          assign/bin/select `propagate_data` = `add_data_deps` on every entry;
          havoc             `remove_deps`;
          unreachable       `set_to_bottom`;
          assume            `propagate_data_and_control`: `add_data_deps` (with an empty def
                            set), then -- unless the control-dependence graph is empty -- for
                            every predecessor `p` of the block that is a key of the cdg:
                            `add_control_deps` adds the variables of the condition to every
                            assertion whose block is reachable in the cdg from the children of `p`;
      - the control-dependence graph (`graph_algo::control_dep_graph`, post-dominance
        frontiers from Boost's dominator tree) is an INPUT of the model, like the block order
        `weak_rev_topo_sort(cfg)`; it is empty in the data-only mode and without an exit block;
      - `run_bwd_fixpo`: round robin over `order`; `out(n) = ⋃ in(succ)`;
        `in(n) := in(n) ∪ analyze(n, out)` when `analyze(n, out) ⊄ in(n)`.
  * The SPECIFICATION: dynamic dependence by paired executions (`RelevantData`,
    `RelevantCtrl`) over the concrete semantics of TIR.lean (`stepStmt`), see below.
-/
namespace Crab
namespace TIR

/-- which version of the code: `cur` = the tree as it is; the flags are the two repairs proposed
    for assertion_crawler.hpp
      * `ownBlock`: `add_control_deps` also fires when the block of the `assume` is itself
        control dependent on the branching predecessor;
      * `stmtFromOut`: `get_results(b, map)` starts from the facts at the END of `b` and
        `process_assertion` generates the entry of a known assertion again (joined with what
        flows through the statement). -/
structure CrawlVariant where
  ownBlock : Bool
  stmtFromOut : Bool
  deriving DecidableEq, Repr

def CrawlVariant.cur : CrawlVariant := ⟨false, false⟩
def CrawlVariant.fixed : CrawlVariant := ⟨true, true⟩

/-- an assertion is identified by its block and its statement index -/
abbrev AId := Label × Nat

/-- the facts at a program point: per assertion a set of variables (an assertion without entry
    has no fact there) -/
abbrev Facts := List (AId × VarSet)

def Facts.has (F : Facts) (a : AId) : Bool := (F.lookup a).isSome

/-- the variable set of `a` (empty when there is no entry) -/
def Facts.get (F : Facts) (a : AId) : VarSet := (F.lookup a).getD []

def Facts.set (F : Facts) (a : AId) (d : VarSet) : Facts :=
  if F.has a then F.map (fun p => if p.1 == a then (a, d) else p) else F ++ [(a, d)]

def Facts.mapVals (F : Facts) (f : AId → VarSet → VarSet) : Facts := F.map (fun p => (p.1, f p.1 p.2))

/-- `discrete_pair_domain::operator|` (keys of both sides, union on common keys) -/
def Facts.join (a b : Facts) : Facts :=
  a.map (fun p => (p.1, p.2 ++ b.get p.1)) ++ b.filter (fun p => !a.has p.1)

/-- `discrete_pair_domain::operator<=` -/
def Facts.leq (a b : Facts) : Bool := a.all (fun p => b.has p.1 && VarSet.subset p.2 (b.get p.1))

def VarSet.meets (a b : VarSet) : Bool := a.any (fun x => b.contains x)

/-! ### the transfer function -/

/-- `add_data_deps::operator()` -/
def addDataDeps (uses defs : VarSet) (d : VarSet) : VarSet :=
  let d1 := if defs.isEmpty && !uses.isEmpty && VarSet.meets uses d then d ++ uses else d
  if VarSet.meets d1 defs then VarSet.diff d1 defs ++ uses else d1

/-- effect of a statement on the variable set of one assertion, data dependences only
    (`propagate_data`, `remove_deps`; an `assert` leaves the other entries alone; after
    `unreachable` no entry is left) -/
def dataStep (s : Stmt) (d : VarSet) : VarSet :=
  match s with
  | .havoc x => VarSet.diff d [x]
  | .assert _ => d
  | .unreachable => []
  | .assume c => addDataDeps c.vars [] d
  | s => addDataDeps s.uses s.defs d

/-- control-dependence graph: key block, blocks that are control dependent on it -/
abbrev Cdg := List (Label × List Label)

def Cdg.fuel (g : Cdg) : Nat := g.foldl (fun n p => n + p.2.length + 1) 1

/-- `add_control_deps::reach(target)`: is `target` reachable in the cdg from the roots
    (a root reaches itself) -/
def Cdg.reaches (g : Cdg) (roots : List Label) (target : Label) : Bool :=
  (reachFrom (fun l => (g.lookup l).getD []) (g.fuel + roots.length) roots []).contains target

/-- `propagate_data_and_control` on the entry of assertion `a`; `l` = the block that contains
    the `assume`, `preds` = its predecessors -/
def assumeStep (v : CrawlVariant) (g : Cdg) (preds : List Label) (l : Label) (c : Cst) (a : AId) (d : VarSet) : VarSet :=
  let d1 := addDataDeps c.vars [] d
  if g.isEmpty then d1
  else
    preds.foldl (fun d p =>
      match g.lookup p with
      | some children =>
        if (v.ownBlock && children.contains l) || g.reaches children a.1 then d ++ c.vars else d
      | none => d) d1

/-- the solution carried through a block and the assertions that already have an identifier
    (`m_assert_map`) -/
structure XState where
  facts : Facts
  reg : List AId

/-- `transfer_function::visit` of statement `k` of block `l` -/
def xferStmt (v : CrawlVariant) (g : Cdg) (preds : List Label) (l : Label) (k : Nat) (s : Stmt) (X : XState) : XState :=
  match s with
  | .assert c =>
    if X.reg.contains (l, k) then
      (if v.stmtFromOut then ⟨X.facts.set (l, k) (c.vars ++ X.facts.get (l, k)), X.reg⟩ else X)
    else ⟨X.facts.set (l, k) c.vars, (l, k) :: X.reg⟩
  | .unreachable => ⟨[], X.reg⟩
  | .assume c => ⟨X.facts.mapVals (fun a d => assumeStep v g preds l c a d), X.reg⟩
  | s => ⟨X.facts.mapVals (fun _ d => dataStep s d), X.reg⟩

/-- `analyze(bb, out)`: the statements from index `k` on, visited in reverse order -/
def xferFrom (v : CrawlVariant) (g : Cdg) (preds : List Label) (l : Label) : Nat → List Stmt → XState → XState
  | _, [], X => X
  | k, s :: r, X => xferStmt v g preds l k s (xferFrom v g preds l (k + 1) r X)

/-! ### the fixpoint (`run_bwd_fixpo`) -/

abbrev InMap := List (Label × Facts)

def InMap.get (m : InMap) (l : Label) : Facts := (m.lookup l).getD []

def InMap.set (m : InMap) (l : Label) (f : Facts) : InMap :=
  if (m.lookup l).isSome then m.map (fun p => if p.1 == l then (l, f) else p) else m ++ [(l, f)]

def outFacts (P : Prog) (m : InMap) (n : Label) : Facts :=
  (P.succsOf n).foldl (fun acc p => acc.join (m.get p)) []

def crawlRound (v : CrawlVariant) (P : Prog) (g : Cdg) : List Label → InMap → List AId → Bool → InMap × List AId × Bool
  | [], m, reg, ch => (m, reg, ch)
  | n :: rest, m, reg, ch =>
    let X := xferFrom v g (P.predsOf n) n 0 (P.stmtsOf n) ⟨outFacts P m n, reg⟩
    let old := m.get n
    if X.facts.leq old then crawlRound v P g rest m X.reg ch
    else crawlRound v P g rest (m.set n (X.facts.join old)) X.reg true

def crawlIter (v : CrawlVariant) (P : Prog) (g : Cdg) (order : List Label) : Nat → InMap → List AId → Option InMap
  | 0, _, _ => none
  | fuel + 1, m, reg =>
    match crawlRound v P g order m reg false with
    | (m', reg', ch) => if ch then crawlIter v P g order fuel m' reg' else some m'

def crawlFuel (P : Prog) : Nat :=
  (P.blocks.length + 1) * (P.nvars + 1) * ((P.blocks.map (fun b => b.stmts.length)).foldl (· + ·) 1) + 2

/-- `assertion_crawler(cfg, .., only_data).exec()`; `g = []` in the data-only mode -/
def crawl (v : CrawlVariant) (P : Prog) (g : Cdg) (order : List Label) : Option InMap :=
  crawlIter v P g order (crawlFuel P) [] []

/-- all assertion statements of the program -/
def Prog.asserts (P : Prog) : List (AId × Cst) :=
  P.blocks.flatMap (fun b =>
    (b.stmts.zipIdx).filterMap (fun p => match p.1 with
      | .assert c => some ((b.label, p.2), c)
      | _ => none))

/-- facts in front of the statements `k, k+1, ..` given the state after the last one -/
def stmtFactsFrom (v : CrawlVariant) (g : Cdg) (preds : List Label) (l : Label) : Nat → List Stmt → XState → List (Nat × Facts) × XState
  | _, [], X => ([], X)
  | k, s :: r, X =>
    match stmtFactsFrom v g preds l (k + 1) r X with
    | (acc, X1) =>
      let X2 := xferStmt v g preds l k s X1
      ((k, X2.facts) :: acc, X2)

/-- `get_results(b, map)` ("the dataflow facts of the pre-state at each program point"): the
    code starts the backward pass from the facts it stored for `b`, which are the facts at the
    ENTRY of `b`, and every assertion already has its identifier; nothing is answered when those
    facts are bottom -/
def stmtFacts (v : CrawlVariant) (P : Prog) (g : Cdg) (l : Label) (inM : Label → Facts) : List (Nat × Facts) :=
  if (inM l).isEmpty then []
  else
    let start : Facts := if v.stmtFromOut then (P.succsOf l).foldl (fun (acc : Facts) p => Facts.join acc (inM p)) [] else inM l
    (stmtFactsFrom v g (P.predsOf l) l 0 (P.stmtsOf l) ⟨start, P.asserts.map (·.1)⟩).1

/-! ### the inequations of the data dependences (what a sound answer has to satisfy) -/

/-- backward propagation of one variable set through a statement list, data dependences only -/
def bwdData : List Stmt → VarSet → VarSet
  | [], d => d
  | s :: r, d => dataStep s (bwdData r d)

/-- `F` (facts at block entries) solves the data-dependence inequations:
      gen : the variables of the condition of assertion `(l, k)`, propagated back through the
            statements in front of it, are in `F l (l, k)`;
      flow: for every edge `l → l'` and assertion `a`, `F l' a` propagated back through the
            statements of `l` is in `F l a` -/
def isDataSol (P : Prog) (F : Label → Facts) : Bool :=
  P.asserts.all (fun ac =>
    VarSet.subset (bwdData ((P.stmtsOf ac.1.1).take ac.1.2) ac.2.vars) ((F ac.1.1).get ac.1)) &&
  P.labels.all (fun l => (P.succsOf l).all (fun l' => P.asserts.all (fun ac =>
    VarSet.subset (bwdData (P.stmtsOf l) ((F l').get ac.1)) ((F l).get ac.1))))

/-! ### state effect of statements (executions "along a fixed path") -/

/-- the successor state; `none` = no successor state (division by zero, `unreachable`); the
    outcome of `assume` / `assert` is NOT looked at -/
def Stmt.effect (s : Stmt) (σ : State) (hv : Int) : Option State :=
  match s with
  | .assign x e => some (σ.set x (e.eval σ))
  | .bin op x a b =>
    match op.eval (a.eval σ) (b.eval σ) with
    | some v => some (σ.set x v)
    | none => none
  | .havoc x => some (σ.set x hv)
  | .assume _ => some σ
  | .assert _ => some σ
  | .select x c e1 e2 => some (σ.set x (if c.holds σ then e1.eval σ else e2.eval σ))
  | .unreachable => none

/-- run a statement list; the `i`-th statement of the whole path takes the havoc value `hv i` -/
def effects (hv : Nat → Int) : Nat → List Stmt → State → Option State
  | _, [], σ => some σ
  | i, s :: r, σ =>
    match s.effect σ (hv i) with
    | some σ' => effects hv (i + 1) r σ'
    | none => none

/-- consecutive blocks of the list are connected by edges -/
def isPath (P : Prog) : List Label → Bool
  | [] => true
  | [_] => true
  | l :: l' :: r => (P.succsOf l).contains l' && isPath P (l' :: r)

/-- the statements executed along the path up to (excluding) statement `k` of its last block -/
def pathStmts (P : Prog) : List Label → Nat → List Stmt
  | [], _ => []
  | [l], k => (P.stmtsOf l).take k
  | l :: l' :: r, k => P.stmtsOf l ++ pathStmts P (l' :: r) k

def agreeOn (S : VarSet) (σ σ' : State) : Prop := ∀ y, y ∈ S → σ y = σ' y

/-! ### executions with observations -/

/-- an event with the statement that emitted it -/
structure TEv where
  blk : Label
  idx : Nat
  ev : Event
  deriving DecidableEq, Repr, Inhabited

def tagEv (l : Label) (i : Nat) : Option Event → List TEv
  | none => []
  | some e => [⟨l, i, e⟩]

inductive BRes
  | fall (σ : State) (nh : Nat)   -- reached the end of the block
  | stop (o : Outcome)

/-- the value a `havoc` takes: the `n`-th executed havoc (of variable `x`) takes `hv n x` -/
def hvVal (hv : Nat → Var → Int) (nh : Nat) (s : Stmt) : Int :=
  match s.havocVar with
  | some x => hv nh x
  | none => 0

def hvNext (nh : Nat) (s : Stmt) : Nat :=
  match s.havocVar with
  | some _ => nh + 1
  | none => nh

/-- the statements of block `l` from index `i` on -/
def runStmts (hv : Nat → Var → Int) (l : Label) : Nat → List Stmt → State → Nat → List TEv × BRes
  | _, [], σ, nh => ([], .fall σ nh)
  | i, s :: r, σ, nh =>
    match stepStmt s σ (hvVal hv nh s) with
    | .cont σ' ev =>
      (tagEv l i ev ++ (runStmts hv l (i + 1) r σ' (hvNext nh s)).1, (runStmts hv l (i + 1) r σ' (hvNext nh s)).2)
    | .stop ev o => (tagEv l i ev, .stop o)

/-- how a run ended -/
inductive End
  | exit                       -- completed the exit block
  | sink                       -- completed a block without successors
  | infeasible                 -- false assume / `unreachable`: not an execution
  | failed (blk : Label) (idx : Nat)
  | divzero
  | fuel                       -- stopped by the bound (or by astronomically large values)
  deriving DecidableEq, Repr, Inhabited

/-- how often each block has been completed so far -/
abbrev Counts := List (Label × Nat)

def Counts.get (c : Counts) (l : Label) : Nat :=
  match c.lookup l with
  | some n => n
  | none => 0

def Counts.bump (c : Counts) (l : Label) : Counts := (l, c.get l + 1) :: c.filter (fun p => p.1 != l)

/-- a block entered: label, state at its entry, havocs executed so far, step number, how often
    each block has been completed -/
structure Visit where
  l : Label
  σ : State
  nh : Nat
  step : Nat
  cnt : Counts

structure Trace where
  evs : List TEv
  path : List Label        -- the blocks entered after the start block
  visits : List Visit
  fin : End

/-- the choice of the successor: step number, how often the current block has been completed
    before, current block, state at its end, successors -/
abbrev Chooser := Nat → Nat → Label → State → List Label → Label

def hugeState (nv : Nat) (σ : State) : Bool := (List.range nv).any (fun x => (σ x).natAbs > 2 ^ 192)

def endOfStop (t : List TEv) : Outcome → End
  | .failed =>
    match t.getLast? with
    | some e => .failed e.blk e.idx
    | none => .infeasible
  | .divzero => .divzero
  | _ => .infeasible

/-- what happens at the end of block `l` -/
inductive Next
  | halt (e : End)
  | goto (l' : Label)

def nextOf (P : Prog) (ch : Chooser) (step : Nat) (cnt : Counts) (l : Label) (σ : State) : Next :=
  if P.isExit l then .halt .exit
  else if hugeState P.nvars σ then .halt .fuel
  else
    match P.succsOf l with
    | [] => .halt .sink
    | sc =>
      if sc.contains (ch step (cnt.get l) l σ sc) then .goto (ch step (cnt.get l) l σ sc)
      else .halt .fuel   -- a choice outside the successor list is not an execution

/-- run from statement `i` of block `l` (`ss` = the remaining statements of the block) -/
def runWith (P : Prog) (hv : Nat → Var → Int) (ch : Chooser) :
    Nat → Nat → Counts → Label → Nat → List Stmt → State → Nat → Trace
  | 0, _, _, _, _, _, _, _ => ⟨[], [], [], .fuel⟩
  | f + 1, step, cnt, l, i, ss, σ, nh =>
    match runStmts hv l i ss σ nh with
    | (t, .stop o) => ⟨t, [], [], endOfStop t o⟩
    | (t, .fall σ' nh') =>
      match nextOf P ch step cnt l σ' with
      | .halt e => ⟨t, [], [], e⟩
      | .goto l' =>
        let r := runWith P hv ch f (step + 1) (cnt.bump l) l' 0 (P.stmtsOf l') σ' nh'
        ⟨t ++ r.evs, l' :: r.path, ⟨l', σ', nh', step + 1, cnt.bump l⟩ :: r.visits, r.fin⟩

def Stmt.assumeCst : Stmt → Option Cst
  | .assume c => some c
  | _ => none

/-- the leading `assume`s of block `l` hold in `σ` -/
def guardOk (P : Prog) (l : Label) (σ : State) : Bool :=
  ((P.stmtsOf l).takeWhile (fun s => s.assumeCst.isSome)).all (fun s =>
    match s.assumeCst with
    | some c => c.holds σ
    | none => true)

def bestBy (score : Label → Nat) : List Label → Label
  | [] => 0
  | l :: rest => (rest.foldl (fun (b : Label × Nat) x => if score x > b.2 then (x, score x) else b) (l, score l)).1

/-- the deterministic scheduler: among the successors whose leading assumes hold (all
    successors if there is none) the one with the largest priority `prio l n l'`, `n` = how
    often the current block `l` has been completed before.  The priorities do not look at the
    state: the only way a variable influences the path is through the conditions of `assume`s. -/
def schedChooser (P : Prog) (prio : Label → Nat → Label → Nat) : Chooser := fun _ n l σ sc =>
  let feas := sc.filter (fun l' => guardOk P l' σ)
  bestBy (prio l n) (if feas.isEmpty then sc else feas)

/-- follow a given list of successors (`step0` = step number of the start) -/
def pathChooser (step0 : Nat) (path : List Label) : Chooser := fun step _ _ _ sc =>
  match path[step - step0]? with
  | some l => l
  | none => sc.headD 0

/-- run from the point in front of statement `i` of block `l` -/
def runFrom (P : Prog) (hv : Nat → Var → Int) (ch : Chooser) (fuel : Nat) (v : Visit) (i : Nat) : Trace :=
  runWith P hv ch fuel v.step v.cnt v.l i ((P.stmtsOf v.l).drop i) v.σ v.nh

/-! ### the specification: dynamic dependence -/

/-- the outcome sequence of assertion `a` -/
def aSeq (a : AId) (t : List TEv) : List Bool :=
  t.filterMap (fun e => if e.ev.isAssert && e.blk == a.1 && e.idx == a.2 then some e.ev.ok else none)

/-- some common position holds different outcomes -/
def conflict : List Bool → List Bool → Bool
  | x :: xs, y :: ys => x != y || conflict xs ys
  | _, _ => false

inductive RunKind
  | complete     -- exit, sink, or the run ended because `a` itself failed
  | cut          -- another assertion failed, division by zero, bound: a prefix of an execution
  | infeasible   -- ended by a false assume / unreachable: not an execution
  deriving DecidableEq, Repr

def Trace.kind (t : Trace) (a : AId) : RunKind :=
  match t.fin with
  | .exit => .complete
  | .sink => .complete
  | .failed b i => if b == a.1 && i == a.2 then .complete else .cut
  | .divzero => .cut
  | .fuel => .cut
  | .infeasible => .infeasible

/-- the judgement with control dependences: both runs are executions (none ends at a false
    assume); two complete runs must have the same outcome sequence for `a`; a cut run must not
    contradict the other one and must not have executed `a` more often than a complete one -/
def differCtrl (a : AId) (t1 t2 : Trace) : Bool :=
  let s1 := aSeq a t1.evs
  let s2 := aSeq a t2.evs
  match t1.kind a, t2.kind a with
  | .infeasible, _ => false
  | _, .infeasible => false
  | .complete, .complete => s1 != s2
  | .complete, .cut => conflict s1 s2 || decide (s2.length > s1.length)
  | .cut, .complete => conflict s1 s2 || decide (s1.length > s2.length)
  | .cut, .cut => conflict s1 s2

/-- the judgement of the data-only mode; the second run was forced along the path of the
    first: the `k`-th outcomes of `a` belong to the same path position -/
def differData (a : AId) (t1 t2 : Trace) : Bool :=
  match t1.kind a, t2.kind a with
  | .infeasible, _ => false
  | _, .infeasible => false
  | _, _ => conflict (aSeq a t1.evs) (aSeq a t2.evs)

def feasibleSuccs (P : Prog) (l : Label) (σ : State) : List Label :=
  (P.succsOf l).filter (fun l' => guardOk P l' σ)

def firstDiff : List Label → List Label → Nat → Option Nat
  | a :: as, b :: bs, j => if a == b then firstDiff as bs (j + 1) else some j
  | _, _, _ => none

/-- the two runs (both started in block `l`) part only at a DETERMINISTIC branch: at the end of
    the last common block exactly one successor is feasible in each run (so the scheduler's
    priorities play no role there, and each of the two successors carries a leading `assume`
    that is false in the other run: the way crab encodes a conditional branch) -/
def detDivergence (P : Prog) (l : Label) (t1 t2 : Trace) : Bool :=
  match firstDiff t1.path t2.path 0 with
  | none => true
  | some j =>
    let d := if j == 0 then l else t1.path.getD (j - 1) l
    match t1.visits[j]?, t2.visits[j]? with
    | some v1, some v2 =>
      (feasibleSuccs P d v1.σ).length == 1 && (feasibleSuccs P d v2.σ).length == 1
    | _, _ => false

/-- `x` is relevant for assertion `a` at the point in front of statement `i` of block `l`
    (data and control dependences): two executions under the same scheduler and with the same
    havoc values, from states that differ only in `x`, part (if at all) at a deterministic
    branch and differ for `a` -/
def RelevantCtrl (P : Prog) (a : AId) (l : Label) (i : Nat) (x : Var) : Prop :=
  ∃ (σ : State) (v : Int) (hv : Nat → Var → Int) (prio : Label → Nat → Label → Nat) (fuel : Nat),
    let t1 := runFrom P hv (schedChooser P prio) fuel ⟨l, σ, 0, 0, []⟩ i
    let t2 := runFrom P hv (schedChooser P prio) fuel ⟨l, σ.set x v, 0, 0, []⟩ i
    (detDivergence P l t1 t2 && differCtrl a t1 t2) = true

/-- `x` is relevant for `a` through data dependences: the two executions follow the same path -/
def RelevantData (P : Prog) (a : AId) (l : Label) (i : Nat) (x : Var) : Prop :=
  ∃ (σ : State) (v : Int) (hv : Nat → Var → Int) (prio : Label → Nat → Label → Nat) (fuel : Nat),
    let t1 := runFrom P hv (schedChooser P prio) fuel ⟨l, σ, 0, 0, []⟩ i
    differData a t1 (runFrom P hv (pathChooser 0 t1.path) fuel ⟨l, σ.set x v, 0, 0, []⟩ i) = true

/-! ### control dependence by its definition (to compare the implementation's graph with) -/

def interAll : List (List Label) → List Label
  | [] => []
  | s :: r => r.foldl (fun acc t => acc.filter (fun x => t.contains x)) s

/-- one round of  pdom(n) = {n} ∪ ⋂ pdom(succ) ;  pdom(exit) = {exit} -/
def pdomRound (P : Prog) (x : Label) (m : Label → List Label) : Label → List Label := fun n =>
  if n == x then [x]
  else n :: (interAll ((P.succsOf n).map m)).filter (fun y => y != n)

def pdomIter (P : Prog) (x : Label) : Nat → (Label → List Label) → (Label → List Label)
  | 0, m => m
  | k + 1, m =>
    let m' := pdomRound P x m
    let tab := P.labels.map (fun l => (l, m' l))
    pdomIter P x k (fun n => (tab.lookup n).getD [])

/-- post-dominators (meaningful when every block reaches the exit `x`) -/
def Prog.pdom (P : Prog) (x : Label) : Label → List Label :=
  pdomIter P x (P.blocks.length + 2) (fun _ => P.labels)

/-- Ferrante-Ottenstein-Warren: `y` is control dependent on `n` iff `y` post-dominates a
    successor of `n` and does not strictly post-dominate `n` -/
def Prog.specCdg (P : Prog) (x : Label) : List (Label × Label) :=
  let pd := P.pdom x
  P.labels.flatMap (fun n =>
    (P.labels.filter (fun y =>
      (P.succsOf n).any (fun s => (pd s).contains y) && !((pd n).contains y && y != n))).map (fun y => (n, y)))

/-- the same as a graph (key block, blocks control dependent on it) -/
def Prog.cdgSpec (P : Prog) (x : Label) : Cdg :=
  let pairs := P.specCdg x
  P.labels.filterMap (fun n =>
    let ys := (pairs.filter (fun p => p.1 == n)).map (·.2)
    if ys.isEmpty then none else some (n, ys))

/-- what the proposed repair of `control_dep_graph` adds: every block reachable from a branch
    with a successor from which the exit is unreachable is control dependent on that branch -/
def Prog.cdgEscape (P : Prog) : Cdg :=
  let co := match P.exit with
    | some x => P.coReachable x
    | none => []
  P.labels.filterMap (fun n =>
    let sc := P.succsOf n
    if sc.length ≥ 2 && sc.any (fun s => !co.contains s) then
      some (n, reachFrom P.succsOf ((P.blocks.length + 1) * (P.blocks.length + 1) + 1) sc [])
    else none)

/-- union of two graphs -/
def Cdg.merge (g h : Cdg) : Cdg :=
  let keys := (g.map (·.1) ++ h.map (·.1)).eraseDups
  keys.map (fun k => (k, ((g.lookup k).getD [] ++ (h.lookup k).getD []).eraseDups))

end TIR
end Crab
