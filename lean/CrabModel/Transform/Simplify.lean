import CrabModel.Transform.TIR

/-!
  Transcription of `cfg::simplify()` (include/crab/cfg/cfg.hpp):

      merge_blocks(); remove_unreachable_blocks(); remove_useless_blocks(); merge_blocks();

  with `merge_blocks_rec` in the DFS order of the code, `remove(bb)` (CRAB_ERROR on the entry
  or the exit block), `operator>>` (`insert_adjacent`: append if absent) and `operator-=`
  (`remove_adjacent`).  `none` = CRAB_ERROR.

  The code modelled is the tree AFTER the three `fix:` commits 4b61ab6 (simplify never folds the
  entry block), d9754d9 (liveness keeps the uses in front of `unreachable`), 2ccd3fb (backward
  kill-gen seeds the exit block): `Variant.cur`.  The behaviour before each fix stays available
  behind an explicit flag of `Variant` (`Variant.old` = all three off) so that the theorems
  about the old behaviour (counterexamples) remain stated and checked.
-/
namespace Crab
namespace TIR

/-- version of the code: every flag `true` = the current tree; `false` = the behaviour before
    the corresponding `fix:` commit -/
structure Variant where
  /-- 4b61ab6: `merge_blocks_rec` skips the entry block (before: CRAB_ERROR "Cannot remove entry block") -/
  entryGuard : Bool
  /-- d9754d9: liveness keeps the gen set of the statements before an `unreachable`
      (before: a block containing `unreachable` had no kill/gen at all) -/
  unreachGen : Bool
  /-- 2ccd3fb: the live-at-exit seed (function outputs) is given to the exit block
      (before: to `order[0]` of the weak reverse topological order) -/
  seedAtExit : Bool
  deriving DecidableEq, Repr, Inhabited

/-- the behaviour before the three fixes -/
def Variant.old : Variant := ⟨false, false, false⟩
/-- the current tree -/
def Variant.cur : Variant := ⟨true, true, true⟩

def Prog.mapBlock (P : Prog) (l : Label) (f : Block → Block) : Prog :=
  { P with blocks := P.blocks.map (fun b => if b.label == l then f b else b) }

/-- `insert_adjacent` -/
def insertAdj (c : List Label) (e : Label) : List Label := if c.contains e then c else c ++ [e]

/-- `remove_adjacent` -/
def removeAdj (c : List Label) (e : Label) : List Label := c.filter (fun x => x != e)

def Block.mapSucc (g : List Label → List Label) (B : Block) : Block := { B with succ := g B.succ }
def Block.mapPred (g : List Label → List Label) (B : Block) : Block := { B with pred := g B.pred }
def Block.mapStmts (g : List Stmt → List Stmt) (B : Block) : Block := { B with stmts := g B.stmts }

/-- `a >> b` -/
def Prog.addEdge (P : Prog) (a b : Label) : Prog :=
  (P.mapBlock a (Block.mapSucc (fun c => insertAdj c b))).mapBlock b (Block.mapPred (fun c => insertAdj c a))

/-- `a -= b` -/
def Prog.removeEdge (P : Prog) (a b : Label) : Prog :=
  (P.mapBlock a (Block.mapSucc (fun c => removeAdj c b))).mapBlock b (Block.mapPred (fun c => removeAdj c a))

/-- `m_blocks.erase(bb_id)` -/
def Prog.eraseBlock (P : Prog) (l : Label) : Prog :=
  { P with blocks := P.blocks.filter (fun b => b.label != l) }

/-- `cfg::remove(bb_id)` -/
def Prog.remove (P : Prog) (l : Label) : Option Prog :=
  if l == P.entry then none            -- "Cannot remove entry block"
  else if P.exit == some l then none   -- "Cannot remove exit block"
  else
    match P.block? l with
    | none => none                     -- get_node: not found
    | some B =>
      let P1 := (B.pred.filter (fun p => p != l)).foldl (fun Q p => Q.removeEdge p l) P
      let P2 := (B.succ.filter (fun s => s != l)).foldl (fun Q s => Q.removeEdge l s) P1
      some (P2.eraseBlock l)

/-- `parent.copy_back(cur)` -/
def Prog.copyBack (P : Prog) (parent : Label) (stmts : List Stmt) : Prog :=
  P.mapBlock parent (Block.mapStmts (fun s => s ++ stmts))

mutual
/-- `merge_blocks_rec(curId, visited)`; the fuel bounds the recursion depth -/
def mergeRec (v : Variant) : Nat → Prog → List Label → Label → Option (Prog × List Label)
  | 0, _, _, _ => none
  | fuel + 1, P, vis, cur =>
    if vis.contains cur then some (P, vis) else
    let vis := cur :: vis
    match P.block? cur with
    | none => none
    | some B =>
      match B.succ, B.pred with
      | [child], [parent] =>
        if v.entryGuard && cur == P.entry then mergeKids v fuel P vis B.succ else
        match P.block? parent with
        | none => none
        | some PB =>
          if PB.succ.length == 1 then
            -- fold cur into parent
            let P1 := P.copyBack parent B.stmts
            let vis := vis.filter (fun x => x != cur)
            let P2 := if P1.exit == some cur then { P1 with exit := some parent } else P1
            match P2.remove cur with
            | none => none
            | some P3 => mergeRec v fuel (P3.addEdge parent child) vis child
          else mergeKids v fuel P vis B.succ
      | _, _ => mergeKids v fuel P vis B.succ
/-- the loop over `cur.next_blocks()` (every step consumes fuel: structural recursion) -/
def mergeKids (v : Variant) : Nat → Prog → List Label → List Label → Option (Prog × List Label)
  | _, P, vis, [] => some (P, vis)
  | 0, _, _, _ :: _ => none
  | fuel + 1, P, vis, n :: rest =>
    match mergeRec v fuel P vis n with
    | none => none
    | some (P', vis') => mergeKids v fuel P' vis' rest
end

/-- enough fuel for the DFS: every call consumes one unit; a call chain is bounded by the
    number of blocks plus the number of edges -/
def mergeFuel (P : Prog) : Nat :=
  4 * (P.blocks.length + (P.blocks.map (fun b => b.succ.length)).sum) + 8

/-- `merge_blocks()` -/
def mergeBlocks (v : Variant) (P : Prog) : Option Prog :=
  (mergeRec v (mergeFuel P) P [] P.entry).map (·.1)

/-- labels reachable from `start` along `next` (`mark_alive_blocks`) -/
def reachFrom (next : Label → List Label) : Nat → List Label → List Label → List Label
  | 0, _, seen => seen
  | _, [], seen => seen
  | fuel + 1, l :: work, seen =>
    if seen.contains l then reachFrom next fuel work seen
    else reachFrom next fuel (next l ++ work) (l :: seen)

def Prog.reachable (P : Prog) : List Label :=
  reachFrom P.succsOf ((P.blocks.length + 1) * (P.blocks.length + 1) + 1) [P.entry] []

/-- blocks from which the exit can be reached (`mark_alive_blocks` on `cfg_rev`) -/
def Prog.coReachable (P : Prog) (x : Label) : List Label :=
  reachFrom P.predsOf ((P.blocks.length + 1) * (P.blocks.length + 1) + 1) [x] []

def removeMany : Prog → List Label → Option Prog
  | P, [] => some P
  | P, l :: rest =>
    match P.remove l with
    | none => none
    | some P' => removeMany P' rest

/-- `remove_unreachable_blocks()`: an unreachable exit block is kept -/
def removeUnreachable (P : Prog) : Option Prog :=
  let alive := P.reachable
  removeMany P (P.labels.filter (fun l => !alive.contains l && P.exit != some l))

/-- `remove_useless_blocks()`: the entry is kept even if it cannot reach the exit -/
def removeUseless (P : Prog) : Option Prog :=
  match P.exit with
  | none => some P
  | some x =>
    let useful := P.coReachable x
    removeMany P (P.labels.filter (fun l => !useful.contains l && l != P.entry))

/-- `cfg::simplify()` -/
def simplify (v : Variant) (P : Prog) : Option Prog :=
  match mergeBlocks v P with
  | none => none
  | some P1 =>
    match removeUnreachable P1 with
    | none => none
    | some P2 =>
      match removeUseless P2 with
      | none => none
      | some P3 => mergeBlocks v P3

end TIR
end Crab
