/-
  A small self-contained program representation for the CFG transformations (C17) and the
  liveness analysis (C18): integer variables, the statement kinds `assign` (linear), `bin`
  (add sub mul sdiv), `havoc`, `assume`, `assert`, `select`, `unreachable`; blocks with
  successor and predecessor lists in the order the C++ `basic_block` keeps them
  (`m_next`, `m_prev`); an entry, an optional exit, an optional function declaration
  (inputs, outputs).

  Concrete semantics (DESIGN.md §2.3 restricted to these statements):
    * states are total maps `Var → Int`; every variable has a value at the entry;
    * `sdiv` truncates; division by zero has no successor state (outcome `divzero`);
    * `assume c` emits the event `(assume, c, outcome)`; a false assume blocks the execution;
    * `assert c` emits `(assert, c, outcome)`; a false assert ends the execution (`failed`);
    * `select`, `assign`, `bin`, `havoc` emit nothing; `unreachable` blocks;
    * an execution ENDS when it completes the statements of the exit block (outcome
      `exit` with the values of the function outputs); at the end of any other block it
      continues with an arbitrary successor (`blocked` if there is none).
  `Exec` is the (non-deterministic) big-step relation the theorems talk about; `run` is the
  executable version with explicit choices (`Oracle`), proved sound w.r.t. `Exec` in
  `CrabProofs/Lemmas/TIRSem.lean`.
-/
namespace Crab
namespace TIR

abbrev Var := Nat
abbrev Label := Nat
abbrev State := Var → Int

def State.set (σ : State) (x : Var) (v : Int) : State := fun y => if y = x then v else σ y

structure Lin where
  c : Int
  ts : List (Int × Var)
  deriving DecidableEq, Repr, Inhabited

inductive CKind | le | lt | eq | ne
  deriving DecidableEq, Repr, Inhabited

structure Cst where
  k : CKind
  e : Lin
  deriving DecidableEq, Repr, Inhabited

inductive BinOp | add | sub | mul | sdiv
  deriving DecidableEq, Repr, Inhabited

inductive Opd
  | var (v : Var)
  | const (c : Int)
  deriving DecidableEq, Repr, Inhabited

inductive Stmt
  | assign (x : Var) (e : Lin)
  | bin (op : BinOp) (x : Var) (a b : Opd)
  | havoc (x : Var)
  | assume (c : Cst)
  | assert (c : Cst)
  | select (x : Var) (c : Cst) (e1 e2 : Lin)
  | unreachable
  deriving DecidableEq, Repr, Inhabited

structure Block where
  label : Label
  stmts : List Stmt
  succ : List Label
  pred : List Label
  deriving DecidableEq, Repr, Inhabited

structure Prog where
  nvars : Nat
  entry : Label
  exit : Option Label
  hasFd : Bool
  ins : List Var
  outs : List Var
  blocks : List Block
  deriving DecidableEq, Repr, Inhabited

/-! ### expressions -/

def evalTerms : List (Int × Var) → State → Int
  | [], _ => 0
  | (k, x) :: r, σ => k * σ x + evalTerms r σ

def Lin.eval (e : Lin) (σ : State) : Int := e.c + evalTerms e.ts σ

def Lin.vars (e : Lin) : List Var := e.ts.map (·.2)

def Cst.holds (c : Cst) (σ : State) : Bool :=
  let v := c.e.eval σ
  match c.k with
  | .le => decide (v ≤ 0)
  | .lt => decide (v < 0)
  | .eq => decide (v = 0)
  | .ne => decide (v ≠ 0)

def Cst.vars (c : Cst) : List Var := c.e.vars

def Opd.eval : Opd → State → Int
  | .var v, σ => σ v
  | .const c, _ => c

def Opd.vars : Opd → List Var
  | .var v => [v]
  | .const _ => []

/-- `none` = division by zero -/
def BinOp.eval : BinOp → Int → Int → Option Int
  | .add, a, b => some (a + b)
  | .sub, a, b => some (a - b)
  | .mul, a, b => some (a * b)
  | .sdiv, a, b => if b = 0 then none else some (Int.tdiv a b)

/-! ### uses / defs  (`live` of each statement class in cfg.hpp) -/

def Stmt.uses : Stmt → List Var
  | .assign _ e => e.vars
  | .bin _ _ a b => a.vars ++ b.vars
  | .havoc _ => []
  | .assume c => c.vars
  | .assert c => c.vars
  | .select _ c e1 e2 => c.vars ++ e1.vars ++ e2.vars
  | .unreachable => []

def Stmt.defs : Stmt → List Var
  | .assign x _ => [x]
  | .bin _ x _ _ => [x]
  | .havoc x => [x]
  | .assume _ => []
  | .assert _ => []
  | .select x _ _ _ => [x]
  | .unreachable => []

def Stmt.isUnreachable : Stmt → Bool
  | .unreachable => true
  | _ => false

/-! ### observable behaviour -/

structure Event where
  isAssert : Bool
  c : Cst
  ok : Bool
  deriving DecidableEq, Repr, Inhabited

inductive Outcome
  | exit (outs : List Int)   -- completed the exit block; values of the function outputs
  | blocked                  -- false assume, `unreachable`, or no successor
  | failed                   -- false assert
  | divzero                  -- division by zero (no successor state)
  deriving DecidableEq, Repr, Inhabited

/-- result of one statement; `hv` is the value chosen if the statement is a `havoc` -/
inductive StepRes
  | cont (σ : State) (ev : Option Event)
  | stop (ev : Option Event) (o : Outcome)

def stepStmt (s : Stmt) (σ : State) (hv : Int) : StepRes :=
  match s with
  | .assign x e => .cont (σ.set x (e.eval σ)) none
  | .bin op x a b =>
    match op.eval (a.eval σ) (b.eval σ) with
    | some v => .cont (σ.set x v) none
    | none => .stop none .divzero
  | .havoc x => .cont (σ.set x hv) none
  | .assume c =>
    if c.holds σ then .cont σ (some ⟨false, c, true⟩) else .stop (some ⟨false, c, false⟩) .blocked
  | .assert c =>
    if c.holds σ then .cont σ (some ⟨true, c, true⟩) else .stop (some ⟨true, c, false⟩) .failed
  | .select x c e1 e2 => .cont (σ.set x (if c.holds σ then e1.eval σ else e2.eval σ)) none
  | .unreachable => .stop none .blocked

def evs : Option Event → List Event
  | none => []
  | some e => [e]

/-! ### program lookups -/

def Prog.block? (P : Prog) (l : Label) : Option Block := P.blocks.find? (fun b => b.label == l)

def Prog.stmtsOf (P : Prog) (l : Label) : List Stmt :=
  match P.block? l with
  | some b => b.stmts
  | none => []

def Prog.succsOf (P : Prog) (l : Label) : List Label :=
  match P.block? l with
  | some b => b.succ
  | none => []

def Prog.predsOf (P : Prog) (l : Label) : List Label :=
  match P.block? l with
  | some b => b.pred
  | none => []

def Prog.labels (P : Prog) : List Label := P.blocks.map (·.label)

def Prog.isExit (P : Prog) (l : Label) : Bool := P.exit == some l

/-- the observable outputs: the outputs of the function declaration, if there is one
    (`liveness_analysis_operations::entry()` makes exactly these live at the exit) -/
def Prog.outputs (P : Prog) : List Var := if P.hasFd then P.outs else []

/-- big-step executions from a configuration (remaining statements of block `l`, state):
    `Exec P stmts l σ t o` = some execution emits exactly the events `t` and ends with `o` -/
inductive Exec (P : Prog) : List Stmt → Label → State → List Event → Outcome → Prop
  | exit {l σ} : P.isExit l = true → Exec P [] l σ [] (.exit (P.outputs.map σ))
  | goto {l l' σ t o} : P.isExit l = false → l' ∈ P.succsOf l →
      Exec P (P.stmtsOf l') l' σ t o → Exec P [] l σ t o
  | stuck {l σ} : P.isExit l = false → P.succsOf l = [] → Exec P [] l σ [] .blocked
  | cont {s rest l σ σ' ev t o} (hv : Int) : stepStmt s σ hv = .cont σ' ev →
      Exec P rest l σ' t o → Exec P (s :: rest) l σ (evs ev ++ t) o
  | stop {s rest l σ ev o} (hv : Int) : stepStmt s σ hv = .stop ev o →
      Exec P (s :: rest) l σ (evs ev) o

/-- behaviours from the entry block with the input state `σ` -/
def Beh (P : Prog) (σ : State) (t : List Event) (o : Outcome) : Prop :=
  Exec P (P.stmtsOf P.entry) P.entry σ t o

/-- the exit-reaching behaviours (what C17 is about) -/
def ExitBeh (P : Prog) (σ : State) (t : List Event) (outs : List Int) : Prop :=
  Beh P σ t (.exit outs)

/-! ### executable semantics with explicit choices -/

/-- bookkeeping an oracle may look at: number of events emitted so far, of havocs executed, of
    blocks entered, and how often each label has been entered -/
structure Clk where
  ev : Nat := 0
  hav : Nat := 0
  blk : Nat := 0
  visits : List (Label × Nat) := []

def Clk.visitsOf (k : Clk) (l : Label) : Nat :=
  match k.visits.find? (fun p => p.1 == l) with
  | some p => p.2
  | none => 0

def Clk.enter (k : Clk) (l : Label) : Clk :=
  { k with blk := k.blk + 1,
           visits := (l, k.visitsOf l + 1) :: k.visits.filter (fun p => p.1 != l) }

structure Oracle where
  hv : Clk → Var → Int
  /-- choice of the successor among a non-empty list (an answer outside the list aborts the run) -/
  pick : Clk → Label → List Label → Label

inductive Res
  | done (t : List Event) (o : Outcome)
  | atEnd (t : List Event) (l : Label) (σ : State) (k : Clk)  -- halted at the end of a block on request
  | fuel (t : List Event)

def Res.prepend (e : Option Event) : Res → Res
  | .done t o => .done (evs e ++ t) o
  | .atEnd t l σ k => .atEnd (evs e ++ t) l σ k
  | .fuel t => .fuel (evs e ++ t)

def Stmt.havocVar : Stmt → Option Var
  | .havoc x => some x
  | _ => none

/-- run with fuel; `halt k l σ` asks to stop when the end of block `l` is reached at clock `k`
    in state `σ` -/
def run (P : Prog) (O : Oracle) (halt : Clk → Label → State → Bool) :
    Nat → Clk → List Stmt → Label → State → Res
  | 0, _, _, _, _ => .fuel []
  | n + 1, k, [], l, σ =>
    if halt k l σ then .atEnd [] l σ k
    else if P.isExit l then .done [] (.exit (P.outputs.map σ))
    else
      match P.succsOf l with
      | [] => .done [] .blocked
      | ss =>
        let l' := O.pick k l ss
        if ss.contains l' then run P O halt n (k.enter l') (P.stmtsOf l') l' σ
        else .fuel []   -- an oracle answer outside the list is not an execution
  | n + 1, k, s :: rest, l, σ =>
    let hv := match s.havocVar with
      | some x => O.hv k x
      | none => 0
    let k1 : Clk := match s.havocVar with
      | some _ => { k with hav := k.hav + 1 }
      | none => k
    match stepStmt s σ hv with
    | .cont σ' ev =>
      let k2 : Clk := match ev with
        | some _ => { k1 with ev := k1.ev + 1 }
        | none => k1
      (run P O halt n k2 rest l σ').prepend ev
    | .stop ev o => .done (evs ev) o

/-! ### well-formedness of a CFG (what `>>`, `-=` and `remove` maintain) -/

def nodupB : List Nat → Bool
  | [] => true
  | x :: r => !r.contains x && nodupB r

/-- labels pairwise distinct, entry (and exit) present, every edge recorded on both sides,
    no dangling label, no duplicate in an adjacency list -/
def Prog.wf (P : Prog) : Bool :=
  nodupB P.labels &&
  P.labels.contains P.entry &&
  (match P.exit with | some x => P.labels.contains x | none => true) &&
  P.blocks.all (fun b =>
    nodupB b.succ && nodupB b.pred &&
    b.succ.all (fun l => (P.predsOf l).contains b.label && P.labels.contains l) &&
    b.pred.all (fun l => (P.succsOf l).contains b.label && P.labels.contains l))

/-- executions end when they complete the exit block, which therefore is not supposed to have
    successors (precondition of the behaviour-preservation statements of `simplify`) -/
def Prog.exitNoSucc (P : Prog) : Bool :=
  match P.exit with
  | some x => (P.succsOf x).isEmpty
  | none => true

end TIR
end Crab
