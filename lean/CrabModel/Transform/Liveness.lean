import CrabModel.Transform.Simplify

/-!
  Liveness.

  * The CODE: `liveness_analysis_operations` (include/crab/analysis/dataflow/liveness.hpp) run by
    `killgen_fixpoint_iterator::run_bwd_fixpo` (include/crab/fixpoint/killgen_fixpoint_iterator.hpp):
      - `init_fixpoint`: per block kill/gen by a reverse scan that restarts at an `unreachable`
        statement; `analyze` of a block containing `unreachable` answers the gen set of the
        statements in front of it (= `specIn`).  (`Variant.unreachGen = false`: before d9754d9
        such a block had no entry in the map and `analyze` answered the empty set);
      - `run_bwd_fixpo`: round-robin over `order = weak_rev_topo_sort(cfg)` (an INPUT of the
        model: it depends on `unordered_map` iteration order), `out(n) = (n is the exit ?
        entry() : {}) ∪ ⋃ in(succ)`; without an exit block the seed goes to `order[0]`.
        (`Variant.seedAtExit = false`: before 2ccd3fb always to `order[0]`);
      - `liveness_analysis::get(l)` = the OUT set (live at the end of `l`);
      - `live_and_dead_analysis::dead_exit(l)` = `(uses ∪ defs of l) \ get(l)`, empty when
        `get(l)` is empty.
  * The SPECIFICATION: `LiveAt P stmts l x` — some path from the configuration reads `x` before
    writing it (a use in front of an `unreachable` counts, nothing after it does; the function
    outputs are read at the end of the exit block, where executions end), and its executable
    least-fixpoint version `specLive`.
-/
namespace Crab
namespace TIR

abbrev VarSet := List Var

def VarSet.union (a b : VarSet) : VarSet := a ++ b
def VarSet.diff (a b : VarSet) : VarSet := a.filter (fun x => !b.contains x)
def VarSet.subset (a b : VarSet) : Bool := a.all (fun x => b.contains x)

/-! ### the code -/

/-- kill/gen of `init_fixpoint`'s reverse scan; `none` = the block contains `unreachable` -/
def killGen : List Stmt → Option (VarSet × VarSet)
  | [] => some ([], [])
  | s :: rest =>
    match killGen rest with
    | none => none
    | some (kill, gen) =>
      if s.isUnreachable then none
      else some (kill ++ s.defs, (VarSet.diff gen s.defs) ++ s.uses)

/-- live-before of a statement list given the set live after it, `unreachable` read
    precisely: nothing is live in front of it -/
def specIn : List Stmt → VarSet → VarSet
  | [], out => out
  | s :: rest, out =>
    if s.isUnreachable then []
    else (VarSet.diff (specIn rest out) s.defs) ++ s.uses

/-- `analyze(bb, out)` -/
def blockIn (v : Variant) (stmts : List Stmt) (out : VarSet) : VarSet :=
  if v.unreachGen then specIn stmts out
  else
    match killGen stmts with
    | some (kill, gen) => (VarSet.diff out kill) ++ gen
    | none => []

/-- `entry()`: the function outputs -/
def Prog.liveAtExit (P : Prog) : VarSet := P.outputs

/-- the block that receives the seed -/
def seedLabel (v : Variant) (P : Prog) (order : List Label) : Option Label :=
  match v.seedAtExit, P.exit with
  | true, some x => some x
  | _, _ => order.head?

abbrev LiveMap := Label → VarSet

def LiveMap.set (m : LiveMap) (l : Label) (s : VarSet) : LiveMap := fun l' => if l' = l then s else m l'

/-- the `out` computed in the loop body of `run_bwd_fixpo` -/
def outOf (P : Prog) (seed : Option Label) (inM : LiveMap) (n : Label) : VarSet :=
  (if seed = some n then P.liveAtExit else []) ++ (P.succsOf n).flatMap inM

/-- one round over `order` (in place, as the code) -/
def bwdPass (v : Variant) (P : Prog) (seed : Option Label) : List Label → LiveMap → Bool → LiveMap × Bool
  | [], m, ch => (m, ch)
  | n :: rest, m, ch =>
    let i := blockIn v (P.stmtsOf n) (outOf P seed m n)
    if VarSet.subset i (m n) then bwdPass v P seed rest m ch
    else bwdPass v P seed rest (m.set n (i ++ m n)) true

def bwdIter (v : Variant) (P : Prog) (seed : Option Label) (order : List Label) : Nat → LiveMap → Option LiveMap
  | 0, _ => none
  | fuel + 1, m =>
    match bwdPass v P seed order m false with
    | (m', true) => bwdIter v P seed order fuel m'
    | (m', false) => some m'

/-- `liveness_analysis::exec()` then `get`: the live-OUT map (labels outside `order` get the
    empty set: `get` answers bottom for a label absent from `m_out_map`) -/
def codedLiveOut (v : Variant) (P : Prog) (order : List Label) : Option LiveMap :=
  let seed := seedLabel v P order
  match bwdIter v P seed order ((P.blocks.length + 1) * (P.nvars + 2) + 2) (fun _ => []) with
  | none => none
  | some inM => some (fun l => if order.contains l then outOf P seed inM l else [])

/-- uses ∪ defs of a block (`basic_block::live()`) -/
def blockVars (stmts : List Stmt) : VarSet := stmts.flatMap (fun s => s.uses ++ s.defs)

/-- `live_and_dead_analysis::dead_exit` -/
def codedDeadExit (P : Prog) (out : LiveMap) (l : Label) : VarSet :=
  if (out l).isEmpty then [] else VarSet.diff (blockVars (P.stmtsOf l)) (out l)

/-! ### the specification -/

/-- `x` is live at the configuration (remaining statements of block `l`) -/
inductive LiveAt (P : Prog) : List Stmt → Label → Var → Prop
  | here {s rest l x} : x ∈ s.uses → LiveAt P (s :: rest) l x
  | later {s rest l x} : s.isUnreachable = false → x ∉ s.defs → LiveAt P rest l x →
      LiveAt P (s :: rest) l x
  | goto {l l' x} : P.isExit l = false → l' ∈ P.succsOf l → LiveAt P (P.stmtsOf l') l' x →
      LiveAt P [] l x
  | out {l x} : P.isExit l = true → x ∈ P.liveAtExit → LiveAt P [] l x

/-- live at the end of the block, given the live-in sets of all blocks -/
def specOutOf (P : Prog) (inM : LiveMap) (n : Label) : VarSet :=
  if P.isExit n then P.liveAtExit else (P.succsOf n).flatMap inM

/-- one Jacobi round of the specification equations -/
def specRound (P : Prog) (inM : LiveMap) : LiveMap :=
  fun l => if P.labels.contains l then specIn (P.stmtsOf l) (specOutOf P inM l) else []

def specStable (P : Prog) (inM : LiveMap) : Bool :=
  P.labels.all (fun l => VarSet.subset (specRound P inM l) (inM l))

def specIter (P : Prog) : Nat → LiveMap → Option LiveMap
  | 0, _ => none
  | fuel + 1, m =>
    if specStable P m then some m
    else specIter P fuel (fun l => specRound P m l ++ m l)

/-- executable specification liveness: live-OUT sets of the least solution -/
def specLiveOut (P : Prog) : Option LiveMap :=
  match specIter P ((P.blocks.length + 1) * (P.nvars + 2) + 2) (fun _ => []) with
  | none => none
  | some inM => some (specOutOf P inM)

/-- a live-OUT map is a (post-)solution of the specification equations: this is what any
    sound liveness has to satisfy, and it is decidable -/
def isSpecSol (P : Prog) (out : LiveMap) : Bool :=
  P.labels.all (fun l =>
    if P.isExit l then VarSet.subset P.liveAtExit (out l)
    else (P.succsOf l).all (fun l' => VarSet.subset (specIn (P.stmtsOf l') (out l')) (out l)))

end TIR
end Crab
