import CrabModel.Transform.Liveness

/-!
  `dead_code_elimination::run` (include/crab/transforms/dce.hpp) and
  `lower_safe_assertions::run` (include/crab/transforms/lower_safe_assertions.hpp).

  DCE: up to `max_iterations = 10` rounds of { liveness; per block a reverse scan starting from
  `live.get(label)` that marks a statement dead when it is not kept conservatively (asserts
  are kept) and some variable it defines is not in the current live set
  (`!included_defs(defs, out_live)`); `out_live = (out_live \ defs) ∪ uses` } while something
  was removed.
-/
namespace Crab
namespace TIR

/-- `keep_conservatively` restricted to the statement kinds of this IR -/
def Stmt.keepConservatively : Stmt → Bool
  | .assert _ => true
  | _ => false

/-- `included_defs(live, vars)` -/
def includedDefs (s : Stmt) (live : VarSet) : Bool := s.defs.all (fun d => live.contains d)

/-- the statement is deleted when `live` is the live set after it -/
def Stmt.isDeadFor (s : Stmt) (live : VarSet) : Bool := !s.keepConservatively && !includedDefs s live

/-- reverse scan of one block: (statements kept, live set in front of the block) -/
def dceScan : List Stmt → VarSet → List Stmt × VarSet
  | [], out => ([], out)
  | s :: rest, out =>
    let r := dceScan rest out
    let live' := (VarSet.diff r.2 s.defs) ++ s.uses
    if s.isDeadFor r.2 then (r.1, live') else (s :: r.1, live')

/-- one round of the `do … while` body with the live-out map `L` -/
def dceRound (P : Prog) (L : LiveMap) : Prog :=
  { P with blocks := P.blocks.map (fun b => { b with stmts := (dceScan b.stmts (L b.label)).1 }) }

def Prog.numStmts (P : Prog) : Nat := (P.blocks.map (fun b => b.stmts.length)).sum

/-- `run(cfg)`; `none` only if the liveness model runs out of fuel -/
def dce (v : Variant) (order : List Label) : Nat → Prog → Option Prog
  | 0, P => some P
  | n + 1, P =>
    match codedLiveOut v P order with
    | none => none
    | some L =>
      let P' := dceRound P L
      if P'.numStmts != P.numStmts then dce v order n P' else some P'

def dceMaxIterations : Nat := 10

/-- `lower_safe_assertions::run`: the assertions at the given (block, index) positions
    become assumes -/
def lowerBlock (safe : List Nat) : List Stmt → Nat → List Stmt
  | [], _ => []
  | s :: rest, i =>
    (match s with
     | .assert c => if safe.contains i then Stmt.assume c else s
     | _ => s) :: lowerBlock safe rest (i + 1)

def lower (P : Prog) (safe : List (Label × Nat)) : Prog :=
  { P with blocks := P.blocks.map (fun b =>
      { b with stmts := lowerBlock ((safe.filter (fun p => p.1 == b.label)).map (·.2)) b.stmts 0 }) }

/-- traces up to the kind of the events (an assertion that was lowered emits an `assume` event) -/
def eraseKinds (t : List Event) : List Event := t.map (fun e => { e with isAssert := false })

end TIR
end Crab
