import CrabModel.Transform.Crawler

/-!
  The control-dependence graph as the REPAIRED code computes it (property C18, control part).

  * The CODE: `graph_algo::control_dep_graph` (include/crab/analysis/graphs/cdg.hpp) =
      1. `post_dominance(g, pdf)` (include/crab/analysis/graphs/dominance.hpp): nothing without
         an exit block; otherwise on the reversed CFG, rooted at the exit,
           - `dominator_tree`: Boost's `lengauer_tarjan_dominator_tree`.  THIRD-PARTY CODE, modelled
             by its specification: `idom[n]` = the immediate post-dominator of `n`, the null vertex
             for the exit block and for every block from which the exit is unreachable
             (`Prog.ipdom`; post-dominance itself is decided by its definition -- "no path from `n`
             to the exit avoids `y`" -- with the worklist `reachFrom`);
           - `graph_algo_impl::dominance` (Cooper/Harvey/Kennedy, after fix d60f473): for every
             block `n` and every in-edge of the reversed graph (= CFG successor `s` of `n`) the
             runner climbs the tree from `s` while `runner != null && runner != idom[n]` and `n`
             is put into `df[runner]` (`pdfWalk`);
         `cdg[v] ∋ k` for every `v ∈ pdf[k]`: the blocks on the walk are control dependent on `n`
         (`Prog.cdgPdf`);
      2. (fix e25485d) a block with at least two successors one of which cannot reach the exit
         (every successor when there is no exit block): every block reachable from its successors
         is control dependent on it (`Prog.cdgEscape`, Crawler.lean).
    `Prog.cdgModel` is the union.  The driver compares it (as a set of pairs) with the graph the
    implementation computes, on every generated program.
  * `isCtrlSol`: the decidable inequations of the control part (besides `isDataSol`) that an answer
    of the crawler has to satisfy -- existence of an entry is propagated backwards, and the
    variables of the leading `assume`s of a block are listed for every assertion that has an
    entry there, whenever `add_control_deps` fires for the edge into the block.
-/
namespace Crab
namespace TIR

/-! ### post-dominance by its definition -/

/-- the successors of `l` other than `y` -/
def succsAvoid (P : Prog) (y : Label) (l : Label) : List Label := (P.succsOf l).filter (fun s => s != y)

def Prog.reachFuel (P : Prog) : Nat := (P.blocks.length + 1) * (P.blocks.length + 1) + 1

/-- some path from `n` to `x` does not contain `y` -/
def Prog.avoidB (P : Prog) (x y n : Label) : Bool :=
  n != y && (reachFrom (succsAvoid P y) P.reachFuel [n] []).contains x

/-- `y` post-dominates `n`: every path from `n` to the exit `x` contains `y` -/
def Prog.pdomB (P : Prog) (x y n : Label) : Bool := !P.avoidB x y n

/-- the strict post-dominators of `n` among the blocks -/
def Prog.spdoms (P : Prog) (x n : Label) : List Label :=
  P.labels.filter (fun y => y != n && P.pdomB x y n)

/-- `idom[n]` on the reversed CFG (specification of the result of Boost's
    `lengauer_tarjan_dominator_tree`): the strict post-dominator of `n` that all strict
    post-dominators of `n` post-dominate; null for the root and for the blocks the root does not
    reach (`co` = the blocks from which the exit is reachable) -/
def Prog.ipdom (P : Prog) (x : Label) (co : List Label) (n : Label) : Option Label :=
  if n == x || !co.contains n then none
  else (P.spdoms x n).find? (fun p => (P.spdoms x n).all (fun y => P.pdomB x y p))

/-- the same through a table (one evaluation per block) -/
def Prog.ipdomTab (P : Prog) (x : Label) (co : List Label) : List (Label × Option Label) :=
  P.labels.map (fun n => (n, P.ipdom x co n))

def tabFn (tab : List (Label × Option Label)) (n : Label) : Option Label := (tab.lookup n).getD none

/-- the walk of `graph_algo_impl::dominance`: `runner := s; while (runner != null && runner !=
    idom[n]) { df[runner] += n; runner := idom[runner] }`; `stop` = `idom[n]` -/
def pdfWalk (ipd : Label → Option Label) (stop : Option Label) : Nat → Option Label → List Label
  | 0, _ => []
  | _, none => []
  | f + 1, some r => if stop == some r then [] else r :: pdfWalk ipd stop f (ipd r)

/-- the blocks that the post-dominance frontiers make control dependent on `n` -/
def pdfKids (P : Prog) (ipd : Label → Option Label) (n : Label) : List Label :=
  ((P.succsOf n).flatMap (fun s => pdfWalk ipd (ipd n) (P.blocks.length + 1) (some s))).eraseDups

/-- part 1 of `control_dep_graph` -/
def Prog.cdgPdf (P : Prog) : Cdg :=
  match P.exit with
  | none => []
  | some x =>
    let ipd := tabFn (P.ipdomTab x (P.coReachable x))
    P.labels.filterMap (fun n =>
      let ys := pdfKids P ipd n
      if ys.isEmpty then none else some (n, ys))

/-- `graph_algo::control_dep_graph` of the repaired code -/
def Prog.cdgModel (P : Prog) : Cdg := P.cdgPdf.merge P.cdgEscape

/-- the blocks control dependent on `d` -/
def Cdg.kids (g : Cdg) (d : Label) : List Label := (g.lookup d).getD []

/-- `g` contains every pair of `h` -/
def Cdg.covers (g h : Cdg) : Bool := h.all (fun p => p.2.all (fun c => (g.kids p.1).contains c))

/-- the same pairs -/
def Cdg.sameAs (g h : Cdg) : Bool := g.covers h && h.covers g


/-! ### what the crawler needs from the control-dependence graph -/

def Prog.coExit (P : Prog) : List Label :=
  match P.exit with
  | some x => P.coReachable x
  | none => []

/-- `s` post-dominates every successor of `d` -/
def Prog.joinB (P : Prog) (d s : Label) : Bool :=
  match P.exit with
  | some x => (P.succsOf d).all (fun t => P.pdomB x s t)
  | none => false

/-- the blocks reachable from the successors of `d` without entering `s` -/
def Prog.region (P : Prog) (d s : Label) : List Label :=
  reachFrom (succsAvoid P s) P.reachFuel ((P.succsOf d).filter (fun t => t != s)) []

/-- decidable condition on a control-dependence graph `g` that the soundness proof of the
    crawler uses (the model of the repaired cdg.hpp satisfies it, and so does every graph that
    contains it); for every block `d` with at least two successors
      escape: if a successor of `d` cannot reach the exit, every block reachable from the
              successors of `d` is control dependent on `d`;
      join  : a successor `s` of `d` that is not control dependent on `d` is the point where the
              branches of `d` meet again: all successors of `d` reach the exit, `s` post-dominates
              them, and every block of the region between `d` and `s` that reaches the exit is
              reachable in `g` from the blocks control dependent on `d` -/
def isCdgOK (P : Prog) (g : Cdg) : Bool :=
  P.labels.all (fun d =>
    decide ((P.succsOf d).length < 2) ||
    ((!(P.succsOf d).any (fun s => !P.coExit.contains s) ||
        (reachFrom P.succsOf P.reachFuel (P.succsOf d) []).all (fun u => (g.kids d).contains u)) &&
     (P.succsOf d).all (fun s => (g.kids d).contains s ||
        ((P.succsOf d).all (fun t => P.coExit.contains t) && P.joinB d s &&
         (P.region d s).all (fun u => !P.coExit.contains u || g.reaches (g.kids d) u)))))

/-! ### the inequations of the control part -/

def noUnreach (ss : List Stmt) : Bool := ss.all (fun s => !s.isUnreachable)

/-- the variables of the leading `assume`s of block `l` (what `guardOk` looks at) -/
def guardVars (P : Prog) (l : Label) : VarSet :=
  ((P.stmtsOf l).takeWhile (fun s => s.assumeCst.isSome)).flatMap (fun s =>
    match s.assumeCst with
    | some c => c.vars
    | none => [])

/-- does `add_control_deps` (repaired) fire for assertion `a` at an `assume` of block `l` because
    of the predecessor `d` -/
def ctrlCond (g : Cdg) (d l : Label) (a : AId) : Bool :=
  match g.lookup d with
  | some K => K.contains l || g.reaches K a.1
  | none => false

/-- `F` (facts at block entries) solves the inequations of the control part:
      has-gen : assertion `(l, k)` has an entry at the entry of `l` unless an `unreachable`
                precedes it in `l`;
      has-flow: for every edge `l → l'`, an assertion with an entry at `l'` has one at `l` unless
                `l` contains `unreachable`;
      ctrl    : for every edge `d → l` and assertion `a` with an entry at `l` for which
                `add_control_deps` fires, the variables of the leading `assume`s of `l` are in `F l a` -/
def isCtrlSol (P : Prog) (g : Cdg) (F : Label → Facts) : Bool :=
  P.asserts.all (fun ac => !noUnreach ((P.stmtsOf ac.1.1).take ac.1.2) || (F ac.1.1).has ac.1) &&
  P.labels.all (fun l => !noUnreach (P.stmtsOf l) ||
    (P.succsOf l).all (fun l' => P.asserts.all (fun ac => !(F l').has ac.1 || (F l).has ac.1))) &&
  P.labels.all (fun l => (P.predsOf l).all (fun d => P.asserts.all (fun ac =>
    !((F l).has ac.1 && ctrlCond g d l ac.1) || VarSet.subset (guardVars P l) ((F l).get ac.1))))

end TIR
end Crab
