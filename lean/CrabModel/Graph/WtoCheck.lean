import CrabModel.Graph.Wto

/-
  Executable checker for the well-formedness of a weak topological ordering (property C07).
  `checkWto g e w tbl` is evaluated by the driver on the ordering and nesting table printed by
  the real `ikos::wto`; `CrabProofs/Props/C07.lean` proves it sound (and complete) w.r.t. the
  declarative predicate `WtoWF`.
-/
namespace Crab
namespace Wto

mutual
/-- nodes of a component, in the order of the ordering (head first) -/
def flattenC : WtoC → List Nat
  | .vertex v => [v]
  | .cycle h body => h :: flattenL body
def flattenL : List WtoC → List Nat
  | [] => []
  | c :: cs => flattenC c ++ flattenL cs
end

mutual
/-- is there (at any depth) a cycle with head `h` that contains `u` (the head belongs to its cycle) -/
def headContainsC (h u : Nat) : WtoC → Bool
  | .vertex _ => false
  | .cycle h' body => (h' == h && (h :: flattenL body).contains u) || headContainsL h u body
def headContainsL (h u : Nat) : List WtoC → Bool
  | [] => false
  | c :: cs => headContainsC h u c || headContainsL h u cs
end

/-- append the elements of `l` that are not yet in `S` -/
def addNew : List Nat → List Nat → List Nat
  | S, [] => S
  | S, v :: l => if S.contains v then addNew S l else addNew (S ++ [v]) l

/-- breadth-first closure of `S` under `succ`, at most `k` rounds, stops when nothing is added -/
def reachIter (g : Graph) : Nat → List Nat → List Nat
  | 0, S => S
  | k + 1, S =>
    let S' := addNew S (S.flatMap g.succ)
    if S'.length = S.length then S else reachIter g k S'

/-- the nodes reachable from `e` (`g.n` rounds are enough when `g.WF` and `e < g.n`) -/
def reachList (g : Graph) (e : Nat) : List Nat := reachIter g g.n [e]

/-- (a) the ordering lists exactly the nodes reachable from the entry, each once -/
def checkNodes (g : Graph) (e : Nat) (fl : List Nat) : Bool :=
  let r := reachList g e
  fl.contains e && fl.all (fun u => (g.succ u).all (fun v => fl.contains v)) &&
  fl.all (fun u => r.contains u) && decide fl.Nodup

/-- (b) one edge: forward in the ordering, or into the head of a cycle containing the source -/
def checkEdge (w : List WtoC) (fl : List Nat) (u v : Nat) : Bool :=
  decide (fl.idxOf u < fl.idxOf v) || headContainsL v u w

def checkEdges (g : Graph) (w : List WtoC) (fl : List Nat) : Bool :=
  fl.all (fun u => (g.succ u).all (fun v => checkEdge w fl u v))

/-- (c) the reported nesting table: defined exactly on the nodes of the ordering, and equal to
    the nesting computed from the term -/
def checkNest (w : List WtoC) (fl : List Nat) (tbl : List (Nat × List Nat)) : Bool :=
  fl.all (fun v => tbl.lookup v == nesting w v) && tbl.all (fun p => fl.contains p.1)

def checkWto (g : Graph) (e : Nat) (w : List WtoC) (tbl : List (Nat × List Nat)) : Bool :=
  let fl := flattenL w
  checkNodes g e fl && checkEdges g w fl && checkNest w fl tbl

end Wto
end Crab
