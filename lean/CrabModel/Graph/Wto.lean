/-
  Model of `ikos::wto<G>` (include/crab/fixpoint/wto.hpp): construction of a weak topological
  ordering by the ITERATIVE version of Bourdoncle's algorithm (the one compiled: RECURSIVE_WTO is
  not defined), and of the nesting table (`nesting_builder`, `wto::nesting`).

  Graphs: nodes `0 .. n-1`, `succ u` = the out edges of `u` in the order in which the C++
  enumerates them (`out_edges(u, g)`: for a CFG the order of `basic_block::next_blocks()`,
  i.e. insertion order without duplicates; for a call graph the order of the BGL `setS`
  out-edge container).  That order matters: it is the DFS order.

  C++ state of the builder:
    `_dfn_table` : unordered_map node -> bound<z_number>, absent = 0 (`get_dfn`), 0 = not
                   visited, +oo = already placed in the partition          -> `St.dfn`
    `_num`       : last DFS number given                                     -> `St.num`
    `_stack`     : vector of nodes (back = top)                              -> `St.stack` (head = top)
  and per call of `visit`: `visit_stack` (frames: node, remaining successors, `_min`) and the
  set `loop_nodes`.  `component` and `visit` call each other recursively; the model keeps that
  recursion (structural on a fuel argument that is handed down unchanged to every callee, so
  it bounds the *depth* of the call chain, `Wto.fuel g` is enough for every graph).
-/
namespace Crab
namespace Wto

/-- components of a weak topological ordering: `wto_vertex` / `wto_cycle` -/
inductive WtoC where
  | vertex (v : Nat)
  | cycle (head : Nat) (body : List WtoC)
  deriving Repr, Inhabited

structure Graph where
  n : Nat
  succ : Nat → List Nat

/-- every edge stays inside `0..n-1` -/
def Graph.WF (g : Graph) : Prop := ∀ u v, v ∈ g.succ u → v < g.n

/-- number of edges leaving the nodes `0..n-1` -/
def Graph.edges (g : Graph) : Nat := ((List.range g.n).map (fun u => (g.succ u).length)).sum

/-- `dfn_t = bound<z_number>`; only `0`, positive numbers and `+oo` occur -/
inductive Dfn where
  | fin (k : Nat)
  | inf
  deriving DecidableEq, Repr, Inhabited

structure St where
  dfn : Array Dfn
  num : Nat
  stack : List Nat
  deriving Inhabited

/-- `get_dfn` (absent = 0) -/
def getDfn (t : Array Dfn) (v : Nat) : Dfn := t.getD v (.fin 0)
/-- `set_dfn` -/
def setDfn (t : Array Dfn) (v : Nat) (d : Dfn) : Array Dfn := t.setIfInBounds v d

/-- `visit_stack_elem`: `_node`, the successors not yet looked at (`_it .. _et`), `_min` -/
structure Frame where
  node : Nat
  succs : List Nat
  min : Nat
  deriving Repr, Inhabited

/-- outcome of a run: a value, CRAB_ERROR ("WTO computation: empty stack"), or out of fuel -/
inductive Out (α : Type) where
  | done (a : α)
  | err
  | nofuel
  deriving Repr, Inhabited

/-- "discover vertex": `push(v); _num += 1; set_dfn(v, _num);` -/
def discover (st : St) (v : Nat) : St :=
  { dfn := setDfn st.dfn v (.fin (st.num + 1)), num := st.num + 1, stack := v :: st.stack }

/-- `while (!(element == visiting_node)) { set_dfn(element, 0); element = pop(); }`
    (`none` = `pop()` on an empty stack = CRAB_ERROR) -/
def popLoop (vn : Nat) (element : Nat) (stack : List Nat) (dfn : Array Dfn) :
    Option (List Nat × Array Dfn) :=
  if element = vn then some (stack, dfn) else
  match stack with
  | [] => none
  | top :: rest => popLoop vn top rest (setDfn dfn element (.fin 0))

/-- "propagate min from child to parent":
    `if (!visit_stack.empty() && visit_stack.back()._min > min_visiting_node) back()._min = min_visiting_node` -/
def propagate (vs : List Frame) (m : Nat) : List Frame :=
  match vs with
  | [] => []
  | p :: ps => if p.min > m then { p with min := m } :: ps else p :: ps

mutual
/-- the loop `while (!visit_stack.empty())` of `visit`; one call = one iteration of the inner
    `while (_it != _et)` loop, or the code after it.  `vs` head = `visit_stack.back()`,
    `ln` = `loop_nodes`, `part` = `partition` (head = front). -/
def visitLoop (g : Graph) : Nat → List Frame → List Nat → List WtoC → St → Out (List WtoC × St)
  | 0, _, _, _, _ => .nofuel
  | _ + 1, [], _, part, st => .done (part, st)
  | fuel + 1, fr :: vs, ln, part, st =>
    match fr.succs with
    | child :: rest =>
      match getDfn st.dfn child with
      | .inf =>
        /- `child_dfn <= _min` is false for +oo -/
        visitLoop g fuel ({ fr with succs := rest } :: vs) ln part st
      | .fin childDfn =>
        if childDfn = 0 then
          /- discover new vertex -/
          let st' := discover st child
          visitLoop g fuel
            ({ node := child, succs := g.succ child, min := st'.num } :: { fr with succs := rest } :: vs)
            ln part st'
        else if childDfn ≤ fr.min then
          /- loop found -/
          visitLoop g fuel ({ fr with succs := rest, min := childDfn } :: vs) (child :: ln) part st
        else
          visitLoop g fuel ({ fr with succs := rest } :: vs) ln part st
    | [] =>
      let isLoop := ln.contains fr.node
      let vs' := propagate vs fr.min
      if getDfn st.dfn fr.node = .fin fr.min then
        let dfn1 := setDfn st.dfn fr.node .inf
        match st.stack with
        | [] => .err
        | element :: stack1 =>
          if isLoop then
            match popLoop fr.node element stack1 dfn1 with
            | none => .err
            | some (stack2, dfn2) =>
              match component g fuel (g.succ fr.node) [] { st with dfn := dfn2, stack := stack2 } with
              | .done (body, st3) => visitLoop g fuel vs' ln (.cycle fr.node body :: part) st3
              | .err => .err
              | .nofuel => .nofuel
          else
            visitLoop g fuel vs' ln (.vertex fr.node :: part) { st with dfn := dfn1, stack := stack1 }
      else
        visitLoop g fuel vs' ln part st
/-- the loop of `component(g, vertex)` over the successors of `vertex` -/
def component (g : Graph) : Nat → List Nat → List WtoC → St → Out (List WtoC × St)
  | 0, _, _, _ => .nofuel
  | _ + 1, [], part, st => .done (part, st)
  | fuel + 1, s :: rest, part, st =>
    if getDfn st.dfn s = .fin 0 then
      /- `visit(g, succ, partition)` -/
      let st' := discover st s
      match visitLoop g fuel [{ node := s, succs := g.succ s, min := st'.num }] [] part st' with
      | .done (part', st'') => component g fuel rest part' st''
      | .err => .err
      | .nofuel => .nofuel
    else component g fuel rest part st
end

/-- `visit(g, vertex, partition)` -/
def visit (g : Graph) (fuel : Nat) (vertex : Nat) (part : List WtoC) (st : St) : Out (List WtoC × St) :=
  let st' := discover st vertex
  visitLoop g fuel [{ node := vertex, succs := g.succ vertex, min := st'.num }] [] part st'

/-- fuel that suffices for every graph (proved: `C07.build_done`): with `T = edges + 2 n`, one
    level of `visit` / `component` makes fewer than `2 T + 2` chained calls and there are at most
    `n` nested levels -/
def fuel (g : Graph) : Nat := (2 * g.n + 2) * (g.edges + 2 * g.n + 1)

def St.init (g : Graph) : St := { dfn := Array.replicate g.n (.fin 0), num := 0, stack := [] }

/-- constructor `wto(G g)` / `wto(G g, entry)`: the components list -/
def buildOut (g : Graph) (entry : Nat) : Out (List WtoC) :=
  match visit g (fuel g) entry [] (St.init g) with
  | .done (w, _) => .done w
  | .err => .err
  | .nofuel => .nofuel

/-- the ordering built for `g` from `entry` (empty if CRAB_ERROR) -/
def build (g : Graph) (entry : Nat) : List WtoC :=
  match buildOut g entry with
  | .done w => w
  | _ => []

/-! ### nesting -/

/-- `nesting_table->insert(make_pair(n, nesting))`: no effect when the key is present -/
def tblInsert (t : List (Nat × List Nat)) (v : Nat) (nest : List Nat) : List (Nat × List Nat) :=
  match t.lookup v with
  | some _ => t
  | none => t ++ [(v, nest)]

mutual
/-- `nesting_builder::visit` on one component; `cur` = `_nesting` (outermost head first) -/
def nestC (cur : List Nat) (t : List (Nat × List Nat)) : WtoC → List (Nat × List Nat)
  | .vertex v => tblInsert t v cur
  | .cycle h body => nestL (cur ++ [h]) (tblInsert t h cur) body
/-- iteration over a list of components (`build_nesting`, body of a cycle) -/
def nestL (cur : List Nat) (t : List (Nat × List Nat)) : List WtoC → List (Nat × List Nat)
  | [] => t
  | c :: cs => nestL cur (nestC cur t c) cs
end

/-- `build_nesting()` -/
def nestingTable (w : List WtoC) : List (Nat × List Nat) := nestL [] [] w

/-- `wto::nesting(n)` (`none` = `boost::optional` empty) -/
def nesting (w : List WtoC) (v : Nat) : Option (List Nat) := (nestingTable w).lookup v

end Wto
end Crab
