import CrabModel.Analysis.Checker

/-!
  Model of the combined forward+backward analyzer
  (`include/crab/analysis/bwd_analyzer.hpp`, class `intra_forward_backward_analyzer`):
  `run`, the lambda `refine`, `gather_assertions`, `dominates`, `discharge_assertions`,
  `store_results` / `get_pre`, `get_safe_assertions`, and of the part of the assertion checker
  that consumes its result (`assert_property_checker::check` with `m_safe_assertions`,
  `intra_checker::run`).

  The two fixpoint computations are parameters of the model (`FBCtx.fwd` = `F.run(entry, init,
  refined_assumptions)` read through `get_pre`, `FBCtx.bwd` = `B->run_backward(bottom,
  minimized forward invariants)` read through `operator[]`): they are the subject of C01 and C11.
  What is modelled here, branch by branch, is what `run` does with their answers.
  `Program.entry` is the `entry` ARGUMENT of `run` (start of the forward pass and of the
  executions), `FBCtx.cfgEntry` is `m_cfg.entry()` (root of the dominator tree): the code does not
  relate them, the theorems need `cfgEntry = p.entry` (Props/C02FwdBwd.lean).

  Dominators.  `run` calls `graph_algo::dominator_tree(m_cfg, m_cfg.entry(), idom_map)`
  (`analysis/graphs/dominance.hpp`), which hands the graph to
  `boost::lengauer_tarjan_dominator_tree` and copies its answer: `idom_map[v]` = immediate
  dominator of `v`, `null_vertex` for the entry and for the blocks not reachable from it.  The
  immediate dominator is unique, so the model computes it from its definition (`idomOf`): the
  strict dominator of `v` that every other strict dominator of `v` dominates, strict dominance
  being decided by reachability in the graph without the candidate (`sdomB`).  `idomTree` is the
  `idom_tree_t` built by `run` (parent ↦ set of children, only parents with a child), `dominates`
  the recursive descent of the member function `dominates`.
-/
namespace Crab
namespace Analysis
open Crab.IR

/-! ### 1. graphs, reachability, dominator tree -/

/-- a rooted directed graph; `fuel` bounds the propagation rounds of the reachability closure
    (`progGraph` supplies a bound that is never reached) -/
structure DGraph where
  succs : Nat → List Nat
  entry : Nat
  fuel : Nat

/-- one propagation round: the successors (other than `avoid`) of the members of `S` are added -/
def reachRound (succs : Nat → List Nat) (avoid : Option Nat) (S : List Nat) : List Nat :=
  S.foldl (fun acc x => (succs x).foldl
    (fun acc y => if acc.contains y || avoid == some y then acc else acc ++ [y]) acc) S

def reachIter (succs : Nat → List Nat) (avoid : Option Nat) : Nat → List Nat → List Nat
  | 0, S => S
  | k + 1, S =>
    let S' := reachRound succs avoid S
    if S'.length == S.length then S else reachIter succs avoid k S'

/-- `S` is closed under the edges that do not lead to `avoid` -/
def closedB (succs : Nat → List Nat) (avoid : Option Nat) (S : List Nat) : Bool :=
  S.all (fun x => (succs x).all (fun y => avoid == some y || S.contains y))

/-- the nodes reachable from the entry along paths that do not contain `avoid`
    (`none` = every path counts); result `none` = the round bound was hit before closure -/
def reachAvoid (G : DGraph) (avoid : Option Nat) : Option (List Nat) :=
  let S := reachIter G.succs avoid G.fuel (if avoid == some G.entry then [] else [G.entry])
  if closedB G.succs avoid S then some S else none

/-- `d` strictly dominates `n` (for a node `n` reachable from the entry): `n ≠ d` and `n` is not
    reachable once `d` is removed -/
def sdomB (G : DGraph) (d n : Nat) : Bool :=
  n != d &&
  match reachAvoid G (some d) with
  | some S => !S.contains n
  | none => false

/-- immediate dominator of `n` among the reachable nodes `R` (`idom_map[n]`; `none` =
    `null_vertex`): the strict dominator of `n` dominated by all the other ones -/
def idomOf (G : DGraph) (R : List Nat) (n : Nat) : Option Nat :=
  let cands := R.filter (fun d => sdomB G d n)
  cands.find? (fun d => cands.all (fun d' => d' == d || sdomB G d' d))

/-- `idom_tree` built in `run`: for every block that is the immediate dominator of some block,
    the set of the blocks it immediately dominates -/
def idomTree (G : DGraph) : List (Nat × List Nat) :=
  match reachAvoid G none with
  | none => []
  | some R =>
    (R.map (fun u => (u, R.filter (fun v => idomOf G R v == some u)))).filter (fun kv => !kv.2.isEmpty)

/-- member function `dominates(u, v, idom)`: `v` is a proper descendant of `u` in the tree.
    The C++ recursion has no bound; on a tree its depth is at most the number of keys, the model
    is called with `tree.length + 1`. -/
def dominates (tree : List (Nat × List Nat)) : Nat → Nat → Nat → Bool
  | 0, _, _ => false
  | fuel + 1, u, v =>
    match tree.lookup u with
    | none => false
    | some cs => cs.contains v || cs.any (fun w => dominates tree fuel w v)

def succsOf (p : Program) (b : Nat) : List Nat := (p.block b).succs

def blockIds (p : Program) : List Nat := List.range p.blocks.size

/-- the control-flow graph of a program rooted at `root`; every round of the closure
    adds a node or stops, and there are at most `1 + number of edges` reachable nodes -/
def cfgGraph (p : Program) (root : Nat) : DGraph :=
  ⟨succsOf p, root, ((blockIds p).map (fun b => (succsOf p b).length)).sum + 2⟩

/-- the graph rooted at the block where the executions of `p` start -/
def progGraph (p : Program) : DGraph := cfgGraph p p.entry

/-! ### 2. `intra_forward_backward_analyzer` -/

/-- the operations of the abstract domain `run` calls itself: `make_top`, `is_bottom`,
    `operator&&`, `operator<=` -/
structure FBOps (A : Type) where
  top : A
  isBottom : A → Bool
  meet : A → A → A
  leq : A → A → Bool

/-- `fwd_bwd_parameters` (same defaults) -/
structure FBParams where
  enabledBackward : Bool := false
  maxRefine : Nat := 5
  useRefined : Bool := false

/-- `assumption_map_t` : `none` = the block has no entry -/
abbrev AsmTable (A : Type) := Nat → Option A

structure FBCtx (A : Type) where
  ops : FBOps A
  /-- `F.clear(); F.run(entry, init_states, refined_assumptions)`, read with `get_pre` -/
  fwd : AsmTable A → Nat → A
  /-- `B->clear(); B->run_backward(make_bottom(), minimized F.get_pre_invariants())`, read with
      `operator[]` (top for a block without stored value); `minimize()` does not change the
      meaning of a value -/
  bwd : (Nat → A) → Nat → A
  params : FBParams
  /-- the `assumptions` argument of `run` -/
  assumptions : AsmTable A
  /-- `m_cfg.has_exit()` -/
  hasExit : Bool
  /-- `m_cfg.entry()`: root of the dominator tree and block inspected by the branch of
      `discharge_assertions` without dominance information.  The `entry` field of the program is
      the `entry` ARGUMENT of `run` — the block where the forward pass, and the executions, start
      ("only used for the forward pass").  The overload of `run` without this argument passes
      `m_cfg.entry()`, i.e. `cfgEntry = p.entry`. -/
  cfgEntry : Nat

variable {A : Type}

/-- indices of the assert statements of a block -/
def assertIdxs : Nat → List Stmt → List Nat
  | _, [] => []
  | i, s :: ss => if s.isAssert then i :: assertIdxs (i + 1) ss else assertIdxs (i + 1) ss

/-- `gather_assertions` : (block, statement index) of every assert of the CFG -/
def gatherAsserts (p : Program) : List (Nat × Nat) :=
  (blockIds p).flatMap (fun b => (assertIdxs 0 (p.block b).stmts).map (fun i => (b, i)))

/-- the lambda `refine` of `run`: (strictly refined?, value inserted in `new_table`) -/
def refineNode (o : FBOps A) (old : AsmTable A) (bv : Nat → A) (n : Nat) : Bool × A :=
  match old n with
  | none => (true, bv n)
  | some ov =>
    let r := o.meet ov (bv n)
    (!(o.leq ov r), r)

/-- the loop over `m_cfg` calling `refine`: (`more_refinement`, `new_refined_assumptions`) -/
def refineAll (o : FBOps A) (nodes : List Nat) (old : AsmTable A) (bv : Nat → A) : Bool × AsmTable A :=
  (nodes.any (fun n => (refineNode o old bv n).1),
   fun n => if nodes.contains n then some (refineNode o old bv n).2 else none)

/-- `m_unproven_assertions` / `m_proved_assertions` -/
structure Pending where
  unproven : List (Nat × Nat)
  proved : List (Nat × Nat)
  deriving Repr, DecidableEq

/-- body of the loop of `discharge_assertions` for block `n` (the `remove_if` with its lambda) -/
def dischargeStep (dom : Nat → Nat → Bool) (bot : Nat → Bool) (st : Pending) (n : Nat) : Pending :=
  if bot n then
    ⟨st.unproven.filter (fun kv => !dom n kv.1), st.proved ++ st.unproven.filter (fun kv => dom n kv.1)⟩
  else st

/-- `refined_assumptions.find(n)` exists and `is_bottom()` -/
def botAt (o : FBOps A) (asm : AsmTable A) (n : Nat) : Bool :=
  match asm n with
  | some v => o.isBottom v
  | none => false

/-- `discharge_assertions(refined_assumptions, idom)`.  In the branch without dominance
    information the C++ dereferences `find(m_cfg.entry())` unchecked; the table has an entry for
    every block of the CFG after the first refinement, the model answers "not bottom" otherwise. -/
def discharge (o : FBOps A) (tree : List (Nat × List Nat)) (nodes : List Nat) (entry : Nat)
    (asm : AsmTable A) (st : Pending) : Pending :=
  if st.unproven.isEmpty then st
  else if !tree.isEmpty then
    nodes.foldl (dischargeStep (dominates tree (tree.length + 1)) (botAt o asm)) st
  else if botAt o asm entry then ⟨[], st.proved ++ st.unproven⟩
  else st

/-- what the client reads after `run`: `operator[]` / `get_pre` on `m_pre_invariants`,
    `get_safe_assertions`, and the number of iterations of the refinement loop -/
structure FBResult (A : Type) where
  pre : Nat → A
  proved : List (Nat × Nat)
  iters : Nat

/-- outcome of one iteration of the `while (true)` loop of `run` -/
inductive FBStep (A : Type)
  | done (r : FBResult A)
  | again (asm : AsmTable A) (stored : Nat → A)

/-- one iteration (`iters` already incremented): forward pass with the current assumptions,
    `store_results` of the first pass unless `use_refined_invariants`, the two early exits,
    backward pass refined with the forward invariants, `refine` on every block, replacement of
    the assumption table when some block was refined, `discharge_assertions` and exit when nothing
    was refined or `iters > max_refine_iterations`.  `stored` = `m_pre_invariants` as read by
    `get_pre`; after the loop `store_results(F)` overwrites it when `use_refined_invariants`. -/
def fbIter (x : FBCtx A) (p : Program) (tree : List (Nat × List Nat)) (onlyFwd : Bool)
    (asserts : List (Nat × Nat)) (iters : Nat) (asm : AsmTable A) (stored : Nat → A) : FBStep A :=
  let F := x.fwd asm
  let stored := if !x.params.useRefined && iters == 1 then F else stored
  let out (pr : List (Nat × Nat)) : FBResult A := ⟨if x.params.useRefined then F else stored, pr, iters⟩
  if onlyFwd || asserts.isEmpty then .done (out [])
  else
    let r := refineAll x.ops (blockIds p) asm (x.bwd F)
    let asm' := if r.1 then r.2 else asm
    if !r.1 || iters > x.params.maxRefine then
      .done (out (discharge x.ops tree (blockIds p) x.cfgEntry asm' ⟨asserts, []⟩).proved)
    else .again asm' stored

/-- the loop; `left + iters = max_refine_iterations + 1`, so the iteration run with `left = 0`
    always exits (`fbIter_done_of_limit`); the fallback discharges nothing -/
def fbLoop (x : FBCtx A) (p : Program) (tree : List (Nat × List Nat)) (onlyFwd : Bool)
    (asserts : List (Nat × Nat)) : Nat → Nat → AsmTable A → (Nat → A) → FBResult A
  | 0, iters, asm, stored =>
    match fbIter x p tree onlyFwd asserts iters asm stored with
    | .done r => r
    | .again _ stored' => ⟨stored', [], iters⟩
  | left + 1, iters, asm, stored =>
    match fbIter x p tree onlyFwd asserts iters asm stored with
    | .done r => r
    | .again asm' stored' => fbLoop x p tree onlyFwd asserts left (iters + 1) asm' stored'

/-- `intra_forward_backward_analyzer::run(entry, init_states, assumptions, live, fixpo_params,
    params)` with `entry = p.entry`; the dominator tree is rooted at `m_cfg.entry()` =
    `x.cfgEntry` whatever `entry` is: `only_forward`, `gather_assertions`, dominator tree when
    there are assertions and the backward pass is on, `refined_assumptions` initialised with
    `assumptions`, the loop. -/
def runFB (x : FBCtx A) (p : Program) : FBResult A :=
  let onlyFwd := !x.params.enabledBackward || !x.hasExit
  let asserts := gatherAsserts p
  let tree := if !asserts.isEmpty && !onlyFwd then idomTree (cfgGraph p x.cfgEntry) else []
  fbLoop x p tree onlyFwd asserts x.params.maxRefine 1 x.assumptions (fun _ => x.ops.top)

/-! ### 3. the assertion checker on the result -/

/-- `check(assert_t&)` / `check(bool_assert_t&)` inside the loop of `intra_checker::run`, with
    the set `m_safe_assertions` (`safe i` = statement `i` of the block is in it): a member is
    reported safe without looking at the invariant and the invariant is propagated. -/
def checkStmtsFB (D : CheckDom A) (tr : Stmt → A → A) (safe : Nat → Bool) :
    Nat → List Stmt → A → List (Nat × CheckKind)
  | _, [], _ => []
  | i, s :: ss, a =>
    match s with
    | .assert c =>
      let v := if safe i then CheckKind.safe else checkAssert D a c
      (i, v) :: checkStmtsFB D tr safe (i + 1) ss (if v == .unreachable then a else tr s a)
    | .bassert b =>
      let v := if safe i then CheckKind.safe else checkBoolAssert D a b
      (i, v) :: checkStmtsFB D tr safe (i + 1) ss (if v == .unreachable then a else tr s a)
    | _ => checkStmtsFB D tr safe (i + 1) ss (tr s a)

def checkBlockFB (D : CheckDom A) (tr : Stmt → A → A) (p : Program) (r : FBResult A) (b : Nat) :
    List (Nat × CheckKind) :=
  checkStmtsFB D tr (fun i => r.proved.contains (b, i)) 0 (p.block b).stmts (r.pre b)

/-! ### 4. semantics the theorems are stated against -/

/-- `PathTo p n l` : `l` lists (last node first) the nodes of a path of the CFG from the entry
    block to `n` -/
inductive PathTo (G : DGraph) : Nat → List Nat → Prop
  | entry : PathTo G G.entry [G.entry]
  | step (b m : Nat) (l : List Nat) : PathTo G b l → m ∈ G.succs b → PathTo G m (m :: l)

/-- `d` dominates `n`: every path from the entry to `n` contains `d` -/
def Dominates (G : DGraph) (d n : Nat) : Prop := ∀ l, PathTo G n l → d ∈ l

/-- some assertion of block `b` fails in an execution of the block started in σ -/
def BlockFails (p : Program) (b : Nat) (σ : State) : Prop :=
  ∃ ch j σ', Event.check b j σ' false ∈ (runBlock p b σ ch).events

/-- an execution started in a state of `Init` at the entry block arrives at block `b` with σ
    after visiting the blocks `l` (last first, `b` included) -/
inductive Arrives (p : Program) (Init : State → Prop) : Nat → State → List Nat → Prop
  | init (σ : State) : Init σ → Arrives p Init p.entry σ [p.entry]
  | step (b m : Nat) (σ σ' : State) (l : List Nat) : Arrives p Init b σ l → BlockStep p b σ σ' →
      m ∈ succsOf p b → Arrives p Init m σ' (m :: l)

/-- from σ at the entry of block `b` some execution violates an assertion (in `b` or later) -/
inductive FailsFrom (p : Program) : Nat → State → Prop
  | here (b : Nat) (σ : State) : BlockFails p b σ → FailsFrom p b σ
  | step (b m : Nat) (σ σ' : State) : BlockStep p b σ σ' → m ∈ succsOf p b → FailsFrom p m σ' →
      FailsFrom p b σ

/-- the same along executions whose block-entry states satisfy `inv`: the set the backward
    analysis started from error states and refined with the forward invariants `inv`
    over-approximates (`Bwd.CoReach` of C11 in error mode with no final state) -/
inductive CoFail (p : Program) (inv : Nat → State → Prop) : Nat → State → Prop
  | fail (b : Nat) (σ : State) : inv b σ → BlockFails p b σ → CoFail p inv b σ
  | flow (b m : Nat) (σ σ' : State) : inv b σ → BlockStep p b σ σ' → m ∈ succsOf p b →
      CoFail p inv m σ' → CoFail p inv b σ

/-- σ is a state with which an execution from `Init` arrives at `b` and which goes on to violate
    an assertion -/
def ErrArr (p : Program) (Init : State → Prop) (b : Nat) (σ : State) : Prop :=
  (∃ l, Arrives p Init b σ l) ∧ FailsFrom p b σ

/-- THE invariant of the refinement loop: the table describes, at every block, every state of an
    execution from `Init` that goes on to violate an assertion -/
def ErrCover (p : Program) (Init : State → Prop) (γ : A → State → Prop) (T : Nat → A) : Prop :=
  ∀ b σ, ErrArr p Init b σ → γ (T b) σ

/-- the same for an assumption table (no constraint where the table has no entry) -/
def ErrCoverT (p : Program) (Init : State → Prop) (γ : A → State → Prop) (T : AsmTable A) : Prop :=
  ∀ b a σ, T b = some a → ErrArr p Init b σ → γ a σ

end Analysis
end Crab
