import CrabModel.IR.RSemantics
import CrabModel.Analysis.Checker

/-!
  Model of the assertion checker on programs with references
  (`include/crab/checkers/assertion.hpp`: `assert_property_checker::check(assert_t&)`,
  `check(bool_assert_t&)`, `check(assert_ref_t&)`, and the per-block loop of `intra_checker::run`),
  generic in the abstract domain.

  `RCheckDom` is what the checker uses of a domain: `is_bottom`, `entails`, `assume_bool`,
  `ref_assume` and a concretisation `γ` over the concrete states with heaps (`RIR.RState`) with
  the soundness laws; `tr` is the abstract transformer the checker re-propagates the block-entry
  invariant with (`intra_abs_transformer`).

  `check(assert_ref_t&)`:
      if inv.is_bottom()                          → unreachable   (and the loop does not propagate)
      inv1 := inv; inv1.ref_assume(cst.negate());
      if inv1.is_bottom()                         → safe
      else                                        → warning
  (`negate` can raise CRAB_ERROR on a constant constraint that no factory function builds:
  `none`.)  The set of assertions proved by the backward analysis (`m_safe_assertions`) is not
  part of this model.
-/
namespace Crab
namespace Analysis
open Crab.RIR

structure RCheckDom (A : Type) where
  nI : Nat
  γ : A → RState → Prop
  isBottom : A → Bool
  entails : A → IR.Cst → Bool
  assumeBool : A → Nat → Bool → A
  refAssume : A → RefCst → A
  isBottom_sound : ∀ a σ, isBottom a = true → ¬ γ a σ
  entails_sound : ∀ a c σ, entails a c = true → γ a σ → c.holds (toIR nI σ) = true
  assumeBool_sound : ∀ a b neg σ, γ a σ → ((toIR nI σ).getb b != neg) = true → γ (assumeBool a b neg) σ
  refAssume_sound : ∀ a c σ, γ a σ → c.holds σ = true → γ (refAssume a c) σ

variable {A : Type}

/-- `check(assert_t&)` (same rule as `Analysis.checkAssert`) -/
def rcheckAssert (D : RCheckDom A) (inv : A) (c : IR.Cst) : CheckKind :=
  if isContradiction c then
    (if D.isBottom inv then .safe else .warning)
  else if D.isBottom inv then .unreachable
  else if D.entails inv c then .safe else .warning

/-- `check(bool_assert_t&)` -/
def rcheckBoolAssert (D : RCheckDom A) (inv : A) (b : Nat) : CheckKind :=
  if D.isBottom inv then .unreachable
  else if D.isBottom (D.assumeBool inv b true) then .safe else .warning

/-- `check(assert_ref_t&)`; `none` = CRAB_ERROR raised by `reference_constraint::negate` -/
def checkAssertRef (D : RCheckDom A) (inv : A) (c : RefCst) : Option CheckKind :=
  if D.isBottom inv then some .unreachable
  else
    match c.negate with
    | none => none
    | some nc => if D.isBottom (D.refAssume inv nc) then some .safe else some .warning

/-- the verdict of the statement at the head of the loop (`none`: not an assertion) -/
def rheadVerdict (D : RCheckDom A) (s : Stmt) (a : A) : Option (Option CheckKind) :=
  match s with
  | .base (.assert c) => some (some (rcheckAssert D a c))
  | .base (.bassert b) => some (some (rcheckBoolAssert D a b))
  | .assertRef c => some (checkAssertRef D a c)
  | _ => none

/-- the loop over the statements of a block in `intra_checker::run`: the invariant at the entry
    of the block is propagated statement by statement with the abstract transformer; an
    assertion classified unreachable returns before propagating.  Result: (statement index,
    verdict); `none` when a CRAB_ERROR ends the run. -/
def rcheckStmts (D : RCheckDom A) (tr : Stmt → A → A) : Nat → List Stmt → A → Option (List (Nat × CheckKind))
  | _, [], _ => some []
  | i, s :: ss, a =>
    match rheadVerdict D s a with
    | none => rcheckStmts D tr (i + 1) ss (tr s a)
    | some none => none
    | some (some v) =>
      match rcheckStmts D tr (i + 1) ss (if v == .unreachable then a else tr s a) with
      | none => none
      | some rest => some ((i, v) :: rest)

def rcheckBlock (D : RCheckDom A) (tr : Stmt → A → A) (p : Program) (pre : Nat → A) (b : Nat) :
    Option (List (Nat × CheckKind)) :=
  rcheckStmts D tr 0 (p.block b).stmts (pre b)

/-- soundness of the abstract transformer w.r.t. one concrete statement -/
def RTrSound (D : RCheckDom A) (tr : Stmt → A → A) : Prop :=
  ∀ s a σ ch σ', D.γ a σ → stepStmt D.nI s σ ch = .next σ' → D.γ (tr s a) σ'

end Analysis
end Crab
