import CrabModel.IR.Semantics
import CrabModel.Fix.Interleaved

/-!
  Model of the statement → domain-operation mapping of the intra-procedural forward analyzer:

  * `intra_abs_transformer<BasicBlock, AbsD>::exec(...)` (include/crab/analysis/abs_transformer.hpp),
    one branch per statement kind of the CrabIR fragment of `CrabModel/IR/Syntax.lean`, the private
    template `apply(inv, op, x, y, z)` with the two `conv_op` tables, the flag `m_ignore_assert`
    and the checks guarded by the global `crab::CrabSanityCheckFlag`
    (`CRAB_ERROR("Invariant became bottom after ", stmt)`);
  * `fwd_analyzer<CFG, AbsTr>::analyze` and `prune_dead_variables`
    (include/crab/analysis/fwd_analyzer.hpp): the block transformer is the fold of `exec` over the
    statements of the block, followed — when a liveness object was supplied — by
    `inv.forget(dead_exit(node) - formals)` unless the invariant is bottom or top;
  * `NDom` : the abstract domain as the record of exactly the methods these two classes call
    (`abstract_domain_api`, include/crab/domains/abstract_domain.hpp), with a concretisation `γ`
    over the concrete states of `CrabModel/IR/Semantics.lean`.

  `get_pre` / `get_post` of the analyzer are the tables of the iterator (`Crab.Fix.St.pre/post`,
  bottom for every block that was never visited: `initialize_invariant_tables`).
-/
namespace Crab
namespace Analysis
open Crab.IR

/-- a `variable_t` of the program: the IR keeps integer and boolean variables in two index spaces -/
inductive AVar
  | int (x : Nat)
  | bool (b : Nat)
  deriving DecidableEq, Repr, Inhabited

/-- `crab::domains::arith_operation_t` -/
inductive ArithOp | add | sub | mul | sdiv | udiv | srem | urem
  deriving DecidableEq, Repr, Inhabited

/-- `crab::domains::bitwise_operation_t` -/
inductive BitwiseOp | and | or | xor | shl | lshr | ashr
  deriving DecidableEq, Repr, Inhabited

/-- `crab::domains::bool_operation_t` -/
inductive BoolOpD | band | bor | bxor
  deriving DecidableEq, Repr, Inhabited

/-- `crab::cfg::cast_operation_t` -/
inductive CastOp | trunc | sext | zext
  deriving DecidableEq, Repr, Inhabited

/-- `crab::domains::int_conv_operation_t` -/
inductive IntConvOp | trunc | sext | zext
  deriving DecidableEq, Repr, Inhabited

/-- `conv_op<domains::arith_operation_t>(binary_operation_t)` (`default:` = empty optional) -/
def convArith : BinOp → Option ArithOp
  | .add => some .add
  | .sub => some .sub
  | .mul => some .mul
  | .sdiv => some .sdiv
  | .udiv => some .udiv
  | .srem => some .srem
  | .urem => some .urem
  | _ => none

/-- `conv_op<domains::bitwise_operation_t>(binary_operation_t)` -/
def convBitwise : BinOp → Option BitwiseOp
  | .and => some .and
  | .or => some .or
  | .xor => some .xor
  | .shl => some .shl
  | .lshr => some .lshr
  | .ashr => some .ashr
  | _ => none

/-- `conv_op<domains::bool_operation_t>(bool_binary_operation_t)` (`default:` = `OP_BXOR`) -/
def convBool : BoolOp → BoolOpD
  | .band => .band
  | .bor => .bor
  | .bxor => .bxor

/-- `conv_op<domains::int_conv_operation_t>(cast_operation_t)` (`default:` = `OP_ZEXT`) -/
def convCast : CastOp → IntConvOp
  | .trunc => .trunc
  | .sext => .sext
  | .zext => .zext

/-- the statement operation an `arith_operation_t` stands for (used to state the domain laws) -/
def ArithOp.toBin : ArithOp → BinOp
  | .add => .add | .sub => .sub | .mul => .mul | .sdiv => .sdiv
  | .udiv => .udiv | .srem => .srem | .urem => .urem

def BitwiseOp.toBin : BitwiseOp → BinOp
  | .and => .and | .or => .or | .xor => .xor | .shl => .shl | .lshr => .lshr | .ashr => .ashr

def BoolOpD.toBool : BoolOpD → BoolOp
  | .band => .band | .bor => .bor | .bxor => .bxor

/-- The abstract domain as seen by `intra_abs_transformer` and `fwd_analyzer`: one field per
    method of `abstract_domain_api` they call, and the concretisation the laws are stated with. -/
structure NDom (A : Type) where
  γ : A → State → Prop
  /-- `is_bottom()` -/
  isBottom : A → Bool
  /-- `is_top()` -/
  isTop : A → Bool
  /-- `set_to_bottom()` -/
  setToBottom : A → A
  /-- `apply(arith_operation_t, x, y, z)` -/
  applyArithVar : A → ArithOp → Nat → Nat → Nat → A
  /-- `apply(arith_operation_t, x, y, k)` -/
  applyArithCst : A → ArithOp → Nat → Nat → Int → A
  /-- `apply(bitwise_operation_t, x, y, z)` -/
  applyBitVar : A → BitwiseOp → Nat → Nat → Nat → A
  /-- `apply(bitwise_operation_t, x, y, k)` -/
  applyBitCst : A → BitwiseOp → Nat → Nat → Int → A
  /-- `assign(x, e)` -/
  assign : A → Nat → Lin → A
  /-- `operator+=(linear_constraint_t)` -/
  addCst : A → Cst → A
  /-- `select(lhs, cond, e1, e2)` -/
  select : A → Nat → Cst → Lin → Lin → A
  /-- `operator-=(v)` -/
  forget : A → AVar → A
  /-- `forget(variable_vector_t)` -/
  forgetAll : A → List AVar → A
  /-- `apply(int_conv_operation_t, dst, src)`; the last argument is the bit-width of `src`, which
      the domain reads from the type carried by the C++ variable -/
  intCast : A → IntConvOp → Nat → Nat → Nat → A
  /-- `assign_bool_cst(lhs, linear_constraint)` -/
  assignBoolCst : A → Nat → Cst → A
  /-- `assign_bool_var(lhs, rhs, is_not_rhs)` -/
  assignBoolVar : A → Nat → Nat → Bool → A
  /-- `apply_binary_bool(op, x, y, z)` -/
  applyBinaryBool : A → BoolOpD → Nat → Nat → Nat → A
  /-- `assume_bool(v, is_negated)` -/
  assumeBool : A → Nat → Bool → A
  /-- `select_bool(lhs, cond, b1, b2)` -/
  selectBool : A → Nat → Nat → Nat → Nat → A

/-- the two members of `intra_abs_transformer` besides `m_inv`, and the global flag it reads -/
structure TrCfg where
  /-- `m_ignore_assert` (constructor default `false`) -/
  ignoreAssert : Bool := false
  /-- `::crab::CrabSanityCheckFlag` (default `false`, lib/debug.cpp) -/
  sanity : Bool := false
  deriving Repr, DecidableEq, Inhabited

variable {A : Type}

/-- the epilogue shared by most `exec` methods: with the sanity flag on,
    `if (!(pre_bot || !post_bot)) CRAB_ERROR("Invariant became bottom after ", stmt)`;
    `none` = CRAB_ERROR -/
def sanityGuard (D : NDom A) (sanity : Bool) (pre post : A) : Option A :=
  if sanity && !D.isBottom pre && D.isBottom post then none else some post

/-- the private template `apply(inv, op, x, y, z)`: arithmetic table first, then the bitwise one,
    otherwise `CRAB_ERROR("unsupported binary operator")` -/
def applyBin (D : NDom A) (inv : A) (op : BinOp) (x y : Nat) (z : Operand) : Option A :=
  match convArith op with
  | some aop =>
    some (match z with
          | .var w => D.applyArithVar inv aop x y w
          | .const k => D.applyArithCst inv aop x y k)
  | none =>
    match convBitwise op with
    | some bop =>
      some (match z with
            | .var w => D.applyBitVar inv bop x y w
            | .const k => D.applyBitCst inv bop x y k)
    | none => none

/-- `stmt.op() >= BINOP_SDIV && stmt.op() <= BINOP_UREM`: the sanity check is skipped for them -/
def isDivRem : BinOp → Bool
  | .sdiv => true | .udiv => true | .srem => true | .urem => true
  | _ => false

/-- `intra_abs_transformer::exec(stmt)` on `m_inv = inv`; `none` = CRAB_ERROR.
    One branch per overload, in the order of the class:
    `bin_op_t`, `select_t`, `assign_t`, `assume_t`, `assert_t`, `bool_assign_cst_t`,
    `bool_assign_var_t`, `bool_bin_op_t`, `bool_assume_t`, `bool_select_t`, `bool_assert_t`,
    `havoc_t`, `unreach_t`. -/
def execStmtE (D : NDom A) (cfg : TrCfg) (s : Stmt) (inv : A) : Option A :=
  match s with
  | .binop op x y z =>
    -- `if (op1.get_variable() && op2.get_variable()) apply(.., var) else apply(.., op2.constant())`
    match applyBin D inv op x y z with
    | none => none
    | some r => if isDivRem op then some r else sanityGuard D cfg.sanity inv r
  | .select x c e1 e2 => sanityGuard D cfg.sanity inv (D.select inv x c e1 e2)
  | .assign x e => sanityGuard D cfg.sanity inv (D.assign inv x e)
  | .assume c => some (D.addCst inv c)
  | .assert c =>
    -- `if (m_ignore_assert) return;` otherwise `m_inv += cst` (a bottom result is only a CRAB_WARN)
    if cfg.ignoreAssert then some inv else some (D.addCst inv c)
  | .bassign b c => sanityGuard D cfg.sanity inv (D.assignBoolCst inv b c)
  | .bcopy b c neg => sanityGuard D cfg.sanity inv (D.assignBoolVar inv b c neg)
  | .bbin op b c d => sanityGuard D cfg.sanity inv (D.applyBinaryBool inv (convBool op) b c d)
  | .bassume b neg => some (D.assumeBool inv b neg)
  | .bselect b c d e => sanityGuard D cfg.sanity inv (D.selectBool inv b c d e)
  | .bassert b => if cfg.ignoreAssert then some inv else some (D.assumeBool inv b false)
  | .havoc x => sanityGuard D cfg.sanity inv (D.forget inv (.int x))
  | .havocB b => sanityGuard D cfg.sanity inv (D.forget inv (.bool b))
  | .unreachable => some (D.setToBottom inv)

/-- `exec(int_cast_t&)` (the IR fragment has no cast statement; kept for the mapping):
    `m_inv.apply(conv_op(stmt.op()), dst, src)` -/
def execIntCastE (D : NDom A) (cfg : TrCfg) (op : CastOp) (dst src srcBw : Nat) (inv : A) :
    Option A :=
  sanityGuard D cfg.sanity inv (D.intCast inv (convCast op) dst src srcBw)

/-- the transformer with the sanity flag off (its default): total, see
    `execStmtE_sanity_off` in CrabProofs/Lemmas/AbsTransformer.lean -/
def execStmt (D : NDom A) (ignoreAssert : Bool) (s : Stmt) (inv : A) : A :=
  (execStmtE D ⟨ignoreAssert, false⟩ s inv).getD inv

/-- the loop `for (auto &s : b) s.accept(&*m_abs_tr)` of `fwd_analyzer::analyze` -/
def execStmtsE (D : NDom A) (cfg : TrCfg) : List Stmt → A → Option A
  | [], inv => some inv
  | s :: ss, inv =>
    match execStmtE D cfg s inv with
    | none => none
    | some inv' => execStmtsE D cfg ss inv'

def execStmts (D : NDom A) (ignoreAssert : Bool) (ss : List Stmt) (inv : A) : A :=
  ss.foldl (fun a s => execStmt D ignoreAssert s a) inv

/-- what `fwd_analyzer` holds besides the transformer -/
structure FwdCfg where
  ignoreAssert : Bool := false
  /-- `m_live` : `none` = null pointer; `some dead` with `dead node = m_live->dead_exit(node)` -/
  live : Option (Nat → List AVar) := none
  /-- `m_formals` : inputs and outputs of the function declaration (empty without declaration) -/
  formals : List AVar := []

/-- `fwd_analyzer::prune_dead_variables(node, inv)` -/
def pruneDead (D : NDom A) (live : Option (Nat → List AVar)) (formals : List AVar) (node : Nat)
    (inv : A) : A :=
  match live with
  | none => inv
  | some dead =>
    if D.isBottom inv || D.isTop inv then inv
    else D.forgetAll inv ((dead node).filter (fun v => !formals.contains v))

/-- `fwd_analyzer::analyze(node, inv)` with the sanity flag as a parameter; `none` = CRAB_ERROR -/
def analyzeE (D : NDom A) (cfg : FwdCfg) (sanity : Bool) (p : Program) (node : Nat) (inv : A) :
    Option A :=
  match execStmtsE D ⟨cfg.ignoreAssert, sanity⟩ (p.block node).stmts inv with
  | none => none
  | some r => some (pruneDead D cfg.live cfg.formals node r)

/-- `fwd_analyzer::analyze(node, inv)` (sanity flag off) -/
def analyze (D : NDom A) (cfg : FwdCfg) (p : Program) (node : Nat) (inv : A) : A :=
  pruneDead D cfg.live cfg.formals node (execStmts D cfg.ignoreAssert (p.block node).stmts inv)

/-- the iterator context of `intra_fwd_analyzer<CFG, AbsD>(cfg, absval_fac, live, params)`
    followed by `run(entry, init, assumptions)`: the lattice operations of the domain are the ones
    the iterator calls (`Fix.Ops`), the block transformer is `analyze` -/
def mkCtx (D : NDom A) (ops : Fix.Ops A) (cfg : FwdCfg) (p : Program) (preds : Nat → List Nat)
    (nesting : Nat → Option (List Nat)) (init : A) (assumptions : Option (List (Nat × A)))
    (delay descending : Nat) : Fix.Ctx A :=
  { ops := ops, analyze := analyze D cfg p, preds := preds, nesting := nesting, entry := p.entry,
    init := init, assumptions := assumptions, delay := delay, descending := descending }

/-- predecessor lists in the order of the blocks (a stand-in for `prev_nodes`; the theorems only
    need that every edge is covered) -/
def predsOf (p : Program) (n : Nat) : List Nat :=
  (List.range p.blocks.size).filter (fun b => (p.block b).succs.contains n)

/-! ### well-formedness of the variable indices -/

/-- the variable a statement defines is declared (`x < nI` integer variables, `b < nB` booleans) -/
def _root_.Crab.IR.Stmt.defOk (nI nB : Nat) : Stmt → Bool
  | .assign x _ => decide (x < nI)
  | .binop _ x _ _ => decide (x < nI)
  | .havoc x => decide (x < nI)
  | .select x _ _ _ => decide (x < nI)
  | .havocB b => decide (b < nB)
  | .bassign b _ => decide (b < nB)
  | .bcopy b _ _ => decide (b < nB)
  | .bbin _ b _ _ => decide (b < nB)
  | .bselect b _ _ _ => decide (b < nB)
  | _ => true

def _root_.Crab.IR.Program.defsOk (p : Program) : Bool :=
  p.blocks.toList.all (fun b => b.stmts.all (fun s => s.defOk p.nI p.nB))

/-- the state has exactly the declared variables -/
def Shape (nI nB : Nat) (σ : State) : Prop := σ.iv.size = nI ∧ σ.bv.size = nB

instance (nI nB : Nat) (σ : State) : Decidable (Shape nI nB σ) := by unfold Shape; exact inferInstance

end Analysis
end Crab
