import CrabModel.IR.Semantics

/-!
  Model of the assertion checker (`include/crab/checkers/assertion.hpp`,
  `assert_property_checker::check(assert_t&)`, `check(bool_assert_t&)`, and the per-block loop of
  `intra_checker::run` in `checker.hpp`), generic in the abstract domain.

  `CheckDom` is what the checker uses of a domain: `is_bottom`, `entails`, `assume_bool` and a
  concretisation `γ` with the three soundness laws; `tr` is the abstract transformer the checker
  re-propagates the block-entry invariant with (`intra_abs_transformer`).
-/
namespace Crab
namespace Analysis
open Crab.IR

structure CheckDom (A : Type) where
  γ : A → State → Prop
  isBottom : A → Bool
  entails : A → Cst → Bool
  assumeBool : A → Nat → Bool → A
  isBottom_sound : ∀ a σ, isBottom a = true → ¬ γ a σ
  entails_sound : ∀ a c σ, entails a c = true → γ a σ → c.holds σ = true
  assumeBool_sound : ∀ a b neg σ, γ a σ → (σ.getb b != neg) = true → γ (assumeBool a b neg) σ

/-- `check_kind` (`CRAB_ERR` is never produced by the assertion checker) -/
inductive CheckKind | safe | warning | unreachable
  deriving Repr, DecidableEq, Inhabited

/-- `linear_constraint::is_contradiction` (the expression is a constant that falsifies the
    relation); zero-coefficient terms do not occur in a crab expression -/
def isContradiction (c : Cst) : Bool :=
  c.e.ts.all (fun t => t.1 == 0) &&
  (match c.k with
   | .ne => decide (c.e.c = 0)
   | .eq => decide (c.e.c ≠ 0)
   | .le => decide (c.e.c > 0)
   | .lt => decide (c.e.c ≥ 0))

variable {A : Type}

/-- `check(assert_t&)` when the assertion is not in the set proved by the backward analysis -/
def checkAssert (D : CheckDom A) (inv : A) (c : Cst) : CheckKind :=
  if isContradiction c then
    (if D.isBottom inv then .safe else .warning)
  else if D.isBottom inv then .unreachable
  else if D.entails inv c then .safe else .warning

/-- `check(bool_assert_t&)` -/
def checkBoolAssert (D : CheckDom A) (inv : A) (b : Nat) : CheckKind :=
  if D.isBottom inv then .unreachable
  else if D.isBottom (D.assumeBool inv b true) then .safe else .warning

/-- the loop over the statements of a block in `intra_checker::run`: the invariant at the entry of
    the block is propagated statement by statement with the abstract transformer; an assert
    classified unreachable returns before propagating.  Result: (statement index, verdict). -/
def checkStmts (D : CheckDom A) (tr : Stmt → A → A) : Nat → List Stmt → A → List (Nat × CheckKind)
  | _, [], _ => []
  | i, s :: ss, a =>
    match s with
    | .assert c =>
      let v := checkAssert D a c
      (i, v) :: checkStmts D tr (i + 1) ss (if v == .unreachable then a else tr s a)
    | .bassert b =>
      let v := checkBoolAssert D a b
      (i, v) :: checkStmts D tr (i + 1) ss (if v == .unreachable then a else tr s a)
    | _ => checkStmts D tr (i + 1) ss (tr s a)

def checkBlock (D : CheckDom A) (tr : Stmt → A → A) (p : Program) (pre : Nat → A) (b : Nat) :
    List (Nat × CheckKind) :=
  checkStmts D tr 0 (p.block b).stmts (pre b)

/-- soundness of the abstract transformer w.r.t. one concrete statement -/
def TrSound (D : CheckDom A) (tr : Stmt → A → A) : Prop :=
  ∀ s a σ ch σ', D.γ a σ → stepStmt s σ ch = .next σ' → D.γ (tr s a) σ'

end Analysis
end Crab
