/-
  Carriers of the finite scalar abstractions whose complete behaviour is *extracted* from the
  code as tables (mechanism T): `crab::domains::sign<z_number>` (8 values, sign.hpp) and
  `crab::domains::boolean_value` (4 values, boolean.hpp), their operation names, their
  concretisations, and the concrete operations they abstract.  The tables themselves are the
  generated files `CrabModel/Gen/SignTable.lean`, `CrabModel/Gen/BoolTable.lean`.
-/
import CrabModel.Num.ZNum

namespace Crab

/-- `enum class sign_interval` (same order as the C++ enumeration) -/
inductive Sign where
  | bot | ltz | gtz | eqz | nez | gez | lez | top
  deriving DecidableEq, Repr, Inhabited

/-- binary operations of `sign<z_number>` returning a sign -/
inductive SOp where
  | add | sub | mul | div | udiv | srem | urem | and | or | xor | shl | lshr | ashr | join | meet
  deriving DecidableEq, Repr, Inhabited

/-- the partition of the integers the sign abstraction is about -/
inductive Cls where
  | neg | zero | pos
  deriving DecidableEq, Repr, Inhabited

namespace Cls
def all : List Cls := [neg, zero, pos]
/-- class of an integer -/
def of (k : Int) : Cls := if k < 0 then neg else if k = 0 then zero else pos
end Cls

namespace Sign
def all : List Sign := [bot, ltz, gtz, eqz, nez, gez, lez, top]

/-- concretisation at the level of the partition: the classes a sign value contains -/
def has : Sign → Cls → Bool
  | bot, _ => false
  | ltz, c => c == .neg
  | gtz, c => c == .pos
  | eqz, c => c == .zero
  | nez, c => c != .zero
  | gez, c => c != .neg
  | lez, c => c != .pos
  | top, _ => true

/-- concretisation: `k ∈ γ(s)` -/
def mem (k : Int) (s : Sign) : Prop := s.has (Cls.of k) = true
instance (k : Int) (s : Sign) : Decidable (mem k s) := by unfold mem; exact inferInstance

def name : Sign → String
  | bot => "bot" | ltz => "ltz" | gtz => "gtz" | eqz => "eqz"
  | nez => "nez" | gez => "gez" | lez => "lez" | top => "top"

def ofName? (s : String) : Option Sign := all.find? (fun x => x.name == s)
end Sign

namespace SOp
def all : List SOp := [add, sub, mul, div, udiv, srem, urem, and, or, xor, shl, lshr, ashr, join, meet]

def name : SOp → String
  | add => "add" | sub => "sub" | mul => "mul" | div => "div" | udiv => "udiv" | srem => "srem"
  | urem => "urem" | and => "and" | or => "or" | xor => "xor" | shl => "shl" | lshr => "lshr"
  | ashr => "ashr" | join => "join" | meet => "meet"

def ofName? (s : String) : Option SOp := all.find? (fun x => x.name == s)

/-- the concrete operation on mathematical integers (project conventions): `none` = no
    successor / outside what is given a meaning (zero divisor, negative shift amount,
    unsigned operations on negative numbers).  `join`/`meet` are not concrete operations. -/
def conc : SOp → Int → Int → Option Int
  | add, a, b => some (a + b)
  | sub, a, b => some (a - b)
  | mul, a, b => some (a * b)
  | div, a, b => if b = 0 then none else some (Int.tdiv a b)
  | srem, a, b => if b = 0 then none else some (Int.tmod a b)
  | udiv, a, b => if 0 ≤ a ∧ 0 < b then some (a / b) else none
  | urem, a, b => if 0 ≤ a ∧ 0 < b then some (a % b) else none
  | and, a, b => some (ZNum.land a b)
  | or, a, b => some (ZNum.lor a b)
  | xor, a, b => some (ZNum.lxor a b)
  | shl, a, b => if 0 ≤ b then some (a * 2 ^ b.toNat) else none
  | ashr, a, b => if 0 ≤ b then some (a / 2 ^ b.toNat) else none
  | lshr, a, b => if 0 ≤ a ∧ 0 ≤ b then some (a / 2 ^ b.toNat) else none
  | join, _, _ => none
  | meet, _, _ => none

/-- abstraction of `conc` on the partition: the classes the result can fall in, given the
    classes of the operands.  It is the *best* one for `+ - * / srem udiv urem shl ashr lshr`;
    for `and or xor` only the facts "0 is absorbing / neutral" are claimed (any class
    otherwise).  Proved to cover `conc` once and for all (`SOp.clsOp_sound`). -/
def clsOp : SOp → Cls → Cls → List Cls
  | add, .neg, .neg => [.neg] | add, .neg, .zero => [.neg] | add, .zero, .neg => [.neg]
  | add, .zero, .zero => [.zero]
  | add, .pos, .pos => [.pos] | add, .pos, .zero => [.pos] | add, .zero, .pos => [.pos]
  | add, _, _ => Cls.all
  | sub, .neg, .pos => [.neg] | sub, .neg, .zero => [.neg] | sub, .zero, .pos => [.neg]
  | sub, .zero, .zero => [.zero]
  | sub, .pos, .neg => [.pos] | sub, .pos, .zero => [.pos] | sub, .zero, .neg => [.pos]
  | sub, _, _ => Cls.all
  | mul, .zero, _ => [.zero] | mul, _, .zero => [.zero]
  | mul, .neg, .neg => [.pos] | mul, .pos, .pos => [.pos]
  | mul, .neg, .pos => [.neg] | mul, .pos, .neg => [.neg]
  | div, _, .zero => []
  | div, .zero, _ => [.zero]
  | div, .neg, .neg => [.zero, .pos] | div, .pos, .pos => [.zero, .pos]
  | div, .neg, .pos => [.neg, .zero] | div, .pos, .neg => [.neg, .zero]
  | srem, _, .zero => []
  | srem, .zero, _ => [.zero]
  | srem, .neg, _ => [.neg, .zero]
  | srem, .pos, _ => [.zero, .pos]
  | udiv, .zero, .pos => [.zero] | udiv, .pos, .pos => [.zero, .pos] | udiv, _, _ => []
  | urem, .zero, .pos => [.zero] | urem, .pos, .pos => [.zero, .pos] | urem, _, _ => []
  | and, .zero, _ => [.zero] | and, _, .zero => [.zero] | and, _, _ => Cls.all
  | or, .zero, c => [c] | or, c, .zero => [c] | or, _, _ => Cls.all
  | xor, .zero, c => [c] | xor, c, .zero => [c] | xor, _, _ => Cls.all
  | shl, _, .neg => [] | shl, c, _ => [c]
  | ashr, _, .neg => [] | ashr, c, .zero => [c]
  | ashr, .neg, .pos => [.neg] | ashr, .zero, .pos => [.zero] | ashr, .pos, .pos => [.zero, .pos]
  | lshr, _, .neg => [] | lshr, .neg, _ => [] | lshr, c, .zero => [c]
  | lshr, .zero, .pos => [.zero] | lshr, .pos, .pos => [.zero, .pos]
  | join, _, _ => []
  | meet, _, _ => []
end SOp

/-- `boolean_value::kind_t` (False = 0, True = 1, Bottom = 2, Top = 3) -/
inductive BoolV where
  | ff | tt | bot | top
  deriving DecidableEq, Repr, Inhabited

/-- binary operations of `boolean_value` returning a value -/
inductive BOp where
  | and | or | xor | join | meet | widen | narrow
  deriving DecidableEq, Repr, Inhabited

namespace BoolV
def all : List BoolV := [ff, tt, bot, top]
/-- concretisation: the truth values an abstract boolean contains -/
def has : BoolV → Bool → Bool
  | ff, b => b == false
  | tt, b => b == true
  | bot, _ => false
  | top, _ => true
def mem (b : Bool) (v : BoolV) : Prop := v.has b = true
instance (b : Bool) (v : BoolV) : Decidable (mem b v) := by unfold mem; exact inferInstance
def name : BoolV → String
  | ff => "false" | tt => "true" | bot => "bot" | top => "top"
def ofName? (s : String) : Option BoolV := all.find? (fun x => x.name == s)
end BoolV

namespace BOp
def all : List BOp := [and, or, xor, join, meet, widen, narrow]
def name : BOp → String
  | and => "and" | or => "or" | xor => "xor" | join => "join" | meet => "meet"
  | widen => "widen" | narrow => "narrow"
def ofName? (s : String) : Option BOp := all.find? (fun x => x.name == s)
/-- concrete boolean operations (`join`… are lattice operations, not concrete ones) -/
def conc : BOp → Bool → Bool → Option Bool
  | and, a, b => some (a && b)
  | or, a, b => some (a || b)
  | xor, a, b => some (a != b)
  | _, _, _ => none
end BOp

end Crab
