/-
  Model of `ikos::bound<Number>` (include/crab/domains/interval.hpp, interval_impl.hpp)
  for Number = z_number (`Int`).

  The C++ class stores (_is_infinite, _n) with _n normalised to +1 / -1 when infinite.
  The model uses the isomorphic three-constructor type; `toPair` gives the C++ fields
  back and is used by the operations that the C++ code writes on the fields (`*`, `/`).
  Operations that can raise CRAB_ERROR return `Option` (none = CRAB_ERROR).
-/
namespace Crab

inductive Bound where
  | ninf : Bound
  | fin  : Int → Bound
  | pinf : Bound
  deriving DecidableEq, Repr, Inhabited

namespace Bound

/-- the C++ field `_n` -/
def n : Bound → Int
  | ninf => -1
  | fin k => k
  | pinf => 1

def isInfinite : Bound → Bool
  | fin _ => false
  | _ => true

def isFinite (b : Bound) : Bool := !b.isInfinite

/-- the private constructor `bound(bool is_infinite, Number n)` -/
def mkRaw (inf : Bool) (k : Int) : Bound :=
  if inf then (if k > 0 then pinf else ninf) else fin k

/-- `operator<=` -/
def le : Bound → Bound → Bool
  | ninf, _ => true
  | _, pinf => true
  | fin a, fin b => a ≤ b
  | fin _, ninf => false
  | pinf, fin _ => false
  | pinf, ninf => false

/-- `operator>=` -/
def ge (a b : Bound) : Bool := le b a
/-- `operator<` is `!(>=)` -/
def lt (a b : Bound) : Bool := !(ge a b)
/-- `operator>` is `!(<=)` -/
def gt (a b : Bound) : Bool := !(le a b)

instance : LE Bound := ⟨fun a b => le a b = true⟩
instance : LT Bound := ⟨fun a b => lt a b = true⟩
instance (a b : Bound) : Decidable (a ≤ b) := inferInstanceAs (Decidable (le a b = true))
instance (a b : Bound) : Decidable (a < b) := inferInstanceAs (Decidable (lt a b = true))

/-- `bound::min(x,y) = (x <= y) ? x : y` -/
def min (x y : Bound) : Bound := if le x y then x else y
/-- `bound::max(x,y) = (x <= y) ? y : x` -/
def max (x y : Bound) : Bound := if le x y then y else x
def min4 (x y z t : Bound) : Bound := min x (min y (min z t))
def max4 (x y z t : Bound) : Bound := max x (max y (max z t))

/-- unary minus: `bound(_is_infinite, -_n)` -/
def neg : Bound → Bound
  | ninf => pinf
  | fin k => fin (-k)
  | pinf => ninf

/-- `operator+`; `none` is `CRAB_ERROR("Bound: undefined operation -oo + +oo")` -/
def add : Bound → Bound → Option Bound
  | fin a, fin b => some (fin (a + b))
  | fin _, x => some x
  | x, fin _ => some x
  | ninf, ninf => some ninf
  | pinf, pinf => some pinf
  | _, _ => none

/-- `operator-` is `operator+(x.operator-())` -/
def sub (a b : Bound) : Option Bound := add a (neg b)

/-- `operator*` -/
def mul (a b : Bound) : Bound :=
  if b.n = 0 then b
  else if a.n = 0 then a
  else mkRaw (a.isInfinite || b.isInfinite) (a.n * b.n)

/-- `operator/` with Number = z_number (truncating division);
    `none` is `CRAB_ERROR("Bound: division by zero")` -/
def div (a b : Bound) : Option Bound :=
  if b.n = 0 then none
  else match a, b with
  | fin x, fin y => some (fin (Int.tdiv x y))
  | fin _, _ => some (fin 0)
  | x, fin y => if y > 0 then some x else some (neg x)
  | x, y => some (mkRaw true (x.n * y.n))

def number? : Bound → Option Int
  | fin k => some k
  | _ => none

def toString : Bound → String
  | ninf => "-oo"
  | pinf => "+oo"
  | fin k => ToString.toString k

instance : ToString Bound := ⟨toString⟩

end Bound
end Crab
