/-
  Model of `crab::domains::interval_congruence<z_number>`
  (include/crab/domains/interval_congruence.hpp, interval_congruence_impl.hpp, instantiated in
  lib/interval_congruence.cpp): a pair (interval, congruence) kept reduced by `reduce()`
  (Granger's rules).  Every operation of the class is the component-wise operation followed
  by `reduce()` (constructor `interval_congruence(interval&&, congruence&&)`).
-/
import CrabModel.Scalar.Interval
import CrabModel.Scalar.Congruence

namespace Crab

structure IC where
  i : Itv
  c : Cong
  deriving DecidableEq, Repr, Inhabited

namespace IC
open Bound

/-- `interval_congruence(false)` / `(true)` -/
def top : IC := ⟨Itv.top, Cong.top⟩
def bot : IC := ⟨Itv.bot, Cong.bot⟩

/-- `is_bottom()` / `is_top()` -/
def isBottom (p : IC) : Bool := p.i.isBottom || p.c.isBottom
def isTop (p : IC) : Bool := p.i.isTop && p.c.isTop

/-- concretisation of the pair: the intersection -/
def mem (k : Int) (p : IC) : Prop := Itv.mem k p.i ∧ Cong.mem k p.c
instance (k : Int) (p : IC) : Decidable (mem k p) := by unfold mem; exact inferInstance

def contains (p : IC) (k : Int) : Bool := p.i.contains k && p.c.contains k

/-- `mod(a, b)` : `a % b` (truncating), plus `b` when negative; `none` = `% 0` -/
def imod? (a b : Int) : Option Int :=
  if b = 0 then none
  else let m := Int.tmod a b; some (if m < 0 then m + b else m)

/-- `R(c, a) = a + mod(p - a, abs(m))` : least element of `c` that is `≥ a` -/
def R? (c : Cong) (a : Int) : Option Int := (imod? (c.b - a) (Cong.iabs c.a)).map (fun r => a + r)
/-- `L(c, a) = a - mod(a - p, abs(m))` : greatest element of `c` that is `≤ a` -/
def L? (c : Cong) (a : Int) : Option Int := (imod? (a - c.b) (Cong.iabs c.a)).map (fun r => a - r)

/-- `reduce()`.  The first test does not return: a bottom pair falls into the `c.is_top()`
    branch (`is_top()` is `m_a == 1`, true for bottom), finds no singleton and returns.
    `R`/`L` are only reached with a non-zero modulus (no `% 0`); `none` keeps the type honest. -/
def reduce (p : IC) : Option IC :=
  let p : IC := if p.i.isBottom || p.c.isBottom then ⟨Itv.bot, Cong.bot⟩ else p
  if p.c.isTop then
    match p.i.singleton? with
    | some n => some ⟨p.i, Cong.ofInt n⟩
    | none => some p
  else if p.c.a = 0 then
    let a := Itv.single p.c.b
    if !(Itv.leq a p.i) then some ⟨Itv.bot, Cong.bot⟩ else some ⟨a, p.c⟩
  else
    match p.i.lb, p.i.ub with
    | fin l, fin u =>
      match R? p.c l, L? p.c u with
      | some x, some y =>
        if x > y then some ⟨Itv.bot, Cong.bot⟩
        else if x = y then some ⟨Itv.single x, Cong.ofInt x⟩
        else some ⟨Itv.mk' (fin x) (fin y), p.c⟩
      | _, _ => none
    | fin l, _ =>
      match R? p.c l with
      | some x => some ⟨Itv.mk' (fin x) pinf, p.c⟩
      | none => none
    | _, fin u =>
      match L? p.c u with
      | some y => some ⟨Itv.mk' ninf (fin y), p.c⟩
      | none => none
    | _, _ => some p

/-- `interval_congruence(Number n)` (no reduction needed) -/
def ofInt (n : Int) : IC := ⟨Itv.single n, Cong.ofInt n⟩
/-- `interval_congruence(interval&&, congruence&&)` -/
def mk' (i : Itv) (c : Cong) : Option IC := reduce ⟨i, c⟩

/-- `operator+`, `operator-`, `operator*`, `operator|`, `operator&` : component-wise, then `reduce()`
    (the other operations of the class have the same shape; the driver evaluates all of them) -/
def add (p q : IC) : Option IC :=
  match Itv.add p.i q.i with
  | some i => mk' i (Cong.add p.c q.c)
  | none => none
def sub (p q : IC) : Option IC :=
  match Itv.sub p.i q.i with
  | some i => mk' i (Cong.sub p.c q.c)
  | none => none
def mul (p q : IC) : Option IC := mk' (Itv.mul p.i q.i) (Cong.mul p.c q.c)
def join (p q : IC) : Option IC := mk' (Itv.join p.i q.i) (Cong.join p.c q.c)
def meet (p q : IC) : Option IC := mk' (Itv.meet p.i q.i) (Cong.meet p.c q.c)

end IC
end Crab
