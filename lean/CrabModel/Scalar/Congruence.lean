/-
  Model of `ikos::congruence<z_number>` (include/crab/domains/congruence.hpp,
  congruence_impl.hpp, instantiated in lib/congruence.cpp), transcribed branch by branch.

  A value is `aZ + b` (fields `m_a`, `m_b`) plus the flag `m_is_bottom`; `a = 0` denotes the
  constant `b`.  `z_number::operator%` is `mpz_tdiv_r` (truncating: the remainder has the
  sign of the dividend); `normalize()` turns it into the standard form `a ≥ 0`, `0 ≤ b < a`
  (`Cong.WF`).  The structure still lets `a` and `b` range over all of `Int`: the theorems do
  not assume the standard form unless they say so.

  `is_top()` is the test `m_a == 1` alone: it also answers yes on bottom (whose hidden
  fields are (1,0)).

  No operation of the class reaches CRAB_ERROR any more (every `%` and `/` of `z_number`
  has a divisor that the preceding tests make non-zero).
-/
import CrabModel.Scalar.Interval

namespace Crab

structure Cong where
  isBot : Bool
  a : Int
  b : Int
  deriving DecidableEq, Repr, Inhabited

namespace Cong

/-- `abs` -/
def iabs (x : Int) : Int := if x < 0 then -x else x
/-- `max` : `(x <= y) ? y : x` -/
def imax (x y : Int) : Int := if x ≤ y then y else x
/-- `min` : `(x < y) ? x : y` -/
def imin (x y : Int) : Int := if x < y then x else y

/-- `gcd_helper(x, y) = (y == 0) ? x : gcd_helper(y, x % y)`; it is only called on
    `abs(x)`, `abs(y)`, where `%` (truncating) is the remainder of natural numbers.
    The recursion is written with fuel (the second argument strictly decreases, so
    `y + 1` steps suffice); the fuel never runs out (`gcdHelper_eq` in the lemma file). -/
def gcdLoop : Nat → Nat → Nat → Nat
  | 0, x, _ => x
  | fuel + 1, x, y => if y = 0 then x else gcdLoop fuel y (x % y)

def gcdHelper (x y : Nat) : Nat := gcdLoop (y + 1) x y

/-- `gcd(x, y) = gcd_helper(abs(x), abs(y))` -/
def gcd (x y : Int) : Int := (gcdHelper x.natAbs y.natAbs : Nat)
/-- `gcd(x, y, z) = gcd(x, gcd(y, z))` -/
def gcd3 (x y z : Int) : Int := gcd x (gcd y z)
/-- `lcm(x, y) = abs(x * y) / gcd(x, y)`; only called with `x ≠ 0` and `y ≠ 0`
    (the quotient by a zero gcd, a CRAB_ERROR of z_number, is not reachable). -/
def lcm (x y : Int) : Int := Int.tdiv (iabs (x * y)) (gcd x y)

/-- loop of `bezout(x, y, u)` (extended Euclid) with fuel: state `(r0, r1, s0, s1)`;
    `q = r0 / r1; (r0, r1, s0, s1) := (r1, r0 - q*r1, s1, s0 - q*s1)` while `r1 != 0`.
    `|r1|` strictly decreases, so `|y| + 1` steps suffice. -/
def bezoutLoop : Nat → Int → Int → Int → Int → Int × Int
  | 0, r0, _, s0, _ => (r0, s0)
  | fuel + 1, r0, r1, s0, s1 =>
    if r1 = 0 then (r0, s0)
    else
      let q := Int.tdiv r0 r1
      bezoutLoop fuel r1 (r0 - q * r1) s1 (s0 - q * s1)

/-- `bezout(x, y, u)` : returns `(g, u)` with `g = gcd(x,y)` and `x*u ≡ g (mod y)` -/
def bezout (x y : Int) : Int × Int := bezoutLoop (y.natAbs + 1) x y 1 0

/-- `congruence(Number a, Number b)` followed by `normalize()`:
    `if (m_a < 0) m_a = -m_a; if (m_a != 0) { m_b = m_b % m_a; if (m_b < 0) m_b += m_a; }` -/
def mk' (a b : Int) : Cong :=
  let a' := if a < 0 then -a else a
  ⟨false, a',
    if a' ≠ 0 then (let m := Int.tmod b a'; if m < 0 then m + a' else m) else b⟩

/-- `congruence(Number n)` and the private `congruence(int n)` -/
def ofInt (n : Int) : Cong := ⟨false, 0, n⟩
/-- `congruence(true)` / `congruence()` : 1Z+0 -/
def top : Cong := ⟨false, 1, 0⟩
/-- `congruence(false)` -/
def bot : Cong := ⟨true, 1, 0⟩

def isBottom (c : Cong) : Bool := c.isBot
/-- `is_top()` : `m_a == 1` (the bottom flag is not consulted) -/
def isTop (c : Cong) : Bool := c.a == 1
/-- `is_zero()` -/
def isZero (c : Cong) : Bool := !c.isBot && c.a == 0 && c.b == 0
/-- `all_ones()` -/
def allOnes (c : Cong) : Bool := !c.isBot && c.a == 0 && c.b == -1
/-- `singleton()` -/
def singleton? (c : Cong) : Option Int := if !c.isBot && c.a == 0 then some c.b else none

/-- concretisation: `k ∈ γ(aZ+b)` iff not bottom and `a ∣ k - b` (for `a = 0`: `k = b`) -/
def mem (k : Int) (c : Cong) : Prop := c.isBot = false ∧ c.a ∣ k - c.b
instance (k : Int) (c : Cong) : Decidable (mem k c) := by unfold mem; exact inferInstance

/-- executable membership used by the driver -/
def contains (c : Cong) (k : Int) : Bool :=
  !c.isBot && (if c.a = 0 then k == c.b else (k - c.b) % c.a == 0)

/-- `operator==` -/
def beq (x o : Cong) : Bool := x.isBot == o.isBot && x.a == o.a && x.b == o.b

/-- `operator<=` -/
def leq (x o : Cong) : Bool :=
  if x.isBot then true
  else if o.isBot then false
  else if x.a = 0 ∧ o.a = 0 then x.b == o.b
  else if o.a = 0 then false
  else Int.tmod x.a o.a == 0 && Int.tmod (x.b - o.b) o.a == 0

/-- `operator|` -/
def join (x o : Cong) : Cong :=
  if x.isBot then o
  else if o.isBot then x
  else if x.isTop || o.isTop then top
  else mk' (gcd3 x.a o.a (iabs (x.b - o.b))) (imin x.b o.b)

/-- `operator&` -/
def meet (x o : Cong) : Cong :=
  if x.isBot || o.isBot then bot
  else if x.a = 0 ∧ o.a = 0 then (if x.b = o.b then x else bot)
  else if x.a = 0 then (if Int.tmod (x.b - o.b) o.a = 0 then x else bot)
  else if o.a = 0 then (if Int.tmod (o.b - x.b) x.a = 0 then o else bot)
  else
    let gu := bezout x.a o.a
    let g := gu.1
    let u := gu.2
    let d := o.b - x.b
    if Int.tmod d g = 0 then mk' (lcm x.a o.a) (x.b + x.a * (u * Int.tdiv d g)) else bot

/-- `operator||` : "Equivalent to join, domain is flat" -/
def widen (x o : Cong) : Cong := join x o

/-- `operator&&` : `(is_top()) ? o : *this` -/
def narrow (x o : Cong) : Cong := if x.isTop then o else x

/-- `operator+` -/
def add (x o : Cong) : Cong :=
  if x.isBot || o.isBot then bot
  else if x.isTop || o.isTop then top
  else mk' (gcd x.a o.a) (x.b + o.b)

/-- binary `operator-` -/
def sub (x o : Cong) : Cong :=
  if x.isBot || o.isBot then bot
  else if x.isTop || o.isTop then top
  else mk' (gcd x.a o.a) (x.b - o.b)

/-- unary `operator-` -/
def neg (x : Cong) : Cong :=
  if x.isBot || x.isTop then x else mk' x.a (-x.b + x.a)

/-- `operator*` -/
def mul (x o : Cong) : Cong :=
  if x.isBot || o.isBot then bot
  else if (x.isTop || o.isTop) && x.a != 0 && o.a != 0 then top
  else mk' (gcd3 (x.a * o.a) (x.a * o.b) (o.a * x.b)) (x.b * o.b)

/-- `operator/` (= `SDiv`) -/
def div (x o : Cong) : Cong :=
  if x.isBot || o.isBot then bot
  else if o.a = 0 ∧ o.b = 0 then bot           -- `o == congruence(0)`
  else if x.isTop || o.isTop then top
  else if o.a = 0 then
    (if x.a = 0 then ofInt (Int.tdiv x.b o.b)
     else if Int.tmod x.a o.b = 0 ∧ Int.tmod x.b o.b = 0 then mk' (Int.tdiv x.a o.b) (Int.tdiv x.b o.b)
     else top)
  else if x.isZero then x
  else top

/-- `operator%` (= `SRem`) -/
def srem (x o : Cong) : Cong :=
  if x.isBot || o.isBot then bot
  else if o.a = 0 ∧ o.b = 0 then bot
  else if x.isTop || o.isTop then top
  else if x.a = 0 ∧ o.a = 0 then ofInt (Int.tmod x.b o.b)
  else if o.a = 0 ∧ Int.tmod x.a o.b = 0 ∧ Int.tmod x.b o.b = 0 then ofInt 0
  else mk' (gcd3 x.a o.a o.b) x.b

/-- `UDiv` : top, whatever the operands -/
def udiv (_x _o : Cong) : Cong := top
/-- `URem` : top, whatever the operands -/
def urem (_x _o : Cong) : Cong := top

/-- `And` -/
def and (x o : Cong) : Cong :=
  if x.isBot || o.isBot then bot
  else if x.isTop || o.isTop then top
  else if x.isZero || o.isZero then ofInt 0
  else if x.allOnes then o
  else if o.allOnes then x
  else if x.a = 0 ∧ o.a = 0 then ofInt (ZNum.land x.b o.b)
  else top

/-- `Or` -/
def or (x o : Cong) : Cong :=
  if x.isBot || o.isBot then bot
  else if x.isTop || o.isTop then top
  else if x.allOnes || o.allOnes then ofInt (-1)
  else if x.isZero then o
  else if o.isZero then x
  else if x.a = 0 ∧ o.a = 0 then ofInt (ZNum.lor x.b o.b)
  else top

/-- `Xor` -/
def xor (x o : Cong) : Cong :=
  if x.isBot || o.isBot then bot
  else if x.isTop || o.isTop then top
  else if x.isZero then o
  else if o.isZero then x
  else if x.a = 0 ∧ o.a = 0 then ofInt (ZNum.lxor x.b o.b)
  else top

/-- `Shl`; `Number(1) << n` is `z_number::operator<<` (shift by `mpz_get_ui(n)`) -/
def shl (x o : Cong) : Cong :=
  if x.isBot || o.isBot then bot
  else if x.isTop || o.isTop then top
  else if o.a = 0 then
    if o.b < 0 then bot
    else
      let p := ZNum.shl 1 o.b
      mk' (x.a * p) (x.b * p)
  else
    let p := ZNum.shl 1 o.b
    let y := ZNum.shl 1 o.a
    mk' (gcd x.a (x.b * (y - 1)) * p) (x.b * p)

/-- `AShr` (both singletons: through `interval<Number>::AShr`) -/
def ashr (x o : Cong) : Cong :=
  if x.isBot || o.isBot then bot
  else if x.isTop || o.isTop then top
  else if o.a = 0 ∧ o.b < 0 then bot
  else if x.a = 0 ∧ o.a = 0 then
    match (Itv.ashr (Itv.single x.b) (Itv.single o.b)).singleton? with
    | some n => ofInt n
    | none => top
  else top

/-- `LShr` (both singletons: through `interval<Number>::LShr`) -/
def lshr (x o : Cong) : Cong :=
  if x.isBot || o.isBot then bot
  else if x.isTop || o.isTop then top
  else if o.a = 0 ∧ o.b < 0 then bot
  else if x.a = 0 ∧ o.a = 0 then
    match (Itv.lshr (Itv.single x.b) (Itv.single o.b)).singleton? with
    | some n => ofInt n
    | none => top
  else top

/-- the standard form every value built through the public API has: non-negative modulus,
    residue in `[0, a)` when `a ≠ 0`, and bottom carries the fields of `congruence(false)` -/
def WF (c : Cong) : Prop :=
  0 ≤ c.a ∧ (c.a ≠ 0 → 0 ≤ c.b ∧ c.b < c.a) ∧ (c.isBot = true → c.a = 1 ∧ c.b = 0)
instance (c : Cong) : Decidable (WF c) := by unfold WF; exact inferInstance

def toString (c : Cong) : String :=
  if c.isBot then "bot" else s!"(cg {c.a} {c.b})"
instance : ToString Cong := ⟨toString⟩

end Cong
end Crab
