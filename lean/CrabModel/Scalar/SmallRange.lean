/-
  Model of `crab::domains::small_range` (include/crab/domains/small_range.hpp,
  lib/small_range.cpp), transcribed branch by branch.

  The C++ state is `(kind_t m_kind, boost::optional<index_t> m_value)` with
  `m_value` present exactly for `ExactlyOne` and `ZeroOrOne` (both constructors enforce it with
  CRAB_ERROR).  The abstract counter values are

      0 , 1(V) , [0,1](V) , [1,+oo] , [0,+oo] (top) , bottom

  `1(V)` : "the counter is one and the counted variable is V".  The region domain uses one such
  counter per region ("how many references may point into the region") and only ever applies
  `increment`, the lattice operations and the tests `is_zero` / `is_one`.

  Operations whose C++ text contains a reachable-looking `CRAB_ERROR` (the `UNREACHABLE_BOTTOM`
  switch arms, the last arm of `operator&`) return `Option` (`none` = CRAB_ERROR); they are
  proved total in `CrabProofs/Props/C15.lean`.
-/
namespace Crab

inductive SmallRange where
  | bottom
  | zero
  | one (v : Nat)
  | zeroOrOne (v : Nat)
  | zeroOrMore
  | oneOrMore
  deriving DecidableEq, Repr, Inhabited

namespace SmallRange

/-- `small_range()` : "counter initialized to top" -/
def top : SmallRange := zeroOrMore

def isBottom : SmallRange → Bool | bottom => true | _ => false
def isTop : SmallRange → Bool | zeroOrMore => true | _ => false
def isZero : SmallRange → Bool | zero => true | _ => false
def isOne : SmallRange → Bool | one _ => true | _ => false

/-- `join_zero_with` (`this` is `ExactlyZero`) -/
def joinZeroWith : SmallRange → Option SmallRange
  | zero => some zero
  | one v => some (zeroOrOne v)
  | zeroOrOne v => some (zeroOrOne v)
  | zeroOrMore => some zeroOrMore
  | oneOrMore => some zeroOrMore
  | bottom => none

/-- `join_one_with` (`this` is `ExactlyOne v`) -/
def joinOneWith (v : Nat) : SmallRange → Option SmallRange
  | zero => some (zeroOrOne v)
  | one w => if v = w then some (one v) else some oneOrMore
  | zeroOrOne w => if v = w then some (zeroOrOne w) else some zeroOrMore
  | zeroOrMore => some zeroOrMore
  | oneOrMore => some oneOrMore
  | bottom => none

/-- `join_zero_or_one_with` (`this` is `ZeroOrOne v`); the `ExactlyOne` / `ZeroOrOne` arms fall
    through to `zeroOrMore()` when the variables differ -/
def joinZeroOrOneWith (v : Nat) : SmallRange → Option SmallRange
  | zero => some (zeroOrOne v)
  | one w => if v = w then some (zeroOrOne v) else some zeroOrMore
  | zeroOrOne w => if v = w then some (zeroOrOne v) else some zeroOrMore
  | zeroOrMore => some zeroOrMore
  | oneOrMore => some zeroOrMore
  | bottom => none

/-- `join_one_or_more_with` (`this` is `OneOrMore`) -/
def joinOneOrMoreWith : SmallRange → Option SmallRange
  | one _ => some oneOrMore
  | oneOrMore => some oneOrMore
  | zero => some zeroOrMore
  | zeroOrOne _ => some zeroOrMore
  | zeroOrMore => some zeroOrMore
  | bottom => none

/-- `operator|` : the same order of tests as the C++ -/
def join (x o : SmallRange) : Option SmallRange :=
  if x.isBottom || o.isTop then some o
  else if o.isBottom || x.isTop then some x
  else if x.isZero then joinZeroWith o
  else if o.isZero then joinZeroWith x
  else match x, o with
    | one v, _ => joinOneWith v o
    | _, one w => joinOneWith w x
    | zeroOrOne v, _ => joinZeroOrOneWith v o
    | _, zeroOrOne w => joinZeroOrOneWith w x
    | oneOrMore, _ => joinOneOrMoreWith o
    | _, oneOrMore => joinOneOrMoreWith x
    | _, _ => some zeroOrMore

/-- `operator||` : "the lattice has finite height so widening is the join" -/
def widen (x o : SmallRange) : Option SmallRange := join x o

/-- `meet_zero_with` -/
def meetZeroWith : SmallRange → Option SmallRange
  | one _ => some bottom
  | oneOrMore => some bottom
  | zero => some zero
  | zeroOrOne _ => some zero
  | zeroOrMore => some zero
  | bottom => none

/-- `meet_one_with` (`this` is `ExactlyOne v`) -/
def meetOneWith (v : Nat) : SmallRange → Option SmallRange
  | zero => some bottom
  | one w => if v = w then some (one v) else some bottom
  | zeroOrOne w => if v = w then some (one v) else some bottom
  | zeroOrMore => some (one v)
  | oneOrMore => some (one v)
  | bottom => none

/-- `meet_zero_or_one_with` (`this` is `ZeroOrOne v`) -/
def meetZeroOrOneWith (v : Nat) : SmallRange → Option SmallRange
  | zero => some zero
  | one w => if v = w then some (one w) else some bottom
  | zeroOrOne w => if v = w then some (zeroOrOne w) else some zero
  | oneOrMore => some (one v)
  | zeroOrMore => some (zeroOrOne v)
  | bottom => none

/-- `meet_one_or_more_with` (`this` is `OneOrMore`) -/
def meetOneOrMoreWith : SmallRange → Option SmallRange
  | zero => some bottom
  | one w => some (one w)
  | zeroOrOne w => some (one w)
  | zeroOrMore => some oneOrMore
  | oneOrMore => some oneOrMore
  | bottom => none

/-- `operator&` ; the final `else` is `CRAB_ERROR("unexpected small_range::meet operands")` -/
def meet (x o : SmallRange) : Option SmallRange :=
  if x.isBottom || o.isTop then some x
  else if o.isBottom || x.isTop then some o
  else if x.isZero then meetZeroWith o
  else if o.isZero then meetZeroWith x
  else match x, o with
    | one v, _ => meetOneWith v o
    | _, one w => meetOneWith w x
    | zeroOrOne v, _ => meetZeroOrOneWith v o
    | _, zeroOrOne w => meetZeroOrOneWith w x
    | oneOrMore, _ => meetOneOrMoreWith o
    | _, oneOrMore => meetOneOrMoreWith x
    | _, _ => none

/-- `operator&&` : "narrowing is the meet" -/
def narrow (x o : SmallRange) : Option SmallRange := meet x o

/-- `operator<=` (after fix 733b6ba: a non-bottom value is not below bottom).  The
    `UNREACHABLE_BOTTOM` arm of the `ExactlyOne` switch (CRAB_ERROR = `none`) is still in the text
    but cannot be reached any more (`leq_isSome`). -/
def leq (x o : SmallRange) : Option Bool :=
  if x = o then some true
  else if x.isBottom || o.isTop then some true
  else if o.isBottom then some false
  else match x with
    | zero => match o with | one _ => some false | oneOrMore => some false | _ => some true
    | one v => match o with
      | zero => some false
      | one _ => some false
      | zeroOrOne w => some (decide (v = w))
      | zeroOrMore => some true
      | oneOrMore => some true
      | bottom => none
    | zeroOrOne _ => match o with | zeroOrMore => some true | _ => some false
    | oneOrMore => match o with | zeroOrMore => some true | _ => some false
    | zeroOrMore => some false
    | bottom => some true

/-- `operator<=` as it was before fix 733b6ba: `0 <= bottom` answered yes (the `ExactlyZero` arm only
    excludes `ExactlyOne`/`OneOrMore`) and `1(V) <= bottom` reached the `UNREACHABLE_BOTTOM` arm
    (CRAB_ERROR = `none`).  Kept only for the counterexample that motivated the fix. -/
def leqOld (x o : SmallRange) : Option Bool :=
  if x = o then some true
  else if x.isBottom || o.isTop then some true
  else match x with
    | zero => match o with | one _ => some false | oneOrMore => some false | _ => some true
    | one v => match o with
      | zero => some false
      | one _ => some false
      | zeroOrOne w => some (decide (v = w))
      | zeroOrMore => some true
      | oneOrMore => some true
      | bottom => none
    | zeroOrOne _ => match o with | zeroOrMore => some true | _ => some false
    | oneOrMore => match o with | zeroOrMore => some true | _ => some false
    | zeroOrMore => some false
    | bottom => some true

/-- `increment(v)` : v is the variable that received the new reference.
    `ExactlyZero → ExactlyOne(v)`; everything else becomes `OneOrMore` (also `ExactlyOne(v)`
    incremented with the same `v`: the overwritten value of `v` is still a counted object);
    bottom stays bottom. -/
def increment (x : SmallRange) (v : Nat) : SmallRange :=
  match x with
  | bottom => bottom
  | zero => one v
  | one _ => oneOrMore
  | zeroOrOne _ => oneOrMore
  | zeroOrMore => oneOrMore
  | oneOrMore => oneOrMore

/-- `increment(v)` as it was before the fix 3175bba ("small_range::increment(v) on 1(v) must
    count two objects"): `ExactlyOne(v)` incremented with the same `v` stayed `ExactlyOne(v)`.
    Kept only to state the counterexample that motivated the fix. -/
def incrementOld (x : SmallRange) (v : Nat) : SmallRange :=
  match x with
  | bottom => bottom
  | zero => one v
  | one w => if w = v then one w else oneOrMore
  | zeroOrOne _ => oneOrMore
  | zeroOrMore => oneOrMore
  | oneOrMore => oneOrMore

/-- concretisation as a counter: the set of counter values an abstract value stands for -/
def γ : SmallRange → Nat → Prop
  | bottom, _ => False
  | zero, n => n = 0
  | one _, n => n = 1
  | zeroOrOne _, n => n ≤ 1
  | zeroOrMore, _ => True
  | oneOrMore, n => 1 ≤ n

instance (x : SmallRange) (n : Nat) : Decidable (γ x n) := by
  cases x <;> unfold γ <;> exact inferInstance

/-- concretisation as a set of counted variables (`S` = the variables that hold a counted
    reference): `1(V)` says the set is exactly `{V}`, `[0,1](V)` that it is a subset of `{V}` -/
def γV : SmallRange → (Nat → Prop) → Prop
  | bottom, _ => False
  | zero, S => ∀ x, ¬ S x
  | one v, S => ∀ x, S x ↔ x = v
  | zeroOrOne v, S => ∀ x, S x → x = v
  | zeroOrMore, _ => True
  | oneOrMore, S => ∃ x, S x

end SmallRange
end Crab
