/-
  Model of `ikos::interval<z_number>` (interval.hpp, interval_impl.hpp, lib/interval.cpp),
  transcribed branch by branch.  Bottom is the canonical pair [0,-1] exactly as in C++
  (`interval() : _lb(0), _ub(-1)`); `is_bottom` is `_lb > _ub`.

  Operations whose C++ code can reach CRAB_ERROR (bound `+` on opposite infinities,
  bound `/` by a zero bound) are written with `Option`; `none` = CRAB_ERROR.
-/
import CrabModel.Scalar.Bound
import CrabModel.Num.ZNum

namespace Crab

structure Itv where
  lb : Bound
  ub : Bound
  deriving DecidableEq, Repr, Inhabited

namespace Itv
open Bound

/-- `interval()` : the canonical bottom -/
def bot : Itv := ⟨fin 0, fin (-1)⟩
def top : Itv := ⟨ninf, pinf⟩

/-- `interval(bound lb, bound ub)` -/
def mk' (l u : Bound) : Itv := if Bound.gt l u then bot else ⟨l, u⟩
/-- `interval(Number n)` -/
def single (k : Int) : Itv := ⟨fin k, fin k⟩

def isBottom (i : Itv) : Bool := Bound.gt i.lb i.ub
def isTop (i : Itv) : Bool := i.lb.isInfinite && i.ub.isInfinite

/-- concretisation: `n ∈ γ i` -/
def mem (k : Int) (i : Itv) : Prop := Bound.le i.lb (fin k) = true ∧ Bound.le (fin k) i.ub = true
instance (k : Int) (i : Itv) : Decidable (mem k i) := by unfold mem; exact inferInstance

/-- `operator[](Number n)` -/
def contains (i : Itv) (k : Int) : Bool :=
  if i.isBottom then false else Bound.le i.lb (fin k) && Bound.le (fin k) i.ub

def lowerHalfLine (i : Itv) : Itv := mk' ninf i.ub
def upperHalfLine (i : Itv) : Itv := mk' i.lb pinf

/-- `operator==` -/
def beq (a b : Itv) : Bool :=
  if a.isBottom then b.isBottom else (a.lb == b.lb) && (a.ub == b.ub)

/-- `operator<=` -/
def leq (a b : Itv) : Bool :=
  if a.isBottom then true
  else if b.isBottom then false
  else Bound.le b.lb a.lb && Bound.le a.ub b.ub

/-- `operator|` -/
def join (a b : Itv) : Itv :=
  if a.isBottom then b else if b.isBottom then a
  else mk' (Bound.min a.lb b.lb) (Bound.max a.ub b.ub)

/-- `operator&` -/
def meet (a b : Itv) : Itv :=
  if a.isBottom || b.isBottom then bot
  else mk' (Bound.max a.lb b.lb) (Bound.min a.ub b.ub)

/-- `operator||` (widening) -/
def widen (a b : Itv) : Itv :=
  if a.isBottom then b else if b.isBottom then a
  else mk' (if Bound.lt b.lb a.lb then ninf else a.lb)
           (if Bound.lt a.ub b.ub then pinf else a.ub)

/-- `operator&&` (narrowing) -/
def narrow (a b : Itv) : Itv :=
  if a.isBottom || b.isBottom then bot
  else mk' (if a.lb.isInfinite && b.lb.isFinite then b.lb else a.lb)
           (if a.ub.isInfinite && b.ub.isFinite then b.ub else a.ub)

/-- `operator+` -/
def add (a b : Itv) : Option Itv :=
  if a.isBottom || b.isBottom then some bot
  else match Bound.add a.lb b.lb, Bound.add a.ub b.ub with
    | some l, some u => some (mk' l u)
    | _, _ => none

/-- unary `operator-` -/
def neg (a : Itv) : Itv :=
  if a.isBottom then bot else mk' (Bound.neg a.ub) (Bound.neg a.lb)

/-- binary `operator-` -/
def sub (a b : Itv) : Option Itv :=
  if a.isBottom || b.isBottom then some bot
  else match Bound.sub a.lb b.ub, Bound.sub a.ub b.lb with
    | some l, some u => some (mk' l u)
    | _, _ => none

/-- `operator*` -/
def mul (a b : Itv) : Itv :=
  if a.isBottom || b.isBottom then bot
  else
    let ll := Bound.mul a.lb b.lb
    let lu := Bound.mul a.lb b.ub
    let ul := Bound.mul a.ub b.lb
    let uu := Bound.mul a.ub b.ub
    mk' (Bound.min4 ll lu ul uu) (Bound.max4 ll lu ul uu)

/-- `singleton()` -/
def singleton? (a : Itv) : Option Int :=
  if !a.isBottom && a.lb == a.ub then a.lb.number? else none

/-- the four-corner quotient used by both division branches -/
def divCorners (a x : Itv) : Option Itv := do
  let ll ← Bound.div a.lb x.lb
  let lu ← Bound.div a.lb x.ub
  let ul ← Bound.div a.ub x.lb
  let uu ← Bound.div a.ub x.ub
  pure (mk' (Bound.min4 ll lu ul uu) (Bound.max4 ll lu ul uu))

/-- `z_interval::operator/` when neither operand is bottom and the divisor is
    a singleton different from 0: returns `some` in the three sub-cases. -/
def divSingleton (a : Itv) (c : Int) : Option (Option Itv) :=
  if c = 1 then some (some a)
  else if c > 0 then some (do
    let l ← Bound.div a.lb (fin c); let u ← Bound.div a.ub (fin c); pure (mk' l u))
  else if c < 0 then some (do
    let l ← Bound.div a.ub (fin c); let u ← Bound.div a.lb (fin c); pure (mk' l u))
  else none

/-- "Neither the dividend nor the divisor contains 0" branch, as coded (the dividend is
    shifted when it is negative: this is the branch reproduced as defect #1).
    `fixed = true` is the repaired code (the unshifted dividend). -/
def divNoZero (fixed : Bool) (a x : Itv) : Option Itv := do
  let a' ←
    if fixed then pure a
    else if Bound.lt a.ub (fin 0) then
      (if Bound.lt x.ub (fin 0) then do
          let s ← add x (single 1); add a s
        else do
          let s ← sub (single 1) x; add a s)
    else pure a
  divCorners a' x

/-- `z_interval::operator/`.  The C++ recursion (divisor containing 0 is split in
    [lb,-1] and [1,ub], then dividend containing 0 is split likewise) has depth ≤ 2;
    it is unrolled here. -/
def divNZ (fixed : Bool) (a x : Itv) : Option Itv :=
  -- precondition: a, x not bottom, x does not contain 0 (or is the singleton handled first)
  match (x.singleton?).bind (divSingleton a) with
  | some r => r
  | none =>
    if a.contains 0 then do
      let l := mk' a.lb (fin (-1))
      let u := mk' (fin 1) a.ub
      let ql ← divLeaf fixed l x
      let qu ← divLeaf fixed u x
      pure (join (join ql qu) (single 0))
    else divNoZero fixed a x
where
  /-- `l / x` for a dividend piece `l` that cannot contain 0 (may be bottom) -/
  divLeaf (fixed : Bool) (l x : Itv) : Option Itv :=
    if l.isBottom || x.isBottom then some bot
    else match (x.singleton?).bind (divSingleton l) with
      | some r => r
      | none => divNoZero fixed l x

def divGen (fixed : Bool) (a x : Itv) : Option Itv :=
  if a.isBottom || x.isBottom then some bot
  else
    match (x.singleton?).bind (divSingleton a) with
    | some r => r
    | none =>
      if x.contains 0 then do
        let l := mk' x.lb (fin (-1))
        let u := mk' (fin 1) x.ub
        let ql ← (if l.isBottom then some bot else divNZ fixed a l)
        let qu ← (if u.isBottom then some bot else divNZ fixed a u)
        pure (join ql qu)
      else divNZ fixed a x

/-- the division of the tree as it is (defect #1 repaired or not is decided by the
    correspondence: `Gen` parameters select which one the current tree implements) -/
def div (a x : Itv) : Option Itv := divGen true a x
def divOld (a x : Itv) : Option Itv := divGen false a x

def iabs (x : Int) : Int := if x < 0 then -x else x
def imax (x y : Int) : Int := if x ≤ y then y else x

/-- `z_interval::SRem` -/
def srem (a x : Itv) : Itv :=
  if a.isBottom || x.isBottom then bot
  else match a.singleton?, x.singleton? with
  | some dividend, some divisor =>
      if divisor = 0 then bot else single (Int.tmod dividend divisor)
  | _, _ =>
    match x.lb, x.ub with
    | fin xl, fin xu =>
      let m := imax (iabs xl) (iabs xu)
      if m = 0 then bot
      else if Bound.lt a.lb (fin 0) then
        if Bound.gt a.ub (fin 0) then mk' (fin (-(m - 1))) (fin (m - 1))
        else mk' (fin (-(m - 1))) (fin 0)
      else mk' (fin 0) (fin (m - 1))
    | _, _ => top

/-- `z_interval::URem` -/
def urem (a x : Itv) : Itv :=
  if a.isBottom || x.isBottom then bot
  else match a.singleton?, x.singleton? with
  | some dividend, some divisor =>
      if divisor < 0 then top
      else if divisor = 0 then bot
      else if dividend < 0 then mk' (fin 0) (fin (divisor - 1))
      else single (Int.tmod dividend divisor)
  | _, _ =>
    match x.lb, x.ub with
    | fin _, fin xu =>
      if Bound.lt x.lb (fin 0) || Bound.lt x.ub (fin 0) then top
      else if xu = 0 then bot
      else mk' (fin 0) (fin (xu - 1))
    | _, _ => top

/-- `z_interval::UDiv` (generic template: top unless bottom) -/
def udiv (a x : Itv) : Itv := if a.isBottom || x.isBottom then bot else top

/-- `z_interval::And` -/
def and (a x : Itv) : Itv :=
  if a.isBottom || x.isBottom then bot
  else match a.singleton?, x.singleton? with
  | some l, some r => single (ZNum.land l r)
  | _, _ =>
    if Bound.ge a.lb (fin 0) && Bound.ge x.lb (fin 0) then mk' (fin 0) (Bound.min a.ub x.ub)
    else top

/-- `z_interval::Or` -/
def or (a x : Itv) : Itv :=
  if a.isBottom || x.isBottom then bot
  else match a.singleton?, x.singleton? with
  | some l, some r => single (ZNum.lor l r)
  | _, _ =>
    if Bound.ge a.lb (fin 0) && Bound.ge x.lb (fin 0) then
      match a.ub, x.ub with
      | fin lu, fin ru =>
        let m := if lu > ru then lu else ru
        mk' (fin 0) (fin (ZNum.fillOnes m))
      | _, _ => mk' (fin 0) pinf
    else top

/-- `z_interval::Xor` -/
def xor (a x : Itv) : Itv :=
  if a.isBottom || x.isBottom then bot
  else match a.singleton?, x.singleton? with
  | some l, some r => single (ZNum.lxor l r)
  | _, _ => or a x

/-- `z_interval::Shl` -/
def shl (a x : Itv) : Itv :=
  if a.isBottom || x.isBottom then bot
  else match x.singleton? with
  | some k =>
    if k < 0 then top
    else if k ≤ 128 then mul a (single (2 ^ k.toNat))
    else top
  | none => top

/-- shift of one bound by `z_number::operator>>` (floor); infinite bounds are kept -/
def shrBound (b : Bound) (k : Int) : Bound :=
  match b with
  | fin n => fin (ZNum.shr n k)
  | x => x

/-- `z_interval::AShr` -/
def ashr (a x : Itv) : Itv :=
  if a.isBottom || x.isBottom then bot
  else match x.singleton? with
  | some k =>
    if k < 0 then top
    else if k ≤ 128 then mk' (shrBound a.lb k) (shrBound a.ub k)
    else top
  | none => top

/-- `z_interval::LShr` -/
def lshr (a x : Itv) : Itv :=
  if a.isBottom || x.isBottom then bot
  else match x.singleton? with
  | some k =>
    if k < 0 then top
    else if Bound.ge a.lb (fin 0) && a.ub.isFinite then
      match a.lb, a.ub with
      | fin l, fin u => mk' (fin (ZNum.shr l k)) (fin (ZNum.shr u k))
      | _, _ => top
    else top
  | none => top

/-- `linear_interval_solver_impl::trim_interval` (z_number) -/
def trim (i j : Itv) : Itv :=
  match j.singleton? with
  | some c =>
    if i.lb == fin c then mk' (fin (c + 1)) i.ub
    else if i.ub == fin c then mk' i.lb (fin (c - 1))
    else i
  | none => i

def toString (i : Itv) : String :=
  if i.isBottom then "_|_" else "[" ++ i.lb.toString ++ ", " ++ i.ub.toString ++ "]"
instance : ToString Itv := ⟨toString⟩

/-- well-formedness: what every interval built through the public API satisfies -/
def WF (i : Itv) : Prop := i.lb ≠ pinf ∧ i.ub ≠ ninf

end Itv
end Crab
