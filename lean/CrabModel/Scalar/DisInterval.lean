/-
  Model of `crab::domains::dis_interval<z_number>` (include/crab/domains/dis_interval.hpp,
  dis_interval_impl.hpp, lib/dis_interval.cpp): a state BOT / FINITE / TOP and a vector of
  intervals, transcribed branch by branch in the order of the C++ tests.

   * `m_state`, `m_list`                          : `Dis.st`, `Dis.l`
   * private `normalize(list, is_bottom)`          : `normalizeList`  (sort by lower bound, merge loop)
   * private `dis_interval(list, Normalize=true)`  : `mkList`  (normalize, then all intervals are merged
                                                     when 50 = `max_num_disjunctions` or more remain)
   * `dis_interval(interval)`                      : `ofItv`
   * public `normalize()`                          : `normalize` (keeps the stale list when the state changes)
   * `operator<= == | & || && widening_thresholds` : `leq beq join meet widen narrow widenTh`
   * `apply_bin_op`, `apply_unary_op`              : `applyBin`, `applyUn` and the arithmetic built on them
   * `trim_interval`, `lower_half_line`, `upper_half_line` (lib/dis_interval.cpp) : `trim`, ...

  `none` = CRAB_ERROR (`approx` of an empty list, the errors of the interval operations).
  FINITE values with an empty list cannot be built through the interface; where the C++ code
  would index an empty vector (undefined behaviour) the model answers `top` (see `widenWith`).
-/
import CrabModel.Scalar.Interval
import CrabModel.Dom.IntervalDomain

namespace Crab

inductive DisState where
  | bot | fin | top
  deriving DecidableEq, Repr, Inhabited

structure Dis where
  st : DisState
  l : List Itv
  deriving DecidableEq, Repr, Inhabited

namespace Dis
open Bound

/-- `dis_interval(TOP)` / the default constructor -/
def top : Dis := ⟨.top, []⟩
/-- `dis_interval(BOT)` -/
def bot : Dis := ⟨.bot, []⟩

def isBottom (x : Dis) : Bool := x.st == .bot
def isTop (x : Dis) : Bool := x.st == .top
def isFinite (x : Dis) : Bool := x.st == .fin

/-- `b + Number(1)` on bounds (never an error: one operand is finite) -/
def succB : Bound → Bound
  | .fin k => .fin (k + 1)
  | b => b

/-- `are_consecutive` -/
def areConsecutive (i1 i2 : Itv) : Bool :=
  ((Bound.le i1.lb i2.lb && Bound.le i1.ub i2.ub) && (succB i1.ub == i2.lb)) ||
  ((Bound.le i2.lb i1.lb && Bound.le i2.ub i1.ub) && (succB i2.ub == i1.lb))

/-- `overlap` -/
def overlap (i1 i2 : Itv) : Bool := !(Itv.meet i1 i2).isBottom

/-- `IsOnTheLeft` -/
def isOnTheLeft (i1 i2 : Itv) : Bool := Bound.le i1.ub i2.lb && (i1.ub != i2.lb)

/-- `std::sort` with the comparator `a.lb() < b.lb()` (insertion sort, stable; the merge loop
    below does not depend on the order of intervals with equal lower bounds) -/
def insertByLb (x : Itv) : List Itv → List Itv
  | [] => [x]
  | y :: ys => if Bound.le x.lb y.lb then x :: y :: ys else y :: insertByLb x ys

def sortByLb : List Itv → List Itv
  | [] => []
  | x :: xs => insertByLb x (sortByLb xs)

/-- the loop `while (refined && res.size() > 0)` of `normalize` and of the two tails of
    `operator|`; `res` is the result vector, last element first.  `none` in the second
    component is `goto next_iter` (the interval is subsumed), `some v` is the interval to push. -/
def absorb : Itv → List Itv → List Itv × Option Itv
  | intv, [] => ([], some intv)
  | intv, prev :: rest =>
    if overlap prev intv || areConsecutive prev intv then absorb (Itv.join prev intv) rest
    else if Itv.leq intv prev then (prev :: rest, none)
    else (prev :: rest, some intv)

/-- the `for` loop of `normalize` over the sorted vector; state: `res` (last first), `prev`,
    `bottoms`.  `none` = `return list_intervals_t()` with `is_bottom = false` (a top interval). -/
def normLoop : List Itv → List Itv → Itv → Nat → Option (List Itv × Nat)
  | [], res, _, bottoms => some (res, bottoms)
  | intv :: more, res, prev, bottoms =>
    if intv.isTop then none
    else if Itv.beq prev intv then normLoop more res prev bottoms
    else if intv.isBottom then normLoop more res prev (bottoms + 1)
    else
      match (if !prev.isTop then absorb intv res else (res, some intv)) with
      | (res', none) => normLoop more res' (res'.headD prev) bottoms
      | (res', some v) => if v.isTop then none else normLoop more (v :: res') v bottoms

/-- private `normalize(l, is_bottom)` : the new vector and `is_bottom` -/
def normalizeList (l : List Itv) : List Itv × Bool :=
  if l.length ≤ 1 then (l, false)
  else match normLoop (sortByLb l) [] Itv.top 0 with
    | none => ([], false)
    | some (res, bottoms) => (res.reverse, bottoms == l.length)

/-- private `approx(list)` of a non-empty vector: `x[0] | x[size-1]` -/
def approxNE (x : Itv) (xs : List Itv) : Itv :=
  match xs with
  | [] => x
  | y :: ys => Itv.join x ((y :: ys).getLast (by simp))

/-- private `approx(list)`; `none` = CRAB_ERROR("list should not be empty") -/
def approxList : List Itv → Option Itv
  | [] => none
  | x :: xs => some (approxNE x xs)

def maxDisjunctions : Nat := 50

/-- private `dis_interval(list, Normalize = true)` -/
def mkList (l : List Itv) : Dis :=
  match normalizeList l with
  | (_, true) => ⟨.bot, []⟩
  | ([], false) => ⟨.top, []⟩
  | (x :: xs, false) =>
    if (x :: xs).length ≥ maxDisjunctions then ⟨.fin, [approxNE x xs]⟩ else ⟨.fin, x :: xs⟩

/-- `dis_interval(interval_t i)` -/
def ofItv (i : Itv) : Dis :=
  if i.isTop then ⟨.top, []⟩ else if i.isBottom then ⟨.bot, []⟩ else ⟨.fin, [i]⟩

/-- public `normalize()`: the vector is replaced only when the state stays FINITE -/
def normalize (x : Dis) : Dis :=
  if x.isBottom || x.isTop then x
  else match normalizeList x.l with
    | (_, true) => ⟨.bot, x.l⟩
    | ([], false) => ⟨.top, x.l⟩
    | (r, false) => ⟨.fin, r⟩

/-- public `approx()` -/
def approx (x : Dis) : Option Itv :=
  if x.isBottom then some Itv.bot else if x.isTop then some Itv.top else approxList x.l

/-- `singleton()` -/
def singleton? (x : Dis) : Option (Option Int) := (approx x).map Itv.singleton?

/-- private `check_well_formed` (only called under `assert`); `none` = CRAB_ERROR -/
def checkWellFormed (x : Dis) : Option Bool :=
  if x.isTop || x.isBottom then some true
  else if !x.isFinite then none
  else match x.l with
    | [] => none
    | [a] => if a.isTop || a.isBottom then none else some true
    | a :: b :: more =>
      let rec go : Itv → List Itv → Option Bool
        | _, [] => some true
        | p, c :: cs => if isOnTheLeft p c then go c cs else none
      go a (b :: more)

/-- `operator==` (syntactic) -/
def beq (x y : Dis) : Bool :=
  if x.isBottom && y.isBottom then true
  else if x.isTop && y.isTop then true
  else if x.isBottom || y.isBottom then false
  else if x.isTop || y.isTop then false
  else if x.l.length != y.l.length then false
  else (x.l.zip y.l).all (fun p => Itv.beq p.1 p.2)

/-- the two nested loops of `operator<=`: `j` is not reset between two values of `i` -/
def leqLoop : List Itv → List Itv → Bool
  | [], _ => true
  | a :: as, os =>
    match os.dropWhile (fun o => !(Itv.leq a o)) with
    | [] => false
    | o :: os' => leqLoop as (o :: os')

/-- `operator<=` -/
def leq (x y : Dis) : Bool :=
  if x.isBottom || y.isTop then true
  else if y.isBottom || x.isTop then false
  else leqLoop x.l y.l

/-- main loop of `operator|`; `fuel ≥ |xs| + |ys|`.  `none` = `return dis_interval()` (top);
    otherwise the unread tails and `res` (last first). -/
def joinMain : Nat → List Itv → List Itv → List Itv → Option (List Itv × List Itv × List Itv)
  | 0, xs, ys, res => some (xs, ys, res)
  | _, [], ys, res => some ([], ys, res)
  | _, xs, [], res => some (xs, [], res)
  | fuel + 1, a :: as, b :: bs, res =>
    if a.isTop || b.isTop then none
    else if a.isBottom then joinMain fuel as (b :: bs) res
    else if b.isBottom then joinMain fuel (a :: as) bs res
    else if Itv.beq a b then joinMain fuel as bs (a :: res)
    else if Itv.leq a b then joinMain fuel as bs (b :: res)
    else if Itv.leq b a then joinMain fuel as bs (a :: res)
    else if overlap a b || areConsecutive a b then joinMain fuel as bs (Itv.join a b :: res)
    else if isOnTheLeft a b then joinMain fuel as (b :: bs) (a :: res)
    else joinMain fuel (a :: as) bs (b :: res)

/-- "consume the rest of the left / right operand" -/
def restLoop : List Itv → List Itv → List Itv
  | [], res => res
  | intv :: more, res =>
    match absorb intv res with
    | (res', none) => restLoop more res'
    | (res', some v) => restLoop more (v :: res')

/-- `operator|` -/
def join (x y : Dis) : Dis :=
  if x.isBottom then y
  else if y.isBottom then x
  else if x.isTop then x
  else if y.isTop then y
  else match joinMain (x.l.length + y.l.length) x.l y.l [] with
    | none => ⟨.top, []⟩
    | some (xs, ys, res) =>
      let res := (restLoop ys (restLoop xs res)).reverse
      match res with
      | [] => ⟨.bot, []⟩
      | [r] => if r.isTop then ⟨.top, []⟩ else mkList [r]
      | _ => mkList res

/-- `operator&` -/
def meet (x y : Dis) : Dis :=
  if x.isBottom || y.isBottom then bot
  else if x.isTop then y
  else if y.isTop then x
  else
    let res := (x.l.flatMap (fun a => y.l.map (fun b => Itv.meet a b))).filter (fun m => !m.isBottom)
    if res.isEmpty then bot else mkList res

/-- `widening(o, widen_op)`; `wop` is `WidenOp::apply` -/
def widenWith (wop : Itv → Itv → Itv) (x y : Dis) : Dis :=
  if x.isBottom then y
  else if y.isBottom then x
  else if x.isTop then x
  else if y.isTop then y
  else match x.l, y.l with
    | [a], [b] => ofItv (wop a b)
    | [a], b :: b' :: bs => ofItv (wop a (approxNE b (b' :: bs)))
    | a :: a' :: as, [b] => ofItv (wop (approxNE a (a' :: as)) b)
    | a :: a' :: as, b :: b' :: bs =>
      let lbW := wop a b
      let ubW := wop ((a' :: as).getLast (by simp)) ((b' :: bs).getLast (by simp))
      let stable := mkList (lbW :: ((a' :: as).dropLast ++ [ubW]))
      if stable.isTop || leq y stable then stable
      else ofItv (wop (approxNE a (a' :: as)) (approxNE b (b' :: bs)))
    | _, _ => top   -- a FINITE value with an empty vector: undefined behaviour in C++

/-- `operator||` -/
def widen (x y : Dis) : Dis := widenWith Itv.widen x y
/-- `widening_thresholds` -/
def widenTh (ts : IDom.Thresholds) (x y : Dis) : Dis := widenWith (IDom.widenTh ts) x y
/-- `operator&&` is the meet -/
def narrow (x y : Dis) : Dis := meet x y

/-- the scan of the interval results in `apply_bin_op` / `apply_unary_op`:
    `none` = CRAB_ERROR inside an interval operation, `some none` = `return top`,
    `some (some res)` = the non-bottom results in order -/
def scan : List (Option Itv) → List Itv → Option (Option (List Itv))
  | [], acc => some (some acc.reverse)
  | none :: _, _ => none
  | some i :: more, acc =>
    if i.isBottom then scan more acc
    else if i.isTop then some none
    else scan more (i :: acc)

def finish : Option (Option (List Itv)) → Option Dis
  | none => none
  | some none => some top
  | some (some []) => some bot
  | some (some (r :: rs)) => some (mkList (r :: rs))

/-- `apply_bin_op(x, y, op, shortcut_top)` -/
def applyBin (op : Itv → Itv → Option Itv) (shortcut : Bool) (x y : Dis) : Option Dis :=
  if x.isBottom || y.isBottom then some bot
  else if x.isTop && y.isTop then some top
  else if shortcut && (x.isTop || y.isTop) then some top
  else if shortcut || (x.isFinite && y.isFinite) then
    finish (scan (x.l.flatMap (fun a => y.l.map (fun b => op a b))) [])
  else if !x.isTop then finish (scan (x.l.map (fun a => op a Itv.top)) [])
  else finish (scan (y.l.map (fun b => op Itv.top b)) [])

/-- `apply_unary_op(x, op)` -/
def applyUn (op : Itv → Itv) (x : Dis) : Option Dis :=
  if x.isBottom then some bot
  else if x.isTop then some top
  else if x.l.isEmpty then none
  else finish (scan (x.l.map (fun a => some (op a))) [])

/-- every public arithmetic operator first tests `is_bottom() || x.is_bottom()` -/
def binOp (op : Itv → Itv → Option Itv) (shortcut : Bool) (x y : Dis) : Option Dis :=
  if x.isBottom || y.isBottom then some bot else applyBin op shortcut x y

def add (x y : Dis) : Option Dis := binOp Itv.add true x y
def sub (x y : Dis) : Option Dis := binOp Itv.sub true x y
def mul (x y : Dis) : Option Dis := binOp (fun a b => some (Itv.mul a b)) true x y
def div (x y : Dis) : Option Dis := binOp Itv.div false x y
/-- `UDiv` is coded with the signed interval division `a / b` -/
def udiv (x y : Dis) : Option Dis := binOp Itv.div false x y
def srem (x y : Dis) : Option Dis := binOp (fun a b => some (Itv.srem a b)) false x y
def urem (x y : Dis) : Option Dis := binOp (fun a b => some (Itv.urem a b)) false x y
def and (x y : Dis) : Option Dis := binOp (fun a b => some (Itv.and a b)) false x y
def or (x y : Dis) : Option Dis := binOp (fun a b => some (Itv.or a b)) false x y
def xor (x y : Dis) : Option Dis := binOp (fun a b => some (Itv.xor a b)) false x y
def shl (x y : Dis) : Option Dis := binOp (fun a b => some (Itv.shl a b)) false x y
def lshr (x y : Dis) : Option Dis := binOp (fun a b => some (Itv.lshr a b)) false x y
def ashr (x y : Dis) : Option Dis := binOp (fun a b => some (Itv.ashr a b)) false x y

def unOp (op : Itv → Itv) (x : Dis) : Option Dis := if x.isBottom then some bot else applyUn op x
/-- unary `operator-` -/
def neg (x : Dis) : Option Dis := unOp Itv.neg x
def lowerHalfLine (x : Dis) : Option Dis := unOp Itv.lowerHalfLine x
def upperHalfLine (x : Dis) : Option Dis := unOp Itv.upperHalfLine x

/-- the body of the loop of `trim_interval` for one interval `i` of `x` -/
def trimStep (c : Int) (res : Dis) (i : Itv) : Dis :=
  if !(Itv.leq (Itv.single c) i) then join res (ofItv i)
  else if i.lb == .fin c then join res (ofItv (Itv.mk' (.fin (c + 1)) i.ub))
  else if i.ub == .fin c then join res (ofItv (Itv.mk' i.lb (.fin (c - 1))))
  else join (join res (ofItv (Itv.mk' i.lb (.fin (c - 1))))) (ofItv (Itv.mk' (.fin (c + 1)) i.ub))

/-- `linear_interval_solver_impl::trim_interval(x, y)` for `dis_interval<z_number>` -/
def trim (x y : Dis) : Option Dis :=
  if x.isBottom then some x
  else match singleton? y with
    | none => none
    | some none => some x
    | some (some c) =>
      if x.isTop then
        some (join (join bot (ofItv (Itv.single (c - 1)).lowerHalfLine)) (ofItv (Itv.single (c + 1)).upperHalfLine))
      else some (x.l.foldl (trimStep c) bot)

/-- concretisation: `k ∈ γ(x)` -/
def mem (k : Int) (x : Dis) : Prop :=
  match x.st with
  | .bot => False
  | .top => True
  | .fin => ∃ i ∈ x.l, Itv.mem k i

instance (k : Int) (x : Dis) : Decidable (mem k x) := by
  unfold mem; split <;> exact inferInstance

def contains (x : Dis) (k : Int) : Bool :=
  match x.st with
  | .bot => false
  | .top => true
  | .fin => x.l.any (fun i => i.contains k)

/-- a proper element of a normalised vector: not bottom, not top, `lb ≠ +oo`, `ub ≠ -oo` -/
def proper (a : Itv) : Bool :=
  !a.isBottom && !a.isTop && decide (a.lb ≠ .pinf) && decide (a.ub ≠ .ninf)

/-- `a` lies on the left of `b` and at least one integer separates them -/
def gapOk (a b : Itv) : Bool :=
  match a.ub, b.lb with
  | .fin u, .fin l => decide (u + 1 < l)
  | _, _ => false

/-- what `normalize` establishes: proper intervals, strictly sorted, not adjacent -/
def WFList (l : List Itv) : Prop := (∀ a ∈ l, proper a = true) ∧ l.Pairwise (fun a b => gapOk a b = true)

instance (l : List Itv) : Decidable (WFList l) := by unfold WFList; exact inferInstance

/-- the invariant of the class: BOT and TOP carry no vector, a FINITE value carries a normalised
    vector of 1 to 49 intervals -/
def WF (x : Dis) : Prop :=
  match x.st with
  | .fin => x.l ≠ [] ∧ x.l.length < maxDisjunctions ∧ WFList x.l
  | _ => x.l = []

instance (x : Dis) : Decidable (WF x) := by unfold WF; split <;> exact inferInstance

/-- the weaker condition under which every operation is sound: the intervals of the vector (in any
    order, overlapping or not, bottom and top included) have `lb ≠ +oo` and `ub ≠ -oo` -/
def EWF (x : Dis) : Prop := ∀ a ∈ x.l, a.lb ≠ .pinf ∧ a.ub ≠ .ninf

instance (x : Dis) : Decidable (EWF x) := by unfold EWF; exact inferInstance

end Dis
end Crab
