import CrabModel.Num.WrapInt
import CrabModel.Scalar.Interval

/-!
  Model of `crab::domains::wrapped_interval<ikos::z_number>`
  (include/crab/domains/wrapped_interval.hpp, wrapped_interval_impl.hpp, lib/wrapped_interval.cpp),
  branch by branch, in the order of the tests of the C++.

  An object is `(m_start, m_end : wrapint, m_is_bottom : bool)`.
  * `bottom()` is `(0@1, 0@1, true)`.
  * `top()` is `(0@3, 7@3, false)`; `is_top()` is `!m_is_bottom && m_end - m_start == umax(width)`,
    so every full circle of every width is top, and the object `top()` has width 3 whatever the
    width of the operands that produced it.

  Scope: every binary operation is modelled for operands that are bottom, top (any full circle)
  or of one common width `1..64` (what the clients and the harness build).  Under that
  assumption no `wrapint` operation can raise the width-mismatch CRAB_ERROR, and the model uses
  the total forms `addT/subT/mulT/…` of the wrapint operations (`CrabModel/Num/WrapInt.lean`
  keeps the `Option` forms; they agree when the widths are equal, see
  `CrabProofs/Lemmas/WInterval.lean`).  Operands of different widths are outside the model.

  `none` = CRAB_ERROR (no C++ undefined behaviour is left: the wrapint shifts are total and the
  widening computes `(uint64_t)1 << (w - 3)`).

  State of the code: after the fixes to `signed_mul` (overflow tests on signed values), `UDiv`
  (`unsigned_split`), the widening (third case guarded by `*this <= x`, 64-bit shift), `ZExt/SExt`
  of top, `Shl` by the bitwidth or more.
  `assert`s of the C++ are not modelled (the library is built with NDEBUG as in the pinned build
  configuration; they hold on every path the model can take, except `assert(w > 1)` in the
  widening of 1-bit intervals: see `widen`).

  Not modelled: `widening_thresholds` (needs the thresholds object), `write`.
-/
namespace Crab

namespace WrapInt

/-! total forms of the wrapint operations for operands of equal width -/
def addT (a b : WrapInt) : WrapInt := ⟨a.width, red a.width ((a.n + b.n) % 2 ^ 64)⟩
def subT (a b : WrapInt) : WrapInt := ⟨a.width, red a.width ((a.n + 2 ^ 64 - b.n % 2 ^ 64) % 2 ^ 64)⟩
def mulT (a b : WrapInt) : WrapInt := ⟨a.width, red a.width ((a.n * b.n) % 2 ^ 64)⟩
/-- `wrapint(n, w)` for a legal width -/
def ofNatT (n w : Nat) : WrapInt := ⟨w, if w < 64 then n % 2 ^ w else n⟩
/-- `get_unsigned_max(w)`, `get_unsigned_min(w)`, `get_signed_max(w)`, `get_signed_min(w)`
    for a legal width -/
def umaxT (w : Nat) : WrapInt := ⟨w, 2 ^ w - 1⟩
def uminT (w : Nat) : WrapInt := ⟨w, 0⟩
def smaxT (w : Nat) : WrapInt := ⟨w, 2 ^ (w - 1) - 1⟩
def sminT (w : Nat) : WrapInt := ⟨w, 2 ^ (w - 1)⟩

end WrapInt

open WrapInt

structure WInt where
  start : WrapInt
  stop : WrapInt
  isBottom : Bool
  deriving DecidableEq, Repr, Inhabited

namespace WInt

/-- `top()` -/
def top : WInt := ⟨⟨3, 0⟩, ⟨3, 7⟩, false⟩
/-- `bottom()` -/
def bottom : WInt := ⟨⟨1, 0⟩, ⟨1, 0⟩, true⟩
/-- `wrapped_interval(start, end)` (equal widths) -/
def mk2 (s e : WrapInt) : WInt := ⟨s, e, false⟩
/-- `wrapped_interval(wrapint n)` -/
def single (n : WrapInt) : WInt := ⟨n, n, false⟩

/-- `is_top()` -/
def isTop (x : WInt) : Bool :=
  !x.isBottom && ((subT x.stop x.start).n == (umaxT x.start.width).n)

/-- the width of a proper (non-top, non-bottom) interval: `get_bitwidth` -/
def width (x : WInt) : Nat := x.start.width

/-- `get_bitwidth(line)`: CRAB_ERROR on bottom and on top -/
def getBitwidth? (x : WInt) : Option Nat :=
  if x.isBottom then none else if x.isTop then none else some x.start.width

/-- `at(wrapint x)` -/
def «at» (x : WInt) (v : WrapInt) : Bool :=
  if x.isBottom then false
  else if x.isTop then true
  else decide ((subT v x.start).n ≤ (subT x.stop x.start).n)

/-- `operator<=` (`leq x y` is `x <= y`) -/
def leq (x y : WInt) : Bool :=
  if y.isTop || x.isBottom then true
  else if y.isBottom || x.isTop then false
  else if x.start.n == y.start.n && x.stop.n == y.stop.n then true
  else y.at x.start && y.at x.stop && (!(x.at y.start) || !(x.at y.stop))

/-- `operator==` -/
def eq (x y : WInt) : Bool := x.leq y && y.leq x

/-- `is_singleton()` -/
def isSingleton (x : WInt) : Bool := !x.isBottom && !x.isTop && (x.start.n == x.stop.n)

/-- `operator|` -/
def join (x y : WInt) : WInt :=
  if x.leq y then y
  else if y.leq x then x
  else if y.at x.start && y.at x.stop && x.at y.start && x.at y.stop then top
  else if y.at x.stop && x.at y.start then mk2 x.start y.stop
  else if x.at y.stop && y.at x.start then mk2 y.start x.stop
  else
    let spanA := subT y.start x.stop
    let spanB := subT x.start y.stop
    if decide (spanA.n < spanB.n) || (spanA.n == spanB.n && decide (x.start.n ≤ y.start.n)) then
      mk2 x.start y.stop
    else mk2 y.start x.stop

/-- `operator&` (`operator&&` calls it too) -/
def meet (x y : WInt) : WInt :=
  if x.leq y then x
  else if y.leq x then y
  else if y.at x.start then
    if x.at y.start then
      let spanA := subT x.stop x.start
      let spanB := subT y.stop y.start
      if decide (spanA.n < spanB.n) || (spanA.n == spanB.n && decide (x.start.n ≤ y.start.n)) then x
      else y
    else if y.at x.stop then x
    else mk2 x.start y.stop
  else if x.at y.start then
    if x.at y.stop then y
    else mk2 y.start x.stop
  else bottom

/-- the constant `max` of the widening (`growth_rate = 8`): `wrapint((uint64_t)1 << (w - 3), w)` if
    `w > 3`; otherwise the `switch` falls through `case 16` (`w > 4` is false) to the default
    `wrapint((uint64_t)1 << (w - 1), w)` -/
def widenMax (w : Nat) : WrapInt :=
  if w > 3 then ofNatT (2 ^ (w - 3)) w else ofNatT (2 ^ (w - 1)) w

/-- `operator||`.  (`assert(w > 1)` on the default branch of the `switch` would abort an
    assert-enabled build for 1-bit operands; with NDEBUG `max = wrapint(1 << 0, 1)`.) -/
def widen (x y : WInt) : WInt :=
  if x.isBottom then y
  else if y.isBottom then x
  else if x.isTop || y.isTop then top
  else if y.leq x then x
  else
    let w := y.start.width
    let max := widenMax w
    if decide ((subT x.stop x.start).n ≥ max.n) then top
    else
      let j := join x y
      let c (k : Nat) := ofNatT k w
      if j.eq (mk2 x.start y.stop) then
        let newEnd := addT (subT (mulT x.stop (c 8)) (mulT x.start (c 7))) (c 7)
        join j (mk2 x.start newEnd)
      else if j.eq (mk2 y.start x.stop) then
        let newStart := subT (subT (mulT x.start (c 8)) (mulT x.stop (c 7))) (c 7)
        join j (mk2 newStart x.stop)
      else if x.leq y then
        let delta := addT (subT (mulT x.stop (c 8)) (mulT x.start (c 8))) (c 7)
        join y (mk2 y.start (addT y.start delta))
      else top

/-- `operator+` -/
def add (x y : WInt) : WInt :=
  if x.isBottom || y.isBottom then bottom
  else if x.isTop || y.isTop then top
  else
    let ysz := subT y.stop y.start
    let sz := subT x.stop x.start
    let one := ofNatT 1 ysz.width
    if decide ((addT (addT ysz sz) one).n ≤ ysz.n) then top
    else mk2 (addT x.start y.start) (addT x.stop y.stop)

/-- `operator-` (binary) -/
def sub (x y : WInt) : WInt :=
  if x.isBottom || y.isBottom then bottom
  else if x.isTop || y.isTop then top
  else
    let ysz := subT y.stop y.start
    let sz := subT x.stop x.start
    let one := ofNatT 1 ysz.width
    if decide ((addT (addT ysz sz) one).n ≤ ysz.n) then top
    else mk2 (subT x.start y.stop) (subT x.stop y.start)

/-- unary `operator-` -/
def neg (x : WInt) : WInt :=
  if x.isBottom then bottom
  else if x.isTop then top
  else mk2 (WrapInt.neg x.stop) (WrapInt.neg x.start)

/-- `signed_limit(b)` (north pole) / `unsigned_limit(b)` (south pole) -/
def signedLimit (b : Nat) : WInt := mk2 (smaxT b) (sminT b)
def unsignedLimit (b : Nat) : WInt := mk2 (umaxT b) (uminT b)

/-- `cross_signed_limit()` / `cross_unsigned_limit()` (CRAB_ERROR on top / bottom) -/
def crossSignedLimit? (x : WInt) : Option Bool :=
  match x.getBitwidth? with
  | none => none
  | some b => some ((signedLimit b).leq x)
def crossUnsignedLimit? (x : WInt) : Option Bool :=
  match x.getBitwidth? with
  | none => none
  | some b => some ((unsignedLimit b).leq x)

/-- `signed_split` (nsplit).  `get_bitwidth` is called before the `is_top()` test, so a top
    operand raises CRAB_ERROR and the `is_top()` branch is dead code. -/
def signedSplit? (x : WInt) : Option (List WInt) :=
  if x.isBottom then some []
  else match x.getBitwidth? with
    | none => none
    | some b =>
      if (signedLimit b).leq x then some [mk2 x.start (smaxT b), mk2 (sminT b) x.stop]
      else some [x]

/-- `unsigned_split` (ssplit) -/
def unsignedSplit? (x : WInt) : Option (List WInt) :=
  if x.isBottom then some []
  else match x.getBitwidth? with
    | none => none
    | some b =>
      if (unsignedLimit b).leq x then some [mk2 x.start (umaxT b), mk2 (uminT b) x.stop]
      else some [x]

/-- `signed_and_unsigned_split` (cut) -/
def cut? (x : WInt) : Option (List WInt) := do
  let ss ← signedSplit? x
  let parts ← ss.mapM unsignedSplit?
  pure parts.flatten

/-- `unsigned_mul` -/
def unsignedMul (x y : WInt) : WInt :=
  let b := x.start.width
  if ((x.stop.n : Int) * y.stop.n - (x.start.n : Int) * y.start.n) < ((umaxT b).n : Int) then
    mk2 (mulT x.start y.start) (mulT x.stop y.stop)
  else top

/-- `get_signed_bignum` of an end point, total form (xor with the all-ones of the width) -/
def sgnT (a : WrapInt) : Int :=
  if a.msb then -(((a.n ^^^ (umaxT a.width).n : Nat) : Int) + 1) else (a.n : Int)

/-- `signed_mul` (the overflow tests read the bounds as signed numbers) -/
def signedMul (x y : WInt) : WInt :=
  let ms := x.start.msb
  let me := x.stop.msb
  let mxs := y.start.msb
  let mxe := y.stop.msb
  let b := x.start.width
  let um : Int := (umaxT b).n
  if ms == me && me == mxs && mxs == mxe then
    if !ms then unsignedMul x y
    else if (sgnT x.start * sgnT y.start - sgnT x.stop * sgnT y.stop) < um then
      mk2 (mulT x.stop y.stop) (mulT x.start y.start)
    else top
  else if !(ms != me || mxs != mxe) then
    if ms && !mxs then
      if (sgnT x.stop * sgnT y.start - sgnT x.start * sgnT y.stop) < um then
        mk2 (mulT x.start y.stop) (mulT x.stop y.start)
      else top
    else if !ms && mxs then
      if (sgnT x.start * sgnT y.stop - sgnT x.stop * sgnT y.start) < um then
        mk2 (mulT x.stop y.start) (mulT x.start y.stop)
      else top
    else top
  else top

/-- `exact_meet` -/
def exactMeet (x y : WInt) : List WInt :=
  if x.isBottom || y.isBottom then []
  else if x.eq y || x.isTop then [y]
  else if y.isTop then [x]
  else if y.at x.start && y.at x.stop && x.at y.start && x.at y.stop then
    [mk2 x.start y.stop, mk2 y.start x.stop]
  else if y.at x.start && y.at x.stop then [x]
  else if x.at y.start && x.at y.stop then [y]
  else if y.at x.start && x.at y.stop && !(y.at x.stop) && x.at y.start then [mk2 x.start y.stop]
  else if y.at x.stop && x.at y.start && !(y.at x.start) && x.at y.stop then [mk2 y.start x.stop]
  else []

/-- `reduced_signed_unsigned_mul` -/
def reducedMul (x y : WInt) : List WInt :=
  if x.isBottom || y.isBottom then []
  else exactMeet (signedMul x y) (unsignedMul x y)

/-- `operator*` -/
def mul (x y : WInt) : Option WInt :=
  if x.isBottom || y.isBottom then some bottom
  else if x.isTop || y.isTop then some top
  else do
    let cuts ← cut? x
    let ycuts ← cut? y
    let mut res := bottom
    for ci in cuts do
      for cj in ycuts do
        for r in reducedMul ci cj do
          res := join res r
    pure res

/-- `trim_zero` (`start()` / `end()` raise CRAB_ERROR on top) -/
def trimZero? (x : WInt) : Option (List WInt) :=
  let zero := ofNatT 0 x.start.width   -- get_bitwidth: CRAB_ERROR on top/bottom
  match x.getBitwidth? with
  | none => none
  | some w =>
    if !(x.eq (single zero)) then
      if x.start.n == zero.n then some [mk2 (ofNatT 1 w) x.stop]
      else if x.stop.n == zero.n then some [mk2 x.start (ofNatT (2 ^ 64 - 1) w)]
      else if x.at zero then some [mk2 x.start (ofNatT (2 ^ 64 - 1) w), mk2 (ofNatT 1 w) x.stop]
      else some [x]
    else some []

/-- `unsigned_div` -/
def unsignedDiv? (x y : WInt) : Option WInt :=
  match WrapInt.udiv x.start y.stop, WrapInt.udiv x.stop y.start with
  | some a, some b => some (mk2 a b)
  | _, _ => none

/-- `signed_div` -/
def signedDiv? (x y : WInt) : Option WInt :=
  let ms := x.start.msb
  let mxs := y.start.msb
  let b := x.start.width
  let smin := (sminT b).n
  let m1 := (ofNatT (2 ^ 64 - 1) b).n
  let mkq (a c : Option WrapInt) : Option WInt :=
    match a, c with
    | some a, some c => some (mk2 a c)
    | _, _ => none
  if ms == mxs then
    if ms then
      if !((x.stop.n == smin && y.start.n == m1) || (x.start.n == smin && y.stop.n == m1)) then
        mkq (WrapInt.sdiv x.stop y.start) (WrapInt.sdiv x.start y.stop)
      else some top
    else
      if !((x.start.n == smin && y.stop.n == m1) || (x.stop.n == smin && y.start.n == m1)) then
        mkq (WrapInt.sdiv x.start y.stop) (WrapInt.sdiv x.stop y.start)
      else some top
  else
    if ms then
      if !((x.start.n == smin && y.start.n == m1) || (x.stop.n == smin && y.stop.n == m1)) then
        mkq (WrapInt.sdiv x.start y.start) (WrapInt.sdiv x.stop y.stop)
      else some top
    else
      if !((x.stop.n == smin && y.stop.n == m1) || (x.start.n == smin && y.start.n == m1)) then
        mkq (WrapInt.sdiv x.stop y.stop) (WrapInt.sdiv x.start y.start)
      else some top

/-- `SDiv` (= `operator/`) -/
def sdiv (x y : WInt) : Option WInt :=
  if x.isBottom || y.isBottom then some bottom
  else if x.isTop || y.isTop then some top
  else do
    let cuts ← cut? x
    let ycuts ← cut? y
    let mut res := bottom
    for ci in cuts do
      for cj in ycuts do
        let ds ← trimZero? cj
        for d in ds do
          let q ← signedDiv? ci d
          res := join res q
    pure res

/-- the three nested loops of `UDiv`, innermost first (a CRAB_ERROR leaves them at once) -/
def udivDs (ci : WInt) : List WInt → WInt → Option WInt
  | [], res => some res
  | d :: ds, res =>
    match unsignedDiv? ci d with
    | none => none
    | some q => udivDs ci ds (join res q)
def udivYs (ci : WInt) : List WInt → WInt → Option WInt
  | [], res => some res
  | cj :: ys, res =>
    match trimZero? cj with
    | none => none
    | some ds =>
      match udivDs ci ds res with
      | none => none
      | some res' => udivYs ci ys res'
def udivXs (ycuts : List WInt) : List WInt → WInt → Option WInt
  | [], res => some res
  | ci :: xs, res =>
    match udivYs ci ycuts res with
    | none => none
    | some res' => udivXs ycuts xs res'

/-- `UDiv` (both operands are cut with `unsigned_split`) -/
def udiv (x y : WInt) : Option WInt :=
  if x.isBottom || y.isBottom then some bottom
  else if x.isTop || y.isTop then some top
  else
    match unsignedSplit? x, unsignedSplit? y with
    | some cuts, some ycuts => udivXs ycuts cuts bottom
    | _, _ => none

/-- `default_implementation` : `SRem`, `URem`, `And`, `Or`, `Xor` -/
def defaultImpl (x y : WInt) : WInt :=
  if x.isBottom || y.isBottom then bottom else top

/-- `ZExt(bits_to_add)` : top is returned unchanged -/
def zext (x : WInt) (k : Nat) : Option WInt := do
  if x.isTop then return x
  let parts ← unsignedSplit? x
  let mut res := bottom
  for p in parts do
    if p.isBottom || p.isTop then continue
    let a ← WrapInt.zext p.start k
    let b ← WrapInt.zext p.stop k
    res := join res (mk2 a b)
  pure res

/-- `SExt(bits_to_add)` -/
def sext (x : WInt) (k : Nat) : Option WInt := do
  if x.isTop then return x
  let parts ← signedSplit? x
  let mut res := bottom
  for p in parts do
    if p.isBottom || p.isTop then continue
    let a ← WrapInt.sext p.start k
    let b ← WrapInt.sext p.stop k
    res := join res (mk2 a b)
  pure res

/-- `Trunc(bits_to_keep)` -/
def trunc (x : WInt) (k : Nat) : Option WInt :=
  if x.isBottom || x.isTop then some x
  else do
    let w := x.start.width
    let wk ← WrapInt.mk? k w
    let hs ← WrapInt.ashr x.start wk
    let he ← WrapInt.ashr x.stop wk
    if hs.n == he.n then
      let ls ← WrapInt.keepLower x.start k
      let le ← WrapInt.keepLower x.stop k
      if decide (ls.n ≤ le.n) then pure (mk2 ls le) else pure top
    else
      let y := WrapInt.inc hs
      if y.n == he.n then
        let ls ← WrapInt.keepLower x.start k
        let le ← WrapInt.keepLower x.stop k
        if !(decide (ls.n ≤ le.n)) then pure (mk2 ls le) else pure top
      else pure top

/-- `Shl(uint64_t k)`: for `k ≥ b` the singleton 0 -/
def shlK (x : WInt) (k : Nat) : Option WInt :=
  if x.isBottom then some x
  else if x.isTop then some x
  else do
    let b := x.start.width
    if k ≥ b then return single (ofNatT 0 b)
    let y ← trunc x (b - k)
    if !y.isTop then
      let wk ← WrapInt.mk? k b
      let s ← WrapInt.shl x.start wk
      let e ← WrapInt.shl x.stop wk
      pure (mk2 s e)
    else pure top

/-- `LShr(uint64_t k)` -/
def lshrK (x : WInt) (k : Nat) : Option WInt :=
  if x.isBottom then some x
  else if x.isTop then some x
  else do
    let c ← crossUnsignedLimit? x
    if !c then
      let wk ← WrapInt.mk? k x.start.width
      let s ← WrapInt.lshr x.start wk
      let e ← WrapInt.lshr x.stop wk
      pure (mk2 s e)
    else pure top

/-- `AShr(uint64_t k)` -/
def ashrK (x : WInt) (k : Nat) : Option WInt :=
  if x.isBottom then some x
  else if x.isTop then some x
  else do
    let c ← crossSignedLimit? x
    if !c then
      let wk ← WrapInt.mk? k x.start.width
      let s ← WrapInt.ashr x.start wk
      let e ← WrapInt.ashr x.stop wk
      pure (mk2 s e)
    else pure top

/-- `Shl / LShr / AShr (const wrapped_interval&)`: only a singleton amount is used
    (`x.start().get_uint64_t()`) -/
def shl (x y : WInt) : Option WInt :=
  if x.isBottom then some x else if y.isSingleton then shlK x y.start.n else some top
def lshr (x y : WInt) : Option WInt :=
  if x.isBottom then some x else if y.isSingleton then lshrK x y.start.n else some top
def ashr (x y : WInt) : Option WInt :=
  if x.isBottom then some x else if y.isSingleton then ashrK x y.start.n else some top

/-- `mk_winterval(Number n, width)` -/
def ofZ (z : Int) (w : Nat) : Option WInt :=
  if WrapInt.fitsWrapint z w then
    match WrapInt.ofZ? z w with
    | some n => some (single n)
    | none => none
  else some top

/-- `mk_winterval(Number lb, Number ub, width)` -/
def ofZ2 (lb ub : Int) (w : Nat) : Option WInt :=
  if !(WrapInt.fitsWrapint lb w) then some top
  else if !(WrapInt.fitsWrapint ub w) then some top
  else if ((2 ^ w : Nat) : Int) - 1 ≤ ub - lb then some top   -- repo commit "mk_winterval ... wider than the circle"
  else match WrapInt.ofZ? lb w, WrapInt.ofZ? ub w with
    | some a, some b => some (mk2 a b)
    | _, _ => none

/-- `to_interval()` : signed reading -/
def toInterval (x : WInt) : Option Itv :=
  if x.isBottom then some Itv.bot
  else if x.isTop then some Itv.top
  else match crossSignedLimit? x with
    | none => none
    | some true => some Itv.top
    | some false =>
      match x.start.toSigned, x.stop.toSigned with
      | some a, some b => some (Itv.mk' (.fin a) (.fin b))
      | _, _ => none

/-- `lower_half_line(is_signed)` -/
def lowerHalfLine (x : WInt) (isSigned : Bool) : WInt :=
  if x.isTop || x.isBottom then x
  else
    let b := x.start.width
    if isSigned && x.at (smaxT b) then top
    else if !isSigned && x.at (umaxT b) then top
    else mk2 (if isSigned then sminT b else uminT b) x.stop

/-- `upper_half_line(is_signed)` -/
def upperHalfLine (x : WInt) (isSigned : Bool) : WInt :=
  if x.isTop || x.isBottom then x
  else
    let b := x.start.width
    if isSigned && x.at (sminT b) then top
    else if !isSigned && x.at (uminT b) then top
    else mk2 x.start (if isSigned then smaxT b else umaxT b)

/-- `trim_interval(i, j)` (lib/wrapped_interval.cpp) -/
def trim (i j : WInt) : WInt :=
  if i.isBottom then i
  else if i.isTop then i
  else if !j.isSingleton then i
  else
    let k := j.start
    if i.start.n == k.n then
      if i.isSingleton then bottom else mk2 (WrapInt.inc k) i.stop
    else if i.stop.n == k.n then
      if i.isSingleton then bottom else mk2 i.start (WrapInt.dec k)
    else i

end WInt
end Crab
