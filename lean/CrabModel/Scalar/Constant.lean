/-
  Model of `crab::domains::constant<z_number>` (include/crab/domains/constant.hpp,
  constant_impl.hpp, and the z_number specialisations of SRem / Bitwise* in lib/constant.cpp),
  transcribed branch by branch.  The C++ state is `(boost::optional<Number> m_constant,
  bool m_is_bottom)`; the three reachable states are bottom `(none,true)`, top `(none,false)`
  and a constant `(some c,false)`.
-/
import CrabModel.Num.ZNum

namespace Crab

inductive Cst where
  | bot
  | top
  | val (n : Int)
  deriving DecidableEq, Repr, Inhabited

namespace Cst

def isBottom : Cst → Bool | bot => true | _ => false
/-- `is_top()` : `!is_bottom() && !m_constant` -/
def isTop : Cst → Bool | top => true | _ => false
def isConstant : Cst → Bool | val _ => true | _ => false

/-- concretisation -/
def mem (k : Int) : Cst → Prop
  | bot => False
  | top => True
  | val n => k = n
instance (k : Int) (c : Cst) : Decidable (mem k c) := by
  cases c <;> unfold mem <;> exact inferInstance

def contains (c : Cst) (k : Int) : Bool :=
  match c with | bot => false | top => true | val n => k == n

/-- `operator<=` -/
def leq (x o : Cst) : Bool :=
  if x.isBottom || o.isTop then true
  else if o.isBottom || x.isTop then false
  else match x, o with
    | val a, val b => a == b
    | _, _ => false

/-- `operator==` -/
def beq (x o : Cst) : Bool := x == o

/-- `operator|` -/
def join (x o : Cst) : Cst :=
  if x.isBottom || o.isTop then o
  else if x.isTop || o.isBottom then x
  else match x, o with
    | val a, val b => if a = b then x else top
    | _, _ => top

/-- `operator||` and `widening_thresholds` : the join -/
def widen (x o : Cst) : Cst := join x o

/-- `operator&` -/
def meet (x o : Cst) : Cst :=
  if x.isBottom || o.isTop then x
  else if x.isTop || o.isBottom then o
  else match x, o with
    | val a, val b => if a = b then x else bot
    | _, _ => bot

/-- `operator&&` : the meet -/
def narrow (x o : Cst) : Cst := meet x o

/-- `Add` (bottom operands give top: only `is_constant()` is tested) -/
def add (x o : Cst) : Cst := match x, o with | val a, val b => val (a + b) | _, _ => top
/-- `Sub` -/
def sub (x o : Cst) : Cst := match x, o with | val a, val b => val (a - b) | _, _ => top
/-- `Mul` -/
def mul (x o : Cst) : Cst := match x, o with | val a, val b => val (a * b) | _, _ => top

/-- `SDiv` -/
def sdiv (x o : Cst) : Cst :=
  if o = val 0 then bot
  else match x, o with | val a, val b => val (Int.tdiv a b) | _, _ => top

/-- `SRem` (z_number specialisation `sRem`) -/
def srem (x o : Cst) : Cst :=
  if o = val 0 then bot
  else match x, o with | val a, val b => val (Int.tmod a b) | _, _ => top

/-- `UDiv` -/
def udiv (_x o : Cst) : Cst := if o = val 0 then bot else top
/-- `URem` -/
def urem (_x o : Cst) : Cst := if o = val 0 then bot else top

/-- `BitwiseAnd` / `BitwiseOr` / `BitwiseXor` (z_number specialisations) -/
def and (x o : Cst) : Cst := match x, o with | val a, val b => val (ZNum.land a b) | _, _ => top
def or (x o : Cst) : Cst := match x, o with | val a, val b => val (ZNum.lor a b) | _, _ => top
def xor (x o : Cst) : Cst := match x, o with | val a, val b => val (ZNum.lxor a b) | _, _ => top

/-- `BitwiseShl` (`bitwiseShl`) -/
def shl (x o : Cst) : Cst :=
  match x, o with
  | val a, val b => if b ≥ 0 then val (ZNum.shl a b) else top
  | _, _ => top

/-- `BitwiseLShr` (`bitwiseLShr`) -/
def lshr (x o : Cst) : Cst :=
  match x, o with
  | val a, val b => if a ≥ 0 then (if b ≥ 0 then val (ZNum.shr a b) else top) else top
  | _, _ => top

/-- `BitwiseAShr` (`bitwiseAShr`) -/
def ashr (x o : Cst) : Cst :=
  match x, o with
  | val a, val b => if b ≥ 0 then val (ZNum.shr a b) else top
  | _, _ => top

def toString : Cst → String
  | bot => "bot" | top => "top" | val n => s!"{n}"
instance : ToString Cst := ⟨toString⟩

end Cst
end Crab
