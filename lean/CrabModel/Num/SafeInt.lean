import CrabModel.Num.ZNum
import CrabModel.Num.Outcome

/-
  Model of `crab::safe_i64` (include/crab/numbers/safeint.hpp, lib/safeint.cpp).
  A value is the `int64_t` field `m_num`, modelled as an `Int` inside the int64 range.
  Each `checked_*` computes in `wideint_t = __int128` (modelled as reduction into the signed
  128-bit range), stores the low 64 bits in `*rp` and returns the overflow flag; the operators
  raise CRAB_ERROR when the flag is set.
-/
namespace Crab
namespace SafeInt

/-- `get_max()`, `get_min()` -/
def max : Int := 2 ^ 63 - 1
def min : Int := -(2 ^ 63)

/-- a representable `int64_t` -/
def inRange (x : Int) : Bool := min ≤ x && x ≤ max

/-- the value held by a `wideint_t` after a computation whose mathematical result is `x` -/
def wide (x : Int) : Int := Int.bmod x (2 ^ 128)

/-- `*rp = lr` : conversion of the wide value to `int64_t` (low 64 bits, signed) -/
def narrow (x : Int) : Int := Int.bmod x (2 ^ 64)

/-- the flag `lr > get_max() || lr < get_min()` -/
def flag (lr : Int) : Bool := decide (lr > max) || decide (lr < min)

/-- `checked_add(a, b, rp)` : (value stored in `*rp`, returned flag) -/
def checkedAdd (a b : Int) : Int × Bool :=
  let lr := wide (a + b)
  (narrow lr, flag lr)

/-- `checked_sub` -/
def checkedSub (a b : Int) : Int × Bool :=
  let lr := wide (a - b)
  (narrow lr, flag lr)

/-- `checked_mul` -/
def checkedMul (a b : Int) : Int × Bool :=
  let lr := wide (a * b)
  (narrow lr, flag lr)

/-- `checked_div` for a non-zero divisor (C++ `/` truncates) -/
def checkedDiv (a b : Int) : Int × Bool :=
  let lr := wide (Int.tdiv a b)
  (narrow lr, flag lr)

/-- `operator+` : CRAB_ERROR("Integer overflow during addition") when the flag is set -/
def add (a b : Int) : Option Int :=
  let r := checkedAdd a b
  if r.2 then none else some r.1

/-- `operator-` (binary) -/
def sub (a b : Int) : Option Int :=
  let r := checkedSub a b
  if r.2 then none else some r.1

/-- `operator*` -/
def mul (a b : Int) : Option Int :=
  let r := checkedMul a b
  if r.2 then none else some r.1

/-- `operator/` : there is no test of the divisor; `(wideint_t)a / (wideint_t)0` is a hardware
    trap (SIGFPE), not a CRAB_ERROR -/
def div (a b : Int) : Outcome Int :=
  if b = 0 then .trap
  else
    let r := checkedDiv a b
    if r.2 then .err else .ok r.1

/-- unary `operator-` : `safe_i64(0) - *this` -/
def neg (a : Int) : Option Int := sub 0 a

/-- `safe_i64(ikos::z_number n)` : `static_cast<int64_t>(n)` (CRAB_ERROR when it does not fit) -/
def ofZ (n : Int) : Option Int := ZNum.toInt64? n

/-- `operator int64_t()` -/
def toInt64 (a : Int) : Int := a

def lt (a b : Int) : Bool := a < b
def le (a b : Int) : Bool := a ≤ b
def eq (a b : Int) : Bool := a == b

end SafeInt
end Crab
