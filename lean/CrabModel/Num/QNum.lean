import CrabModel.Num.ZNumExtra
import CrabModel.Num.Outcome

/-
  Model of `ikos::q_number` (include/crab/numbers/bignums.hpp, lib/bignums.cpp).
  The wrapped `mpq_t` is the raw pair (numerator, denominator): `q_number(num, den)` raises
  CRAB_ERROR on a zero denominator and canonicalises the pair (`mpq_canonicalize`),
  `numerator()`/`denominator()`/`round_to_*` read the raw fields, the arithmetic operators
  canonicalise copies of their operands first.
  GMP's exact rational arithmetic on canonical operands is core Lean's `Rat` (normalised
  fractions, positive denominator); the wrapper's own logic (canonicalisation, zero tests through
  `mpq_cmp` with `q_number(0.0)`, truncating division followed by the sign case in the rounding
  functions, the integrality test and `mpz_get_ui` in `<<`) is written out.
-/
namespace Crab

structure QNum where
  num : Int
  den : Int
  deriving DecidableEq, Repr

namespace QNum

/-- canonical form kept by GMP: positive denominator, no common factor -/
def Canonical (q : QNum) : Prop := 0 < q.den ∧ Nat.gcd q.num.natAbs q.den.natAbs = 1

instance (q : QNum) : Decidable q.Canonical := by unfold Canonical; exact inferInstance

/-- the rational number denoted by the raw pair (meaningless when `den = 0`) -/
def toRat (q : QNum) : Rat := Rat.divInt q.num q.den

/-- a `Rat` written back as a (canonical) pair -/
def ofRat (r : Rat) : QNum := ⟨r.num, (r.den : Int)⟩

/-- `q_number(const z_number&)` : `mpq_set_z` -/
def ofZ (z : Int) : QNum := ⟨z, 1⟩

/-- `q_number(const z_number &num, const z_number &den)` :
    CRAB_ERROR("q_number: zero denominator in constructor") when `den == 0`, otherwise the pair
    is stored and put in canonical form by `mpq_canonicalize` (`none` = CRAB_ERROR) -/
def mk? (n d : Int) : Option QNum :=
  if d = 0 then none else some (ofRat (toRat ⟨n, d⟩))

/-- `mpq_canonicalize` inside the operators; GMP aborts (division by zero) on a zero
    denominator (no value built by the constructors has one) -/
def canon (q : QNum) : Outcome QNum :=
  if q.den = 0 then .trap else .ok (ofRat (toRat q))

/-- `mpq_cmp(q, q_number(0.0)) < 0`, `> 0`, `== 0`: GMP answers from the sign of the numerator
    when the other numerator is zero -/
def ltZero (q : QNum) : Bool := q.num < 0
def gtZero (q : QNum) : Bool := q.num > 0
def eqZero (q : QNum) : Bool := q.num == 0

/-- `mpq_init(mp); mpq_set(mp, _n)` : the private copy the const operators work on.  `mpq_set`
    copies the denominator through its signed size field; a non-positive denominator would make
    it write out of bounds (no value built by the constructors has one: `Canonical` holds of
    every value of the class) -/
def copyThis (q : QNum) : Outcome QNum :=
  if q.den ≤ 0 then .trap else .ok q

/-- shared shape of `operator+`, `operator-`, `operator*`: the by-value argument `x` and the copy
    `mp` of `*this` are canonicalised, then the exact GMP operation -/
def bin (f : Rat → Rat → Rat) (a b : QNum) : Outcome QNum :=
  match copyThis a with
  | .ok a' =>
    match canon b, canon a' with
    | .ok y, .ok x => .ok (ofRat (f x.toRat y.toRat))
    | _, _ => .trap
  | _ => .trap

def add (a b : QNum) : Outcome QNum := bin (· + ·) a b
def sub (a b : QNum) : Outcome QNum := bin (· - ·) a b
def mul (a b : QNum) : Outcome QNum := bin (· * ·) a b

/-- `operator/` : canonicalise, then `x == 0` raises CRAB_ERROR("q_number: division by zero") -/
def div (a b : QNum) : Outcome QNum :=
  match copyThis a with
  | .ok a' =>
    match canon b, canon a' with
    | .ok y, .ok x => if eqZero y then .err else .ok (ofRat (x.toRat / y.toRat))
    | _, _ => .trap
  | _ => .trap

/-- shared shape of `operator+=`, `-=`, `*=`: both operands canonicalised in place -/
def binAssign (f : Rat → Rat → Rat) (a b : QNum) : Outcome QNum :=
  match canon a, canon b with
  | .ok x, .ok y => .ok (ofRat (f x.toRat y.toRat))
  | _, _ => .trap

def addAssign (a b : QNum) : Outcome QNum := binAssign (· + ·) a b
def subAssign (a b : QNum) : Outcome QNum := binAssign (· - ·) a b
def mulAssign (a b : QNum) : Outcome QNum := binAssign (· * ·) a b

/-- `operator/=` -/
def divAssign (a b : QNum) : Outcome QNum :=
  match canon a, canon b with
  | .ok x, .ok y => if eqZero y then .err else .ok (ofRat (x.toRat / y.toRat))
  | _, _ => .trap

/-- unary `operator-` (works on a copy made with `mpq_set`) -/
def neg (a : QNum) : Outcome QNum :=
  match copyThis a with
  | .ok a' =>
    match canon a' with
    | .ok x => .ok (ofRat (-x.toRat))
    | _ => .trap
  | _ => .trap

/-- `operator++` / `operator--` : canonicalise in place, then numerator ± denominator -/
def incr (a : QNum) : Outcome QNum :=
  match canon a with
  | .ok x => .ok ⟨x.num + x.den, x.den⟩
  | _ => .trap
def decr (a : QNum) : Outcome QNum :=
  match canon a with
  | .ok x => .ok ⟨x.num - x.den, x.den⟩
  | _ => .trap

/-- `mpq_cmp` on pairs with positive denominators: sign of the cross product difference -/
def cmp (a b : QNum) : Ordering := compare (a.num * b.den) (b.num * a.den)
def lt (a b : QNum) : Bool := cmp a b == .lt
def le (a b : QNum) : Bool := cmp a b != .gt
def eq (a b : QNum) : Bool := cmp a b == .eq

/-- `round_to_upper`: `q = num / den; r = num % den` (truncating, CRAB_ERROR when `den = 0`),
    then `if (r == 0 || *this < 0) q else q + 1` -/
def roundToUpper (x : QNum) : Option Int :=
  match ZNum.div? x.num x.den, ZNum.rem? x.num x.den with
  | some q, some r => if r = 0 ∨ ltZero x then some q else some (q + 1)
  | _, _ => none

/-- `round_to_lower`: `if (r == 0 || *this > 0) q else q - 1` -/
def roundToLower (x : QNum) : Option Int :=
  match ZNum.div? x.num x.den, ZNum.rem? x.num x.den with
  | some q, some r => if r = 0 ∨ gtZero x then some q else some (q - 1)
  | _, _ => none

/-- number of trailing zero bits of a non-zero natural number (fuel = the number itself) -/
def trailingZeros : Nat → Nat → Nat
  | 0, _ => 0
  | fuel + 1, n => if n % 2 = 0 ∧ n ≠ 0 then trailingZeros fuel (n / 2) + 1 else 0

/-- `mpq_mul_2exp(r, q, s)`: up to `s` low zero bits are stripped from the denominator, the
    numerator is shifted left by the rest -/
def mul2exp (q : QNum) (s : Nat) : QNum :=
  let t := trailingZeros q.den.natAbs q.den.natAbs
  let k := Nat.min s t
  ⟨q.num * 2 ^ (s - k), q.den / 2 ^ k⟩

/-- `operator<<` : the shift amount must be an integer (`to_z_number`: CRAB_ERROR when
    `num % den != 0`, and through `z_number::operator/` when `den = 0`), then
    `mpq_mul_2exp(this, mpz_get_ui(shift))`; GMP reads the limbs of the denominator through its
    signed size field (a non-positive denominator, which no value of the class has, would make
    it read out of bounds) -/
def shl (a k : QNum) : Outcome QNum :=
  match ZNum.div? k.num k.den, ZNum.rem? k.num k.den with
  | some q, some r =>
    if r ≠ 0 then .err
    else if a.den ≤ 0 then .trap
    else .ok (mul2exp a (ZNum.getUi q))
  | _, _ => .err

/-- `get_str()` of `mpq_get_str`: `num` when the denominator is 1, else `num/den` -/
def toStr (q : QNum) : String :=
  if q.den = 1 then toString q.num else toString q.num ++ "/" ++ toString q.den

end QNum
end Crab
