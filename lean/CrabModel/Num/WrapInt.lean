import CrabModel.Num.ZNum

/-!
  Model of `crab::wrapint` (include/crab/numbers/wrapint.hpp, lib/wrapint.cpp).

  A `wrapint` is `(_n : uint64_t, _width : uint64_t, _mod : uint64_t)`.  `_mod` is a function
  of `_width` for every object that can be built (every public constructor runs
  `compute_mod`, the private constructor copies `_mod` from an operand of the same width):
  `0` for width 64 (left at its initial value) and `1 << width` otherwise (the 8/16/32
  `switch` cases are the same numbers), so the model keeps `(width, n)` only and writes
  `% 2^width` where the code writes `% _mod`.

  C++ `uint64_t` arithmetic is written out on `Nat`: every uint64 operation is followed by
  `% 2^64`, and the reduction `% 2^width` is applied exactly where the code applies it
  (the *private* constructor `wrapint(n, width, mod)` does NOT reduce; the public one does,
  when `width < 64`).

  `none` = `CRAB_ERROR`.  No C++ undefined behaviour is left on objects that satisfy the class
  invariant: every uint64 shift is executed with an amount `< _width ≤ 64` (`<<`, `lshr`, `ashr`
  return 0 / the sign fill for an amount of the bitwidth or more), `sext(0)` and
  `keep_lower` avoid the shift by 64.

  Class invariant established by all constructors: `1 ≤ width ≤ 64` and `n < 2^64` (`WF`);
  the header's `0 <= _n <= 2^_width - 1` is `Reduced`.

  (State of the code: after the fixes to ashr (bits above the width masked, amount 0 returns
  `*this`), sdiv (division by -1 is negation), keep_lower / sext(0) (no shift by 64) and to the
  three shifts (amount of the bitwidth or more).)
-/
namespace Crab

structure WrapInt where
  width : Nat
  n : Nat
  deriving DecidableEq, Repr, Inhabited

namespace WrapInt

/-- the range of `uint64_t` -/
def U64 : Nat := 2 ^ 64

/-- class invariant of every constructible object -/
def WF (a : WrapInt) : Prop := 1 ≤ a.width ∧ a.width ≤ 64 ∧ a.n < 2 ^ 64

/-- the documented (but not always kept) invariant `0 <= _n <= 2^_width - 1` -/
def Reduced (a : WrapInt) : Prop := a.n < 2 ^ a.width

instance (a : WrapInt) : Decidable a.WF := by unfold WF; exact inferInstance
instance (a : WrapInt) : Decidable a.Reduced := by unfold Reduced; exact inferInstance

/-- `sanity_check_bitwidth`: `false` = CRAB_ERROR -/
def widthOk (w : Nat) : Bool := !(w == 0) && !(decide (w > 64))

/-- the reduction done after a uint64 result `r`:
    `(_width == 64 ? r : r % _mod)` (also the `if (_width < 64) _n = _n % _mod` form; the two
    tests coincide because `_width ≤ 64`) -/
def red (w r : Nat) : Nat := if w = 64 then r else r % 2 ^ w

/-- public constructor `wrapint(uint64_t n, bitwidth_t width)` (`n` is a uint64: `n < 2^64`) -/
def mk? (n w : Nat) : Option WrapInt :=
  if widthOk w then some ⟨w, if w < 64 then n % 2 ^ w else n⟩ else none

/-- constructor `wrapint(ikos::z_number n, bitwidth_t width)`:
    CRAB_ERROR unless `n.fits_int64()`; then `static_cast<int64_t>(n)` (`ZNum.toInt64?`),
    reinterpreted as uint64 and reduced when `width != 64`. -/
def ofZ? (z : Int) (w : Nat) : Option WrapInt :=
  if widthOk w then
    if ZNum.fitsInt64 z then
      match ZNum.toInt64? z with
      | none => none
      | some x =>
        let u : Nat := (x % (2 ^ 64 : Int)).toNat     -- static_cast<uint64_t>(x)
        some ⟨w, if w = 64 then u else u % 2 ^ w⟩
    else none
  else none

/-- constructor `wrapint(std::string s, bitwidth_t width)`, for `s` the decimal text of
    `v < 2^64` only (`iss >> _n` on anything else is iostream territory: not modelled) -/
def ofStr? (v w : Nat) : Option WrapInt :=
  if widthOk w then some ⟨w, if w < 64 then v % 2 ^ w else v⟩ else none

/-- `fits_wrapint(z_number, width)` -/
def fitsWrapint (z : Int) (w : Nat) : Bool := if w > 64 then false else ZNum.fitsInt64 z

/-- `msb()` : `_n & (1 << (_width - 1))` converted to bool.  (For `width = 0`, which no
    constructor lets through, the C++ shifts by 2^64-1: the model then tests bit 0 of `2^0`.) -/
def msb (a : WrapInt) : Bool := (a.n &&& ((1 <<< (a.width - 1)) % 2 ^ 64)) != 0

/-- `get_signed_max(w)` -/
def signedMax? (w : Nat) : Option WrapInt := mk? (((1 <<< (w - 1)) % 2 ^ 64 + 2 ^ 64 - 1) % 2 ^ 64) w
/-- `get_signed_min(w)` -/
def signedMin? (w : Nat) : Option WrapInt := mk? ((1 <<< (w - 1)) % 2 ^ 64) w
/-- `get_unsigned_max(w)`: cases 8/16/32 (constants `mod_w - 1`), 64 (`UINT64_MAX`),
    default `(1 << w) - 1` -/
def unsignedMax? (w : Nat) : Option WrapInt :=
  if w = 8 then mk? 255 w
  else if w = 16 then mk? 65535 w
  else if w = 32 then mk? 4294967295 w
  else if w = 64 then mk? (2 ^ 64 - 1) w
  else if w < 64 then mk? (((1 <<< w) % 2 ^ 64 + 2 ^ 64 - 1) % 2 ^ 64) w
  else none   -- w > 64: the shift is undefined and the constructor raises CRAB_ERROR anyway
/-- `get_unsigned_min(w)` -/
def unsignedMin? (w : Nat) : Option WrapInt := mk? 0 w

/-- `get_uint64_t` -/
def toU64 (a : WrapInt) : Nat := a.n
/-- `get_unsigned_bignum` (`z_number::from_uint64`) -/
def toUnsigned (a : WrapInt) : Int := (a.n : Int)
/-- `is_zero` -/
def isZero (a : WrapInt) : Bool := a.n == 0

/-- `operator^` (private constructor: no reduction) -/
def xor (a b : WrapInt) : Option WrapInt :=
  if a.width = b.width then some ⟨a.width, a.n ^^^ b.n⟩ else none
/-- `operator&` -/
def and (a b : WrapInt) : Option WrapInt :=
  if a.width = b.width then some ⟨a.width, a.n &&& b.n⟩ else none
/-- `operator|` -/
def or (a b : WrapInt) : Option WrapInt :=
  if a.width = b.width then some ⟨a.width, a.n ||| b.n⟩ else none

/-- `get_signed_bignum`: when `msb()`, `r = *this ^ get_unsigned_max(width)` and the answer is
    `-(r + 1)`; otherwise the unsigned value. -/
def toSigned (a : WrapInt) : Option Int :=
  if a.msb then
    match unsignedMax? a.width with
    | none => none
    | some m =>
      match xor a m with
      | none => none
      | some r => some (-(r.toUnsigned + 1))
  else some a.toUnsigned

/-- `operator+` -/
def add (a b : WrapInt) : Option WrapInt :=
  if a.width = b.width then some ⟨a.width, red a.width ((a.n + b.n) % 2 ^ 64)⟩ else none
/-- `operator*` -/
def mul (a b : WrapInt) : Option WrapInt :=
  if a.width = b.width then some ⟨a.width, red a.width ((a.n * b.n) % 2 ^ 64)⟩ else none
/-- `operator-` (uint64 subtraction wraps) -/
def sub (a b : WrapInt) : Option WrapInt :=
  if a.width = b.width then some ⟨a.width, red a.width ((a.n + 2 ^ 64 - b.n % 2 ^ 64) % 2 ^ 64)⟩ else none
/-- unary `operator-` : `-_n` on uint64, then `% _mod` -/
def neg (a : WrapInt) : WrapInt := ⟨a.width, red a.width ((2 ^ 64 - a.n % 2 ^ 64) % 2 ^ 64)⟩

/-- `udiv`: CRAB_ERROR on a zero divisor -/
def udiv (a b : WrapInt) : Option WrapInt :=
  if a.width = b.width then
    if b.isZero then none else some ⟨a.width, red a.width (a.n / b.n)⟩
  else none
/-- `urem` -/
def urem (a b : WrapInt) : Option WrapInt :=
  if a.width = b.width then
    if b.isZero then none else some ⟨a.width, red a.width (a.n % b.n)⟩
  else none

/-- `sdiv` (= `operator/`): through `get_signed_bignum`; a divisor `-1` returns `-(*this)`
    (so MIN / -1 wraps to MIN); otherwise `z_number::operator/` (truncating) and back through
    the `z_number` constructor (which raises CRAB_ERROR when the quotient does not fit an int64:
    cannot happen any more) -/
def sdiv (a b : WrapInt) : Option WrapInt :=
  if a.width = b.width then
    if b.isZero then none else
      match a.toSigned, b.toSigned with
      | some x, some y =>
        if y = -1 then some a.neg
        else
          match ZNum.div? x y with
          | some q => ofZ? q a.width
          | none => none
      | _, _ => none
  else none
/-- `srem` (= `operator%`) -/
def srem (a b : WrapInt) : Option WrapInt :=
  if a.width = b.width then
    if b.isZero then none else
      match a.toSigned, b.toSigned with
      | some x, some y =>
        match ZNum.rem? x y with
        | some q => ofZ? q a.width
        | none => none
      | _, _ => none
  else none

/-- `operator+=` (reduction guarded by `_width < 64`) -/
def addAssign (a b : WrapInt) : Option WrapInt :=
  if a.width = b.width then
    let r := (a.n + b.n) % 2 ^ 64
    some ⟨a.width, if a.width < 64 then r % 2 ^ a.width else r⟩
  else none
/-- `operator-=` -/
def subAssign (a b : WrapInt) : Option WrapInt :=
  if a.width = b.width then
    let r := (a.n + 2 ^ 64 - b.n % 2 ^ 64) % 2 ^ 64
    some ⟨a.width, if a.width < 64 then r % 2 ^ a.width else r⟩
  else none
/-- `operator*=` -/
def mulAssign (a b : WrapInt) : Option WrapInt :=
  if a.width = b.width then
    let r := (a.n * b.n) % 2 ^ 64
    some ⟨a.width, if a.width < 64 then r % 2 ^ a.width else r⟩
  else none
/-- `operator++` -/
def inc (a : WrapInt) : WrapInt :=
  let r := (a.n + 1) % 2 ^ 64
  ⟨a.width, if a.width < 64 then r % 2 ^ a.width else r⟩
/-- `operator--` -/
def dec (a : WrapInt) : WrapInt :=
  let r := (a.n + 2 ^ 64 - 1) % 2 ^ 64
  ⟨a.width, if a.width < 64 then r % 2 ^ a.width else r⟩

/-- comparisons: on the raw `_n`; CRAB_ERROR when the widths differ -/
def eq? (a b : WrapInt) : Option Bool := if a.width = b.width then some (a.n == b.n) else none
def ne? (a b : WrapInt) : Option Bool := if a.width = b.width then some (a.n != b.n) else none
def lt? (a b : WrapInt) : Option Bool := if a.width = b.width then some (decide (a.n < b.n)) else none
def le? (a b : WrapInt) : Option Bool := if a.width = b.width then some (decide (a.n ≤ b.n)) else none
def gt? (a b : WrapInt) : Option Bool := if a.width = b.width then some (decide (a.n > b.n)) else none
def ge? (a b : WrapInt) : Option Bool := if a.width = b.width then some (decide (a.n ≥ b.n)) else none

/-- `operator<<` : a shift by the bitwidth or more returns 0; otherwise `(_n << x._n)` on uint64
    (`x._n < _width ≤ 64`: defined), then `% _mod` -/
def shl (a b : WrapInt) : Option WrapInt :=
  if a.width = b.width then
    if b.n ≥ a.width then some ⟨a.width, 0⟩
    else some ⟨a.width, red a.width ((a.n <<< b.n) % 2 ^ 64)⟩
  else none

/-- `lshr` : a shift by the bitwidth or more returns 0; otherwise `_n >> x._n`, private constructor -/
def lshr (a b : WrapInt) : Option WrapInt :=
  if a.width = b.width then
    if b.n ≥ a.width then some ⟨a.width, 0⟩
    else some ⟨a.width, a.n >>> b.n⟩
  else none

/-- `ashr`.  Amount 0 returns `*this`; an amount of the bitwidth or more returns the sign fill
    (`get_unsigned_max(_width)` or 0).  Otherwise `0 < x._n < _width ≤ 64` and both C++ shifts
    are defined; on the msb branch `(only_upper_bits_ones | (_n >> x._n)) & all_ones` (private
    constructor, no further reduction). -/
def ashr (a b : WrapInt) : Option WrapInt :=
  if a.width = b.width then
    if b.n == 0 then some a
    else if b.n ≥ a.width then (if a.msb then unsignedMax? a.width else some ⟨a.width, 0⟩)
    else if !a.msb then some ⟨a.width, a.n >>> b.n⟩
    else
      let allOnes : Nat := if a.width < 64 then ((1 <<< a.width) % 2 ^ 64 + 2 ^ 64 - 1) % 2 ^ 64 else 2 ^ 64 - 1
      let upper : Nat := (allOnes <<< (a.width - b.n)) % 2 ^ 64
      some ⟨a.width, (upper ||| (a.n >>> b.n)) &&& allOnes⟩
  else none

/-- `sext(bits_to_add)` (the sum `_width + bits_to_add` is a uint64 sum; `bits_to_add` is
    assumed small enough not to wrap it).  `bits_to_add = 0` returns `*this`; otherwise
    `_width < 64` and `all_ones << _width` is defined. -/
def sext (a : WrapInt) (k : Nat) : Option WrapInt :=
  let nw := a.width + k
  if nw > 64 then none            -- CRAB_ERROR
  else if k = 0 then some a
  else if a.msb then
    let allOnes : Nat := if nw < 64 then ((1 <<< nw) % 2 ^ 64 + 2 ^ 64 - 1) % 2 ^ 64 else 2 ^ 64 - 1
    let upper : Nat := (allOnes <<< a.width) % 2 ^ 64
    mk? (a.n ||| upper) nw
  else mk? a.n nw

/-- `zext(bits_to_add)` -/
def zext (a : WrapInt) (k : Nat) : Option WrapInt :=
  let nw := a.width + k
  if nw > 64 then none else mk? a.n nw

/-- `keep_lower(bits_to_keep)`: mask `(1 << bits_to_keep) - 1` (`bits_to_keep < _width ≤ 64`),
    then the public constructor (CRAB_ERROR for `bits_to_keep = 0`) -/
def keepLower (a : WrapInt) (k : Nat) : Option WrapInt :=
  if k ≥ a.width then some a
  else mk? (a.n &&& (((1 <<< k) % 2 ^ 64 + 2 ^ 64 - 1) % 2 ^ 64)) k

end WrapInt
end Crab
