/-
  Model of `ikos::z_number` (include/crab/numbers/bignums.hpp, lib/bignums.cpp):
  GMP integers are `Int`; the wrapper's own logic (zero checks, int64 import/export paths,
  shift amounts through `mpz_get_ui`, `fill_ones` loop) is written out.
-/
namespace Crab
namespace ZNum

def int64Min : Int := -(2 ^ 63)
def int64Max : Int := 2 ^ 63 - 1
def uint64Max : Int := 2 ^ 64 - 1

/-- `fits_int64` -/
def fitsInt64 (x : Int) : Bool := int64Min ≤ x && x ≤ int64Max

/-- `fits_sint` (mpz_fits_sint_p : C `int`, 32 bits here) -/
def fitsSInt (x : Int) : Bool := -(2 ^ 31) ≤ x && x ≤ 2 ^ 31 - 1

/-- `operator int64_t`: `none` is CRAB_ERROR("... does not fit into int64_t").
    Second path: `mpz_export` of the magnitude into one 64-bit word, then negated when
    the sign is negative (computed in int64 arithmetic, i.e. modulo 2^64 read signed). -/
def toInt64? (x : Int) : Option Int :=
  if fitsSInt x then some x
  else if fitsInt64 x then
    let mag : Int := x.natAbs          -- exported magnitude, < 2^64
    -- reinterpret the 64-bit word as int64
    let res : Int := if mag ≥ 2 ^ 63 then mag - 2 ^ 64 else mag
    let r : Int := if x < 0 then -res else res
    -- negation wraps in int64
    let r := if r > int64Max then r - 2 ^ 64 else r
    some r
  else none

/-- `operator/` : truncating; `none` is CRAB_ERROR (division by zero) -/
def div? (a b : Int) : Option Int := if b = 0 then none else some (Int.tdiv a b)
/-- `operator%` : remainder of truncating division -/
def rem? (a b : Int) : Option Int := if b = 0 then none else some (Int.tmod a b)

/-- `mpz_get_ui`: least significant 64 bits of the absolute value -/
def getUi (x : Int) : Nat := x.natAbs % 2 ^ 64

/-- `operator<<` : `mpz_mul_2exp(n, mpz_get_ui(x))` -/
def shl (a k : Int) : Int := a * 2 ^ (getUi k)
/-- `operator>>` : `mpz_fdiv_q_2exp(n, mpz_get_ui(x))` (floor) -/
def shr (a k : Int) : Int :=
  let s := getUi k
  -- beyond the bit length of `a` the floor quotient is 0 / -1 (avoids computing 2^s for huge s)
  if s > a.natAbs.log2 + 1 then (if a < 0 then -1 else 0)
  else a / 2 ^ s   -- Int `/` is floor for a positive divisor

/-- number of binary digits needed for the two's-complement representation, sign included -/
def width (a : Int) : Nat := (if a < 0 then (-a - 1).toNat else a.toNat).log2 + 2

/-- infinite-precision two's-complement bitwise operations (mpz_and / mpz_ior / mpz_xor),
    computed on a width large enough for both operands plus sign -/
def bitop (f : (w : Nat) → BitVec w → BitVec w → BitVec w) (a b : Int) : Int :=
  let w := Nat.max (width a) (width b)
  (f w (BitVec.ofInt w a) (BitVec.ofInt w b)).toInt

def land (a b : Int) : Int := bitop (fun _ x y => x &&& y) a b
def lor  (a b : Int) : Int := bitop (fun _ x y => x ||| y) a b
def lxor (a b : Int) : Int := bitop (fun _ x y => x ^^^ y) a b

/-- `fill_ones` loop body with fuel; the loop `for (r = 1; r < x; r = 2r+1)` -/
def fillOnesLoop : Nat → Int → Int → Int
  | 0, r, _ => r
  | fuel + 1, r, x => if r < x then fillOnesLoop fuel (2 * r + 1) x else r

/-- `fill_ones` (asserts x >= 0; for negative x the loop exits at once with 1) -/
def fillOnes (x : Int) : Int :=
  if x = 0 then 0 else fillOnesLoop (x.toNat.log2 + 2) 1 x

/-- `z_number(int64_t)` takes the value unchanged on both paths -/
def ofInt64 (x : Int) : Int := x

end ZNum
end Crab
