/-
  Outcome of an operation of the number layer that can fail in two different ways:
  `err`  = CRAB_ERROR was raised (observable through the verification hook as text `err`),
  `trap` = the process is stopped by something that is *not* a CRAB_ERROR (integer division
           by zero in machine arithmetic, GMP's own "division by zero" abort).  Harnesses never
           exercise `trap` inputs; theorems carry the excluding hypothesis explicitly.
-/
namespace Crab

inductive Outcome (α : Type) where
  | ok (a : α)
  | err
  | trap
  deriving DecidableEq, Repr

namespace Outcome

def toOption {α : Type} : Outcome α → Option α
  | ok a => some a
  | _ => none

def ofOption {α : Type} : Option α → Outcome α
  | some a => ok a
  | none => err

end Outcome
end Crab
