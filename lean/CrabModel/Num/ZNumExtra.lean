import CrabModel.Num.ZNum

/-
  Additions to the model of `ikos::z_number` (lib/bignums.cpp) used by property C20 (kept in
  their own namespace `Crab.ZNum.X`, next to `Crab.ZNum` of `ZNum.lean`):
  the two construction paths from 64-bit machine integers, string conversion in a base
  (`get_str(base)` / `z_number(const std::string&, base)`), comparison operators, increments,
  and the reference ("mathematical") reading of a bit of an integer in infinite two's complement.
-/
namespace Crab
namespace ZNum
namespace X

/-! ### construction from machine integers -/

/-- `z_number(int64_t n)`, first branch (`n` fits `signed long`): `mpz_init_set_si`. -/
def ofInt64Si (n : Int) : Int := n

/-- `z_number(int64_t n)`, second branch (taken only when `signed long` is narrower than 64 bits,
    never on LP64): `mpz_import` of the 8 bytes of `n` read as an *unsigned* word, then
    `mpz_neg` when `n < 0`. -/
def ofInt64Import (n : Int) : Int :=
  let word : Int := n % 2 ^ 64          -- the bytes of the int64 read as uint64
  if n < 0 then -word else word

/-- `signed long` is 64 bits wide on the platform the checks run on (LP64). -/
def longBits : Nat := 64

/-- `z_number(int64_t n)` as compiled here: the range test against `signed long` -/
def ofInt64' (n : Int) : Int :=
  if -(2 ^ (longBits - 1)) ≤ n ∧ n ≤ 2 ^ (longBits - 1) - 1 then ofInt64Si n else ofInt64Import n

/-- `from_uint64(uint64_t n)`: `mpz_set_ui` when `n` fits `unsigned long`, else `mpz_import`
    of one unsigned 64-bit word; both give the value of `n`. -/
def ofUInt64 (n : Nat) : Int :=
  if n ≤ 2 ^ longBits - 1 then (n : Int) else (n % 2 ^ 64 : Nat)

/-! ### comparisons, increments (`mpz_cmp`, `mpz_add_ui`, `mpz_sub_ui`) -/

def lt (a b : Int) : Bool := a < b
def le (a b : Int) : Bool := a ≤ b
def gt (a b : Int) : Bool := a > b
def ge (a b : Int) : Bool := a ≥ b
def eq (a b : Int) : Bool := a == b
def ne (a b : Int) : Bool := !(a == b)
def incr (a : Int) : Int := a + 1
def decr (a : Int) : Int := a - 1

/-! ### strings in a base (2..36): `mpz_get_str` / `mpz_init_set_str` -/

/-- digit character used by `mpz_get_str` for bases 2..36 (lower case) -/
def digitChar (d : Nat) : Char :=
  if d < 10 then Char.ofNat (48 + d) else Char.ofNat (87 + d)

/-- value of a digit character as accepted by `mpz_set_str` for bases ≤ 36 (case-insensitive) -/
def charDigit? (c : Char) : Option Nat :=
  let n := c.toNat
  if 48 ≤ n ∧ n ≤ 57 then some (n - 48)
  else if 97 ≤ n ∧ n ≤ 122 then some (n - 87)
  else if 65 ≤ n ∧ n ≤ 90 then some (n - 55)
  else none

/-- digits of `n` in base `b`, least significant first; `fuel` bounds the number of digits -/
def digitsRev (b : Nat) : Nat → Nat → List Nat
  | 0, _ => []
  | fuel + 1, n => if n < b then [n] else (n % b) :: digitsRev b fuel (n / b)

/-- digits of `n` in base `b`, most significant first (`0` is the single digit 0) -/
def digits (b n : Nat) : List Nat := (digitsRev b (n + 1) n).reverse

/-- Horner evaluation of a most-significant-first digit list; `none` if a digit is `≥ b` -/
def ofDigits? (b : Nat) : List Nat → Nat → Option Nat
  | [], acc => some acc
  | d :: ds, acc => if d < b then ofDigits? b ds (acc * b + d) else none

/-- `get_str(base)`: optional `-` then the digits of the magnitude -/
def toChars (b : Nat) (x : Int) : List Char :=
  let ds := (digits b x.natAbs).map digitChar
  if x < 0 then '-' :: ds else ds

def allSome : List (Option Nat) → Option (List Nat)
  | [] => some []
  | none :: _ => none
  | some d :: rest => match allSome rest with
    | some ds => some (d :: ds)
    | none => none

/-- digits part of `z_number(const std::string&, base)`: at least one digit, all valid -/
def ofDigitChars? (b : Nat) (cs : List Char) : Option Nat :=
  match cs with
  | [] => none
  | _ => match allSome (cs.map charDigit?) with
    | some ds => ofDigits? b ds 0
    | none => none

/-- `z_number(const std::string&, base)` on text without white space: `none` is
    CRAB_ERROR("z_number: invalid string in constructor") -/
def ofChars? (b : Nat) (cs : List Char) : Option Int :=
  match cs with
  | '-' :: rest =>
    match ofDigitChars? b rest with
    | some n => some (-(Int.ofNat n))
    | none => none
  | _ =>
    match ofDigitChars? b cs with
    | some n => some (Int.ofNat n)
    | none => none

def toStr (b : Nat) (x : Int) : String := String.ofList (toChars b x)
def ofStr? (b : Nat) (s : String) : Option Int := ofChars? b s.toList

/-! ### reference semantics of bits -/

/-- bit `i` of `x` in infinite two's complement -/
def bit (x : Int) (i : Nat) : Bool :=
  match x with
  | Int.ofNat m => m.testBit i
  | Int.negSucc m => !(m.testBit i)

end X
end ZNum
end Crab
