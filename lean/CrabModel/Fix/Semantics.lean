/-
  Formal semantics against which the fixpoint-iterator theorems (C01, C05, C06) are stated.

  * the concrete side: a state space `S`, per-block transition relation `step n s s'`
    (the block transformer as a relation: `s'` is a state with which an execution can leave
    block `n` when it entered it with `s`), initial states = `γ init`, assumption filter;
  * `ReachPre n s` / `ReachPost n s` : the collecting semantics (states with which some
    execution started in an initial state at the start block arrives at / leaves block `n`),
    as an inductive predicate — the least solution of the flow equations;
  * `Sem` : what it means for the client value type to be a sound abstraction
    (concretisation `γ` + one soundness law per operation the iterator calls);
  * `WtoWF` : well-formedness of the weak topological ordering the iterator walks (C07 is the
    property that the ordering computed by crab satisfies it).
-/
import CrabModel.Fix.Interleaved

namespace Crab
namespace Fix

variable {A S : Type}

/-- soundness contract of the client value type w.r.t. a concretisation `γ`, and of `analyze`
    w.r.t. the per-block transition relation -/
structure Sem (c : Ctx A) (S : Type) where
  γ : A → S → Prop
  step : Nat → S → S → Prop
  analyze_sound : ∀ n a s s', γ a s → step n s s' → γ (c.analyze n a) s'
  join_left : ∀ a b s, γ a s → γ (c.ops.join a b) s
  join_right : ∀ a b s, γ b s → γ (c.ops.join a b) s
  widen_left : ∀ a b s, γ a s → γ (c.ops.widen a b) s
  widen_right : ∀ a b s, γ b s → γ (c.ops.widen a b) s
  meet_sound : ∀ a b s, γ a s → γ b s → γ (c.ops.meet a b) s
  narrow_sound : ∀ a b s, γ a s → γ b s → γ (c.ops.narrow a b) s
  leq_sound : ∀ a b s, c.ops.leq a b = true → γ a s → γ b s

/-- a state entering block `n` survives the assumption map iff it satisfies the assumption
    attached to `n` (no filter when the map is null or empty, exactly as `strengthen`) -/
def asmOk (c : Ctx A) (sem : Sem c S) (n : Nat) (s : S) : Prop :=
  if hasAssumptions c then
    match c.assumptions with
    | some m => match m.lookup n with
      | some a => sem.γ a s
      | none => True
    | none => True
  else True

mutual
/-- states with which some execution arrives at block `n` -/
inductive ReachPre (c : Ctx A) (sem : Sem c S) : Nat → S → Prop
  | init (s : S) : sem.γ c.init s → asmOk c sem c.entry s → ReachPre c sem c.entry s
  | flow (p n : Nat) (s : S) : p ∈ c.preds n → ReachPost c sem p s → asmOk c sem n s → ReachPre c sem n s
/-- states with which some execution leaves block `n` -/
inductive ReachPost (c : Ctx A) (sem : Sem c S) : Nat → S → Prop
  | step (n : Nat) (s s' : S) : ReachPre c sem n s → sem.step n s s' → ReachPost c sem n s'
end

/-! ### well-formed weak topological orderings -/

mutual
/-- nodes of a component, in visiting order (head first) -/
def Comp.nodes : Comp → List Nat
  | .vertex v => [v]
  | .cycle h body => h :: nodesList body
def nodesList : List Comp → List Nat
  | [] => []
  | c :: cs => c.nodes ++ nodesList cs
end

mutual
/-- heads of the components of `w` that contain `n` (outermost first, `n` itself included
    when it is a head) -/
def Comp.headsOf (n : Nat) : Comp → List Nat
  | .vertex _ => []
  | .cycle h body => if h == n || memberList n body then h :: headsOfList n body else []
def headsOfList (n : Nat) : List Comp → List Nat
  | [] => []
  | c :: cs => c.headsOf n ++ headsOfList n cs
end

/-- position in the visiting order -/
def pos (w : List Comp) (n : Nat) : Nat := (nodesList w).idxOf n

/-- Bourdoncle's conditions, relative to the predecessor function the iterator uses:
    * every block occurs at most once;
    * the blocks of the ordering are closed under successors (an edge never leaves it);
    * for an edge `p → n` between blocks of the ordering: `p` comes strictly before `n`, or
      `n` is the head of a component containing `p` (feedback edge);
    * the start block belongs to the ordering;
    * the nesting table is the list of heads of the components strictly enclosing a block
      (outermost first), and `none` exactly for blocks outside the ordering. -/
structure WtoWF (c : Ctx A) (w : List Comp) : Prop where
  nodup : (nodesList w).Nodup
  closed : ∀ p n, p ∈ c.preds n → p ∈ nodesList w → n ∈ nodesList w
  edge : ∀ p n, p ∈ c.preds n → p ∈ nodesList w → n ∈ nodesList w →
          pos w p < pos w n ∨ n ∈ headsOfList p w
  entry_mem : c.entry ∈ nodesList w
  nesting_in : ∀ n, n ∈ nodesList w → c.nesting n = some ((headsOfList n w).filter (· != n))
  nesting_out : ∀ n, n ∉ nodesList w → c.nesting n = none

/-! ### statements of the main theorems (proved in CrabProofs) -/

/-- C01 (engine part): the tables returned by the iterator contain the collecting semantics -/
def RunSound (c : Ctx A) (w : List Comp) : Prop :=
  ∀ (S : Type) (sem : Sem c S) (fuel : Nat) (st : St A), WtoWF c w → run c fuel w = some st →
    (∀ n s, ReachPre c sem n s → sem.γ (st.pre n) s) ∧ (∀ n s, ReachPost c sem n s → sem.γ (st.post n) s)

/-- what makes the value type *exact*: join is union, meet is intersection, bottom is empty,
    `analyze` is the exact image, widening is join and narrowing is meet -/
structure Exact (c : Ctx A) (sem : Sem c S) : Prop where
  bot_empty : ∀ s, ¬ sem.γ c.ops.bot s
  join_exact : ∀ a b s, sem.γ (c.ops.join a b) s → sem.γ a s ∨ sem.γ b s
  meet_exact : ∀ a b s, sem.γ (c.ops.meet a b) s → sem.γ a s ∧ sem.γ b s
  analyze_exact : ∀ n a s', sem.γ (c.analyze n a) s' → ∃ s, sem.γ a s ∧ sem.step n s s'
  widen_is_join : ∀ a b, c.ops.widen a b = c.ops.join a b
  narrow_is_meet : ∀ a b, c.ops.narrow a b = c.ops.meet a b

/-- C06 (upper half, needs no well-formedness of the ordering, only that it contains the start
    block): with an exact value type every state stored in a table is reachable -/
def RunBelowReach (c : Ctx A) (w : List Comp) : Prop :=
  ∀ (S : Type) (sem : Sem c S) (fuel : Nat) (st : St A), Exact c sem → c.entry ∈ nodesList w →
    run c fuel w = some st →
    (∀ n s, sem.γ (st.pre n) s → ReachPre c sem n s) ∧ (∀ n s, sem.γ (st.post n) s → ReachPost c sem n s)

/-- C05 (engine part): the widening chain condition.  `x' = widen x y` is a *strict
    extrapolation step* from `x` when `y` is not already below `x` -/
def WidenStep (c : Ctx A) (x' x : A) : Prop :=
  ∃ y, c.ops.leq y x = false ∧ x' = c.ops.widen x y

/-- every run terminates: some fuel suffices, for every ordering and every parameter setting,
    as soon as strict widening steps cannot be chained forever -/
def RunTerminates (c : Ctx A) (w : List Comp) : Prop :=
  WellFounded (WidenStep c) → ∃ fuel st, run c fuel w = some st

end Fix
end Crab
