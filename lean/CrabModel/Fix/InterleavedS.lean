import CrabModel.Fix.Interleaved

/-!
  The interleaved fixpoint iterator of `CrabModel/Fix/Interleaved.lean` with a block transformer
  that reads and updates a *state* (`AnS`): the transformer of the top-down inter-procedural
  analysis analyses callees, stores calling contexts and joins invariants while the iterator
  runs (`top_down_inter_transformer` keeps all of that in the transformer object).

  The four visit functions are the ones of `Interleaved.lean`, statement by statement; the state
  is threaded through the calls of `analyze` in the order in which the iterator makes them.
  Everything else of the context (`Ctx`: lattice operations, predecessors, nesting, start block,
  initial value, assumptions, parameters) is read from a `Fix.Ctx` whose own `analyze` field is
  not used.  `none`: the fuel ran out, or the transformer failed.
-/
namespace Crab
namespace Fix

variable {A σ : Type}

/-- `analyze(node, inv)` with the state of the transformer -/
abbrev AnS (A σ : Type) := Nat → A → σ → Option (A × σ)

/-- `compute_post` -/
def computePostS (an : AnS A σ) (st : St A) (node : Nat) (inv : A) (s : σ) : Option (St A × σ) :=
  match an node inv s with
  | none => none
  | some (r, s') => some ({ st with post := upd st.post node r }, s')

/-- the invariant stored for a plain vertex (as in `visitVertex`) -/
def vertexPreS (c : Ctx A) (st : St A) (node : Nat) : A :=
  strengthen c node
    (if node == c.entry then joinPosts c st.post c.init (c.preds node)
     else joinPosts c st.post c.ops.bot (c.preds node))

/-- `visit(wto_vertex_t&)` -/
def visitVertexS (c : Ctx A) (an : AnS A σ) (st : St A) (node : Nat) (s : σ) : Option (St A × σ) :=
  let st := if st.skip && node == c.entry then { st with skip := false } else st
  if st.skip then some (st, s)
  else
    let pre := vertexPreS c st node
    computePostS an { st with pre := upd st.pre node pre } node pre s

mutual
/-- one WTO component -/
def visitCompS (c : Ctx A) (an : AnS A σ) : Nat → St A → Comp → σ → Option (St A × σ)
  | 0, _, _, _ => none
  | _ + 1, st, .vertex v, s => visitVertexS c an st v s
  | fuel + 1, st, .cycle head body, s =>
    let entryIn := st.skip && (Comp.cycle head body).member c.entry
    if st.skip && !entryIn then some (st, s)
    else
      let st := { st with skip := false }
      let cycleNesting := (c.nesting head).getD []
      let pre0 := (c.preds head).foldl
        (fun a p => match c.nesting p with
          | none => a
          | some np => if !(nestingGt np cycleNesting) then c.ops.join a (st.post p) else a) c.ops.bot
      let pre1 := if head == c.entry then c.ops.join pre0 c.init else pre0
      let pre := strengthen c head pre1
      match ascendS c an fuel st head body 1 pre s with
      | none => none
      | some (st, pre, s) =>
        if c.descending = 0 then some (st, s)
        else descendS c an fuel st head body 1 pre s

/-- the components of a cycle body / of the top level, in order -/
def visitListS (c : Ctx A) (an : AnS A σ) : Nat → St A → List Comp → σ → Option (St A × σ)
  | 0, _, _, _ => none
  | _ + 1, st, [], s => some (st, s)
  | fuel + 1, st, x :: xs, s =>
    match visitCompS c an fuel st x s with
    | none => none
    | some (st, s) => visitListS c an fuel st xs s

/-- increasing iteration sequence with widening -/
def ascendS (c : Ctx A) (an : AnS A σ) : Nat → St A → Nat → List Comp → Nat → A → σ →
    Option (St A × A × σ)
  | 0, _, _, _, _, _, _ => none
  | fuel + 1, st, head, body, iteration, pre, s =>
    match computePostS an { st with pre := upd st.pre head pre } head pre s with
    | none => none
    | some (st, s) =>
      match visitListS c an fuel st body s with
      | none => none
      | some (st, s) =>
        let np := newPre c st head
        if c.ops.leq np pre then
          some ({ st with pre := upd st.pre head np }, np, s)
        else
          ascendS c an fuel st head body (iteration + 1) (extrapolate c iteration pre np) s

/-- decreasing iteration sequence with narrowing -/
def descendS (c : Ctx A) (an : AnS A σ) : Nat → St A → Nat → List Comp → Nat → A → σ →
    Option (St A × σ)
  | 0, _, _, _, _, _, _ => none
  | fuel + 1, st, head, body, iteration, pre, s =>
    match computePostS an st head pre s with
    | none => none
    | some (st, s) =>
      match visitListS c an fuel st body s with
      | none => none
      | some (st, s) =>
        let np := newPre c st head
        if c.ops.leq pre np then some (st, s)
        else if iteration > c.descending then some (st, s)
        else
          let pre' := refine c iteration pre np
          descendS c an fuel { st with pre := upd st.pre head pre' } head body (iteration + 1) pre' s
end

/-- `run(entry, init, assumptions)` -/
def runS (c : Ctx A) (an : AnS A σ) (fuel : Nat) (wto : List Comp) (s : σ) : Option (St A × σ) :=
  let st : St A := { pre := upd (fun _ => c.ops.bot) c.entry c.init, post := fun _ => c.ops.bot, skip := true }
  visitListS c an fuel st wto s

end Fix
end Crab
