/-
  Model of `ikos::interleaved_fwd_fixpoint_iterator` / `wto_iterator`
  (include/crab/fixpoint/interleaved_fixpoint_iterator.hpp), generic in the abstract value.

  * `Comp` : weak topological ordering term (vertex / cycle with head and body).
  * `Ctx`  : everything the iterator reads: lattice operations of the client value type,
             `analyze` (the block transformer supplied by the subclass), predecessor lists in
             the order of `prev_nodes`, the nesting table of the WTO, start block, initial value,
             assumption map, `fixpoint_parameters`.
  * tables `pre`, `post` : total functions `Nat → A` (the C++ `unordered_map`s are initialised
    with bottom for every block by `initialize_invariant_tables`).

  All loops take fuel; `none` = fuel exhausted (never a result of the real code: C05 proves
  that some fuel suffices under the widening hypothesis).

  The code modelled is the tree *after* the `fix:` commit for the start block heading / being
  nested in a cycle (DESIGN.md §4 #2): the initial value `init` is joined into the invariant of
  the start block every time it is recomputed.
-/
namespace Crab
namespace Fix

inductive Comp where
  | vertex (v : Nat) : Comp
  | cycle (head : Nat) (body : List Comp) : Comp
  deriving Repr, Inhabited

mutual
/-- `member_component_visitor` -/
def Comp.member (e : Nat) : Comp → Bool
  | .vertex v => v == e
  | .cycle h body => h == e || memberList e body
def memberList (e : Nat) : List Comp → Bool
  | [] => false
  | c :: cs => c.member e || memberList e cs
end

structure Ops (A : Type) where
  bot : A
  top : A
  leq : A → A → Bool
  join : A → A → A
  meet : A → A → A
  widen : A → A → A
  narrow : A → A → A

structure Ctx (A : Type) where
  ops : Ops A
  analyze : Nat → A → A
  preds : Nat → List Nat
  /-- `m_wto.nesting(n)`; `none` when the block is not part of the ordering (unreachable) -/
  nesting : Nat → Option (List Nat)
  entry : Nat
  init : A
  /-- `none` = null pointer; `some []` = empty map -/
  assumptions : Option (List (Nat × A))
  delay : Nat
  descending : Nat

structure St (A : Type) where
  pre : Nat → A
  post : Nat → A
  skip : Bool

def upd {A : Type} (f : Nat → A) (k : Nat) (v : A) : Nat → A := fun i => if i = k then v else f i

variable {A : Type}

/-- `wto_nesting::operator>` : `compare == 1`, i.e. `other` is a proper prefix of `this` -/
def nestingGt : List Nat → List Nat → Bool
  | [], _ => false
  | _ :: _, [] => true
  | a :: as, b :: bs => a == b && nestingGt as bs

def hasAssumptions (c : Ctx A) : Bool :=
  match c.assumptions with
  | some (_ :: _) => true
  | _ => false

/-- `strengthen` (called only under `m_assumptions && !m_assumptions->empty()`) -/
def strengthen (c : Ctx A) (n : Nat) (inv : A) : A :=
  if hasAssumptions c then
    match c.assumptions with
    | some m => match m.lookup n with
      | some a => c.ops.meet inv a
      | none => inv
    | none => inv
  else inv

/-- join of the posts of a list of predecessors, left to right starting from `acc` -/
def joinPosts (c : Ctx A) (post : Nat → A) (acc : A) (ps : List Nat) : A :=
  ps.foldl (fun a p => c.ops.join a (post p)) acc

/-- `compute_post` -/
def computePost (c : Ctx A) (st : St A) (node : Nat) (inv : A) : St A :=
  { st with post := upd st.post node (c.analyze node inv) }

/-- `visit(wto_vertex_t&)` -/
def visitVertex (c : Ctx A) (st : St A) (node : Nat) : St A :=
  let st := if st.skip && node == c.entry then { st with skip := false } else st
  if st.skip then st
  else
    let pre0 :=
      if node == c.entry then joinPosts c st.post c.init (c.preds node)
      else joinPosts c st.post c.ops.bot (c.preds node)
    let pre := strengthen c node pre0
    let st := { st with pre := upd st.pre node pre }
    computePost c st node pre

/-- `extrapolate` with `max_thresholds = 0` -/
def extrapolate (c : Ctx A) (iteration : Nat) (before after : A) : A :=
  if iteration ≤ c.delay then c.ops.join before after else c.ops.widen before after

/-- `refine` -/
def refine (c : Ctx A) (iteration : Nat) (before after : A) : A :=
  if iteration = 1 then c.ops.meet before after else c.ops.narrow before after

/-- join of all predecessors' posts of the head (plus `init` when the head is the start block),
    strengthened with the assumption of the head -/
def newPre (c : Ctx A) (st : St A) (head : Nat) : A :=
  let np := joinPosts c st.post c.ops.bot (c.preds head)
  let np := if head == c.entry then c.ops.join np c.init else np
  strengthen c head np

mutual
/-- one WTO component -/
def visitComp (c : Ctx A) : Nat → St A → Comp → Option (St A)
  | 0, _, _ => none
  | _ + 1, st, .vertex v => some (visitVertex c st v)
  | fuel + 1, st, .cycle head body =>
    -- decide whether to skip the cycle
    let entryIn := st.skip && (Comp.cycle head body).member c.entry
    if st.skip && !entryIn then some st
    else
      let st := { st with skip := false }
      let cycleNesting := (c.nesting head).getD []
      let pre0 := (c.preds head).foldl
        (fun a p => match c.nesting p with
          | none => a      -- not in the ordering: skipped
          | some np => if !(nestingGt np cycleNesting) then c.ops.join a (st.post p) else a) c.ops.bot
      let pre1 := if head == c.entry then c.ops.join pre0 c.init else pre0
      let pre := strengthen c head pre1
      match ascend c fuel st head body 1 pre with
      | none => none
      | some (st, pre) =>
        if c.descending = 0 then some st
        else descend c fuel st head body 1 pre

/-- the components of a cycle body / of the top level, in order -/
def visitList (c : Ctx A) : Nat → St A → List Comp → Option (St A)
  | 0, _, _ => none
  | _ + 1, st, [] => some st
  | fuel + 1, st, x :: xs =>
    match visitComp c fuel st x with
    | none => none
    | some st => visitList c fuel st xs

/-- increasing iteration sequence with widening -/
def ascend (c : Ctx A) : Nat → St A → Nat → List Comp → Nat → A → Option (St A × A)
  | 0, _, _, _, _, _ => none
  | fuel + 1, st, head, body, iteration, pre =>
    let st := { st with pre := upd st.pre head pre }
    let st := computePost c st head pre
    match visitList c fuel st body with
    | none => none
    | some st =>
      let np := newPre c st head
      if c.ops.leq np pre then
        some ({ st with pre := upd st.pre head np }, np)
      else
        ascend c fuel st head body (iteration + 1) (extrapolate c iteration pre np)

/-- decreasing iteration sequence with narrowing -/
def descend (c : Ctx A) : Nat → St A → Nat → List Comp → Nat → A → Option (St A)
  | 0, _, _, _, _, _ => none
  | fuel + 1, st, head, body, iteration, pre =>
    let st := computePost c st head pre
    match visitList c fuel st body with
    | none => none
    | some st =>
      let np := newPre c st head
      if c.ops.leq pre np then some st
      else if iteration > c.descending then some st
      else
        let pre' := refine c iteration pre np
        let st := { st with pre := upd st.pre head pre' }
        descend c fuel st head body (iteration + 1) pre'
end

/-- `run(entry, init, assumptions)` : tables start at bottom, `set_pre(entry, init)` -/
def run (c : Ctx A) (fuel : Nat) (wto : List Comp) : Option (St A) :=
  let st : St A := { pre := upd (fun _ => c.ops.bot) c.entry c.init, post := fun _ => c.ops.bot, skip := true }
  visitList c fuel st wto

end Fix
end Crab
