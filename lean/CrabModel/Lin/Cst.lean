import CrabModel.Lin.Expr

/-
  Model of `ikos::linear_constraint<z_number, VariableName>`
  (include/crab/types/linear_constraints.hpp): an expression `e` and a kind, read as
  `e = 0`, `e != 0`, `e <= 0`, `e < 0`.  (This version of the class has no signedness flag.)
-/
namespace Crab
namespace Lin

/-- `kind_t = enum { EQUALITY, DISEQUATION, INEQUALITY, STRICT_INEQUALITY }` -/
inductive Kind where
  | eq | neq | leq | lt
  deriving DecidableEq, Repr, Inhabited

structure Cst where
  expr : Expr
  kind : Kind
  deriving DecidableEq, Repr, Inhabited

namespace Cst

/-- meaning of a constraint under an integer valuation -/
def sat (c : Cst) (σ : Var → Int) : Prop :=
  match c.kind with
  | .eq => c.expr.eval σ = 0
  | .neq => c.expr.eval σ ≠ 0
  | .leq => c.expr.eval σ ≤ 0
  | .lt => c.expr.eval σ < 0

instance (c : Cst) (σ : Var → Int) : Decidable (c.sat σ) := by
  unfold sat; cases c.kind <;> exact inferInstance

/-- `get_true()` : `0 = 0` -/
def getTrue : Cst := ⟨Expr.const 0, .eq⟩
/-- `get_false()` : `0 != 0` -/
def getFalse : Cst := ⟨Expr.const 0, .neq⟩

/-- `is_tautology()` -/
def isTautology (c : Cst) : Bool :=
  match c.kind with
  | .neq => c.expr.isConstant && c.expr.constant != 0
  | .eq => c.expr.isConstant && c.expr.constant == 0
  | .leq => c.expr.isConstant && decide (c.expr.constant ≤ 0)
  | .lt => c.expr.isConstant && decide (c.expr.constant < 0)

/-- `is_contradiction()` -/
def isContradiction (c : Cst) : Bool :=
  match c.kind with
  | .neq => c.expr.isConstant && c.expr.constant == 0
  | .eq => c.expr.isConstant && c.expr.constant != 0
  | .leq => c.expr.isConstant && decide (c.expr.constant > 0)
  | .lt => c.expr.isConstant && decide (c.expr.constant ≥ 0)

/-- `constant()` of a constraint: `-_expr.constant()` -/
def constant (c : Cst) : Int := -c.expr.constant

/-- `linear_constraint_impl::negate_inequality`, specialisation for `z_number`:
    `negate(e <= 0) = e >= 1`, built as `-(e - 1) <= 0` -/
def negateInequalityZ (c : Cst) : Cst := ⟨(c.expr.subNum 1).neg, .leq⟩

/-- `negate_inequality`, generic version (used for `q_number`): `negate(e <= 0) = -e < 0` -/
def negateInequalityGeneric (c : Cst) : Cst := ⟨c.expr.neg, .lt⟩

/-- `negate()` with the inequality case as a parameter -/
def negateWith (negIneq : Cst → Cst) (c : Cst) : Cst :=
  if c.isTautology then getFalse
  else if c.isContradiction then getTrue
  else
    match c.kind with
    | .leq => negIneq c
    | .lt => ⟨c.expr.neg, .leq⟩
    | .eq => ⟨c.expr, .neq⟩
    | .neq => ⟨c.expr, .eq⟩

/-- `negate()` for `z_number` constraints -/
def negate (c : Cst) : Cst := negateWith negateInequalityZ c

/-- `negate()` as instantiated for non-integer numbers (same code, generic inequality case) -/
def negateGeneric (c : Cst) : Cst := negateWith negateInequalityGeneric c

/-- `linear_constraint_impl::strict_to_non_strict_inequality`, `z_number` specialisation:
    `e < 0 --> e + 1 <= 0`; the function asserts `is_strict_inequality()` (`none`: the
    assertion fails, the process aborts — not a CRAB_ERROR, never exercised) -/
def strictToNonStrict? (c : Cst) : Option Cst :=
  match c.kind with
  | .lt => some ⟨c.expr.addNum 1, .leq⟩
  | _ => none

/-- `rename(map)` -/
def rename (c : Cst) (m : List (Var × Var)) : Cst := ⟨c.expr.rename m, c.kind⟩

/-- syntactic `equal(o)` : `_kind == o._kind && _expr.equal(o._expr)` -/
def equal (c o : Cst) : Bool := decide (c.kind = o.kind) && c.expr.equal o.expr

end Cst
end Lin
end Crab
