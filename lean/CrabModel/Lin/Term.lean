import CrabModel.Lin.System

/-
  Construction histories of linear expressions and constraints: the terms the harness
  `h_lin.cpp` evaluates with the real operators of include/crab/types/linear_constraints.hpp.
  `interp` replays a history with the model operators (one model call per C++ call, same
  overload), `den` is the mathematical meaning of the history (what the operators are
  supposed to denote), independent of any representation.
-/
namespace Crab
namespace Lin

inductive Term where
  | num (k : Int)                      -- linear_expression(Number k)
  | var (i : Var)                      -- linear_expression(variable_t)
  | term (k : Int) (i : Var)           -- linear_expression(Number, variable_t) ; k * x
  | add (a b : Term)                   -- e1 + e2
  | sub (a b : Term)                   -- e1 - e2
  | neg (a : Term)                     -- -e
  | scale (k : Int) (a : Term)         -- e * k ; k * e
  | addn (a : Term) (k : Int)          -- e + k
  | subn (a : Term) (k : Int)          -- e - k
  | addv (a : Term) (i : Var)          -- e + x
  | subv (a : Term) (i : Var)          -- e - x
  | nadd (k : Int) (a : Term)          -- k + e   (= e.operator+(k))
  | nsub (k : Int) (a : Term)          -- k - e   (= linear_expression(k).operator-(e))
  | vadd (i : Var) (a : Term)          -- x + e   (= e.operator+(x))
  | vsub (i : Var) (a : Term)          -- x - e   (= linear_expression(1, x).operator-(e))
  | ren (a : Term) (m : List (Var × Var))   -- e.rename(m)
  deriving Repr, Inhabited

namespace Term

/-- replay with the model operators -/
def interp : Term → Expr
  | num k => Expr.const k
  | var i => Expr.var i
  | term k i => Expr.term k i
  | add a b => Expr.add (interp a) (interp b)
  | sub a b => Expr.sub (interp a) (interp b)
  | neg a => Expr.neg (interp a)
  | scale k a => Expr.scale (interp a) k
  | addn a k => Expr.addNum (interp a) k
  | subn a k => Expr.subNum (interp a) k
  | addv a i => Expr.addVar (interp a) i
  | subv a i => Expr.subVar (interp a) i
  | nadd k a => Expr.addNum (interp a) k
  | nsub k a => Expr.sub (Expr.const k) (interp a)
  | vadd i a => Expr.addVar (interp a) i
  | vsub i a => Expr.sub (Expr.term 1 i) (interp a)
  | ren a m => Expr.rename (interp a) m

/-- mathematical meaning -/
def den : Term → (Var → Int) → Int
  | num k, _ => k
  | var i, σ => σ i
  | term k i, σ => k * σ i
  | add a b, σ => den a σ + den b σ
  | sub a b, σ => den a σ - den b σ
  | neg a, σ => -den a σ
  | scale k a, σ => k * den a σ
  | addn a k, σ => den a σ + k
  | subn a k, σ => den a σ - k
  | addv a i, σ => den a σ + σ i
  | subv a i, σ => den a σ - σ i
  | nadd k a, σ => k + den a σ
  | nsub k a, σ => k - den a σ
  | vadd i a, σ => σ i + den a σ
  | vsub i a, σ => σ i - den a σ
  | ren a m, σ => den a (fun v => σ (Expr.renVar m v))

end Term

/-- relational operators on two expressions (`operator<=`, `<`, `>=`, `>`, `==`, `!=`) -/
inductive Rel where
  | le | lt | ge | gt | eq | ne
  deriving DecidableEq, Repr, Inhabited

inductive CTerm where
  | mk (k : Kind) (t : Term)                 -- linear_constraint(e, kind)
  | rel (op : Rel) (a b : Term)              -- e1 op e2
  | negate (c : CTerm)                       -- c.negate()
  | s2ns (c : CTerm)                         -- strict_to_non_strict_inequality(c)
  | ren (c : CTerm) (m : List (Var × Var))   -- c.rename(m)
  deriving Repr, Inhabited

namespace CTerm

/-- the free operators of the header: which difference is built, and which kind -/
def relCst (op : Rel) (a b : Expr) : Cst :=
  match op with
  | .le => ⟨Expr.sub a b, .leq⟩
  | .lt => ⟨Expr.sub a b, .lt⟩
  | .ge => ⟨Expr.sub b a, .leq⟩
  | .gt => ⟨Expr.sub b a, .lt⟩
  | .eq => ⟨Expr.sub a b, .eq⟩
  | .ne => ⟨Expr.sub a b, .neq⟩

/-- replay with the model (`none`: `strict_to_non_strict_inequality` on a non-strict
    constraint, an assertion failure) -/
def interp : CTerm → Option Cst
  | mk k t => some ⟨t.interp, k⟩
  | rel op a b => some (relCst op a.interp b.interp)
  | negate c => match interp c with
    | some r => some r.negate
    | none => none
  | s2ns c => match interp c with
    | some r => r.strictToNonStrict?
    | none => none
  | ren c m => match interp c with
    | some r => some (r.rename m)
    | none => none

def kindHolds (k : Kind) (v : Int) : Prop :=
  match k with
  | .eq => v = 0
  | .neq => v ≠ 0
  | .leq => v ≤ 0
  | .lt => v < 0

instance (k : Kind) (v : Int) : Decidable (kindHolds k v) := by
  unfold kindHolds; cases k <;> exact inferInstance

def relHolds (op : Rel) (x y : Int) : Prop :=
  match op with
  | .le => x ≤ y
  | .lt => x < y
  | .ge => x ≥ y
  | .gt => x > y
  | .eq => x = y
  | .ne => x ≠ y

instance (op : Rel) (x y : Int) : Decidable (relHolds op x y) := by
  unfold relHolds; cases op <;> exact inferInstance

/-- mathematical meaning over the integers -/
def den : CTerm → (Var → Int) → Prop
  | mk k t, σ => kindHolds k (t.den σ)
  | rel op a b, σ => relHolds op (a.den σ) (b.den σ)
  | negate c, σ => ¬ den c σ
  | s2ns c, σ => den c σ
  | ren c m, σ => den c (fun v => σ (Expr.renVar m v))

/-- decision procedure for `den` (used by the driver) -/
def denB : CTerm → (Var → Int) → Bool
  | mk k t, σ => decide (kindHolds k (t.den σ))
  | rel op a b, σ => decide (relHolds op (a.den σ) (b.den σ))
  | negate c, σ => !denB c σ
  | s2ns c, σ => denB c σ
  | ren c m, σ => denB c (fun v => σ (Expr.renVar m v))

end CTerm
end Lin
end Crab
