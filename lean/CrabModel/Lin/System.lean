import CrabModel.Lin.Cst

/-
  Model of `ikos::linear_constraint_system<z_number, VariableName>`
  (include/crab/types/linear_constraints.hpp): the vector `_csts` in insertion order.
-/
namespace Crab
namespace Lin

abbrev Sys := List Cst

namespace Sys

/-- a valuation satisfies every constraint of the system -/
def sat (s : Sys) (σ : Var → Int) : Prop := ∀ c ∈ s, c.sat σ

instance (s : Sys) (σ : Var → Int) : Decidable (sat s σ) := by unfold sat; exact inferInstance

/-- `operator+=(const linear_constraint_t &c)` : appended unless a syntactically equal
    constraint is already there -/
def addCst (s : Sys) (c : Cst) : Sys :=
  if s.any (fun c1 => c1.equal c) then s else s ++ [c]

/-- `operator+=(const linear_constraint_system_t &s)` -/
def addSys (s t : Sys) : Sys := t.foldl addCst s

/-- `operator+(s)` : `r += s; r += *this` on an empty `r` -/
def union (self s : Sys) : Sys := addSys (addSys [] s) self

/-- `linear_constraint_system(const linear_constraint_t &cst)` -/
def single (c : Cst) : Sys := [c]

/-- `is_false()` -/
def isFalse (s : Sys) : Bool := if s.isEmpty then false else s.any Cst.isContradiction
/-- `is_true()` -/
def isTrue (s : Sys) : Bool := s.isEmpty

/-- state of the first loop of `normalize()`: `index_map` (with `expr_set`, which always has the
    same keys: both are inserted together and `insert` never overwrites), the indexes marked in
    `toremove`, and `out` -/
structure NormState where
  seen : List (Expr × Nat)
  removed : List Nat
  out : Sys

/-- `index_map[-exp]` / `expr_set.find(-exp)` : lookup by `linear_expression_equal` -/
def lookup (seen : List (Expr × Nat)) (e : Expr) : Option Nat :=
  match seen with
  | [] => none
  | (k, i) :: rest => if k.equal e then some i else lookup rest e

/-- `insert_pos`: false only for a unary expression with a negative coefficient
    (`exp.size() == 1 && (*(exp.begin())).first < 0`) -/
def insertPos (exp : Expr) : Bool :=
  match exp.terms with
  | [(_, k)] => !(decide (k < 0))
  | _ => true

/-- the equality that replaces the pair `exp <= 0`, `-exp <= 0`: the one with the positive
    coefficient for unary expressions -/
def pairEquality (exp : Expr) : Cst :=
  if insertPos exp then ⟨exp, .eq⟩ else ⟨exp.neg, .eq⟩

/-- body of the first loop for the constraint at index `i` -/
def normStep (st : NormState) (i : Nat) (c : Cst) : NormState :=
  if c.kind = .leq then
    match lookup st.seen c.expr.neg with
    | none =>
      -- `index_map.insert({exp, i}); expr_set.insert(exp)` (no effect if `exp` is already a key)
      match lookup st.seen c.expr with
      | none => { st with seen := st.seen ++ [(c.expr, i)] }
      | some _ => st
    | some j =>
      -- we found exp<=0 and -exp<=0
      { st with removed := i :: j :: st.removed, out := addCst st.out (pairEquality c.expr) }
  else st

/-- first loop, over the constraints with their indexes -/
def normLoop : NormState → Nat → List Cst → NormState
  | st, _, [] => st
  | st, i, c :: rest => normLoop (normStep st i c) (i + 1) rest

/-- second loop: every constraint not marked is added to `out` -/
def keepLoop (removed : List Nat) : Sys → Nat → List Cst → Sys
  | out, _, [] => out
  | out, i, c :: rest =>
    keepLoop removed (if removed.contains i then out else addCst out c) (i + 1) rest

/-- `normalize()` : pairs `e <= 0`, `-e <= 0` are replaced with `e == 0` -/
def normalize (s : Sys) : Sys :=
  let st := normLoop ⟨[], [], []⟩ 0 s
  keepLoop st.removed st.out 0 s

end Sys
end Lin
end Crab
