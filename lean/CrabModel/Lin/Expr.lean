/-
  Model of `ikos::linear_expression<z_number, VariableName>`
  (include/crab/types/linear_constraints.hpp).

  A variable is its index (`crab::variable::operator<` / `==` compare `index()` only,
  include/crab/types/variable.hpp).  The coefficient map is a `boost::container::flat_map`
  ordered by variable: here the list of its entries in iteration order, kept exactly as the code
  keeps them.  `Expr.Canonical` is the invariant of the class (strictly increasing variables, no
  zero coefficient): every constructor and operator establishes or preserves it.
-/
namespace Crab
namespace Lin

abbrev Var := Nat

structure Expr where
  terms : List (Var × Int)
  cst : Int
  deriving DecidableEq, Repr, Inhabited

namespace Expr

/-- strictly increasing keys -/
def SortedKeys (l : List (Var × Int)) : Prop := List.Pairwise (fun a b => a.1 < b.1) l

instance (l : List (Var × Int)) : Decidable (SortedKeys l) := by unfold SortedKeys; exact inferInstance

/-- the map invariant of `flat_map` (always true of a value built by the class) -/
def Sorted (e : Expr) : Prop := SortedKeys e.terms

/-- no stored coefficient is zero -/
def NoZero (e : Expr) : Prop := ∀ p ∈ e.terms, p.2 ≠ 0

def Canonical (e : Expr) : Prop := e.Sorted ∧ e.NoZero

instance (e : Expr) : Decidable e.Sorted := by unfold Sorted; exact inferInstance
instance (e : Expr) : Decidable e.NoZero := by unfold NoZero; exact inferInstance
instance (e : Expr) : Decidable e.Canonical := by unfold Canonical; exact inferInstance

/-! ### constructors -/

/-- `linear_expression()` -/
def zero : Expr := ⟨[], 0⟩
/-- `linear_expression(Number n)` / `(int64_t n)` -/
def const (n : Int) : Expr := ⟨[], n⟩
/-- `linear_expression(variable_t x)` -/
def var (x : Var) : Expr := ⟨[(x, 1)], 0⟩
/-- `linear_expression(Number n, variable_t x)`, also reached by `n * x` / `x * n`:
    the entry is inserted only `if (n != 0)` -/
def term (n : Int) (x : Var) : Expr := if n = 0 then ⟨[], 0⟩ else ⟨[(x, n)], 0⟩

/-! ### accessors -/

/-- `is_constant()` : `_map->size() == 0` -/
def isConstant (e : Expr) : Bool := e.terms.isEmpty
/-- `constant()` -/
def constant (e : Expr) : Int := e.cst
/-- `size()` -/
def size (e : Expr) : Nat := e.terms.length

/-- `_map->find(x)` : first entry with key `x` -/
def findCoeff : List (Var × Int) → Var → Option Int
  | [], _ => none
  | (y, c) :: rest, x => if x = y then some c else findCoeff rest x

/-- `operator[](x)` -/
def coeff (e : Expr) (x : Var) : Int :=
  match findCoeff e.terms x with
  | some c => c
  | none => 0

/-- `variables()` (sorted) -/
def variables (e : Expr) : List Var := e.terms.map (·.1)

/-! ### the private `add(x, n)` on the sorted map -/

/-- `add(variable_t x, Number n)`: an existing entry is updated (erased when the sum is zero),
    otherwise a new entry is inserted at its sorted position unless `n = 0` -/
def addTerm : List (Var × Int) → Var → Int → List (Var × Int)
  | [], x, n => if n = 0 then [] else [(x, n)]
  | (y, c) :: rest, x, n =>
    if x = y then (if c + n = 0 then rest else (y, c + n) :: rest)
    else if x < y then (if n = 0 then (y, c) :: rest else (x, n) :: (y, c) :: rest)
    else (y, c) :: addTerm rest x n

/-! ### operators -/

/-- `operator+(Number n)` / `(int64_t n)` : the map is shared, the constant changes -/
def addNum (e : Expr) (n : Int) : Expr := ⟨e.terms, e.cst + n⟩
/-- `operator-(Number n)` / `(int64_t n)` : `operator+(-n)` -/
def subNum (e : Expr) (n : Int) : Expr := addNum e (-n)
/-- `operator+(variable_t x)` -/
def addVar (e : Expr) (x : Var) : Expr := ⟨addTerm e.terms x 1, e.cst⟩
/-- `operator-(variable_t x)` -/
def subVar (e : Expr) (x : Var) : Expr := ⟨addTerm e.terms x (-1), e.cst⟩

/-- `operator+(const linear_expression_t &e)` : copy of the left map, then `add` of every
    entry of the right one in order -/
def add (a b : Expr) : Expr :=
  ⟨b.terms.foldl (fun acc p => addTerm acc p.1 p.2) a.terms, a.cst + b.cst⟩

/-- `operator-(const linear_expression_t &e)` -/
def sub (a b : Expr) : Expr :=
  ⟨b.terms.foldl (fun acc p => addTerm acc p.1 (-p.2)) a.terms, a.cst - b.cst⟩

/-- entries of `operator*(Number n)` for `n ≠ 0`: products in order, zero products skipped -/
def scaleTerms (n : Int) : List (Var × Int) → List (Var × Int)
  | [] => []
  | (x, c) :: rest => if n * c ≠ 0 then (x, n * c) :: scaleTerms n rest else scaleTerms n rest

/-- `operator*(Number n)` / `(int64_t n)` and `n * e` -/
def scale (e : Expr) (n : Int) : Expr :=
  if n = 0 then zero else ⟨scaleTerms n e.terms, n * e.cst⟩

/-- unary `operator-` : `operator*(Number(-1))` -/
def neg (e : Expr) : Expr := scale e (-1)

/-- the renaming map argument (`map.find(v)`, first match), identity outside its keys -/
def renVar (m : List (Var × Var)) (v : Var) : Var :=
  match m with
  | [] => v
  | (a, b) :: rest => if v = a then b else renVar rest v

/-- `rename(map)`: starting from the constant, `new_exp = new_exp + (*this)[v] * v_out`
    for every variable `v` of the expression in order -/
def rename (e : Expr) (m : List (Var × Var)) : Expr :=
  e.variables.foldl (fun acc v => add acc (term (e.coeff v) (renVar m v))) (const e.cst)

/-- syntactic `equal(o)` exactly as coded -/
def pairsEq : List (Var × Int) → List (Var × Int) → Bool
  | [], _ => true           -- the loop runs over the entries of the left operand only
  | _ :: _, [] => true      -- (never reached: sizes are compared first)
  | (x, c) :: r1, (y, d) :: r2 => if c ≠ d ∨ x ≠ y then false else pairsEq r1 r2

def equal (e o : Expr) : Bool :=
  if e.isConstant then
    (if !o.isConstant then false else e.constant == o.constant)
  else
    if e.constant ≠ o.constant then false
    else if e.size ≠ o.size then false
    else pairsEq e.terms o.terms

/-! ### meaning -/

def evalTerms (σ : Var → Int) : List (Var × Int) → Int
  | [] => 0
  | (x, c) :: rest => c * σ x + evalTerms σ rest

/-- value of the expression under a valuation of the variables -/
def eval (e : Expr) (σ : Var → Int) : Int := evalTerms σ e.terms + e.cst

end Expr
end Lin
end Crab
