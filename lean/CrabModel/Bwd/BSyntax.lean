/-
  Programs of the backward-analysis component (`bwd`, property C11): integer variables,
  linear expressions / constraints, the CrabIR statement kinds the necessary-precondition
  transformer gives a meaning to (`assign`, `bin_op` add/sub/mul/sdiv by variable or constant,
  `havoc`, `assume`, `assert`, `select`), basic blocks and control-flow graphs with an entry and
  an exit block.  Same text format as `harness/bprog.hpp`.
-/
namespace Crab
namespace Bwd

abbrev Var := Nat

/-- a concrete state: total map variable → mathematical integer -/
abbrev State := Nat → Int

def upd (σ : State) (x : Var) (v : Int) : State := fun y => if y = x then v else σ y

@[simp] theorem upd_same (σ : State) (x : Var) (v : Int) : upd σ x v x = v := by simp [upd]
theorem upd_other (σ : State) (x y : Var) (v : Int) (h : y ≠ x) : upd σ x v y = σ y := by simp [upd, h]
theorem upd_upd (σ : State) (x : Var) (v w : Int) : upd (upd σ x v) x w = upd σ x w := by
  funext y; by_cases h : y = x <;> simp [upd, h]
theorem upd_self (σ : State) (x : Var) : upd σ x (σ x) = σ := by
  funext y; by_cases h : y = x <;> simp [upd, h]
theorem upd_comm (σ : State) (x y : Var) (v w : Int) (h : x ≠ y) :
    upd (upd σ x v) y w = upd (upd σ y w) x v := by
  funext z
  by_cases h1 : z = x
  · subst h1; simp [upd, h]
  · by_cases h2 : z = y
    · subst h2; simp [upd, h1]
    · simp [upd, h1, h2]

/-- `c + Σ k·v` (`linear_expression`) -/
structure Lin where
  c : Int
  ts : List (Int × Var)
  deriving Repr, Inhabited, BEq

def evalTerms : List (Int × Var) → State → Int
  | [], _ => 0
  | (k, v) :: ts, σ => k * σ v + evalTerms ts σ

def Lin.eval (e : Lin) (σ : State) : Int := e.c + evalTerms e.ts σ

def Lin.vars (e : Lin) : List Var := e.ts.map (·.2)

/-- `linear_expression::rename` with the one-entry map `x ↦ x'` -/
def Lin.rename (e : Lin) (x x' : Var) : Lin :=
  { e with ts := e.ts.map (fun t => (t.1, if t.2 = x then x' else t.2)) }

def Lin.neg (e : Lin) : Lin := ⟨-e.c, e.ts.map (fun t => (-t.1, t.2))⟩

/-- the expression `x` / the expression `e - x` -/
def Lin.var (x : Var) : Lin := ⟨0, [(1, x)]⟩
def Lin.subVar (e : Lin) (x : Var) : Lin := ⟨e.c, (-1, x) :: e.ts⟩

inductive CKind | le | lt | eq | ne
  deriving Repr, BEq, Inhabited, DecidableEq

/-- `e ⋈ 0` (`linear_constraint`: INEQUALITY, STRICT_INEQUALITY, EQUALITY, DISEQUATION) -/
structure Cst where
  k : CKind
  e : Lin
  deriving Repr, Inhabited

def Cst.holds (c : Cst) (σ : State) : Prop :=
  match c.k with
  | .le => c.e.eval σ ≤ 0
  | .lt => c.e.eval σ < 0
  | .eq => c.e.eval σ = 0
  | .ne => c.e.eval σ ≠ 0

def Cst.sat (c : Cst) (σ : State) : Bool :=
  match c.k with
  | .le => decide (c.e.eval σ ≤ 0)
  | .lt => decide (c.e.eval σ < 0)
  | .eq => decide (c.e.eval σ = 0)
  | .ne => decide (c.e.eval σ ≠ 0)

/-- `linear_constraint::negate` on integers: `¬(e ≤ 0) = (1 - e ≤ 0)`, `¬(e < 0) = (-e ≤ 0)`,
    equality ↔ disequation (the constant tautology / contradiction cases of the C++ return a
    constraint with the same meaning) -/
def Cst.negate (c : Cst) : Cst :=
  match c.k with
  | .le => ⟨.le, ⟨1 - c.e.c, c.e.neg.ts⟩⟩
  | .lt => ⟨.le, c.e.neg⟩
  | .eq => ⟨.ne, c.e⟩
  | .ne => ⟨.eq, c.e⟩

/-- the equality `e - x = 0` added by `BackwardAssignOps::assign` -/
def Cst.eqVar (e : Lin) (x : Var) : Cst := ⟨.eq, e.subVar x⟩

inductive BinOp | add | sub | mul | sdiv
  deriving Repr, BEq, Inhabited, DecidableEq

inductive Operand
  | var (v : Var)
  | const (k : Int)
  deriving Repr, Inhabited

def Operand.eval : Operand → State → Int
  | .var v, σ => σ v
  | .const k, _ => k

inductive Stmt
  | assign (x : Var) (e : Lin)
  | bin (op : BinOp) (x y : Var) (z : Operand)
  | havoc (x : Var)
  | assume (c : Cst)
  | assert (c : Cst)
  | select (x : Var) (c : Cst) (e1 e2 : Lin)
  deriving Repr, Inhabited

def Stmt.isAssert : Stmt → Bool
  | .assert _ => true
  | _ => false

structure Block where
  stmts : List Stmt
  succs : List Nat
  deriving Repr, Inhabited

/-- blocks are numbered by their position -/
structure Prog where
  blocks : List Block
  entry : Nat
  exit : Nat
  deriving Repr, Inhabited

def Prog.block (p : Prog) (n : Nat) : Block := p.blocks.getD n ⟨[], []⟩

end Bwd
end Crab
