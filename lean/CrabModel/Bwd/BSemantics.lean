/-
  Concrete semantics of the programs of `BSyntax.lean` (DESIGN.md §2.3 conventions):
  `sdiv` truncates, division by zero has no successor, a false `assume` has no successor,
  a failed `assert` is the event `fail` and stops the execution, `havoc` and `goto` choose
  arbitrarily (the choices come from an explicit stream, so the driver can run executions).

  * `stepStmt` / `runStmts` / `replay` : executable small-step semantics with a choice stream;
  * `StmtStep`, `StmtFails`, `StmtsStep`, `StmtsFail` : the same as relations;
  * `CoReach` : the co-reachability collecting semantics the necessary-precondition analysis
    over-approximates — the states at the entry of a block from which some execution,
    consistent with the supplied forward invariants at every block entry, violates an
    assertion (error mode) or arrives at the end of the exit block in a final state;
  * `search` : bounded depth-first search for such an execution (successor choices, havoc
    values drawn from a candidate list), used by the driver; every witness it returns is
    re-validated by `replay`, and `replay` is proved to imply `CoReach` (Props/C11.lean).
-/
import CrabModel.Bwd.BSyntax

namespace Crab
namespace Bwd

inductive Outcome
  | next (σ : State)
  | stuck
  | fail

def binSem (op : BinOp) (a b : Int) : Option Int :=
  match op with
  | .add => some (a + b)
  | .sub => some (a - b)
  | .mul => some (a * b)
  | .sdiv => if b = 0 then none else some (Int.tdiv a b)

/-- one statement; `h` is the value chosen by `havoc` (ignored by the other kinds) -/
def stepStmt (s : Stmt) (σ : State) (h : Int) : Outcome :=
  match s with
  | .assign x e => .next (upd σ x (e.eval σ))
  | .bin op x y z =>
    match binSem op (σ y) (z.eval σ) with
    | some v => .next (upd σ x v)
    | none => .stuck
  | .havoc x => .next (upd σ x h)
  | .assume c => if c.sat σ then .next σ else .stuck
  | .assert c => if c.sat σ then .next σ else .fail
  | .select x c e1 e2 => .next (upd σ x (if c.sat σ then e1.eval σ else e2.eval σ))

def StmtStep (s : Stmt) (σ σ' : State) : Prop := ∃ h, stepStmt s σ h = .next σ'
def StmtFails (s : Stmt) (σ : State) : Prop := ∃ h, stepStmt s σ h = .fail

/-- a statement list runs from `σ` to `σ'` (every assert on the way holds) -/
def StmtsStep : List Stmt → State → State → Prop
  | [], σ, σ' => σ' = σ
  | s :: ss, σ, σ' => ∃ σ1, StmtStep s σ σ1 ∧ StmtsStep ss σ1 σ'

/-- some assert of the list fails in an execution from `σ` -/
def StmtsFail : List Stmt → State → Prop
  | [], _ => False
  | s :: ss, σ => StmtFails s σ ∨ ∃ σ1, StmtStep s σ σ1 ∧ StmtsFail ss σ1

/-- the exit block is reachable along control-flow edges -/
inductive ReachesExit (p : Prog) : Nat → Prop
  | here : ReachesExit p p.exit
  | edge (n m : Nat) : m ∈ (p.block n).succs → ReachesExit p m → ReachesExit p n

/-- Co-reachability: `CoReach p inv err fin n σ` — from state `σ` at the entry of block `n`
    some execution whose block-entry states satisfy the supplied invariants `inv` fails an
    assertion (only when `err`) or ends the exit block in a state of `fin`. -/
inductive CoReach (p : Prog) (inv : Nat → State → Prop) (err : Bool) (fin : State → Prop) :
    Nat → State → Prop
  | exit (σ σ' : State) : inv p.exit σ → StmtsStep (p.block p.exit).stmts σ σ' → fin σ' →
      CoReach p inv err fin p.exit σ
  | flow (n m : Nat) (σ σ' : State) : inv n σ → m ∈ (p.block n).succs →
      StmtsStep (p.block n).stmts σ σ' → CoReach p inv err fin m σ' → CoReach p inv err fin n σ
  | fail (n : Nat) (σ : State) : err = true → inv n σ → StmtsFail (p.block n).stmts σ →
      CoReach p inv err fin n σ

/-- the part of `CoReach` the code accounted for BEFORE commit 111ab80: assertion failures only
    in blocks from which the exit block is reachable (the backward pass walks the reversed graph
    from the exit block, DESIGN.md §4 #8); used only for the old-behaviour counterexample -/
inductive CoReachX (p : Prog) (inv : Nat → State → Prop) (err : Bool) (fin : State → Prop) :
    Nat → State → Prop
  | exit (σ σ' : State) : inv p.exit σ → StmtsStep (p.block p.exit).stmts σ σ' → fin σ' →
      CoReachX p inv err fin p.exit σ
  | flow (n m : Nat) (σ σ' : State) : inv n σ → m ∈ (p.block n).succs →
      StmtsStep (p.block n).stmts σ σ' → CoReachX p inv err fin m σ' → CoReachX p inv err fin n σ
  | fail (n : Nat) (σ : State) : err = true → ReachesExit p n → inv n σ →
      StmtsFail (p.block n).stmts σ → CoReachX p inv err fin n σ

/-! ### executable semantics with a choice stream -/

inductive BlockRes
  | done (σ : State) (rest : List Int)
  | stuck
  | fail (idx : Nat)     -- index of the failing assert in the block

/-- run the statements of a block; a `havoc` consumes one choice (0 when the stream is empty) -/
def runStmtsFrom : Nat → List Stmt → State → List Int → BlockRes
  | _, [], σ, cs => .done σ cs
  | i, s :: ss, σ, cs =>
    let hc : Int × List Int := match s with
      | .havoc _ => (cs.headD 0, cs.tail)
      | _ => (0, cs)
    match stepStmt s σ hc.1 with
    | .next σ' => runStmtsFrom (i + 1) ss σ' hc.2
    | .stuck => .stuck
    | .fail => .fail i

def runStmts (ss : List Stmt) (σ : State) (cs : List Int) : BlockRes := runStmtsFrom 0 ss σ cs

/-- Deterministic replay of a choice stream from the entry of block `n`: `true` iff the
    execution (block-entry states filtered by `invOk`) fails an assert accepted by `errAt`
    (block, statement index) or ends the exit block in a state of `fin`.  After a block a
    choice `k` selects the `k`-th successor. -/
def replay (p : Prog) (invOk : Nat → State → Bool) (errAt : Nat → Nat → Bool) (fin : State → Bool) :
    Nat → Nat → State → List Int → Bool
  | 0, _, _, _ => false
  | fuel + 1, n, σ, cs =>
    invOk n σ &&
    match runStmts (p.block n).stmts σ cs with
    | .fail i => errAt n i
    | .stuck => false
    | .done σ' cs' =>
      (n == p.exit && fin σ') ||
      match cs' with
      | [] => false
      | k :: cs'' =>
        match (p.block n).succs[k.toNat]? with
        | some m => replay p invOk errAt fin fuel m σ' cs''
        | none => false

/-! ### bounded depth-first search for a witness execution -/

structure SearchCfg where
  p : Prog
  invOk : Nat → State → Bool
  /-- which failing asserts count (block, statement index); constantly `false` in good mode -/
  errAt : Nat → Nat → Bool
  fin : State → Bool
  /-- values tried for a `havoc` -/
  cands : List Int
  /-- pruning: a goal is syntactically reachable from the block -/
  useful : Nat → Bool
  /-- statements the search refuses to execute (used to classify findings) -/
  avoid : Stmt → Bool := fun _ => false

mutual
/-- `fuel` bounds the recursion depth, `d` the number of further block transitions, `b` the
    total number of expansions (threaded); result = (witness choice stream, budget left) -/
def sStmts (k : SearchCfg) : Nat → Nat → Nat → Nat → List Stmt → State → Nat → Option (List Int) × Nat
  | 0, _, _, _, _, _, b => (none, b)
  | fuel + 1, d, n, _, [], σ, b => sAfter k fuel d n σ b
  | fuel + 1, d, n, i, s :: ss, σ, b =>
    if b = 0 then (none, 0)
    else if k.avoid s then (none, b - 1)
    else
      match s with
      | .havoc x => tryVals k fuel d n (i + 1) x ss σ k.cands (b - 1)
      | _ =>
        match stepStmt s σ 0 with
        | .next σ' => sStmts k fuel d n (i + 1) ss σ' (b - 1)
        | .stuck => (none, b - 1)
        | .fail => (if k.errAt n i then some [] else none, b - 1)

def tryVals (k : SearchCfg) : Nat → Nat → Nat → Nat → Var → List Stmt → State → List Int → Nat →
    Option (List Int) × Nat
  | 0, _, _, _, _, _, _, _, b => (none, b)
  | _ + 1, _, _, _, _, _, _, [], b => (none, b)
  | fuel + 1, d, n, i, x, ss, σ, v :: vs, b =>
    match sStmts k fuel d n i ss (upd σ x v) b with
    | (some w, b') => (some (v :: w), b')
    | (none, b') => tryVals k fuel d n i x ss σ vs b'

/-- the block has been executed, current state `σ` -/
def sAfter (k : SearchCfg) : Nat → Nat → Nat → State → Nat → Option (List Int) × Nat
  | 0, _, _, _, b => (none, b)
  | fuel + 1, d, n, σ, b =>
    if n == k.p.exit && k.fin σ then (some [], b)
    else match d with
      | 0 => (none, b)
      | d' + 1 => trySuccs k fuel d' n σ 0 (k.p.block n).succs b

def trySuccs (k : SearchCfg) : Nat → Nat → Nat → State → Nat → List Nat → Nat → Option (List Int) × Nat
  | 0, _, _, _, _, _, b => (none, b)
  | _ + 1, _, _, _, _, [], b => (none, b)
  | fuel + 1, d, n, σ, i, m :: ms, b =>
    if k.useful m && k.invOk m σ then
      match sStmts k fuel d m 0 (k.p.block m).stmts σ b with
      | (some w, b') => (some (Int.ofNat i :: w), b')
      | (none, b') => trySuccs k fuel d n σ (i + 1) ms b'
    else trySuccs k fuel d n σ (i + 1) ms b
end

/-- search from the entry of block `n` with at most `d` block transitions and `b` expansions -/
def searchFrom (k : SearchCfg) (d b : Nat) (n : Nat) (σ : State) : Option (List Int) :=
  if k.invOk n σ then (sStmts k 4000 d n 0 (k.p.block n).stmts σ b).1 else none

/-- iterative deepening over the number of block transitions -/
def search (k : SearchCfg) (n : Nat) (σ : State) : Option (List Int) :=
  [(1, 300), (3, 600), (6, 1200), (12, 2500)].findSome? (fun (d, b) => searchFrom k d b n σ)

/-- blocks from which a block satisfying `goal` is reachable along edges (reflexive);
    `fuel` = number of rounds (the number of blocks suffices) -/
def reachSet (p : Prog) (goal : Nat → Bool) (fuel : Nat) : List Bool :=
  let n := p.blocks.length
  let init := (List.range n).map goal
  (List.range fuel).foldl (fun acc _ =>
    (List.range n).map (fun i => acc.getD i false || (p.block i).succs.any (fun m => acc.getD m false))) init

def reachesExitB (p : Prog) (n : Nat) : Bool :=
  (reachSet p (fun i => i == p.exit) p.blocks.length).getD n false

end Bwd
end Crab
