/-
  Glue between the programs of the backward-analysis component (`BSyntax.lean`) and the exact
  domain models (`CrabModel/Dom/*`), and the two shapes the shipped domains give to
  `backward_assign` / `backward_apply`:

  * `Lin.toExpr`, `Cst.toLin` : the `linear_expression` / `linear_constraint` objects of an
    expression / constraint of a `bwd` program (the class keeps the terms in a sorted map without
    zero coefficients: the object is built from the constant by `operator+` of the terms);
  * `withGenBwd D rename bound` : the record `D` in which the two backward operations are
    `BackwardAssignOps<Dom>::assign / apply` (`genBwdAssign`, `genBwdApply` of `BwdTransfer.lean`)
    over the FORWARD operations of `D` itself — what `interval_domain`, `congruence_domain`,
    `split_dbm_domain`, `sparse_dbm_domain`, `split_oct_domain`, `dis_interval_domain`,
    `boxes_domain`, `term_domain` do.  The fresh variable `vfac.get()` returns is modelled by
    `freshFor`: an index above every variable of the statement and above `bound post`, the
    indices the value `post` does not constrain (the result does not depend on the choice: the
    variable is forgotten / renamed away before the function returns);
  * `withForgetBwd D` : the backward operations of `constant_domain` and `sign_domain` after
    commit ced0dcf: `this->operator-=(x); *this = *this & inv;`.
  * the in-language fragments of the canonical zone / octagon models: `zoneCsts`, `zoneAssign`,
    `octCsts`, `octAssign` translate a constraint / an assignment of a `bwd` program to the
    statements of `ZonesOps.lean` / `OctagonOps.lean` (everything outside the language is
    ignored / is a havoc of the assigned variable).
-/
import CrabModel.Bwd.BwdTransfer
import CrabModel.Lin.Cst
import CrabModel.Dom.ZonesOps
import CrabModel.Dom.OctagonOps

namespace Crab
namespace Bwd

abbrev LExpr := Crab.Lin.Expr
abbrev LCst := Crab.Lin.Cst

/-- the terms as the pairs (variable, coefficient) of `linear_expression` -/
def Lin.pairs (e : Lin) : List (Var × Int) := e.ts.map (fun t => (t.2, t.1))

/-- the `linear_expression` object: `Number(c) + k1 * v1 + ...` -/
def Lin.toExpr (e : Lin) : LExpr := Crab.Lin.Expr.add (Crab.Lin.Expr.const e.c) ⟨e.pairs, 0⟩

def CKind.toLin : CKind → Crab.Lin.Kind
  | .le => .leq
  | .lt => .lt
  | .eq => .eq
  | .ne => .neq

/-- the `linear_constraint` object -/
def Cst.toLin (c : Cst) : LCst := ⟨c.e.toExpr, c.k.toLin⟩

def Operand.vars : Operand → List Var
  | .var w => [w]
  | .const _ => []

/-- an index not below `bound` and above every variable of the list -/
def freshFor (bound : Nat) (vs : List Var) : Var := vs.foldl (fun m v => max m (v + 1)) bound

variable {A : Type}

/-- `backward_assign` / `backward_apply` = `BackwardAssignOps<Dom>::assign / apply` over the
    forward operations of `D`; `rename y x` is `rename({y}, {x})`, `bound a` an index from which
    the value `a` constrains no variable -/
def withGenBwd (D : BDom A) (rename : Var → Var → A → A) (bound : A → Nat) : BDom A :=
  { D with
    bwdAssign := fun x e post inv =>
      genBwdAssign D rename (freshFor (bound post) (x :: e.vars)) x e post inv
    bwdApply := fun op x y z post inv =>
      genBwdApply D rename (freshFor (bound post) (x :: y :: z.vars)) op x y z post inv }

/-- `constant_domain` / `sign_domain` (commit ced0dcf): forget `x`, meet with the invariant -/
def withForgetBwd (D : BDom A) : BDom A :=
  { D with
    bwdAssign := fun x _ post inv => D.meet (D.forget x post) inv
    bwdApply := fun _ x _ _ post inv => D.meet (D.forget x post) inv }

/-- the expression `y op z` of `apply(op, x, y, z)` for the two linear operations -/
def binLin (op : BinOp) (y : Var) (z : Operand) : Option Lin :=
  match op, z with
  | .add, .var w => some ⟨0, [(1, y), (1, w)]⟩
  | .add, .const k => some ⟨k, [(1, y)]⟩
  | .sub, .var w => some ⟨0, [(1, y), (-1, w)]⟩
  | .sub, .const k => some ⟨-k, [(1, y)]⟩
  | _, _ => none

/-! ### the constraint language of the canonical zone model -/

/-- the zone constraints implied by `c + Σ ≤ 0` (unit coefficients, at most two variables,
    every variable below `n`) -/
def zoneLe (n : Nat) (c : Int) : List (Int × Var) → List (Zones.Cst n)
  | [(a, x)] =>
    if h : x < n then
      (if a = 1 then [.ub ⟨x, h⟩ (-c)] else if a = -1 then [.lb ⟨x, h⟩ (-c)] else [])
    else []
  | [(a, x), (b, y)] =>
    if h : x < n ∧ y < n then
      (if a = 1 ∧ b = -1 then [.diff ⟨x, h.1⟩ ⟨y, h.2⟩ (-c)]
       else if a = -1 ∧ b = 1 then [.diff ⟨y, h.2⟩ ⟨x, h.1⟩ (-c)] else [])
    else []
  | _ => []

/-- the zone constraints a linear constraint implies (a disequation: none) -/
def zoneCsts (n : Nat) (c : Cst) : List (Zones.Cst n) :=
  match c.k with
  | .le => zoneLe n c.e.c c.e.ts
  | .lt => zoneLe n (c.e.c + 1) c.e.ts
  | .eq => zoneLe n c.e.c c.e.ts ++ zoneLe n c.e.neg.c c.e.neg.ts
  | .ne => []

/-- `x := e` in the statement language of the zone model -/
def zoneAssign (n : Nat) (x : Fin n) (e : Lin) : Zones.Stmt n :=
  match e.ts with
  | [] => .assignCst x e.c
  | [(a, y)] => if h : a = 1 ∧ y < n then .assignVar x ⟨y, h.2⟩ e.c else .havoc x
  | _ => .havoc x

/-! ### the constraint language of the canonical octagon model -/

def octLe (n : Nat) (c : Int) : List (Int × Var) → List (Octagon.Cst n)
  | [(a, x)] =>
    if h : x < n then
      (if a = 1 then [.ub ⟨x, h⟩ (-c)] else if a = -1 then [.lb ⟨x, h⟩ (-c)] else [])
    else []
  | [(a, x), (b, y)] =>
    if h : x < n ∧ y < n then
      (if a = 1 ∧ b = -1 then [.diff ⟨x, h.1⟩ ⟨y, h.2⟩ (-c)]
       else if a = -1 ∧ b = 1 then [.diff ⟨y, h.2⟩ ⟨x, h.1⟩ (-c)]
       else if a = 1 ∧ b = 1 then [.sum ⟨x, h.1⟩ ⟨y, h.2⟩ (-c)]
       else if a = -1 ∧ b = -1 then [.nsum ⟨x, h.1⟩ ⟨y, h.2⟩ (-c)] else [])
    else []
  | _ => []

def octCsts (n : Nat) (c : Cst) : List (Octagon.Cst n) :=
  match c.k with
  | .le => octLe n c.e.c c.e.ts
  | .lt => octLe n (c.e.c + 1) c.e.ts
  | .eq => octLe n c.e.c c.e.ts ++ octLe n c.e.neg.c c.e.neg.ts
  | .ne => []

def octAssign (n : Nat) (x : Fin n) (e : Lin) : Octagon.Stmt n :=
  match e.ts with
  | [] => .assignCst x e.c
  | [(a, y)] =>
    if h : y < n then
      (if a = 1 then .assignVar x ⟨y, h⟩ e.c else if a = -1 then .assignNeg x ⟨y, h⟩ e.c else .havoc x)
    else .havoc x
  | _ => .havoc x

end Bwd
end Crab
