/-
  Model of the necessary-precondition analysis, generic in the abstract domain.

  * `BDom`      : the operations of the C++ abstract-domain API the analysis calls;
  * `fwdExec`   : `intra_abs_transformer::exec` (include/crab/analysis/abs_transformer.hpp) for the
                  statement kinds of `BSyntax` — used by `analyze` to rebuild the forward invariant
                  that holds before every statement of a block;
  * `bwdExec`   : `intra_necessary_preconditions_abs_transformer::exec`, branch by branch;
  * `bwdStmts`  : `necessary_preconditions_fixpoint_iterator::analyze`
                  (include/crab/analysis/bwd_analyzer.hpp) on the statements of one block;
  * `genBwdAssign`, `genBwdApply` : `BackwardAssignOps::assign / apply`
                  (include/crab/domains/backward_assign_operations.hpp), the generic
                  implementation of `backward_assign` / `backward_apply` shared by intervals,
                  dis_intervals, split_dbm, sparse_dbm, split_oct, congruences, term_equiv;
  * `reachF`, `reachExitF`, `mayFailB` : `compute_fail_without_exit` (the two worklist passes
                  of the constructor, modelled as round-based propagation; `Lemmas/BwdFail.lean`
                  proves that |blocks| rounds reach the least fixpoint);
  * `bwdCtx`    : the instance of the interleaved fixpoint iterator the class runs:
                  the graph is `cfg_rev` (predecessors = successors of the original CFG), the
                  start block is the exit block, the initial value the given final states;
                  in error mode a block with a successor in the `mayFailB` set is analysed
                  from top.
  * `bwdCtxOld`, `genBwdApplyOld` : the behaviour before the `fix:` commits 111ab80 (assertions
                  in blocks that cannot reach the exit were never seen) and ac800bc (`x := y / k`
                  inverted by `y := x * k`); kept only for the counterexamples.
  * `BDomSound` : soundness contract of the operations w.r.t. a concretisation.
-/
import CrabModel.Bwd.BSemantics
import CrabModel.Fix.Interleaved

namespace Crab
namespace Bwd

structure BDom (A : Type) where
  top : A
  bot : A
  isBottom : A → Bool
  leq : A → A → Bool
  join : A → A → A
  meet : A → A → A
  widen : A → A → A
  narrow : A → A → A
  /-- `operator+=(linear_constraint)` -/
  assume : Cst → A → A
  /-- `operator-=(variable)` -/
  forget : Var → A → A
  /-- `assign(x, e)` -/
  assign : Var → Lin → A → A
  /-- `apply(op, x, y, z)` (z a variable or a number) -/
  apply : BinOp → Var → Var → Operand → A → A
  /-- `select(lhs, cond, e1, e2)` -/
  select : Var → Cst → Lin → Lin → A → A
  /-- `backward_assign(x, e, invariant)` on the value `post` -/
  bwdAssign : Var → Lin → A → A → A
  /-- `backward_apply(op, x, y, z, invariant)` on the value `post` -/
  bwdApply : BinOp → Var → Var → Operand → A → A → A

variable {A : Type}

/-- `intra_abs_transformer::exec` (assert is `+=` like assume, havoc is `-=`) -/
def fwdExec (D : BDom A) : Stmt → A → A
  | .assign x e, a => D.assign x e a
  | .bin op x y z, a => D.apply op x y z a
  | .havoc x, a => D.forget x a
  | .assume c, a => D.assume c a
  | .assert c, a => D.assume c a
  | .select x c e1 e2, a => D.select x c e1 e2 a

/-- `intra_necessary_preconditions_abs_transformer::exec`; `post` is `m_pre` before the call,
    `inv` is `get_forward_invariant(&stmt)`, `good` is `m_good_states`.
    * `bin_op` (add/sub/mul/sdiv are all below `OP_UDIV`): `backward_apply`;
    * `select`: if `inv + cond` is bottom only the else branch is possible, if `inv + ¬cond` is
      bottom only the then branch, otherwise the join of both;
    * `assume`: same as forward;
    * `assert`: good states — like assume; error states — `m_pre |= (top + ¬c)`;
    * `havoc`: forget. -/
def bwdExec (D : BDom A) (good : Bool) (s : Stmt) (post inv : A) : A :=
  match s with
  | .bin op x y z => D.bwdApply op x y z post inv
  | .select x c e1 e2 =>
    if D.isBottom (D.assume c inv) then
      D.assume c.negate (D.bwdAssign x e2 post inv)
    else if D.isBottom (D.assume c.negate inv) then
      D.assume c (D.bwdAssign x e1 post inv)
    else
      D.join (D.assume c (D.bwdAssign x e1 post inv)) (D.assume c.negate (D.bwdAssign x e2 post inv))
  | .assign x e => D.bwdAssign x e post inv
  | .assume c => D.assume c post
  | .assert c => if good then D.assume c post else D.join post (D.assume c.negate D.top)
  | .havoc x => D.forget x post

/-- `analyze(node, precond)`: the C++ first walks the block forwards from the block invariant,
    recording the value before each statement (`pp_invariants`), then walks it backwards with
    `bwdExec`.  Written as one recursion: the statement `s` is given the invariant `inv` that
    holds before it, the rest of the block the invariant `fwdExec s inv`. -/
def bwdStmts (D : BDom A) (good : Bool) : List Stmt → A → A → A
  | [], post, _ => post
  | s :: ss, post, inv => bwdExec D good s (bwdStmts D good ss post (fwdExec D s inv)) inv

/-- `k` rounds of propagation against the edges from the blocks satisfying `goal`
    (the worklist loops of `compute_fail_without_exit` compute the limit of these rounds) -/
def reachF (p : Prog) (goal : Nat → Bool) : Nat → Nat → Bool
  | 0, i => goal i
  | k + 1, i => reachF p goal k i || (p.block i).succs.any (reachF p goal k)

/-- first pass: `reach_exit` -/
def reachExitF (p : Prog) (i : Nat) : Bool := reachF p (fun j => j == p.exit) p.blocks.length i

/-- second pass, `m_fail_without_exit`: seeded with the blocks outside `reach_exit` that contain
    an assertion, propagated to predecessors outside `reach_exit` -/
def mayFailB (p : Prog) (n : Nat) : Bool :=
  !reachExitF p n &&
    reachF p (fun i => !reachExitF p i && (p.block i).stmts.any Stmt.isAssert) p.blocks.length n

/-- the fixpoint problem `necessary_preconditions_fixpoint_iterator` hands to the interleaved
    iterator: reversed graph, start = exit block, initial value = the final states `fin`,
    no assumption map.  `invAbs n` is `m_invariants[n]` (top when absent).  The table `post` of
    the iterator is what `process_post` stores in `m_preconditions`.
    Head of `analyze`: `m_fail_without_exit` is empty in good mode; otherwise the value is set
    to top when some successor of the block is in the set. -/
def bwdCtx (D : BDom A) (p : Prog) (good : Bool) (invAbs : Nat → A) (fin : A)
    (nesting : Nat → Option (List Nat)) (delay descending : Nat) : Fix.Ctx A where
  ops := { bot := D.bot, top := D.top, leq := D.leq, join := D.join, meet := D.meet,
           widen := D.widen, narrow := D.narrow }
  analyze := fun n a =>
    bwdStmts D good (p.block n).stmts
      (if !good && (p.block n).succs.any (mayFailB p) then D.top else a) (invAbs n)
  preds := fun n => (p.block n).succs
  nesting := nesting
  entry := p.exit
  init := fin
  assumptions := none
  delay := delay
  descending := descending

/-- `analyzer[n]` (`operator[]`): the stored value for a visited block (the blocks of the
    reversed graph reachable from the exit block), top otherwise -/
def preAt (D : BDom A) (p : Prog) (post : Nat → A) (n : Nat) : A :=
  if reachExitF p n then post n else D.top

/-- the fixpoint problem before commit 111ab80: `analyze` always starts from the value it is
    given -/
def bwdCtxOld (D : BDom A) (p : Prog) (good : Bool) (invAbs : Nat → A) (fin : A)
    (nesting : Nat → Option (List Nat)) (delay descending : Nat) : Fix.Ctx A :=
  { bwdCtx D p good invAbs fin nesting delay descending with
    analyze := fun n a => bwdStmts D good (p.block n).stmts a (invAbs n) }

/-- soundness contract of the domain operations w.r.t. a concretisation `γ` -/
structure BDomSound (D : BDom A) (γ : A → State → Prop) : Prop where
  top_sound : ∀ σ, γ D.top σ
  isBottom_sound : ∀ a σ, D.isBottom a = true → ¬ γ a σ
  join_left : ∀ a b σ, γ a σ → γ (D.join a b) σ
  join_right : ∀ a b σ, γ b σ → γ (D.join a b) σ
  widen_left : ∀ a b σ, γ a σ → γ (D.widen a b) σ
  widen_right : ∀ a b σ, γ b σ → γ (D.widen a b) σ
  meet_sound : ∀ a b σ, γ a σ → γ b σ → γ (D.meet a b) σ
  narrow_sound : ∀ a b σ, γ a σ → γ b σ → γ (D.narrow a b) σ
  leq_sound : ∀ a b σ, D.leq a b = true → γ a σ → γ b σ
  assume_sound : ∀ c a σ, γ a σ → c.holds σ → γ (D.assume c a) σ
  forget_sound : ∀ x a σ v, γ a σ → γ (D.forget x a) (upd σ x v)
  assign_sound : ∀ x e a σ, γ a σ → γ (D.assign x e a) (upd σ x (e.eval σ))
  apply_sound : ∀ op x y z a σ v, γ a σ → binSem op (σ y) (z.eval σ) = some v →
    γ (D.apply op x y z a) (upd σ x v)
  select_sound : ∀ x c e1 e2 a σ, γ a σ →
    γ (D.select x c e1 e2 a) (upd σ x (if c.sat σ then e1.eval σ else e2.eval σ))
  /-- `σ` satisfies the forward invariant and its successor is in `post` -/
  bwdAssign_sound : ∀ x e post inv σ, γ inv σ → γ post (upd σ x (e.eval σ)) →
    γ (D.bwdAssign x e post inv) σ
  bwdApply_sound : ∀ op x y z post inv σ v, γ inv σ → binSem op (σ y) (z.eval σ) = some v →
    γ post (upd σ x v) → γ (D.bwdApply op x y z post inv) σ

/-! ### `BackwardAssignOps` : the shared implementation of the two backward operations -/

/-- `BackwardAssignOps::assign(dom, x, e, inv)`; `fresh` is the variable `vfac.get()` returns,
    `rename y x` is `dom.rename({y}, {x})`. -/
def genBwdAssign (D : BDom A) (rename : Var → Var → A → A) (fresh : Var)
    (x : Var) (e : Lin) (post inv : A) : A :=
  if D.isBottom post then post
  else if x ∈ e.vars then
    D.meet (rename fresh x (D.forget x (D.assume (Cst.eqVar (e.rename x fresh) x) post))) inv
  else
    D.meet (D.forget x (D.assume (Cst.eqVar e x) post)) inv

/-- the inverse operation applied by `apply(dom, op, x, y, k, inv)`: `y := x iop k`, then
    forget `x` unless `x == y` -/
def genInverse (D : BDom A) (iop : BinOp) (x y : Var) (k : Int) (post : A) : A :=
  let a := D.apply iop y x (.const k) post
  if x = y then a else D.forget x a

/-- `|k| - 1` (`max_r`) -/
def maxRem (k : Int) : Int := (if k < 0 then -k else k) - 1

/-- the `OP_SDIV` case for `k != 0`: `y := x * k`; unless `|k| = 1` a fresh `r` with
    `-max_r <= r <= max_r` is added to `y` and forgotten; then `x` is forgotten unless `x == y` -/
def genInverseDiv (D : BDom A) (fresh : Var) (x y : Var) (k : Int) (post : A) : A :=
  let a1 := D.apply .mul y x (.const k) post
  let a2 :=
    if k = 1 ∨ k = -1 then a1
    else
      let c1 : Cst := ⟨.le, ⟨-(maxRem k), [(1, fresh)]⟩⟩     -- r - max_r <= 0
      let c2 : Cst := ⟨.le, ⟨-(maxRem k), [(-1, fresh)]⟩⟩    -- -r - max_r <= 0
      D.forget fresh (D.apply .add y y (.var fresh) (D.assume c2 (D.assume c1 a1)))
  if x = y then a2 else D.forget x a2

/-- `BackwardAssignOps::apply` (both overloads) -/
def genBwdApply (D : BDom A) (rename : Var → Var → A → A) (fresh : Var)
    (op : BinOp) (x y : Var) (z : Operand) (post inv : A) : A :=
  if D.isBottom post then post
  else
    match z with
    | .const k =>
      D.meet (match op with
        | .add => genInverse D .sub x y k post
        | .sub => genInverse D .add x y k post
        | .mul => if k ≠ 0 then genInverse D .sdiv x y k post else D.forget x post
        | .sdiv => if k ≠ 0 then genInverseDiv D fresh x y k post else D.forget x post) inv
    | .var z =>
      match op with
      | .add => genBwdAssign D rename fresh x ⟨0, [(1, y), (1, z)]⟩ post inv
      | .sub => genBwdAssign D rename fresh x ⟨0, [(1, y), (-1, z)]⟩ post inv
      | _ => D.meet (D.forget x post) inv

/-- `BackwardAssignOps::apply` before commit ac800bc: the division is inverted by
    `y := x * k` alone -/
def genBwdApplyOld (D : BDom A) (rename : Var → Var → A → A) (fresh : Var)
    (op : BinOp) (x y : Var) (z : Operand) (post inv : A) : A :=
  match op, z with
  | .sdiv, .const k =>
    if D.isBottom post then post
    else D.meet (if k ≠ 0 then genInverse D .mul x y k post else D.forget x post) inv
  | _, _ => genBwdApply D rename fresh op x y z post inv

end Bwd
end Crab
