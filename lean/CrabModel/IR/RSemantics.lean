/-
  Executable small-step semantics of the CrabIR programs with references of `RSyntax.lean`.

  * a concrete state is a `Crab.Rgn.State` (`Dom/RegionSem.lean`): integer variables, the boolean
    `b0` (`cond`), reference variables, one memory per region variable, the allocated blocks;
  * integer / boolean statements are executed by `IR.stepStmt` (`IR/Semantics.lean`) on the
    integer part of the state (`toIR` / `ofIR`);
  * region / reference statements are executed by the operations of `Dom/RegionSem.lean`; a step
    for which that semantics has no successor (`none`: load of a never-written cell, access
    through a null / freed / foreign / out-of-block reference, pointer arithmetic out of the
    block, non-positive allocation size, double free, `int_to_ref` of an address outside every
    block) ends the execution with `undef`: the execution is not counted from there on;
  * `make_ref` executed several times (loops) allocates a fresh block every time: the k-th
    execution of the statement with allocation site `s` uses the block identifier `s + 64·k`
    (`dynSite`; allocation sites are `< 64`), block identifiers determine the base address
    (`Rgn.State.refMake`: `1000·(id+1)`), so `id % 64` is the allocation site of a pointer;
  * reference constraints compare addresses, `NULL` = 0 (`RefCst.holds`), as the region domain
    does (`ghosting_ref_cst_to_linear_cst`: unary constraints ignore the offset);
  * `assume_ref` with a false condition: no successor; a failed `assert_ref` emits
    `check … false` and stops, a passed one emits `check … true` and continues;
  * `ref_to_int` yields the address (`NULL` ↦ 0); `int_to_ref` of 0 yields `NULL`, of an address
    inside `[base, base+size]` of an allocated block a reference into that block;
  * non-determinism (`havoc`, successor choice) comes from an explicit choice stream exactly as
    in `IR/Semantics.lean`.
-/
import CrabModel.IR.RSyntax
import CrabModel.IR.Semantics
import CrabModel.Dom.RegionSem

namespace Crab
namespace RIR

abbrev RState := Rgn.State

/-- the initial heap: every reference null, every region empty, nothing allocated -/
def initState (iv : Array Int) (b : Bool) : RState :=
  { ints := fun i => iv.getD i 0, itags := fun _ => [], cond := b, refs := fun _ => .null,
    rtags := fun _ => [], mems := fun _ => Rgn.Mem.empty, blocks := [], freed := [] }

/-- the integer part of the state as a state of `IR/Semantics.lean` -/
def toIR (nI : Nat) (σ : RState) : IR.State := ⟨((List.range nI).map σ.ints).toArray, #[σ.cond]⟩

def ofIR (nI : Nat) (σ : RState) (τ : IR.State) : RState :=
  { σ with ints := fun i => if i < nI then τ.geti i else σ.ints i, cond := τ.getb 0 }

/-- address of an operand of a reference constraint (`NULL` = 0) -/
def refAddr (σ : RState) : Option Nat → Int
  | none => 0
  | some r => (σ.refs r).toInt

def RKind.cmp (k : RKind) (a b : Int) : Bool :=
  match k with
  | .eq => decide (a = b)
  | .ne => decide (a ≠ b)
  | .le => decide (a ≤ b)
  | .lt => decide (a < b)
  | .ge => decide (a ≥ b)
  | .gt => decide (a > b)

/-- `lhs ⋈ rhs + off` on addresses; the offset only counts when there is a right operand -/
def RefCst.holds (c : RefCst) (σ : RState) : Bool :=
  c.k.cmp (refAddr σ c.lhs) (match c.rhs with | none => 0 | some q => (σ.refs q).toInt + c.off)

/-- block identifier of the next block allocated at site `site` -/
def dynSite (σ : RState) (site : Nat) : Nat :=
  site + 64 * (σ.blocks.filter (fun b => b.1 % 64 == site)).length

/-- the allocated block whose range `[base, base+size]` contains address `a` -/
def blockAt (σ : RState) (a : Int) : Option Nat :=
  (σ.blocks.find? (fun b => decide (b.2.1 ≤ a) && decide (a ≤ b.2.1 + b.2.2))).map (·.1)

/-- `int_to_ref(x, g, r)` with the integer already evaluated -/
def intToRef (σ : RState) (r g : Nat) (a : Int) : Option RState :=
  if a = 0 then some (σ.setRef r .null [])
  else
    match blockAt σ a with
    | some site => some ((σ.setRef r (.ptr ⟨g, site, a⟩) []).setMem g ((σ.mems g).addMember a))
    | none => none

/-- outcome of one statement -/
inductive Res
  | next (σ : RState)
  | stop      -- no successor state
  | fail      -- failed assertion
  | undef     -- outside the concrete semantics: not counted

def ofOpt : Option RState → Res
  | some σ => .next σ
  | none => .undef

/-- one statement; `ch` is the value taken from the choice stream (used by `havoc` only) -/
def stepStmt (nI : Nat) (s : Stmt) (σ : RState) (ch : Int) : Res :=
  match s with
  | .base s0 =>
    match IR.stepStmt s0 (toIR nI σ) ch with
    | .next τ => .next (ofIR nI σ τ)
    | .stop => .stop
    | .fail => .fail
    | .undef => .undef
  | .regionInit g => ofOpt (σ.regionInit g)
  | .makeRef r g size site =>
    let sz : Int := match size with | .var v => σ.ints v | .const k => k
    ofOpt (σ.refMake r g sz (dynSite σ site))
  | .removeRef g r => ofOpt (σ.refFree g r)
  | .load (.ivar x) r g => ofOpt (σ.refLoadInt r g x)
  | .load (.rvar r') r g => ofOpt (σ.refLoadRef r g r')
  | .store r g v =>
    let cv : Rgn.CellVal := match v with
      | .const k => .int k
      | .ivar x => .int (σ.ints x)
      | .rvar r0 => .ref (σ.refs r0)
      | .null => .ref .null
    ofOpt (σ.refStore r g cv [])
  | .gep r2 g2 r1 g1 off => ofOpt (σ.refGep r1 g1 r2 g2 (off.eval (toIR nI σ)))
  | .assumeRef c => if c.holds σ then .next σ else .stop
  | .assertRef c => if c.holds σ then .next σ else .fail
  | .regionCopy lhs rhs => ofOpt (σ.regionCopy lhs rhs)
  | .refToInt x r _ => .next (σ.setInt x (σ.refs r).toInt [])
  | .intToRef r g x => ofOpt (intToRef σ r g (σ.ints x))
  | .selectRef r g a1 a2 => ofOpt (σ.selectRef r g a1 a2)

def Stmt.usesChoice : Stmt → Bool
  | .base s => s.usesChoice
  | _ => false

inductive Event
  | enter (b : Nat) (σ : RState)                     -- the execution arrives at block `b` with σ
  | check (b i : Nat) (σ : RState) (ok : Bool)       -- assert statement `i` of `b` executed in σ
  | leave (b : Nat) (σ : RState)                     -- the execution leaves block `b` with σ
  | done (k : IR.EndKind)

structure BlockRun where
  events : List Event
  res : Res
  rest : List Int

/-- the statements of block `b` from index `i` on -/
def runStmts (nI b : Nat) : Nat → List Stmt → RState → List Int → BlockRun
  | _, [], σ, ch => ⟨[], .next σ, ch⟩
  | i, s :: ss, σ, ch =>
    let cc := if s.usesChoice then IR.popChoice ch else (0, ch)
    let r := stepStmt nI s σ cc.1
    let ev : List Event :=
      if s.isAssert then [Event.check b i σ (match r with | .fail => false | _ => true)] else []
    match r with
    | .next σ' =>
      let br := runStmts nI b (i + 1) ss σ' cc.2
      ⟨ev ++ br.events, br.res, br.rest⟩
    | r' => ⟨ev, r', cc.2⟩

def runBlock (p : Program) (b : Nat) (σ : RState) (ch : List Int) : BlockRun :=
  runStmts p.nI b 0 (p.block b).stmts σ ch

def Res.endKind : Res → IR.EndKind
  | .next _ => .halt
  | .stop => .stop
  | .fail => .fail
  | .undef => .undef

/-- the trace of the execution started at block `b` in state σ (at most `fuel` blocks) -/
def exec (p : Program) : Nat → Nat → RState → List Int → List Event
  | 0, _, _, _ => [.done .fuel]
  | fuel + 1, b, σ, ch =>
    let br := runBlock p b σ ch
    Event.enter b σ :: (br.events ++
      (match br.res with
       | .next σ' =>
         Event.leave b σ' ::
           (match IR.pickSucc (p.block b).succs br.rest with
            | none => [.done .halt]
            | some (s, ch') => exec p fuel s σ' ch')
       | r => [.done r.endKind]))

def run (p : Program) (fuel : Nat) (σ : RState) (ch : List Int) : List Event :=
  exec p fuel p.entry σ ch

end RIR
end Crab
