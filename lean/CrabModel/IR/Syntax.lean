/-
  The CrabIR fragment driven by the program-level harness (`harness/prog_common.hpp`):
  integer and boolean variables (identified by their index), linear expressions and
  constraints, the statement kinds of `crab/cfg/cfg.hpp` over them, blocks with successor
  lists, programs with an entry and an exit block.

  Text format (one program per request line, see `harness/prog_common.hpp`):
    (assign x <lin>) (<bop> x y <z>) (assume <cst>) (assert <cst>) (havoc x|b)
    (select x <cst> <lin> <lin>) (unreachable) (bassign b <cst>) (bcopy b c <neg>)
    (bor b c d) (band b c d) (bxor b c d) (bassume b) (bnassume b) (bassert b) (bselect b c d e)
-/
namespace Crab
namespace IR

/-- `c + Σ kᵢ·vᵢ` (`ikos::linear_expression`) -/
structure Lin where
  c : Int
  ts : List (Int × Nat)
  deriving Repr, Inhabited, BEq

/-- kinds of `ikos::linear_constraint` : `e ≤ 0`, `e < 0`, `e = 0`, `e ≠ 0` -/
inductive CKind | le | lt | eq | ne
  deriving Repr, Inhabited, BEq, DecidableEq

structure Cst where
  k : CKind
  e : Lin
  deriving Repr, Inhabited, BEq

/-- `crab::cfg::binary_operation_t` (arithmetic and bitwise) -/
inductive BinOp | add | sub | mul | sdiv | udiv | srem | urem | and | or | xor | shl | lshr | ashr
  deriving Repr, Inhabited, BEq, DecidableEq

/-- `crab::cfg::bool_binary_operation_t` -/
inductive BoolOp | bor | band | bxor
  deriving Repr, Inhabited, BEq, DecidableEq

/-- second operand of a binary operation: a variable or a constant -/
inductive Operand
  | var (v : Nat)
  | const (k : Int)
  deriving Repr, Inhabited, BEq

inductive Stmt
  | assign (x : Nat) (e : Lin)                      -- assignment
  | binop (op : BinOp) (x y : Nat) (z : Operand)    -- binary_op
  | assume (c : Cst)                                -- assume_stmt
  | assert (c : Cst)                                -- assert_stmt
  | havoc (x : Nat)                                 -- havoc_stmt on an integer variable
  | havocB (b : Nat)                                -- havoc_stmt on a boolean variable
  | select (x : Nat) (c : Cst) (e1 e2 : Lin)        -- select_stmt
  | unreachable                                     -- unreachable_stmt
  | bassign (b : Nat) (c : Cst)                     -- bool_assign_cst (linear constraint)
  | bcopy (b c : Nat) (neg : Bool)                  -- bool_assign_var (possibly negated)
  | bbin (op : BoolOp) (b c d : Nat)                -- bool_binary_op
  | bassume (b : Nat) (neg : Bool)                  -- bool_assume_stmt (bool_assume / bool_not_assume)
  | bassert (b : Nat)                               -- bool_assert_stmt
  | bselect (b c d e : Nat)                         -- bool_select_stmt
  deriving Repr, Inhabited, BEq

def Stmt.isAssert : Stmt → Bool
  | .assert _ => true
  | .bassert _ => true
  | _ => false

structure Block where
  stmts : List Stmt
  succs : List Nat
  deriving Repr, Inhabited

/-- blocks are identified by their index in `blocks` -/
structure Program where
  nI : Nat
  nB : Nat
  entry : Nat
  exit : Nat
  blocks : Array Block
  deriving Repr, Inhabited

def Program.block (p : Program) (b : Nat) : Block := p.blocks.getD b ⟨[], []⟩

end IR
end Crab
