/-
  CrabIR programs with REFERENCES: the fragment of `IR/Syntax.lean` (integer and boolean
  statements) extended with the region / reference statements of `crab/cfg/cfg.hpp`
  (`region_init`, `make_ref`, `remove_ref`, `load_from_ref`, `store_to_ref`, `gep_ref`,
  `assume_ref`, `assert_ref`, `region_copy`, `ref_to_int`, `int_to_ref`, `select_ref`) and the
  reference constraints of `crab/types/reference_constraints.hpp`.

  Variables are identified by their index: integers `v0 …`, one boolean `b0`, references `r0 …`,
  regions `g0 g1 g2` (integer cells, indices 0 1 2) and `h0 h1` (reference cells, indices 3 4) —
  the numbering `Crab.Rgn.rkind` of `Dom/RegionSem.lean` fixes.

  Text format (one program per request line, see `harness/h_rprog.cpp`):
    integer / boolean statements of `IR/Syntax.lean`, and
    (rinit G) (mk R G <size> <site>) (free G R) (ld <vX|rX> R G) (st R G <val>)
    (gep R2 G2 R1 G1 <lin>) (rassume <rc>) (rassert <rc>) (rcopy Glhs Grhs)
    (r2i vX R G) (i2r R G vX) (sel R G <a> <a>)
    <rc> ::= (<eq|ne|le|lt|ge|gt> R null) | (<eq|ne|le|lt|ge|gt> R1 R2 k)
-/
import CrabModel.IR.Syntax

namespace Crab
namespace RIR

/-- `reference_constraint::cst_kind_t` -/
inductive RKind | eq | lt | le | gt | ge | ne
  deriving Repr, Inhabited, BEq, DecidableEq

/-- `crab::reference_constraint` : `lhs ⋈ rhs + off`; an absent operand is `NULL` (both absent:
    the constants `true` / `false` of `mk_true` / `mk_false`) -/
structure RefCst where
  k : RKind
  lhs : Option Nat
  rhs : Option Nat
  off : Int
  deriving Repr, Inhabited, BEq, DecidableEq

/-- `swap_operand` -/
def RKind.swap : RKind → RKind
  | .lt => .gt | .le => .ge | .gt => .lt | .ge => .le | k => k

/-- the private constructors of `reference_constraint`: a constraint `NULL ⋈ q + k` is normalised
    to `q ⋈' NULL - k` (`swap_constraint`) -/
def RefCst.mk' (lhs rhs : Option Nat) (off : Int) (k : RKind) : RefCst :=
  match lhs, rhs with
  | none, some q => ⟨k.swap, some q, none, -off⟩
  | _, _ => ⟨k, lhs, rhs, off⟩

def RefCst.isContradiction (c : RefCst) : Bool :=
  c.lhs.isNone && c.rhs.isNone && (match c.k with | .ne => true | .lt => true | _ => false)

def RefCst.isTautology (c : RefCst) : Bool :=
  c.lhs.isNone && c.rhs.isNone && (match c.k with | .eq => true | .le => true | _ => false)

def RefCst.mkTrue : RefCst := ⟨.eq, none, none, 0⟩
def RefCst.mkFalse : RefCst := ⟨.ne, none, none, 0⟩

/-- `reference_constraint::negate` (`none` = the `CRAB_ERROR` at its end: a constant that is
    neither a tautology nor a contradiction, which no factory function builds) -/
def RefCst.negate (c : RefCst) : Option RefCst :=
  if c.isContradiction then some .mkTrue
  else if c.isTautology then some .mkFalse
  else
    match c.lhs, c.rhs with
    | some p, none =>                      -- is_unary: the offset is dropped
      some (match c.k with
        | .eq => RefCst.mk' (some p) none 0 .ne
        | .ne => RefCst.mk' (some p) none 0 .eq
        | .le => RefCst.mk' (some p) none 0 .gt
        | .lt => RefCst.mk' (some p) none 0 .ge
        | .ge => RefCst.mk' (some p) none 0 .lt
        | .gt => RefCst.mk' (some p) none 0 .le)
    | some p, some q =>                    -- is_binary
      some (match c.k with
        | .eq => RefCst.mk' (some p) (some q) c.off .ne
        | .ne => RefCst.mk' (some p) (some q) c.off .eq
        | .le => RefCst.mk' (some q) (some p) (-c.off) .lt     -- p ≤ q + k  ↦  q < p - k
        | .lt => RefCst.mk' (some q) (some p) (-c.off) .le
        | .ge => RefCst.mk' (some q) (some p) (-c.off) .gt
        | .gt => RefCst.mk' (some q) (some p) (-c.off) .ge)
    | _, _ => none

/-- value stored by `store_to_ref` -/
inductive StoreVal
  | const (k : Int)
  | ivar (x : Nat)
  | rvar (r : Nat)
  | null
  deriving Repr, Inhabited, BEq

/-- destination of `load_from_ref` -/
inductive LoadDst
  | ivar (x : Nat)
  | rvar (r : Nat)
  deriving Repr, Inhabited, BEq

inductive Stmt
  | base (s : IR.Stmt)                                   -- integer / boolean statement
  | regionInit (g : Nat)                                 -- region_init
  | makeRef (r g : Nat) (size : IR.Operand) (site : Nat) -- make_ref
  | removeRef (g r : Nat)                                -- remove_ref
  | load (dst : LoadDst) (r g : Nat)                     -- load_from_ref
  | store (r g : Nat) (v : StoreVal)                     -- store_to_ref
  | gep (r2 g2 r1 g1 : Nat) (off : IR.Lin)               -- gep_ref : (r2, g2) := (r1, g1) + off
  | assumeRef (c : RefCst)                               -- assume_ref
  | assertRef (c : RefCst)                               -- assert_ref
  | regionCopy (lhs rhs : Nat)                           -- region_copy
  | refToInt (x r g : Nat)                               -- ref_to_int
  | intToRef (r g x : Nat)                               -- int_to_ref
  | selectRef (r g : Nat) (a1 a2 : Option (Nat × Nat))   -- select_ref on the boolean b0
  deriving Repr, Inhabited, BEq

def Stmt.isAssert : Stmt → Bool
  | .base s => s.isAssert
  | .assertRef _ => true
  | _ => false

structure Block where
  stmts : List Stmt
  succs : List Nat
  deriving Repr, Inhabited

/-- blocks are identified by their index in `blocks` -/
structure Program where
  nI : Nat
  nR : Nat
  entry : Nat
  exit : Nat
  blocks : Array Block
  deriving Repr, Inhabited

def Program.block (p : Program) (b : Nat) : Block := p.blocks.getD b ⟨[], []⟩

end RIR
end Crab
