/-
  Executable small-step semantics of the CrabIR fragment of `Syntax.lean` on mathematical
  integers (DESIGN.md §2.3).  Non-determinism (`havoc` values, choice of the successor block)
  is taken from an explicit choice stream, so an execution is a function of
  (program, initial state, choice stream) and can be replayed.

  Conventions:
  * `sdiv` / `srem` truncate; division or remainder by zero has no successor state;
  * `assume` with a false condition, `unreachable`: no successor state (the execution stops);
  * a failed `assert` emits the event `check … false` and the execution stops; a passed one
    emits `check … true` and continues (crab: assert = assume after the check);
  * `udiv` / `urem` with a negative operand, `lshr` of a negative value, shifts by a negative
    amount or by more than 64: crab gives no meaning to them on mathematical integers — the
    execution ends with `undef` and is not counted;
  * `and` / `or` / `xor`: infinite two's complement; `shl k` = `* 2^k`; `ashr k` = floor `/ 2^k`;
  * `select` evaluates its condition in the current state;
  * `havoc x` takes the next value of the choice stream (0 when the stream is exhausted), for a
    boolean variable the value is true iff it is odd; a block with at least two successors
    takes the next value `k` and continues with successor number `k mod n`; blocks with one
    successor do not consume a choice; a block without successor ends the execution.
-/
import CrabModel.IR.Syntax
import CrabModel.Num.ZNum

namespace Crab
namespace IR

/-- concrete states: integer variables ↦ `Int`, boolean variables ↦ `Bool` -/
structure State where
  iv : Array Int
  bv : Array Bool
  deriving Repr, Inhabited, DecidableEq

def State.geti (σ : State) (x : Nat) : Int := σ.iv.getD x 0
def State.getb (σ : State) (b : Nat) : Bool := σ.bv.getD b false
def State.seti (σ : State) (x : Nat) (v : Int) : State := { σ with iv := σ.iv.setIfInBounds x v }
def State.setb (σ : State) (b : Nat) (v : Bool) : State := { σ with bv := σ.bv.setIfInBounds b v }

def Lin.eval (l : Lin) (σ : State) : Int :=
  l.ts.foldl (fun a t => a + t.1 * σ.geti t.2) l.c

def Cst.holds (c : Cst) (σ : State) : Bool :=
  let v := c.e.eval σ
  match c.k with
  | .le => decide (v ≤ 0)
  | .lt => decide (v < 0)
  | .eq => decide (v = 0)
  | .ne => decide (v ≠ 0)

def Operand.eval (z : Operand) (σ : State) : Int :=
  match z with
  | .var v => σ.geti v
  | .const k => k

/-- value of a binary operation: a value, no successor state, or outside crab's reading -/
inductive BinRes
  | val (v : Int)
  | nosucc
  | undef
  deriving Repr, BEq, Inhabited

def shiftMax : Int := 64

def evalBin (op : BinOp) (a b : Int) : BinRes :=
  match op with
  | .add => .val (a + b)
  | .sub => .val (a - b)
  | .mul => .val (a * b)
  | .sdiv => if b = 0 then .nosucc else .val (Int.tdiv a b)
  | .srem => if b = 0 then .nosucc else .val (Int.tmod a b)
  | .udiv => if a < 0 ∨ b < 0 then .undef else if b = 0 then .nosucc else .val (a / b)
  | .urem => if a < 0 ∨ b < 0 then .undef else if b = 0 then .nosucc else .val (a % b)
  | .and => .val (ZNum.land a b)
  | .or => .val (ZNum.lor a b)
  | .xor => .val (ZNum.lxor a b)
  | .shl => if b < 0 ∨ b > shiftMax then .undef else .val (a * 2 ^ b.toNat)
  | .ashr => if b < 0 ∨ b > shiftMax then .undef else .val (a / 2 ^ b.toNat)
  | .lshr => if a < 0 ∨ b < 0 ∨ b > shiftMax then .undef else .val (a / 2 ^ b.toNat)

def evalBool (op : BoolOp) (x y : Bool) : Bool :=
  match op with
  | .bor => x || y
  | .band => x && y
  | .bxor => xor x y

/-- outcome of one statement -/
inductive Res
  | next (σ : State)
  | stop      -- no successor state
  | fail      -- failed assertion
  | undef     -- outside the meaning crab gives to the operation: not counted
  deriving Repr, BEq, Inhabited

/-- one statement; `ch` is the value taken from the choice stream (used by `havoc` only) -/
def stepStmt (s : Stmt) (σ : State) (ch : Int) : Res :=
  match s with
  | .assign x e => .next (σ.seti x (e.eval σ))
  | .binop op x y z =>
    match evalBin op (σ.geti y) (z.eval σ) with
    | .val v => .next (σ.seti x v)
    | .nosucc => .stop
    | .undef => .undef
  | .assume c => if c.holds σ then .next σ else .stop
  | .assert c => if c.holds σ then .next σ else .fail
  | .havoc x => .next (σ.seti x ch)
  | .havocB b => .next (σ.setb b (ch % 2 == 1))
  | .select x c e1 e2 => .next (σ.seti x (if c.holds σ then e1.eval σ else e2.eval σ))
  | .unreachable => .stop
  | .bassign b c => .next (σ.setb b (c.holds σ))
  | .bcopy b c neg => .next (σ.setb b (if neg then !(σ.getb c) else σ.getb c))
  | .bbin op b c d => .next (σ.setb b (evalBool op (σ.getb c) (σ.getb d)))
  | .bassume b neg => if σ.getb b != neg then .next σ else .stop
  | .bassert b => if σ.getb b then .next σ else .fail
  | .bselect b c d e => .next (σ.setb b (if σ.getb c then σ.getb d else σ.getb e))

def Stmt.usesChoice : Stmt → Bool
  | .havoc _ => true
  | .havocB _ => true
  | _ => false

def popChoice : List Int → Int × List Int
  | [] => (0, [])
  | c :: cs => (c, cs)

/-- how an execution ended -/
inductive EndKind
  | halt      -- a block without successor was left
  | stop      -- no successor state (assume false, division by zero, unreachable)
  | fail      -- failed assertion
  | undef     -- operation without meaning: the execution is not counted
  | fuel      -- step bound reached
  deriving Repr, DecidableEq, Inhabited

inductive Event
  | enter (b : Nat) (σ : State)                      -- the execution arrives at block `b` with σ
  | check (b i : Nat) (σ : State) (ok : Bool)        -- assert statement `i` of `b` executed in σ
  | leave (b : Nat) (σ : State)                      -- the execution leaves block `b` with σ
  | done (k : EndKind)
  deriving Repr, DecidableEq, Inhabited

structure BlockRun where
  events : List Event
  res : Res
  rest : List Int

/-- the statements of block `b` from index `i` on -/
def runStmts (b : Nat) : Nat → List Stmt → State → List Int → BlockRun
  | _, [], σ, ch => ⟨[], .next σ, ch⟩
  | i, s :: ss, σ, ch =>
    let cc := if s.usesChoice then popChoice ch else (0, ch)
    let r := stepStmt s σ cc.1
    let ev : List Event :=
      if s.isAssert then [Event.check b i σ (match r with | .fail => false | _ => true)] else []
    match r with
    | .next σ' =>
      let br := runStmts b (i + 1) ss σ' cc.2
      ⟨ev ++ br.events, br.res, br.rest⟩
    | r' => ⟨ev, r', cc.2⟩

def runBlock (p : Program) (b : Nat) (σ : State) (ch : List Int) : BlockRun :=
  runStmts b 0 (p.block b).stmts σ ch

/-- successor taken after block `b` (none: the block has no successor) -/
def pickSucc (succs : List Nat) (ch : List Int) : Option (Nat × List Int) :=
  match succs with
  | [] => none
  | [s] => some (s, ch)
  | s :: ss =>
    let cc := popChoice ch
    let n : Int := ((s :: ss).length : Nat)
    some ((s :: ss).getD (cc.1 % n).toNat s, cc.2)

def Res.endKind : Res → EndKind
  | .next _ => .halt
  | .stop => .stop
  | .fail => .fail
  | .undef => .undef

/-- the trace of the execution started at block `b` in state σ (at most `fuel` blocks) -/
def exec (p : Program) : Nat → Nat → State → List Int → List Event
  | 0, _, _, _ => [.done .fuel]
  | fuel + 1, b, σ, ch =>
    let br := runBlock p b σ ch
    Event.enter b σ :: (br.events ++
      (match br.res with
       | .next σ' =>
         Event.leave b σ' ::
           (match pickSucc (p.block b).succs br.rest with
            | none => [.done .halt]
            | some (s, ch') => exec p fuel s σ' ch')
       | r => [.done r.endKind]))

def run (p : Program) (fuel : Nat) (σ : State) (ch : List Int) : List Event :=
  exec p fuel p.entry σ ch

/-! ### relational reading (used by the theorems) -/

/-- the block transformer as a relation: an execution entering `b` with σ can leave it with σ' -/
def BlockStep (p : Program) (b : Nat) (σ σ' : State) : Prop :=
  ∃ ch, (runBlock p b σ ch).res = .next σ'

end IR
end Crab
