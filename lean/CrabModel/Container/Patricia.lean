/-
  Model of `ikos::patricia_trees_impl::tree<Key,Value,ValueEqual>` and of the free
  functions `highest_bit`, `compute_branching_bit`, `mask`, `zero_bit`, `match_prefix`
  (include/crab/domains/patricia_trees.hpp), transcribed case by case.

  * Keys: the tree only ever looks at `key.index()` (`index_t = uint64_t`); the model stores
    that index as a `Nat`, intended `< 2^64`.  Every `index_t` operation that can wrap
    (`m - 1`, `2 * m`, `~m`) is written with the wrap explicit (`sub1`, `dbl`, `not64`).
  * Null `shared_ptr` = `Tree.empty`.
  * Pointer equality (`s == t`, `new_lb == lb`, ...) is an oracle `Ctx.ptrEq`; it is only
    consulted on two non-null pointers (`Ctx.peq`: null == null is true, null == non-null is
    false).  `Ctx.Sound` says the oracle answers yes only on structurally equal trees; the
    proofs show that no result depends on the oracle.
  * `ValueEqual` is the oracle `Ctx.valEq`.
  * `std::pair<bool, tree_ptr>` results are `Option (Tree V)`: `none` = (true, _) = "bottom
    must be propagated".
-/
namespace Crab
namespace Patricia

/-! ## `index_t` arithmetic -/

/-- `~x` on 64 bits -/
def not64 (x : Nat) : Nat := 2 ^ 64 - 1 - x % 2 ^ 64
/-- `m - 1` on 64 bits (wraps at 0) -/
def sub1 (m : Nat) : Nat := if m % 2 ^ 64 = 0 then 2 ^ 64 - 1 else m % 2 ^ 64 - 1
/-- `2 * m` on 64 bits (wraps) -/
def dbl (m : Nat) : Nat := (2 * m) % 2 ^ 64

/-- the loop `while (x_ != m_) { x_ = x_ & ~m_; m_ = 2 * m_; }` of `highest_bit`;
    at most 65 iterations are ever executed (after 64 doublings `m_` is 0 and `x_` too). -/
def highestBitLoop : Nat → Nat → Nat → Nat
  | 0, _, m => m
  | fuel + 1, x, m => if x = m then m else highestBitLoop fuel (x &&& not64 m) (dbl m)

/-- `highest_bit(x, m)` -/
def highestBit (x m : Nat) : Nat := highestBitLoop 65 (x &&& not64 (sub1 m)) m

/-- `compute_branching_bit(p0, m0, p1, m1)` -/
def computeBranchingBit (p0 m0 p1 m1 : Nat) : Nat :=
  highestBit (p0 ^^^ p1) (Nat.max 1 (dbl (Nat.max m0 m1)))

/-- `mask(k, m) = (k | (m - 1)) & ~m` -/
def mask (k m : Nat) : Nat := (k ||| sub1 m) &&& not64 m

/-- `zero_bit(k, m) = (k & m) == 0` -/
def zeroBit (k m : Nat) : Bool := (k &&& m) == 0

/-- `match_prefix(k, p, m) = mask(k, m) == p` -/
def matchPrefix (k p m : Nat) : Bool := mask k m == p

/-! ## trees -/

/-- `tree_ptr`: null, `leaf(key, value)`, `node(prefix, branching_bit, left, right)` -/
inductive Tree (V : Type) where
  | empty : Tree V
  | leaf (key : Nat) (v : V) : Tree V
  | node (pfx bb : Nat) (l r : Tree V) : Tree V
  deriving Repr, BEq, DecidableEq, Inhabited

/-- the result of `binary_op::apply`: `{true, _}`, `{false, none}`, `{false, some v}` -/
inductive OpRes (V : Type) where
  | bottom : OpRes V
  | dflt : OpRes V
  | val (v : V) : OpRes V
  deriving Repr, DecidableEq

/-- `binary_op<Key,Value>` -/
structure BinOp (V : Type) where
  apply : Nat → V → V → OpRes V
  absorbing : Bool       -- `default_is_absorbing()`

/-- `partial_order<Value>` -/
structure POrder (V : Type) where
  leq : V → V → Bool
  defaultIsTop : Bool    -- `default_is_top()`

/-- the two oracles: pointer equality of two non-null pointers, and `ValueEqual` -/
structure Ctx (V : Type) where
  ptrEq : Tree V → Tree V → Bool
  valEq : V → V → Bool

namespace Tree
variable {V : Type}

def isEmpty : Tree V → Bool
  | empty => true
  | _ => false

/-- `is_leaf()` (on a non-null pointer) -/
def isLeaf : Tree V → Bool
  | leaf _ _ => true
  | _ => false

/-- `prefix()` : the key index for a leaf -/
def pfx' : Tree V → Nat
  | empty => 0
  | leaf k _ => k
  | node p _ _ _ => p

/-- `branching_bit()` : 0 for a leaf -/
def bb' : Tree V → Nat
  | empty => 0
  | leaf _ _ => 0
  | node _ m _ _ => m

/-- `size()` -/
def size : Tree V → Nat
  | empty => 0
  | leaf _ _ => 1
  | node _ _ l r => size l + size r

/-- `lookup(key)` / `find(key)`: a node sends `key.index() <= prefix` to the left -/
def lookup : Tree V → Nat → Option V
  | empty, _ => none
  | leaf k v, k' => if k = k' then some v else none
  | node p _ l r, k => if k ≤ p then lookup l k else lookup r k

/-- the iterator: leaves from left to right -/
def toList : Tree V → List (Nat × V)
  | empty => []
  | leaf k v => [(k, v)]
  | node _ _ l r => toList l ++ toList r

def keys (t : Tree V) : List Nat := t.toList.map Prod.fst

end Tree

open Tree

variable {V : Type}

/-- comparison of two `tree_ptr`: decided when one of them is null, the oracle otherwise -/
def Ctx.peq (c : Ctx V) (a b : Tree V) : Bool :=
  match a, b with
  | .empty, .empty => true
  | .empty, _ => false
  | _, .empty => false
  | a, b => c.ptrEq a b

/-- the oracles never claim more than structural equality -/
def Ctx.Sound (c : Ctx V) : Prop :=
  (∀ a b, c.ptrEq a b = true → a = b) ∧ (∀ x y, c.valEq x y = true → x = y)

/-- "nothing is shared, no two values compare equal" -/
def Ctx.never : Ctx V := ⟨fun _ _ => false, fun _ _ => false⟩

/-- "everything structurally equal is shared" -/
def Ctx.always [DecidableEq V] : Ctx V := ⟨fun a b => decide (a = b), fun x y => decide (x = y)⟩

/-- `make_node` -/
def mkNode (p m : Nat) (l r : Tree V) : Tree V :=
  match l, r with
  | .empty, r => r
  | l, .empty => l
  | l, r => .node p m l r

/-- `join(t0, t1)` -/
def join (t0 t1 : Tree V) : Tree V :=
  let p0 := t0.pfx'
  let m := computeBranchingBit p0 t0.bb' t1.pfx' t1.bb'
  if zeroBit p0 m then mkNode (mask p0 m) m t0 t1 else mkNode (mask p0 m) m t1 t0

/-- the leaf case of `insert` / `merge`: combine the stored `value` with the other one;
    `keep` is the tree returned when `ValueEqual` says nothing changed -/
def combineLeaf (c : Ctx V) (r : OpRes V) (old : V) (keep : Tree V) (k : Nat) : Option (Tree V) :=
  match r with
  | .bottom => none
  | .val nv => if c.valEq nv old then some keep else some (.leaf k nv)
  | .dflt => some .empty

/-- `tree::insert(t, key_, value_, op, combine_left_to_right)` -/
def insert (c : Ctx V) (op : BinOp V) (l2r : Bool) : Tree V → Nat → V → Option (Tree V)
  | .empty, k, v => if op.absorbing then some .empty else some (.leaf k v)
  | .leaf key value, k, v =>
    if key = k then
      combineLeaf c (if l2r then op.apply key value v else op.apply key v value) value (.leaf key value) k
    else if op.absorbing then some (.leaf key value)
    else some (join (.leaf k v) (.leaf key value))
  | .node p m l r, k, v =>
    if matchPrefix k p m then
      if zeroBit k m then
        let res := if l.isEmpty then (if op.absorbing then some .empty else some (.leaf k v))
                   else insert c op l2r l k v
        match res with
        | none => none
        | some newLb => if c.peq newLb l then some (.node p m l r) else some (mkNode p m newLb r)
      else
        let res := if r.isEmpty then (if op.absorbing then some .empty else some (.leaf k v))
                   else insert c op l2r r k v
        match res with
        | none => none
        | some newRb => if c.peq newRb r then some (.node p m l r) else some (mkNode p m l newRb)
    else if op.absorbing then some (.node p m l r)
    else some (join (.leaf k v) (.node p m l r))

/-- `patricia_tree::insert_op` -/
def insertOp : BinOp V := ⟨fun _ _ new => .val new, false⟩

/-- `patricia_tree::insert(key, value)` (never bottom with `insert_op`) -/
def insertKV (c : Ctx V) (t : Tree V) (k : Nat) (v : V) : Tree V :=
  match insert c insertOp true t k v with
  | some t' => t'
  | none => t

/-- `tree::remove(t, key_)` -/
def remove (c : Ctx V) : Tree V → Nat → Tree V
  | .empty, _ => .empty
  | .leaf key value, k => if key = k then .empty else .leaf key value
  | .node p m l r, k =>
    if matchPrefix k p m then
      if zeroBit k m then
        let newLb := if l.isEmpty then .empty else remove c l k
        if c.peq newLb l then .node p m l r else mkNode p m newLb r
      else
        let newRb := if r.isEmpty then .empty else remove c r k
        if c.peq newRb r then .node p m l r else mkNode p m l newRb
    else .node p m l r

/-- `merge`, branch `s->is_leaf()` (s = leaf ks vs, t non-null) -/
def mergeLeafL (c : Ctx V) (op : BinOp V) (l2r : Bool) (ks : Nat) (vs : V) (t : Tree V) : Option (Tree V) :=
  if op.absorbing then
    match t.lookup ks with
    | some value =>
      combineLeaf c (if l2r then op.apply ks vs value else op.apply ks value vs) vs (.leaf ks vs) ks
    | none => some .empty
  else insert c op (!l2r) t ks vs

/-- `merge`, branch `t->is_leaf()` (t = leaf kt vt, s a node) -/
def mergeLeafR (c : Ctx V) (op : BinOp V) (l2r : Bool) (s : Tree V) (kt : Nat) (vt : V) : Option (Tree V) :=
  if op.absorbing then
    match s.lookup kt with
    | some value =>
      combineLeaf c (if l2r then op.apply kt value vt else op.apply kt vt value) vt (.leaf kt vt) kt
    | none => some .empty
  else insert c op l2r s kt vt

/-- `tree::merge(s, t, op, combine_left_to_right)` -/
def merge (c : Ctx V) (op : BinOp V) (l2r : Bool) : Tree V → Tree V → Option (Tree V)
  | .empty, t => if op.absorbing then some .empty else some t
  | .leaf ks vs, .empty => if op.absorbing then some .empty else some (.leaf ks vs)
  | .node p m sl sr, .empty => if op.absorbing then some .empty else some (.node p m sl sr)
  | .leaf ks vs, .leaf kt vt =>
    if c.ptrEq (.leaf ks vs) (.leaf kt vt) then some (.leaf ks vs)
    else mergeLeafL c op l2r ks vs (.leaf kt vt)
  | .leaf ks vs, .node q n tl tr =>
    if c.ptrEq (.leaf ks vs) (.node q n tl tr) then some (.leaf ks vs)
    else mergeLeafL c op l2r ks vs (.node q n tl tr)
  | .node p m sl sr, .leaf kt vt =>
    if c.ptrEq (.node p m sl sr) (.leaf kt vt) then some (.node p m sl sr)
    else mergeLeafR c op l2r (.node p m sl sr) kt vt
  | .node p m sl sr, .node q n tl tr =>
    if c.ptrEq (.node p m sl sr) (.node q n tl tr) then some (.node p m sl sr)
    else if m = n ∧ p = q then
      match merge c op l2r sl tl with
      | none => none
      | some newLb =>
        match merge c op l2r sr tr with
        | none => none
        | some newRb =>
          if c.peq newLb sl && c.peq newRb sr then some (.node p m sl sr)
          else if c.peq newLb tl && c.peq newRb tr then some (.node q n tl tr)
          else some (mkNode p m newLb newRb)
    else if m > n ∧ matchPrefix q p m then
      if zeroBit q m then
        match merge c op l2r sl (.node q n tl tr) with
        | none => none
        | some newLb =>
          -- `new_rb = absorbing ? nil : s->right_branch()`; `new_rb == s->right_branch()` is
          -- then a comparison of a pointer with itself, or of null with it
          let newRb := if op.absorbing then .empty else sr
          let sameR : Bool := if op.absorbing then sr.isEmpty else true
          if c.peq newLb sl && sameR then some (.node p m sl sr)
          else some (mkNode p m newLb newRb)
      else
        let newLb := if op.absorbing then .empty else sl
        let sameL : Bool := if op.absorbing then sl.isEmpty else true
        match merge c op l2r sr (.node q n tl tr) with
        | none => none
        | some newRb =>
          if sameL && c.peq newRb sr then some (.node p m sl sr)
          else some (mkNode p m newLb newRb)
    else if m < n ∧ matchPrefix p q n then
      if zeroBit p n then
        match merge c op l2r (.node p m sl sr) tl with
        | none => none
        | some newLb =>
          let newRb := if op.absorbing then .empty else tr
          let sameR : Bool := if op.absorbing then tr.isEmpty else true
          if c.peq newLb tl && sameR then some (.node q n tl tr)
          else some (mkNode q n newLb newRb)
      else
        let newLb := if op.absorbing then .empty else tl
        let sameL : Bool := if op.absorbing then tl.isEmpty else true
        match merge c op l2r (.node p m sl sr) tr with
        | none => none
        | some newRb =>
          if sameL && c.peq newRb tr then some (.node q n tl tr)
          else some (mkNode q n newLb newRb)
    else if op.absorbing then some .empty
    else some (join (.node p m sl sr) (.node q n tl tr))
termination_by s t => sizeOf s + sizeOf t

/-- `compare`, branch `s->is_leaf()` (s = leaf ks vs, t non-null, pointers different).
    `fixedLeafLeaf = true` is the code of the current tree (after the commit "fix: patricia
    tree comparison of two leaves with different keys"): when the key of `s` is not found in `t`
    the answer is no.  `fixedLeafLeaf = false` is the code before that commit: the not-found
    case only answered no in two of the four (direction, default) combinations and otherwise
    fell through to tests that only look at `!t->is_leaf()`, so a leaf `t` with another key was
    accepted (defect #10). -/
def compareLeaf (fixedLeafLeaf : Bool) (po : POrder V) (l2r : Bool) (ks : Nat) (vs : V) (t : Tree V) : Bool :=
  let r1 : Bool :=
    match t.lookup ks with
    | some v' => po.leq (if l2r then vs else v') (if l2r then v' else vs)
    | none =>
      if fixedLeafLeaf then false
      else !((l2r && !po.defaultIsTop) || (!l2r && po.defaultIsTop))
  if !r1 then false
  else if l2r && po.defaultIsTop && !t.isLeaf then false
  else if !l2r && !po.defaultIsTop && !t.isLeaf then false
  else true

/-- `tree::compare(s, t, po, compare_left_to_right)`.  The recursive call
    `compare(t, s, po, !compare_left_to_right)` of the branch "t is a leaf, s is not" lands in
    the `s->is_leaf()` branch after the pointer test; it is unfolded here. -/
def compare (fixedLeafLeaf : Bool) (c : Ctx V) (po : POrder V) (l2r : Bool) : Tree V → Tree V → Bool
  | .empty, .empty => true
  | .empty, _ => !((l2r && po.defaultIsTop) || (!l2r && !po.defaultIsTop))
  | .leaf _ _, .empty => !((l2r && !po.defaultIsTop) || (!l2r && po.defaultIsTop))
  | .node _ _ _ _, .empty => !((l2r && !po.defaultIsTop) || (!l2r && po.defaultIsTop))
  | .leaf ks vs, .leaf kt vt =>
    if c.ptrEq (.leaf ks vs) (.leaf kt vt) then true
    else compareLeaf fixedLeafLeaf po l2r ks vs (.leaf kt vt)
  | .leaf ks vs, .node q n tl tr =>
    if c.ptrEq (.leaf ks vs) (.node q n tl tr) then true
    else compareLeaf fixedLeafLeaf po l2r ks vs (.node q n tl tr)
  | .node p m sl sr, .leaf kt vt =>
    if c.ptrEq (.node p m sl sr) (.leaf kt vt) then true
    else if c.ptrEq (.leaf kt vt) (.node p m sl sr) then true
    else compareLeaf fixedLeafLeaf po (!l2r) kt vt (.node p m sl sr)
  | .node p m sl sr, .node q n tl tr =>
    if c.ptrEq (.node p m sl sr) (.node q n tl tr) then true
    else if m = n ∧ p = q then
      compare fixedLeafLeaf c po l2r sl tl && compare fixedLeafLeaf c po l2r sr tr
    else if m > n ∧ matchPrefix q p m then
      if (l2r && !po.defaultIsTop) || (!l2r && po.defaultIsTop) then false
      else if zeroBit q m then compare fixedLeafLeaf c po l2r sl (.node q n tl tr)
      else compare fixedLeafLeaf c po l2r sr (.node q n tl tr)
    else if m < n ∧ matchPrefix p q n then
      if (l2r && po.defaultIsTop) || (!l2r && !po.defaultIsTop) then false
      else if zeroBit p n then compare fixedLeafLeaf c po l2r (.node p m sl sr) tl
      else compare fixedLeafLeaf c po l2r (.node p m sl sr) tr
    else false
termination_by s t => sizeOf s + sizeOf t

/-- `patricia_tree::merge_with(t, op)` -/
def mergeWith (c : Ctx V) (op : BinOp V) (s t : Tree V) : Option (Tree V) := merge c op true s t

/-- `patricia_tree::leq(t, po)` -/
def leqTree (fixedLeafLeaf : Bool) (c : Ctx V) (po : POrder V) (s t : Tree V) : Bool :=
  compare fixedLeafLeaf c po true s t

/-! ## the iterator (`tree::iterator`)

`_current` (a leaf or null) and `_stack` of `(node, 0|1)` pairs, top of the stack first.
`look_for_next_leaf` is recursive in C++; the model gives it fuel (its recursion depth is
bounded by the height of the tree plus the pops). -/

structure Iter (V : Type) where
  current : Tree V
  stack : List (Tree V × Nat)

namespace Tree
/-- `left_branch()` / `right_branch()` of a node -/
def leftB : Tree V → Tree V
  | node _ _ l _ => l
  | _ => empty
def rightB : Tree V → Tree V
  | node _ _ _ r => r
  | _ => empty
def height : Tree V → Nat
  | empty => 0
  | leaf _ _ => 1
  | node _ _ l r => max (height l) (height r) + 1
end Tree

/-- `do { up = stack.back(); stack.pop_back(); } while (!stack.empty() && up.second == 1)`
    on a non-empty stack -/
def popLoop : List (Tree V × Nat) → Option ((Tree V × Nat) × List (Tree V × Nat))
  | [] => none
  | up :: rest => if !rest.isEmpty && up.2 == 1 then popLoop rest else some (up, rest)

/-- `look_for_next_leaf(t)` -/
def lookForNextLeaf : Nat → Tree V → Iter V → Iter V
  | 0, _, it => it
  | fuel + 1, t, it =>
    match t with
    | .leaf k v => { it with current := .leaf k v }
    | .node p m l r => lookForNextLeaf fuel l { it with stack := (.node p m l r, 0) :: it.stack }
    | .empty =>
      match popLoop it.stack with
      | none => it                      -- empty stack
      | some (up, rest) =>
        if !(rest.isEmpty && up.2 == 1) then
          lookForNextLeaf fuel up.1.rightB { it with stack := (up.1, 1) :: rest }
        else { it with stack := rest }

/-- `increment()`; `none` = CRAB_ERROR (incrementing an empty iterator) -/
def Iter.increment (fuel : Nat) (it : Iter V) : Option (Iter V) :=
  if it.current.isEmpty then none
  else
    match popLoop it.stack with
    | none => some ⟨.empty, it.stack⟩
    | some (up, rest) =>
      if !(rest.isEmpty && up.2 == 1) then some (lookForNextLeaf fuel up.1.rightB ⟨.empty, rest⟩)
      else some ⟨.empty, rest⟩

/-- `iterator(t)` -/
def Iter.begin (fuel : Nat) (t : Tree V) : Iter V := lookForNextLeaf fuel t ⟨.empty, []⟩

/-- `for (it = begin(); it != end(); ++it) out(*it)`; `none` = CRAB_ERROR (dereferencing an
    iterator without current leaf that is not `end()`).  `n` bounds the number of rounds. -/
def iterCollect (fuel : Nat) : Nat → Iter V → Option (List (Nat × V))
  | 0, _ => some []
  | n + 1, it =>
    match it.current with
    | .leaf k v =>
      match it.increment fuel with
      | none => none
      | some it' =>
        match iterCollect fuel n it' with
        | none => none
        | some l => some ((k, v) :: l)
    | .node _ _ _ _ => none            -- binding() on a node
    | .empty => if it.stack.isEmpty then some [] else none

/-- the whole iteration over a tree -/
def iterate (t : Tree V) : Option (List (Nat × V)) :=
  iterCollect (t.height + 1) (t.size + 1) (Iter.begin (t.height + 1) t)

/-- which version of `compare` the current working tree contains: `true` since the commit
    "fix: patricia tree comparison of two leaves with different keys" -/
def compareIsFixed : Bool := true

end Patricia
end Crab
