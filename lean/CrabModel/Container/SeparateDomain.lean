/-
  Model of `ikos::separate_domain<Key,Value,ValueEqual>`
  (include/crab/domains/separate_domains.hpp): a bottom flag and a patricia tree in which
  the top value is never stored.  The value lattice is a structure of operations
  (`Lattice V`); `Crab.itvLattice` instantiates it with `ikos::interval<z_number>`.
  Operations that can raise CRAB_ERROR return `Option` (`none` = CRAB_ERROR).
-/
import CrabModel.Container.Patricia
import CrabModel.Scalar.Interval

namespace Crab
open Patricia

/-- what `separate_domain` uses of its `Value` parameter -/
structure Lattice (V : Type) where
  top : V
  bottom : V
  isTop : V → Bool
  isBottom : V → Bool
  leq : V → V → Bool
  join : V → V → V
  meet : V → V → V
  widen : V → V → V
  narrow : V → V → V
  /-- `operator==` (what `std::equal_to<Value>` calls) -/
  beq : V → V → Bool

/-- `ikos::interval<z_number>` -/
def itvLattice : Lattice Itv :=
  { top := Itv.top, bottom := Itv.bot, isTop := Itv.isTop, isBottom := Itv.isBottom,
    leq := Itv.leq, join := Itv.join, meet := Itv.meet, widen := Itv.widen,
    narrow := Itv.narrow, beq := Itv.beq }

structure SepDom (V : Type) where
  isBot : Bool            -- `_is_bottom`
  tree : Tree V           -- `_tree`
  deriving Repr, BEq, DecidableEq

namespace SepDom
variable {V : Type}

/-- `join_op` / `widening_op` : the result top is not stored; the default (top) is absorbing -/
def upperOp (L : Lattice V) (f : V → V → V) : BinOp V :=
  ⟨fun _ x y => let z := f x y; if L.isTop z then .dflt else .val z, true⟩
/-- `meet_op` / `narrowing_op` : a bottom result makes everything bottom; the default is neutral -/
def lowerOp (L : Lattice V) (f : V → V → V) : BinOp V :=
  ⟨fun _ x y => let z := f x y; if L.isBottom z then .bottom else .val z, false⟩

def joinOp (L : Lattice V) : BinOp V := upperOp L L.join
def widenOp (L : Lattice V) : BinOp V := upperOp L L.widen
def meetOp (L : Lattice V) : BinOp V := lowerOp L L.meet
def narrowOp (L : Lattice V) : BinOp V := lowerOp L L.narrow

/-- `domain_po` -/
def domainPO (L : Lattice V) : POrder V := ⟨L.leq, true⟩

/-- `separate_domain()` / `top()` -/
def top : SepDom V := ⟨false, .empty⟩
/-- `bottom()` -/
def bottom : SepDom V := ⟨true, .empty⟩

def isBottom (e : SepDom V) : Bool := e.isBot
/-- `is_top()` -/
def isTop (e : SepDom V) : Bool := !e.isBot && e.tree.size == 0

/-- `operator<=` -/
def leq (fixedLeafLeaf : Bool) (c : Ctx V) (L : Lattice V) (a b : SepDom V) : Bool :=
  if a.isBot then true
  else if b.isBot then false
  else leqTree fixedLeafLeaf c (domainPO L) a.tree b.tree

/-- `operator==` -/
def eq (fixedLeafLeaf : Bool) (c : Ctx V) (L : Lattice V) (a b : SepDom V) : Bool :=
  leq fixedLeafLeaf c L a b && leq fixedLeafLeaf c L b a

/-- `operator|`, `operator||` (and `widening_thresholds`): `apply_operation` ignores the
    bottom flag of the merge (these operations never raise it) -/
def upper (c : Ctx V) (L : Lattice V) (f : V → V → V) (a b : SepDom V) : SepDom V :=
  if a.isBot then b
  else if b.isBot then a
  else match mergeWith c (upperOp L f) a.tree b.tree with
    | some t => ⟨false, t⟩
    | none => ⟨false, a.tree⟩

/-- `operator&`, `operator&&` -/
def lower (c : Ctx V) (L : Lattice V) (f : V → V → V) (a b : SepDom V) : SepDom V :=
  if a.isBot || b.isBot then bottom
  else match mergeWith c (lowerOp L f) a.tree b.tree with
    | some t => ⟨false, t⟩
    | none => bottom

def join (c : Ctx V) (L : Lattice V) := upper c L L.join
def widen (c : Ctx V) (L : Lattice V) := upper c L L.widen
def meet (c : Ctx V) (L : Lattice V) := lower c L L.meet
def narrow (c : Ctx V) (L : Lattice V) := lower c L L.narrow

/-- `set(k, v)` -/
def set (c : Ctx V) (L : Lattice V) (e : SepDom V) (k : Nat) (v : V) : SepDom V :=
  if e.isBot then e
  else if L.isBottom v then bottom
  else if L.isTop v then ⟨false, remove c e.tree k⟩
  else ⟨false, insertKV c e.tree k v⟩

/-- `join(k, v)` (weak update).  As coded (`fixedTop = false`) the joined value is inserted
    without a top test, so a top binding can be stored; `fixedTop = true` is the repaired
    code (`if (j.is_top()) remove(k) else insert(k, j)`). -/
def wjoin (fixedTop : Bool) (c : Ctx V) (L : Lattice V) (e : SepDom V) (k : Nat) (v : V) : SepDom V :=
  if e.isBot then e
  else if L.isBottom v then bottom
  else if L.isTop v then ⟨false, remove c e.tree k⟩
  else match e.tree.lookup k with
    | none => ⟨false, remove c e.tree k⟩
    | some old =>
      let j := L.join old v
      if fixedTop && L.isTop j then ⟨false, remove c e.tree k⟩
      else ⟨false, insertKV c e.tree k j⟩

/-- does the current working tree contain the repair of `join(k, v)` ? -/
def wjoinIsFixed : Bool := true

/-- `operator-=` -/
def forget (c : Ctx V) (e : SepDom V) (k : Nat) : SepDom V :=
  if e.isBot then e else ⟨false, remove c e.tree k⟩

/-- `at(k)` -/
def atKey (L : Lattice V) (e : SepDom V) (k : Nat) : V :=
  if e.isBot then L.bottom
  else match e.tree.lookup k with
    | some v => v
    | none => L.top

/-- `size()` : CRAB_ERROR on top -/
def size (e : SepDom V) : Option Nat :=
  if e.isBot then some 0 else if e.isTop then none else some e.tree.size

/-- `for (it = begin(); it != end(); ++it)` : CRAB_ERROR on bottom; the iteration itself is
    the explicit-stack iterator of the tree -/
def bindings (e : SepDom V) : Option (List (Nat × V)) :=
  if e.isBot then none else iterate e.tree

/-- `project(keys)`: copy the wanted bindings when the environment is small or few keys are
    kept, otherwise remove the others (`std::sort` + `std::binary_search` on the index is
    a membership test). -/
def project (c : Ctx V) (L : Lattice V) (e : SepDom V) (keys : List Nat) : SepDom V :=
  if e.isBot || e.isTop then e
  else
    let numTotal := e.tree.size
    let numKeys := keys.length
    if numTotal ≤ 5 || numKeys < numTotal * 60 / 100 then
      keys.foldl (fun env k => set c L env k (SepDom.atKey L e k)) top
    else
      let out := (((iterate e.tree).getD []).map Prod.fst).filter (fun k => !keys.contains k)
      out.foldl (fun env k => forget c env k) e

/-- one step of the loop of `rename` -/
def rename1 (c : Ctx V) (L : Lattice V) (t : Tree V) (k newK : Nat) : Tree V :=
  if k = newK then t
  else match t.lookup k with
    | some v =>
      let t1 := if !L.isTop v then insertKV c t newK v else t
      remove c t1 k
    | none => t

/-- `rename(from, to)` with `CrabSanityCheckFlag` off (its default); CRAB_ERROR when the
    vectors have different sizes -/
def rename (c : Ctx V) (L : Lattice V) (e : SepDom V) (frm to : List Nat) : Option (SepDom V) :=
  if e.isTop || e.isBot then some e
  else if frm.length != to.length then none
  else some ⟨false, (frm.zip to).foldl (fun t p => rename1 c L t p.1 p.2) e.tree⟩

end SepDom
end Crab
