/-
  Model of `ikos::patricia_tree_set<Element>` (patricia_trees.hpp: a
  `patricia_tree<Element,bool>` whose values are all `true`) and of
  `ikos::discrete_domain<Element>` (discrete_domains.hpp: `m_is_top` + such a set).
-/
import CrabModel.Container.Patricia

namespace Crab
open Patricia

namespace PSet

abbrev T := Tree Bool

/-- `union_op` -/
def unionOp : BinOp Bool := ⟨fun _ _ _ => .val true, false⟩
/-- `intersection_op` -/
def interOp : BinOp Bool := ⟨fun _ _ _ => .val true, true⟩
/-- `subset_po` -/
def subsetPO : POrder Bool := ⟨fun _ _ => true, false⟩

/-- the oracles for sets: `std::equal_to<bool>` is exact -/
def ctx (ptrEq : T → T → Bool) : Ctx Bool := ⟨ptrEq, fun x y => x == y⟩

def empty : T := .empty
/-- `patricia_tree_set(e)` / `operator+=` -/
def add (c : Ctx Bool) (s : T) (k : Nat) : T := insertKV c s k true
/-- `operator-=` -/
def remove (c : Ctx Bool) (s : T) (k : Nat) : T := Patricia.remove c s k
/-- `operator[]` -/
def member (s : T) (k : Nat) : Bool :=
  match s.lookup k with
  | none => false
  | some r => r
/-- `operator|` : `merge_with` leaves the tree unchanged when it reports bottom (never here) -/
def union (c : Ctx Bool) (a b : T) : T :=
  match mergeWith c unionOp a b with
  | some t => t
  | none => a
/-- `operator&` -/
def inter (c : Ctx Bool) (a b : T) : T :=
  match mergeWith c interOp a b with
  | some t => t
  | none => a
/-- `operator<=` -/
def subset (fixedLeafLeaf : Bool) (c : Ctx Bool) (a b : T) : Bool := leqTree fixedLeafLeaf c subsetPO a b
/-- `operator==` -/
def eq (fixedLeafLeaf : Bool) (c : Ctx Bool) (a b : T) : Bool :=
  subset fixedLeafLeaf c a b && subset fixedLeafLeaf c b a
def isEmpty (s : T) : Bool := s.isEmpty
def size (s : T) : Nat := s.size
/-- iteration (`none` = CRAB_ERROR inside the iterator; never on well-formed sets) -/
def elems? (s : T) : Option (List Nat) := (iterate s).map (fun l => l.map Prod.fst)
/-- the elements in iteration order -/
def elems (s : T) : List Nat := (elems? s).getD []

end PSet

/-- `discrete_domain<Element>` -/
structure DD where
  isTop : Bool
  set : PSet.T
  deriving Repr, BEq, DecidableEq

namespace DD

def bottom : DD := ⟨false, .empty⟩
def top : DD := ⟨true, .empty⟩
def isBottom (d : DD) : Bool := !d.isTop && d.set.isEmpty

/-- `operator<=` -/
def leq (fx : Bool) (c : Ctx Bool) (a b : DD) : Bool := b.isTop || (!a.isTop && PSet.subset fx c a.set b.set)
/-- `operator==`.  As coded (`fixedTop = false`): `(m_is_top && other.m_is_top) || (m_set == other.m_set)`,
    which compares the (empty) element set of a top value with the other operand's set;
    `fixedTop = true` is the repaired test (element sets are only compared when neither is top). -/
def eq (fixedTop : Bool) (fx : Bool) (c : Ctx Bool) (a b : DD) : Bool :=
  if fixedTop then (a.isTop && b.isTop) || (!a.isTop && !b.isTop && PSet.eq fx c a.set b.set)
  else (a.isTop && b.isTop) || PSet.eq fx c a.set b.set

/-- does the current working tree contain the repair of `discrete_domain::operator==` ? -/
def eqIsFixed : Bool := true
/-- `operator|` -/
def join (c : Ctx Bool) (a b : DD) : DD :=
  if a.isTop || b.isTop then top else ⟨false, PSet.union c a.set b.set⟩
/-- `operator&` -/
def meet (c : Ctx Bool) (a b : DD) : DD :=
  if a.isBottom || b.isBottom then bottom
  else if a.isTop then b
  else if b.isTop then a
  else ⟨false, PSet.inter c a.set b.set⟩
/-- `operator+=(Element)` -/
def add (c : Ctx Bool) (a : DD) (k : Nat) : DD := if a.isTop then a else ⟨false, PSet.add c a.set k⟩
/-- `operator-=(Element)` -/
def remove (c : Ctx Bool) (a : DD) (k : Nat) : DD := if a.isTop then a else ⟨false, PSet.remove c a.set k⟩
/-- `begin()..end()` : CRAB_ERROR on top -/
def elems (a : DD) : Option (List Nat) := if a.isTop then none else some (PSet.elems a.set)
/-- `size()` -/
def size (a : DD) : Option Nat := if a.isTop then none else some a.set.size
/-- `operator-(Range es)` with `es` a discrete_domain: iterating `es` raises CRAB_ERROR when it is top
    (only reached when `*this` is not top) -/
def diff (c : Ctx Bool) (a b : DD) : Option DD :=
  if a.isTop then some a
  else match b.elems with
    | none => none
    | some es => some ⟨false, es.foldl (fun s k => PSet.remove c s k) a.set⟩
/-- `contain(e)` -/
def contain (a : DD) (k : Nat) : Bool :=
  if a.isBottom then false else if a.isTop then true else PSet.member a.set k
/-- `rename(from, to)` -/
def rename (c : Ctx Bool) (a : DD) (frm to : List Nat) : Option DD :=
  if a.isTop || a.isBottom then some a
  else if frm.length != to.length then none
  else some ((frm.zip to).foldl (fun d p =>
      if p.1 = p.2 then d
      else if d.contain p.1 then add c (remove c d p.1) p.2 else d) a)

end DD
end Crab
