import Driver.CongH
import CrabModel.Scalar.IntervalCongruence

/-!
  Handler for component `ic` : `crab::domains::interval_congruence<z_number>`.
    (ic.mk I E)           => C P       C = value of the congruence expression E,
                                        P = (ic I' C') : the pair after `reduce()`
    (ic.<op> I1 E1 I2 E2) => P1 P2 R   operand pairs after `reduce()`, R = P1 op P2 | err
  Model: `IC.reduce`; an operation is the component-wise operation followed by `reduce`.
  The implementation's answer is always tested on sampled common members of the interval and
  the congruence (C08: the reduction must not lose a member; operations over-approximate).
-/
namespace Driver
open Crab

def parseIC : Sexp → Option IC
  | .list [.atom "ic", i, c] => do
      let i ← parseItv i; let c ← parseCong c; pure ⟨i, c⟩
  | _ => none

def parseICOrErr : Sexp → Option (Option IC)
  | .atom "err" => some none
  | s => (parseIC s).map some

def showIC (p : IC) : String := s!"(ic {showItv p.i} {showCong p.c})"
def showOptIC : Option IC → String
  | none => "err"
  | some p => showIC p

def icEq (a b : IC) : Bool :=
  ((a.i.isBottom && b.i.isBottom) || (a.i.lb == b.i.lb && a.i.ub == b.i.ub && a.i.isBottom == b.i.isBottom))
  && congEq a.c b.c
def optIcEq : Option IC → Option IC → Bool
  | some a, some b => icEq a b
  | none, none => true
  | _, _ => false

/-- common members of an interval and a congruence -/
def icSamples (i : Itv) (c : Cong) : List Int :=
  let fromC := (congSamples c).filter (fun k => i.contains k)
  let fromI := (itvSamples i).filter (fun k => c.contains k)
  -- members of the class next to the finite bounds of the interval
  let nearB : List Int :=
    if c.isBot || c.a = 0 then [] else
    let step (b : Bound) : List Int := match b with
      | .fin l => let r := l + Int.emod (c.b - l) c.a; [r, r - c.a.natAbs, r + c.a.natAbs]
      | _ => []
    (step i.lb ++ step i.ub).filter (fun k => i.contains k && c.contains k)
  (fromC ++ fromI ++ nearB).eraseDups

/-- model of a binary operation on reduced pairs; inner none = CRAB_ERROR -/
def icBin (op : String) (a b : IC) : Option (Option IC) :=
  let iop := if op == "sdiv" then "div" else op
  match modelBin iop a.i b.i, congBin op a.c b.c with
  | some (some i), some (some c) => some (IC.reduce ⟨i, c⟩)
  | some _, some _ => some none
  | _, _ => none

def handleIC (op : String) (args res : List Sexp) : Verdict :=
  match op, args, res with
  | _, _, [.atom "experr"] =>
    let es := match args with
      | [_, e] => [e]
      | [_, e1, _, e2] => [e1, e2]
      | _ => []
    if es.any exprHasBigShift then .skip "ic: shift amount outside the evaluated range"
    else if es.all (fun e => (evalCongExpr e).isSome) then .drift s!"ic.{op}: operand expression raised CRAB_ERROR, the model does not"
    else .ok
  | "mk", [i, e], [cv, r] =>
    match parseItv i, parseCong cv, parseICOrErr r with
    | some i, some c, some ri =>
      match checkOperand e c with
      | some d => .drift s!"ic.mk {d}"
      | none =>
        let m := IC.reduce ⟨i, c⟩
        let ctx := s!"ic.mk {showItv i} {showCong c} model={showOptIC m} impl={showOptIC ri}"
        match ri with
        | none => .unsound ("CRAB_ERROR raised by " ++ ctx)
        | some rv =>
          match (icSamples i c).find? (fun k => !rv.contains k) with
          | some k => .unsound (ctx ++ s!" witness {k} in interval and congruence, lost by reduce")
          | none =>
            -- the reduction must not add members either
            match (icSamples rv.i rv.c).find? (fun k => !(i.contains k && c.contains k)) with
            | some k => .unsound (ctx ++ s!" witness {k} added by reduce")
            | none => if optIcEq m ri then .ok else .drift ctx
    | _, _, _ => .bad "ic.mk"
  | _, [_, _, _, _], [p1, p2, r] =>
    match parseIC p1, parseIC p2, parseICOrErr r with
    | some a, some b, some ri =>
      if isShift op && !(shiftOk b.c) then .skip "ic: shift amount outside the evaluated range"
      else
      match icBin op a b with
      | none => .bad s!"ic.{op}: unknown op"
      | some m =>
        let ctx := s!"ic.{op} {showIC a} {showIC b} model={showOptIC m} impl={showOptIC ri}"
        match ri with
        | none => if m.isNone then .unsound ("CRAB_ERROR raised by " ++ ctx) else .drift ctx
        | some rv =>
          let xs := icSamples a.i a.c
          let ys := icSamples b.i b.c
          let cop := if op == "sdiv" then "div" else op
          let bad : Option String :=
            match op with
            | "join" => (xs ++ ys).findSome? (fun k => if rv.contains k then none else some s!"witness {k} in operand")
            | "meet" => (xs ++ ys).findSome? (fun k =>
                if a.contains k && b.contains k && !rv.contains k then some s!"witness {k} in both" else none)
            | _ => xs.findSome? (fun x => ys.findSome? (fun y =>
                match concBin cop x y with
                | some c => if rv.contains c then none else some s!"witness a={x} b={y} conc={c}"
                | none => none))
          match bad with
          | some w => .unsound (ctx ++ " " ++ w)
          | none => if optIcEq m ri then .ok else .drift ctx
    | _, _, _ => .bad s!"ic.{op}: values"
  | _, _, _ => .bad s!"ic.{op}: shape"

end Driver
