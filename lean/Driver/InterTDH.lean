import Driver.InterBUH
import CrabModel.Inter.TopDownRun

/-!
  Second oracle for the `inter.run td` lines (property C09): the executable model of
  `top_down_inter_analyzer::run` (`CrabModel/Inter/TopDownRun.lean`, the object of the theorems in
  `CrabProofs/Props/C09TopDown.lean`) is run on the program of the request with the one-point
  abstract domain and the parameters of the request.  With that domain the model computes the
  *largest* set of functions the real analysis can analyse (call-graph entries as chosen by
  `only_main_as_entry`, callees of analysed functions) and the bookkeeping of the context table;
  compared with what the real analyzer reported:

    * a function the model never analyses reports bottom at every block and has no summary;
    * a function that is never called (in particular an entry) has no stored summary
      (`add_calling_context` is only reached from `analyze_callee`);
    * with `max_call_contexts = m < UINT_MAX` a function has at most `max(m, 1) + 1` stored contexts
      (`default_context_sensitivity_policy::add` joins the two oldest ones beyond the bound).

  A difference is a `.drift`.  `handleInter3` is the dispatch entry: the checks of `handleInter2`
  first (executions, bottom-up oracle), then this oracle.
-/
namespace Driver
open Crab Crab.Inter

namespace InterTD

def isBotFacts (f : InterDrv.Facts) : Bool := f.bot

/-- the parameters of the request: `(par <mcc|inf> <exact> <rec> <delay> <desc> <chk> <onlymain>)` -/
def parseParams : Sexp → Option (TDParams × Nat × Nat)
  | .list [.atom "par", mcc, ex, _rec, delay, desc, _chk, only] => do
    let m : Option Nat ← (match mcc with
      | .atom "inf" => some none
      | s => s.nat?.map some)
    let ex ← parseBool ex
    let only ← parseBool only
    -- the widening set is left empty: with the one-point domain it does not change which functions
    -- are analysed, and recursion is cut by the call stack
    pure ({ maxCtx := m, exactReuse := ex, recursive := false, onlyMain := only, wset := [],
            cgNest := fun _ => [] }, (← delay.nat?), (← desc.nat?))
  | _ => none

def check (p : IProg) (P : TDParams) (delay desc : Nat) (frs : Array InterDrv.FunRes) : Option String :=
  let fuel := 64 + 8 * (p.funs.foldl (fun a f => a + f.blocks.size) 0)
  match tdAnalyze InterBU.unitDom p (crabWto p fuel delay desc) P (p.funs.size + 2) () with
  | none => some "model of top_down_inter_analyzer ran out of fuel"
  | some s =>
    (List.range p.funs.size).findSome? (fun g =>
      let f := p.fn g
      let fr := frs.getD g default
      if (s.gpre g).isNone && fr.blocks.any (fun b => !isBotFacts b.1 || !isBotFacts b.2) then
        some s!"function {f.name} is never analysed by the model but reports an invariant that is not bottom"
      else if (s.gpre g).isNone && !fr.sums.isEmpty then
        some s!"function {f.name} is never analysed by the model but has a stored summary"
      else if !p.isCalled g && !fr.sums.isEmpty then
        some s!"function {f.name} is never called but has a stored summary"
      else match P.maxCtx with
        | some m =>
          if fr.sums.length > (max m 1) + 1 then
            some s!"function {f.name}: {fr.sums.length} stored summaries with max_call_contexts = {m}"
          else none
        | none => none)

end InterTD

open InterDrv in
def handleInterTD (op : String) (args res : List Sexp) : Verdict :=
  match op, args with
  | "run", [.atom "td", .atom dom, par, prog] =>
    match res with
    | [.atom "err"] => .ok
    | _ =>
    match parseProg prog, InterTD.parseParams par with
    | some (p, labels), some (P, delay, desc) =>
      if !p.wf then .ok else
      -- the part of the result before the `alt` item (the run with the parameters of the request)
      match parseResult p labels (res.filter (fun r => match r with | .list (.atom "alt" :: _) => false | _ => true)) with
      | none => .ok
      | some (frs, _) =>
        match InterTD.check p P delay desc frs with
        | some m => .drift s!"[C09][model] inter.run td {dom} {par}: {m}"
        | none => .ok
    | _, _ => .ok
  | _, _ => .ok

/-- Do the decidable hypotheses of the end-to-end theorems hold for the program of the request
    whatever widening set / component order the real analysis computed?  (No name sharing across
    positions at call sites, `main` is never called, no call path from `main` re-enters a function.)
    Then `C09.td_analysis_sound_partial` / `C09.td_summaries_valid_partial` (mode td) and
    `C10.analysis_sound_partial` / `C10.summary_sound` (mode bu) say that the model reports no
    invariant or summary that an execution violates. -/
def theoremsApply (p : IProg) : Bool :=
  p.wf && p.scoped && p.callsWiringOK && p.callsSeqOK && !p.isCalled p.main &&
  pathsOK p [] (p.funs.size + 1) [p.main]

def containsStr (s sub : String) : Bool := (s.splitOn sub).length > 1

/-- dispatch entry for the component `inter`: the checks of `handleInter2`, then the top-down
    oracle; a violation of a reported invariant / summary found on a request for which the proved
    theorems apply is tagged: it can only mean that the model does not describe the code. -/
def handleInter3 (op : String) (args res : List Sexp) : Verdict :=
  match handleInter2 op args res with
  | .ok => handleInterTD op args res
  | .unsound m =>
    let isInv := (containsStr m "[C09]" || containsStr m "[C10]") && !containsStr m "[C02]" &&
                 (containsStr m "invariant:" || containsStr m "summary:")
    let applies := match args with
      | [_, _, _, prog] => (match InterDrv.parseProg prog with
          | some (p, _) => theoremsApply p
          | none => false)
      | _ => false
    if isInv && applies then .unsound ("[contradicts-proved-model-theorem] " ++ m) else .unsound m
  | v => v

end Driver
