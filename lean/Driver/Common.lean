import Driver.Sexp
import CrabModel.Scalar.Interval

/-!
  Shared helpers of the line-protocol driver: verdict strings, parsing of numbers,
  bounds and intervals.
-/
namespace Driver
open Crab

/-- Verdicts (one per input line).  Everything except `ok` / `skip` is reported. -/
inductive Verdict where
  | ok
  | skip (reason : String)
  | unsound (msg : String)     -- a concrete failing input was found
  | imprecise (msg : String)   -- exact/tight property: strictly less precise than proved-exact model
  | drift (msg : String)       -- model and implementation differ, no failing input found
  | bad (msg : String)         -- unparsable line
  deriving Repr

def Verdict.toString : Verdict → String
  | .ok => "ok"
  | .skip r => "SKIP " ++ r
  | .unsound m => "UNSOUND " ++ m
  | .imprecise m => "IMPRECISE " ++ m
  | .drift m => "DRIFT " ++ m
  | .bad m => "BAD " ++ m

def parseBound : Sexp → Option Bound
  | .atom "+oo" => some .pinf
  | .atom "-oo" => some .ninf
  | .atom s => s.toInt?.map .fin
  | _ => none

/-- `bot` or `(iv lb ub)` ; the pair is taken raw (no normalisation) -/
def parseItv : Sexp → Option Itv
  | .atom "bot" => some Itv.bot
  | .list [.atom "iv", l, u] => do
      let l ← parseBound l; let u ← parseBound u; pure ⟨l, u⟩
  | _ => none

def showItv (i : Itv) : String :=
  if i.isBottom then "bot" else s!"(iv {i.lb} {i.ub})"

/-- an answer may be `err` (CRAB_ERROR) -/
def parseItvOrErr : Sexp → Option (Option Itv)
  | .atom "err" => some none
  | s => (parseItv s).map some

def showOptItv : Option Itv → String
  | none => "err"
  | some i => showItv i

def parseBool : Sexp → Option Bool
  | .atom "1" => some true
  | .atom "0" => some false
  | .atom "true" => some true
  | .atom "false" => some false
  | _ => none

/-- candidate concrete members of an interval (corners, neighbours, small values, far values) -/
def itvSamples (i : Itv) : List Int :=
  if i.isBottom then [] else
  let base : List Int := [0, 1, -1, 2, -2, 3, -3, 7, -7, 64, -64, 1000003, -1000003,
                          2^31, -(2^31), 2^63, -(2^63), 2^64 + 1, -(2^64) - 1]
  let fromB : Bound → List Int
    | .fin k => [k, k+1, k-1, k+2, k-2, k / 2, k * 2]
    | _ => []
  let mid : List Int := match i.lb, i.ub with
    | .fin l, .fin u => [(l + u) / 2, (l + u) / 2 + 1]
    | _, _ => []
  (fromB i.lb ++ fromB i.ub ++ mid ++ base).filter (fun k => i.contains k) |>.eraseDups

end Driver
