import Driver.Common
import CrabModel.Graph.WtoCheck

/-!
  Handler for component `wto` : `ikos::wto<G>` on real CFGs (`wto.build`) and call graphs (`wto.cg`).
  Line:  (wto.build n entry (succs (..) ..)) => (succs (..) ..) (w <term> ..) (nest (v h1 h2 ..) ..)
         terms: `v` = vertex, `(h c1 c2 ..)` = cycle with head h;  result `err` = CRAB_ERROR.
  The request's `succs` is the insertion order of the edges, the result's `succs` the order in which
  the C++ enumerates the out edges (the DFS order); both must describe the same edge set.
  (i)  property C07 itself: `checkWto` (proved sound and complete for `WtoWF`) is evaluated on the
       implementation's ordering and nesting table on every line; a failure is `.unsound` with the
       offending node / edge;
  (ii) the model's `build` / `nestingTable` must produce the same term and the same table (`.drift`).
-/
namespace Driver
open Crab Crab.Wto

namespace WtoH

def natList? : Sexp → Option (List Nat)
  | .list xs => xs.mapM Sexp.nat?
  | _ => none

def parseSuccs : Sexp → Option (Array (List Nat))
  | .list (.atom "succs" :: ls) => (ls.mapM natList?).map List.toArray
  | _ => none

partial def parseTerm : Sexp → Option WtoC
  | .atom s => s.toNat?.map .vertex
  | .list (.atom h :: body) => do
      let h ← h.toNat?
      let b ← body.mapM parseTerm
      pure (.cycle h b)
  | _ => none

def parseW : Sexp → Option (List WtoC)
  | .list (.atom "w" :: ts) => ts.mapM parseTerm
  | _ => none

def parseNest : Sexp → Option (List (Nat × List Nat))
  | .list (.atom "nest" :: es) =>
      es.mapM (fun e => match natList? e with
        | some (v :: hs) => some (v, hs)
        | _ => none)
  | _ => none

partial def showC : WtoC → String
  | .vertex v => toString v
  | .cycle h body => "(" ++ " ".intercalate (toString h :: body.map showC) ++ ")"

def showW (w : List WtoC) : String := "(w " ++ " ".intercalate (w.map showC) ++ ")"

def showNest (t : List (Nat × List Nat)) : String :=
  "(nest " ++ " ".intercalate (t.map (fun p => "(" ++ " ".intercalate ((p.1 :: p.2).map toString) ++ ")")) ++ ")"

def showOptNest : Option (List Nat) → String
  | none => "none"
  | some hs => "[" ++ " ".intercalate (hs.map toString) ++ "]"

def mkGraph (n : Nat) (succs : Array (List Nat)) : Graph := { n := n, succ := fun u => succs.getD u [] }

def firstDup : List Nat → Option Nat
  | [] => none
  | x :: xs => if xs.contains x then some x else firstDup xs

/-- names the node / edge that makes `checkWto` fail -/
def explain (g : Graph) (e : Nat) (w : List WtoC) (tbl : List (Nat × List Nat)) : String :=
  let fl := flattenL w
  let r := reachList g e
  if !fl.contains e then s!"entry {e} does not occur in the ordering" else
  match firstDup fl with
  | some d => s!"node {d} occurs more than once in the ordering"
  | none =>
  match fl.findSome? (fun u => (g.succ u).findSome? (fun v => if fl.contains v then none else some (u, v))) with
  | some (u, v) => s!"edge {u}->{v}: {v} is reachable from the entry but does not occur in the ordering"
  | none =>
  match fl.find? (fun u => !r.contains u) with
  | some u => s!"node {u} occurs in the ordering but is not reachable from entry {e}"
  | none =>
  match fl.findSome? (fun u => (g.succ u).findSome? (fun v => if checkEdge w fl u v then none else some (u, v))) with
  | some (u, v) => s!"edge {u}->{v}: {u} does not precede {v} and {v} is not the head of a component containing {u}"
  | none =>
  match fl.find? (fun v => !(tbl.lookup v == nesting w v)) with
  | some v => s!"nesting({v}) = {showOptNest (tbl.lookup v)} but the heads of the enclosing components are {showOptNest (nesting w v)}"
  | none =>
  match tbl.find? (fun p => !fl.contains p.1) with
  | some p => s!"nesting({p.1}) is defined but {p.1} does not occur in the ordering"
  | none => "checkWto failed"

def sameEdges (n : Nat) (a b : Array (List Nat)) : Bool :=
  a.size == n && b.size == n &&
  (List.range n).all (fun u =>
    let x := a.getD u []; let y := b.getD u []
    x.all (fun v => y.contains v) && y.all (fun v => x.contains v) && y.all (fun v => v < n) &&
    (firstDup y).isNone)

end WtoH

open WtoH in
def handleWto (op : String) (args res : List Sexp) : Verdict :=
  if op != "build" && op != "cg" then .bad s!"unknown op wto.{op}" else
  match args with
  | [n, e, rs] =>
    match n.nat?, e.nat?, parseSuccs rs with
    | some n, some e, some reqSuccs =>
      if n == 0 || e ≥ n then .bad "entry/size" else
      match res with
      | [.atom "err"] =>
        .unsound s!"CRAB_ERROR raised while building the ordering (n={n} entry={e})"
      | [ss, ws, ns] =>
        match parseSuccs ss, parseW ws, parseNest ns with
        | some succs, some w, some tbl =>
          if !sameEdges n reqSuccs succs then .bad "enumerated successors differ from the requested edges" else
          let g := mkGraph n succs
          -- (i) the property's own predicate on the implementation's answer
          if !checkWto g e w tbl then .unsound (explain g e w tbl ++ s!" in {showW w} {showNest tbl}") else
          -- (ii) exact correspondence with the model
          match buildOut g e with
          | .done wm =>
            if showW wm != showW w then .drift s!"model {showW wm} impl {showW w}" else
            let tm := nestingTable wm
            match (List.range n).find? (fun v => !(tm.lookup v == tbl.lookup v)) with
            | some v => .drift s!"nesting({v}): model {showOptNest (tm.lookup v)} impl {showOptNest (tbl.lookup v)}"
            | none => .ok
          | .err => .drift s!"model raises CRAB_ERROR, impl {showW w}"
          | .nofuel => .drift "model ran out of fuel"
        | _, _, _ => .bad "result"
      | _ => .bad "result shape"
    | _, _, _ => .bad "args"
  | _ => .bad "arity"

end Driver
