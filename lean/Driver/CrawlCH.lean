import Driver.CrawlH
import CrabModel.Transform.Cdg

/-!
  Control part of component `crawl` (property C18): wraps `handleCrawl` (all its checks are kept)
  and adds, on every line that passes,
   (K) the control-dependence graph printed by the harness (`graph_algo::control_dep_graph` of
       the real code) passes `TIR.isCdgOK` (hypothesis of `C18.crawler_ctrl_sound_partial`).
   (M) it has the same pairs as the model of the repaired cdg.hpp (`Prog.cdgModel`:
       post-dominance frontiers by walking the immediate-post-dominator tree, plus the blocks
       reachable from a branch with a successor that cannot reach the exit).  A pair `(b, n)` of
       the model that the implementation lacks is judged by the DEFINITION (the hypotheses of
       `C18.cdg_sound` / `C18.cdg_sound_escape`, evaluated with the proved-correct deciders
       `pdomB`, `avoidB`, `coReachable`): with a witness `s1, s2` it is
       `.unsound "[C18] [cdg] .."`, otherwise drift; an extra pair is drift.
   (C) [run before (M)] the data+control answer at block entries satisfies `TIR.isCtrlSol` with the
       implementation's graph (the decidable hypothesis of `C18.crawler_ctrl_sound_partial`).
   (F) the data+control and data-only answers equal the model of the REPAIRED crawler
       (`CrawlVariant.fixed`), not just some variant.
-/
namespace Driver
namespace Crawl
open Crab Crab.TIR Driver.Xf

def showCdg (g : Cdg) : String :=
  " ".intercalate (g.map (fun p => s!"(b{p.1}:" ++ " ".intercalate (p.2.map (fun c => s!"b{c}")) ++ ")"))

def firstMissing (g h : Cdg) : Option (Label × Label) :=
  h.findSome? (fun p => (p.2.find? (fun c => !(g.kids p.1).contains c)).map (fun c => (p.1, c)))

/-- the hypotheses of `C18.cdg_sound` / `C18.cdg_sound_escape` for the pair `(b, n)` -/
def depWitness (P : Prog) (b n : Label) : Option String :=
  let sc := P.succsOf b
  let co := P.coExit
  let fow := match P.exit with
    | some x =>
      match sc.find? (fun s1 => co.contains s1 && P.pdomB x n s1), sc.find? (fun s2 => P.avoidB x n s2) with
      | some s1, some s2 =>
        some s!"b{s1} and b{s2} are successors of b{b}, every path from b{s1} to the exit b{x} passes through b{n}, a path from b{s2} to the exit avoids b{n}"
      | _, _ => none
    | none => none
  match fow with
  | some w => some w
  | none =>
    sc.findSome? (fun s1 => sc.findSome? (fun s2 =>
      if s1 != s2 && (!co.contains s1 || !co.contains s2) &&
          (reachFrom P.succsOf P.reachFuel [s1] []).contains n then
        some s!"b{s1} and b{s2} are successors of b{b}, one of them cannot reach the exit, b{n} is reachable from b{s1}"
      else none))

def handleCrawlC (op : String) (args res : List Sexp) : Verdict :=
  match handleCrawl op args res with
  | .ok =>
    match (findTag "orig" res).bind (·.head?) |>.bind pProg, (findTag "cdg" res).bind pCdg,
          (findTag "data" res).bind pBlockFacts, (findTag "ctrl" res).bind pBlockFacts with
    | some P, some cdg, some dataI, some ctrlI =>
      let order := ((findTag "order" res).getD []).filterMap pLab
      let gm := P.cdgModel
      if !isCdgOK P cdg then .drift s!"[C18] [cdg-ok] crawl.run: the implementation's graph {showCdg cdg} fails isCdgOK (model {showCdg gm})" else
      -- (C)
      if !isCtrlSol P cdg (lookupFacts ctrlI) then
        .drift "[C18] crawl.run: the data+control answer does not satisfy the control inequations isCtrlSol" else
      -- (F)
      let same := fun (g : Cdg) (I : List (Label × Facts)) =>
        match crawl CrawlVariant.fixed P g order with
        | none => false
        | some M => P.labels.all (fun l => sameFacts (M.get l) (lookupFacts I l))
      if !same [] dataI then .drift "[C18] crawl.run: data-only answer differs from the model of the repaired crawler" else
      if !same cdg ctrlI then .drift "[C18] crawl.run: data+control answer differs from the model of the repaired crawler" else
      -- (M)
      match firstMissing cdg gm with
      | some p =>
        match depWitness P p.1 p.2 with
        | some w => .unsound s!"[C18] [cdg] crawl.run: b{p.2} is control dependent on b{p.1} ({w}) but not in the graph of control_dep_graph {showCdg cdg}; model of cdg.hpp: {showCdg gm}"
        | none => .drift s!"[C18] [cdg] crawl.run: b{p.2} is control dependent on b{p.1} in the model of cdg.hpp, missing in the implementation's graph {showCdg cdg}"
      | none =>
      match firstMissing gm cdg with
      | some p => .drift s!"[C18] [cdg] crawl.run: the implementation's graph has b{p.2} control dependent on b{p.1}, the model of cdg.hpp has not: {showCdg gm}"
      | none => .ok
    | _, _, _, _ => .bad "crawl.run: parse"
  | v => v

end Crawl
export Crawl (handleCrawlC)
end Driver
