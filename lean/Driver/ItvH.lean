import Driver.Common

/-!
  Handler for component `iv` : `ikos::interval<z_number>` and `bound<z_number>`.
  Lines:  (iv.<op> A B) => R     (iv.<unop> A) => R   (iv.<pred> A B) => 0|1
          (bd.<op> x y) => b|err
  On a difference between model and implementation the handler evaluates the property
  itself (C08: soundness w.r.t. the concrete operation, tightness for + - neg * | &)
  on concrete members of the operands to find a failing input.
-/
namespace Driver
open Crab

/-- concrete semantics of the binary scalar operations (none = no successor state /
    outside what crab gives a meaning to on mathematical integers) -/
def concBin (op : String) (a b : Int) : Option Int :=
  match op with
  | "add" => some (a + b)
  | "sub" => some (a - b)
  | "mul" => some (a * b)
  | "div" => if b = 0 then none else some (Int.tdiv a b)
  | "srem" => if b = 0 then none else some (Int.tmod a b)
  | "udiv" => if a ≥ 0 ∧ b > 0 then some (a / b) else none
  | "urem" => if a ≥ 0 ∧ b > 0 then some (a % b) else none
  | "and" => some (ZNum.land a b)
  | "or" => some (ZNum.lor a b)
  | "xor" => some (ZNum.lxor a b)
  | "shl" => if 0 ≤ b ∧ b ≤ 4096 then some (a * 2 ^ b.toNat) else none
  | "ashr" => if 0 ≤ b ∧ b ≤ 4096 then some (a / 2 ^ b.toNat) else none
  | "lshr" => if 0 ≤ b ∧ b ≤ 4096 ∧ a ≥ 0 then some (a / 2 ^ b.toNat) else none
  | _ => none

def modelBin (op : String) (a b : Itv) : Option (Option Itv) :=
  match op with
  | "add" => some (Itv.add a b)
  | "sub" => some (Itv.sub a b)
  | "mul" => some (some (Itv.mul a b))
  | "div" => some (Itv.div a b)
  | "srem" => some (some (Itv.srem a b))
  | "udiv" => some (some (Itv.udiv a b))
  | "urem" => some (some (Itv.urem a b))
  | "and" => some (some (Itv.and a b))
  | "or" => some (some (Itv.or a b))
  | "xor" => some (some (Itv.xor a b))
  | "shl" => some (some (Itv.shl a b))
  | "ashr" => some (some (Itv.ashr a b))
  | "lshr" => some (some (Itv.lshr a b))
  | "join" => some (some (Itv.join a b))
  | "meet" => some (some (Itv.meet a b))
  | "widen" => some (some (Itv.widen a b))
  | "narrow" => some (some (Itv.narrow a b))
  | "trim" => some (some (Itv.trim a b))
  | _ => none

def tightOps : List String := ["add", "sub", "mul", "join", "meet"]

/-- search for `a ∈ x, b ∈ y` whose concrete result is outside `r` -/
def findUnsoundBin (op : String) (x y r : Itv) : Option String :=
  let xs := itvSamples x
  let ys := itvSamples y
  let rec goY (a : Int) : List Int → Option String
    | [] => none
    | b :: bs =>
      match concBin op a b with
      | some c => if r.contains c then goY a bs else some s!"witness a={a} b={b} conc={c} not-in {showItv r}"
      | none => goY a bs
  let rec goX : List Int → Option String
    | [] => none
    | a :: as => match goY a ys with
      | some w => some w
      | none => goX as
  match op with
  | "join" =>
    (xs ++ ys).findSome? (fun a => if r.contains a then none else some s!"witness a={a} in operand not-in {showItv r}")
  | "widen" =>
    (xs ++ ys).findSome? (fun a => if r.contains a then none else some s!"witness a={a} in operand not-in {showItv r}")
  | "meet" =>
    xs.findSome? (fun a => if y.contains a && !r.contains a then some s!"witness a={a} in both not-in {showItv r}" else none)
  | "narrow" =>
    xs.findSome? (fun a => if y.contains a && !r.contains a then some s!"witness a={a} in both not-in {showItv r}" else none)
  | "trim" =>
    -- trim(i, j): values of i different from the singleton j stay
    xs.findSome? (fun a => if y.singleton? != some a && !r.contains a && y.singleton?.isSome
                           then some s!"witness a={a} not-in {showItv r}" else none)
  | _ => goX xs

def classifyBin (op : String) (x y : Itv) (model impl : Option Itv) : Verdict :=
  if (match model, impl with
      | some m, some i => Itv.beq m i && Itv.beq i m
      | none, none => true
      | _, _ => false) then
    -- agreement: the property predicate is still evaluated on the implementation's answer
    match impl with
    | some r =>
      match findUnsoundBin op x y r with
      | some w => .unsound (s!"iv.{op} {showItv x} {showItv y} impl={showItv r} (model agrees) " ++ w)
      | none => .ok
    | none => .ok
  else
    let ctx := s!"iv.{op} {showItv x} {showItv y} model={showOptItv model} impl={showOptItv impl}"
    match impl with
    | none => .drift (ctx ++ " (implementation raised CRAB_ERROR)")
    | some r =>
      match findUnsoundBin op x y r with
      | some w => .unsound (ctx ++ " " ++ w)
      | none =>
        match model with
        | some m =>
          if tightOps.contains op && Itv.leq m r && !Itv.leq r m then .imprecise ctx
          else .drift ctx
        | none => .drift ctx

def handleItv (op : String) (args : List Sexp) (res : List Sexp) : Verdict :=
  match op, args, res with
  | "neg", [a], [r] =>
    match parseItv a, parseItvOrErr r with
    | some a, some r =>
      let m := Itv.neg a
      if r.isSome && Itv.beq m (r.getD Itv.bot) then .ok
      else
        let ctx := s!"iv.neg {showItv a} model={showItv m} impl={showOptItv r}"
        match r with
        | some ri =>
          match (itvSamples a).find? (fun k => !ri.contains (-k)) with
          | some k => .unsound (ctx ++ s!" witness a={k}")
          | none => if Itv.leq m ri then .imprecise ctx else .drift ctx
        | none => .drift ctx
    | _, _ => .bad "iv.neg"
  | "leq", [a, b], [r] =>
    match parseItv a, parseItv b, parseBool r with
    | some a, some b, some r =>
      if Itv.leq a b == r then .ok
      else
        let ctx := s!"iv.leq {showItv a} {showItv b} model={Itv.leq a b} impl={r}"
        if r then
          match (itvSamples a).find? (fun k => !b.contains k) with
          | some k => .unsound (ctx ++ s!" witness {k} in left not in right")
          | none => .drift ctx
        else if a.isBottom || Itv.beq a b then .unsound (ctx ++ " (must answer yes: bottom/equal operands)")
        else .drift ctx
    | _, _, _ => .bad "iv.leq"
  | "eq", [a, b], [r] =>
    match parseItv a, parseItv b, parseBool r with
    | some a, some b, some r => if Itv.beq a b == r then .ok else .drift s!"iv.eq {showItv a} {showItv b} impl={r}"
    | _, _, _ => .bad "iv.eq"
  | "isbot", [a], [r] =>
    match parseItv a, parseBool r with
    | some a, some r => if a.isBottom == r then .ok else .drift s!"iv.isbot {showItv a} impl={r}"
    | _, _ => .bad "iv.isbot"
  | "istop", [a], [r] =>
    match parseItv a, parseBool r with
    | some a, some r => if a.isTop == r then .ok else .drift s!"iv.istop {showItv a} impl={r}"
    | _, _ => .bad "iv.istop"
  | "mk", [l, u], [r] =>
    match parseBound l, parseBound u, parseItv r with
    | some l, some u, some r =>
      let m := Itv.mk' l u
      if Itv.beq m r then .ok else .drift s!"iv.mk {l} {u} model={showItv m} impl={showItv r}"
    | _, _, _ => .bad "iv.mk"
  | "contains", [a, k], [r] =>
    match parseItv a, k.int?, parseBool r with
    | some a, some k, some r => if a.contains k == r then .ok else .drift s!"iv.contains {showItv a} {k} impl={r}"
    | _, _, _ => .bad "iv.contains"
  | "singleton", [a], [r] =>
    match parseItv a with
    | some a =>
      let m := match a.singleton? with | some k => toString k | none => "none"
      if some m == r.atom? then .ok else .drift s!"iv.singleton {showItv a} model={m} impl={r}"
    | none => .bad "iv.singleton"
  | _, [a, b], [r] =>
    match parseItv a, parseItv b, parseItvOrErr r with
    | some a, some b, some r =>
      match modelBin op a b with
      | some m => classifyBin op a b m r
      | none => .bad s!"iv.{op}: unknown op"
    | _, _, _ => .bad s!"iv.{op}"
  | _, _, _ => .bad s!"iv.{op}: arity"

def showOptBound : Option Bound → String
  | none => "err"
  | some b => b.toString

def handleBound (op : String) (args : List Sexp) (res : List Sexp) : Verdict :=
  match args, res with
  | [a, b], [r] =>
    match parseBound a, parseBound b with
    | some a, some b =>
      let cmpB (m : Bool) : Verdict :=
        match parseBool r with
        | some rb => if rb == m then .ok else .drift s!"bd.{op} {a} {b} model={m} impl={rb}"
        | none => .bad "bd result"
      let cmpO (m : Option Bound) : Verdict :=
        let ri : Option (Option Bound) := match r with
          | .atom "err" => some none
          | s => (parseBound s).map some
        match ri with
        | some ri => if ri == m then .ok else .drift s!"bd.{op} {a} {b} model={showOptBound m} impl={showOptBound ri}"
        | none => .bad "bd result"
      match op with
      | "le" => cmpB (Bound.le a b)
      | "lt" => cmpB (Bound.lt a b)
      | "ge" => cmpB (Bound.ge a b)
      | "gt" => cmpB (Bound.gt a b)
      | "eq" => cmpB (a == b)
      | "min" => cmpO (some (Bound.min a b))
      | "max" => cmpO (some (Bound.max a b))
      | "add" => cmpO (Bound.add a b)
      | "sub" => cmpO (Bound.sub a b)
      | "mul" => cmpO (some (Bound.mul a b))
      | "div" => cmpO (Bound.div a b)
      | _ => .bad s!"bd.{op}"
    | _, _ => .bad s!"bd.{op} parse"
  | _, _ => .bad s!"bd.{op} arity"

end Driver
