import Driver.Common
import CrabModel.Num.WrapInt

/-!
  Handler for component `wi` : `crab::wrapint` (lines produced by `harness/h_wrap.cpp`).

  Every line is evaluated twice:
  * with the model `Crab.WrapInt` (the code as it is, branch by branch), and
  * with `BitVec w` directly — the property's own predicate (C13: fixed-width integers behave
    exactly as arithmetic modulo 2^w).
  A result of the implementation that differs from the `BitVec` semantics is `.unsound` with the
  operands as witness, also when the model agrees with the implementation.  A result equal to the
  `BitVec` semantics but different from the model is `.drift`.  (No input executes an undefined
  C++ shift any more: the `ub` flag of `Ev` is always false; the `*_big` operations, amounts of the
  width or more, are checked like the others.)

  Conventions of the reference: division/remainder by zero has no value (`err` expected:
  the code raises CRAB_ERROR); an illegal width (0, > 64) has no value; conversion from a big
  integer outside int64 is refused with CRAB_ERROR (documented limit of the class,
  `fits_wrapint`): such lines are `.skip`.
-/
namespace Driver
open Crab

namespace WrapH

def b01 (b : Bool) : String := if b then "1" else "0"
def showW : Option WrapInt → String
  | none => "err"
  | some a => toString a.n
def showWW : Option WrapInt → String
  | none => "err"
  | some a => s!"({a.width} {a.n})"
def showB : Option Bool → String
  | none => "err"
  | some b => b01 b
def showZ : Option Int → String
  | none => "err"
  | some z => toString z

/-- model evaluation: (executes undefined behaviour?, result text) -/
structure Ev where
  ub : Bool
  txt : String

def mBin (op : String) (a b : WrapInt) : Option Ev :=
  match op with
  | "add" => some ⟨false, showW (a.add b)⟩
  | "sub" => some ⟨false, showW (a.sub b)⟩
  | "mul" => some ⟨false, showW (a.mul b)⟩
  | "udiv" => some ⟨false, showW (a.udiv b)⟩
  | "urem" => some ⟨false, showW (a.urem b)⟩
  | "sdiv" => some ⟨false, showW (a.sdiv b)⟩
  | "srem" => some ⟨false, showW (a.srem b)⟩
  | "and" => some ⟨false, showW (a.and b)⟩
  | "or" => some ⟨false, showW (a.or b)⟩
  | "xor" => some ⟨false, showW (a.xor b)⟩
  | "addeq" => some ⟨false, showW (a.addAssign b)⟩
  | "subeq" => some ⟨false, showW (a.subAssign b)⟩
  | "muleq" => some ⟨false, showW (a.mulAssign b)⟩
  | "shl" | "shl_big" => some ⟨false, showW (a.shl b)⟩
  | "lshr" | "lshr_big" => some ⟨false, showW (a.lshr b)⟩
  | "ashr" | "ashr_big" => some ⟨false, showW (a.ashr b)⟩
  | "eq" => some ⟨false, showB (a.eq? b)⟩
  | "ne" => some ⟨false, showB (a.ne? b)⟩
  | "lt" => some ⟨false, showB (a.lt? b)⟩
  | "le" => some ⟨false, showB (a.le? b)⟩
  | "gt" => some ⟨false, showB (a.gt? b)⟩
  | "ge" => some ⟨false, showB (a.ge? b)⟩
  | _ => none

def mUn (op : String) (a : WrapInt) : Option Ev :=
  match op with
  | "neg" => some ⟨false, toString a.neg.n⟩
  | "inc" => some ⟨false, toString a.inc.n⟩
  | "dec" => some ⟨false, toString a.dec.n⟩
  | "msb" => some ⟨false, b01 a.msb⟩
  | "iszero" => some ⟨false, b01 a.isZero⟩
  | "tos" | "strs" => some ⟨false, showZ a.toSigned⟩
  | "tou" | "stru" => some ⟨false, toString a.toUnsigned⟩
  | _ => none

/-- `BitVec` shifts with the amount as a number (guarded: never builds 2^amount for huge amounts) -/
def bvShl {w : Nat} (x : BitVec w) (s : Nat) : BitVec w := if s ≥ w then 0 else x <<< s
def bvLshr {w : Nat} (x : BitVec w) (s : Nat) : BitVec w := if s ≥ w then 0 else x >>> s
def bvAshr {w : Nat} (x : BitVec w) (s : Nat) : BitVec w :=
  if s ≥ w then (if x.msb then BitVec.allOnes w else 0) else x.sshiftRight s

/-- reference semantics on `BitVec w` -/
def rBin (op : String) {w : Nat} (x y : BitVec w) : Option String :=
  let v (r : BitVec w) : Option String := some (toString r.toNat)
  match op with
  | "add" | "addeq" => v (x + y)
  | "sub" | "subeq" => v (x - y)
  | "mul" | "muleq" => v (x * y)
  | "udiv" => if y = 0 then some "err" else v (x / y)
  | "urem" => if y = 0 then some "err" else v (x % y)
  | "sdiv" => if y = 0 then some "err" else v (x.sdiv y)
  | "srem" => if y = 0 then some "err" else v (x.srem y)
  | "and" => v (x &&& y)
  | "or" => v (x ||| y)
  | "xor" => v (x ^^^ y)
  | "shl" | "shl_big" => v (bvShl x y.toNat)
  | "lshr" | "lshr_big" => v (bvLshr x y.toNat)
  | "ashr" | "ashr_big" => v (bvAshr x y.toNat)
  | "eq" => some (b01 (x == y))
  | "ne" => some (b01 (x != y))
  | "lt" => some (b01 (x.ult y))
  | "le" => some (b01 (x.ule y))
  | "gt" => some (b01 (y.ult x))
  | "ge" => some (b01 (y.ule x))
  | _ => none

def rUn (op : String) {w : Nat} (x : BitVec w) : Option String :=
  match op with
  | "neg" => some (toString (-x).toNat)
  | "inc" => some (toString (x + 1).toNat)
  | "dec" => some (toString (x - 1).toNat)
  | "msb" => some (b01 x.msb)
  | "iszero" => some (b01 (x == 0))
  | "tos" | "strs" => some (toString x.toInt)
  | "tou" | "stru" => some (toString x.toNat)
  | _ => none

def legal (w : Nat) : Bool := 1 ≤ w && w ≤ 64

def classify (ctx : String) (ub : Bool) (model ref impl : String) : Verdict :=
  if ub then
    if impl == ref then .skip "C++ undefined behaviour (shift by >= 64); compiled code gave the BitVec answer"
    else .unsound s!"[C++ UB] {ctx} impl={impl} bitvec={ref} (the code executes an undefined shift)"
  else if impl != ref then
    .unsound s!"{ctx} impl={impl} bitvec={ref} model={model}"
  else if impl != model then
    .drift s!"{ctx} impl={impl} model={model} (bitvec={ref})"
  else .ok

end WrapH

open WrapH in
def handleWrap (op : String) (args : List Sexp) (res : List Sexp) : Verdict :=
  match res with
  | [r] =>
    let impl := toString r
    let ctx := s!"wi.{op} " ++ " ".intercalate (args.map toString)
    match op, args with
    | "mk", [w, n] =>
      match w.nat?, n.nat? with
      | some w, some n =>
        classify ctx false (showW (WrapInt.mk? n w))
          (if legal w then toString (BitVec.ofNat w n).toNat else "err") impl
      | _, _ => .bad "wi.mk"
    | "ofstr", [w, n] =>
      match w.nat?, n.nat? with
      | some w, some n =>
        classify ctx false (showW (WrapInt.ofStr? n w))
          (if legal w then toString (BitVec.ofNat w n).toNat else "err") impl
      | _, _ => .bad "wi.ofstr"
    | "ofz", [w, z] =>
      match w.nat?, z.int? with
      | some w, some z =>
        if legal w && !(ZNum.fitsInt64 z) then
          -- documented limit of the class (`fits_wrapint`): CRAB_ERROR expected, not a verdict
          if impl == "err" then .skip "ofz: big integer outside int64 is refused (documented limit)"
          else .drift s!"{ctx} impl={impl} model=err (expected CRAB_ERROR outside int64)"
        else
        classify ctx false (showW (WrapInt.ofZ? z w))
          (if legal w && ZNum.fitsInt64 z then toString (BitVec.ofInt w z).toNat else "err") impl
      | _, _ => .bad "wi.ofz"
    | "fits", [w, z] =>
      match w.nat?, z.int? with
      | some w, some z =>
        classify ctx false (b01 (WrapInt.fitsWrapint z w))
          (b01 (decide (w ≤ 64) && decide (-(2:Int)^63 ≤ z) && decide (z < (2:Int)^63))) impl
      | _, _ => .bad "wi.fits"
    | "smax", [w] =>
      match w.nat? with
      | some w => classify ctx false (showW (WrapInt.signedMax? w))
          (if legal w then toString (BitVec.intMax w).toNat else "err") impl
      | _ => .bad "wi.smax"
    | "smin", [w] =>
      match w.nat? with
      | some w => classify ctx false (showW (WrapInt.signedMin? w))
          (if legal w then toString (BitVec.intMin w).toNat else "err") impl
      | _ => .bad "wi.smin"
    | "umax", [w] =>
      match w.nat? with
      | some w => classify ctx false (showW (WrapInt.unsignedMax? w))
          (if legal w then toString (BitVec.allOnes w).toNat else "err") impl
      | _ => .bad "wi.umax"
    | "umin", [w] =>
      match w.nat? with
      | some w => classify ctx false (showW (WrapInt.unsignedMin? w))
          (if legal w then "0" else "err") impl
      | _ => .bad "wi.umin"
    | "sext", [w, a, k] =>
      match w.nat?, a.nat?, k.nat? with
      | some w, some a, some k =>
        match WrapInt.mk? a w with
        | some x =>
          let bx := BitVec.ofNat w a
          classify ctx false (showWW (x.sext k))
            (if w + k ≤ 64 then s!"({w + k} {(bx.signExtend (w + k)).toNat})" else "err") impl
        | none => .bad "wi.sext width"
      | _, _, _ => .bad "wi.sext"
    | "zext", [w, a, k] =>
      match w.nat?, a.nat?, k.nat? with
      | some w, some a, some k =>
        match WrapInt.mk? a w with
        | some x =>
          let bx := BitVec.ofNat w a
          classify ctx false (showWW (x.zext k))
            (if w + k ≤ 64 then s!"({w + k} {(bx.setWidth (w + k)).toNat})" else "err") impl
        | none => .bad "wi.zext width"
      | _, _, _ => .bad "wi.zext"
    | "keeplower", [w, a, k] =>
      match w.nat?, a.nat?, k.nat? with
      | some w, some a, some k =>
        match WrapInt.mk? a w with
        | some x =>
          let bx := BitVec.ofNat w a
          classify ctx false (showWW (x.keepLower k))
            (if k ≥ w then s!"({w} {bx.toNat})" else if k = 0 then "err"
             else s!"({k} {(bx.setWidth k).toNat})") impl
        | none => .bad "wi.keeplower width"
      | _, _, _ => .bad "wi.keeplower"
    | "chain", [w, a, s, .atom op2, b] =>
      match w.nat?, a.nat?, s.nat?, b.nat? with
      | some w, some a, some s, some b =>
        match WrapInt.mk? a w, WrapInt.mk? s w, WrapInt.mk? b w with
        | some x, some sh, some y =>
          let bt := bvAshr (BitVec.ofNat w a) (BitVec.ofNat w s).toNat
          let ref := match rUn op2 bt with
            | some t => some t
            | none => rBin op2 bt (BitVec.ofNat w b)
          match ref with
          | none => .bad s!"wi.chain: unknown op {op2}"
          | some ref =>
            let ub1 := false
            match x.ashr sh with
            | none => classify ctx ub1 "err" ref impl
            | some t =>
              match (match mUn op2 t with | some e => some e | none => mBin op2 t y) with
              | some e => classify ctx (ub1 || e.ub) e.txt ref impl
              | none => .bad s!"wi.chain: unknown op {op2}"
        | _, _, _ => .bad "wi.chain width"
      | _, _, _, _ => .bad "wi.chain"
    | _, [w, a] =>
      match w.nat?, a.nat? with
      | some w, some a =>
        match WrapInt.mk? a w with
        | some x =>
          match mUn op x, rUn op (BitVec.ofNat w a) with
          | some e, some ref => classify ctx e.ub e.txt ref impl
          | _, _ => .bad s!"wi.{op}: unknown op"
        | none => .bad s!"wi.{op} width"
      | _, _ => .bad s!"wi.{op}"
    | _, [w, a, b] =>
      match w.nat?, a.nat?, b.nat? with
      | some w, some a, some b =>
        match WrapInt.mk? a w, WrapInt.mk? b w with
        | some x, some y =>
          match mBin op x y, rBin op (BitVec.ofNat w a) (BitVec.ofNat w b) with
          | some e, some ref => classify ctx e.ub e.txt ref impl
          | _, _ => .bad s!"wi.{op}: unknown op"
        | _, _ => .bad s!"wi.{op} width"
      | _, _, _ => .bad s!"wi.{op}"
    | _, _ => .bad s!"wi.{op}: arity"
  | _ => .bad s!"wi.{op}: result"

end Driver
