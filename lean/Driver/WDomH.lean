import Driver.XDomH
import Driver.WIntH
import CrabModel.Dom.WIntDomain

/-!
  Handler for component `wdom`: exact correspondence between
  `crab::domains::wrapped_interval_domain<z_number, varname_t>` (harness/h_wdom.cpp) and the model
  `Crab.WDom` (CrabModel/Dom/WIntDomain.lean).

  A line is one operation history over a pool of abstract values; the variables `v0..v7` have the
  declared bit-widths of the `(ws ...)` item.  After every operation the harness printed the
  complete value of the target (bottom flag, top flag, every binding `bot | top | (w s e)`, the
  exported constraint system) and the answer of query operations.  The handler

  * replays the history with the model and compares everything, operation by operation (`DRIFT`);
  * independently replays the history on concrete witness states — every variable holds a
    bit-vector of its declared width (kept as its unsigned value) — with the bit-vector meaning of
    the operations (`BitVec`: wrap-around `+ - *`, `sdiv/udiv/srem/urem` with no successor on a zero
    divisor, shifts for amounts below the width, `zext/sext/trunc`) and checks that every witness
    is described by what the implementation printed (`UNSOUND`, with the witness): [C13]/[C03]
    bindings, exported constraints, `at`; [C04] `<=`, `entails`.

  Meaning of a linear constraint (`assume`, `entails`, exported constraints): the one the class
  announces — "cst is always signed", "we interpret wrapint as signed mathematical integers":
  every variable is read as the signed number of its bit-vector and the expression is evaluated
  over the mathematical integers.  Because the class could also be read as evaluating the expression
  with wrap-around, `assume` and `entails` are judged only on witnesses for which both readings agree
  (`cstUnambiguous`: no evaluation order of the expression can overflow at the width of its variables).

  After an UNSOUND step the violating witnesses are dropped and the comparison with the model goes
  on to the end of the history (the verdict of the line is then UNSOUND with the first failure).
-/
namespace Driver
namespace WDomH
open Crab Crab.Lin Crab.XDom Crab.WDom
open XDomH (mkExpr mkCst showCst sortStrings parseArith parseBit vars? showBindings parsePrinted Printed)
open WIntH (parseWInt showWInt)

def NV : Nat := 8
def NPOOL : Nat := 4
def WCAP : Nat := 40

abbrev WState := Array Nat

def tyOf (ws : Array Nat) : Ty := fun v => ws.getD v 0

def showEnv (e : WDom.Env) : String :=
  showBindings e.isBot ((XDom.Env.bindings e).map (fun p => (p.1, showWInt p.2)))

def parseCast : String → Option CastOp
  | "zext" => some .zext | "sext" => some .sext | "trunc" => some .trunc | _ => none

/-- result of one operation in the model: `env = none` = CRAB_ERROR expected -/
structure MStep where
  d : Nat
  env : Option WDom.Env
  q : String := "-"

def sysOf (cs : List Driver.Cst) : Sys := cs.foldl (fun s c => Sys.addCst s (mkCst c)) []

/-- the model run of one operation -/
def modelStep (wd : Ty) (pool : Array WDom.Env) (o : Sexp) : Option MStep :=
  let P := fun (s : Sexp) => pool.getD (s.nat?.getD 0) WDom.Env.top
  let L := wintLattice
  match o with
  | .list [.atom "top", d] => do pure ⟨← d.nat?, some WDom.Env.top, "-"⟩
  | .list [.atom "bot", d] => do pure ⟨← d.nat?, some WDom.Env.bot, "-"⟩
  | .list [.atom "copy", d, s] => do pure ⟨← d.nat?, some (P s), "-"⟩
  | .list [.atom "assign", d, x, e] => do
    pure ⟨← d.nat?, WDom.Env.assign wd (P d) (← varIdx x) (mkExpr (← parseLin e)), "-"⟩
  | .list [.atom "wassign", d, x, e] => do
    pure ⟨← d.nat?, WDom.Env.weakAssign wd (P d) (← varIdx x) (mkExpr (← parseLin e)), "-"⟩
  | .list [.atom "arith", d, .atom op, x, y, z] => do
    let op ← parseArith op; let x ← varIdx x; let y ← varIdx y
    match varIdx z with
    | some z => pure ⟨← d.nat?, WDom.Env.applyVar (P d) op x y z, "-"⟩
    | none => pure ⟨← d.nat?, WDom.Env.applyCst wd (P d) op x y (← z.int?), "-"⟩
  | .list [.atom "bitw", d, .atom op, x, y, z] => do
    let op ← parseBit op; let x ← varIdx x; let y ← varIdx y
    match varIdx z with
    | some z => pure ⟨← d.nat?, WDom.Env.applyBitVar (P d) op x y z, "-"⟩
    | none => pure ⟨← d.nat?, WDom.Env.applyBitCst wd (P d) op x y (← z.int?), "-"⟩
  | .list (.atom "assume" :: d :: cs) => do
    let cs ← cs.mapM parseCst
    pure ⟨← d.nat?, WDom.Env.add wd (P d) (sysOf cs), "-"⟩
  | .list [.atom "forget1", d, x] => do pure ⟨← d.nat?, some (XDom.Env.forget L (P d) (← varIdx x)), "-"⟩
  | .list (.atom "forget" :: d :: xs) => do pure ⟨← d.nat?, some (XDom.Env.forgetAll L (P d) (← vars? xs)), "-"⟩
  | .list (.atom "project" :: d :: xs) => do pure ⟨← d.nat?, some (XDom.Env.project L (P d) (← vars? xs)), "-"⟩
  | .list [.atom "rename", d, .list f, .list t] => do
    pure ⟨← d.nat?, XDom.Env.rename L (P d) (← vars? f) (← vars? t), "-"⟩
  | .list [.atom "expand", d, x, y] => do
    pure ⟨← d.nat?, some (XDom.Env.expand L (P d) (← varIdx x) (← varIdx y)), "-"⟩
  | .list [.atom "join", d, a, b] => do pure ⟨← d.nat?, some (XDom.Env.join L (P a) (P b)), "-"⟩
  | .list [.atom "meet", d, a, b] => do pure ⟨← d.nat?, some (XDom.Env.meet L (P a) (P b)), "-"⟩
  | .list [.atom "widen", d, a, b] => do pure ⟨← d.nat?, some (XDom.Env.widen L (P a) (P b)), "-"⟩
  | .list [.atom "narrow", d, a, b] => do pure ⟨← d.nat?, some (XDom.Env.narrow L (P a) (P b)), "-"⟩
  | .list [.atom "joineq", d, a] => do pure ⟨← d.nat?, some (XDom.Env.join L (P d) (P a)), "-"⟩
  | .list [.atom "meeteq", d, a] => do pure ⟨← d.nat?, some (XDom.Env.meet L (P d) (P a)), "-"⟩
  | .list [.atom "setw", d, x, v] => do
    pure ⟨← d.nat?, some (WDom.Env.setW (P d) (← varIdx x) (← parseWInt v)), "-"⟩
  | .list [.atom "setn", d, x, k] => do
    pure ⟨← d.nat?, WDom.Env.setN wd (P d) (← varIdx x) (← k.int?), "-"⟩
  | .list [.atom "seti", d, x, l, u] => do
    pure ⟨← d.nat?, WDom.Env.setI wd (P d) (← varIdx x) (some (← l.int?)) (some (← u.int?)), "-"⟩
  | .list [.atom "cast", d, .atom c, x, y] => do
    pure ⟨← d.nat?, WDom.Env.cast wd (P d) (← parseCast c) (← varIdx x) (← varIdx y), "-"⟩
  | .list [.atom "entails", d, c] => do
    match WDom.Env.entails wd (P d) (mkCst (← parseCst c)) with
    | some b => pure ⟨← d.nat?, some (P d), if b then "1" else "0"⟩
    | none => pure ⟨← d.nat?, none, "-"⟩
  | .list [.atom "leq", d, a] => do
    pure ⟨← d.nat?, some (P d), if XDom.Env.leq L (P d) (P a) then "1" else "0"⟩
  | .list [.atom "at", d, x] => do
    match WDom.Env.atItv (P d) (← varIdx x) with
    | some i => pure ⟨← d.nat?, some (P d), showItv i⟩
    | none => pure ⟨← d.nat?, none, "-"⟩
  | _ => none

/-! ### concrete side: bit-vector states -/

/-- signed reading of the unsigned value `n` of a `w`-bit vector -/
def sv (w n : Nat) : Int := if w ≥ 1 ∧ n ≥ 2 ^ (w - 1) then (n : Int) - 2 ^ w else n

/-- reduction of a mathematical integer to the unsigned value of a `w`-bit vector -/
def red (w : Nat) (z : Int) : Nat := (z % (2 ^ w : Int)).toNat

def showState (ws : Array Nat) (σ : WState) : String :=
  "[" ++ ", ".intercalate ((List.range NV).map (fun i => s!"v{i}:{ws.getD i 0}={σ.getD i 0}({sv (ws.getD i 0) (σ.getD i 0)})")) ++ "]"

/-- candidate values of width `w`: the candidates of the line and the poles -/
def candsW (cands : Array Int) (w : Nat) : Array Nat :=
  ((cands.toList.map (red w)) ++ [0, 1, 2 ^ w - 1, 2 ^ (w - 1), 2 ^ (w - 1) - 1, 2 ^ (w - 1) + 1, 2 ^ w - 2].map (· % 2 ^ w)).eraseDups.toArray

/-- the candidate values of every variable (computed once per history) -/
def candTable (ws : Array Nat) (cands : Array Int) : Array (Array Nat) :=
  (Array.range NV).map (fun i => candsW cands (ws.getD i 1))

def freshStates (cw : Array (Array Nat)) (g : Gen) (k : Nat) : Gen × List WState := Id.run do
  let mut g := g
  let mut out : List WState := []
  for _ in [0:k] do
    let mut σ : WState := #[]
    for i in [0:NV] do
      let (g', r) := g.next
      g := g'
      let ci := cw.getD i #[0]
      σ := σ.push (ci.getD (r % ci.size) 0)
    out := σ :: out
  return (g, out)

def capW (xs : List WState) : List WState := (xs.eraseDups).take WCAP

def interleaveW : List WState → List WState → List WState
  | [], ys => ys
  | xs, [] => xs
  | x :: xs, y :: ys => x :: y :: interleaveW xs ys

def havoc (cwt : Array (Array Nat)) (g : Gen) (x : Nat) (sts : List WState) : Gen × List WState := Id.run do
  let mut g := g
  let mut out : List WState := []
  let cw := cwt.getD x #[0]
  for σ in sts do
    out := σ :: out
    for _ in [0:2] do
      let (g', r) := g.next
      g := g'
      out := (σ.setIfInBounds x (cw.getD (r % cw.size) 0)) :: out
  return (g, capW out.reverse)

/-- signed mathematical value of a linear expression -/
def linSigned (ws : Array Nat) (l : Driver.Lin) (σ : WState) : Int :=
  l.ts.foldl (fun a (k, v) => a + k * sv (ws.getD v 0) (σ.getD v 0)) l.c

/-- a constraint under the signed mathematical reading -/
def cstSat (ws : Array Nat) (c : Driver.Cst) (σ : WState) : Bool :=
  let v := linSigned ws c.e σ
  match c.k with
  | .le => decide (v ≤ 0) | .lt => decide (v < 0) | .eq => decide (v = 0) | .ne => decide (v ≠ 0)

/-- the expression of the constraint can be evaluated at the width of its variables without overflow in ANY order:
    `|c| + Σ |k·v| < 2^(w-1)`.  Then the mathematical and the wrap-around reading of the constraint coincide, so a
    witness that satisfies it is a state of the collecting semantics under either reading (crab does not say which
    one `assume` means for this domain; only such witnesses are used to judge `assume` and `entails`) -/
def cstUnambiguous (ws : Array Nat) (c : Driver.Cst) (σ : WState) : Bool :=
  let w := (c.e.ts.map (fun (kv : Int × Nat) => ws.getD kv.2 0)).foldl max 0
  let tot : Nat := c.e.ts.foldl (fun a (k, v) => a + (k * sv (ws.getD v 0) (σ.getD v 0)).natAbs) c.e.c.natAbs
  w ≥ 1 && tot < 2 ^ (w - 1)

/-- modular value of a linear expression at width `w` (the reading of the variables is immaterial) -/
def linMod (w : Nat) (l : Driver.Lin) (σ : WState) : Nat :=
  red w (l.ts.foldl (fun a (k, v) => a + k * (σ.getD v 0 : Int)) l.c)

structure HState where
  g : Gen
  pool : Array WDom.Env
  w : Array (List WState)
  uns : Option String := none

/-- a few members of a printed interval read at width `w` -/
def sampleW (w : Nat) (x : WInt) : List Nat := (WIntH.members x w).take 4

/-- concrete run of one operation on the witnesses of the pool -/
def concStep (ws : Array Nat) (cw : Array (Array Nat)) (st : HState) (o : Sexp) : Option (Gen × List WState) :=
  let W := fun (s : Sexp) => st.w.getD (s.nat?.getD 0) []
  let wdt := fun (v : Nat) => ws.getD v 0
  match o with
  | .list [.atom "top", _] => some (freshStates cw st.g WCAP)
  | .list [.atom "bot", _] => some (st.g, [])
  | .list [.atom "copy", _, s] => some (st.g, W s)
  | .list [.atom "assign", d, x, e] => do
    let x ← varIdx x; let e ← parseLin e
    pure (st.g, (W d).map (fun σ => σ.setIfInBounds x (linMod (wdt x) e σ)))
  | .list [.atom "wassign", d, x, e] => do
    let x ← varIdx x; let e ← parseLin e
    pure (st.g, capW (interleaveW (W d) ((W d).map (fun σ => σ.setIfInBounds x (linMod (wdt x) e σ)))))
  | .list (.atom "assume" :: d :: cs) => do
    let cs ← cs.mapM parseCst
    pure (st.g, (W d).filter (fun σ => cs.all (fun c => cstSat ws c σ && cstUnambiguous ws c σ)))
  | .list [.atom "forget1", d, x] => do pure (havoc cw st.g (← varIdx x) (W d))
  | .list (.atom "forget" :: d :: xs) => do
    let xs ← vars? xs
    pure (xs.foldl (fun (g, sts) x => havoc cw g x sts) (st.g, W d))
  | .list (.atom "project" :: d :: xs) => do
    let keep ← vars? xs
    pure ((List.range NV).foldl (fun (g, sts) x => if keep.contains x then (g, sts) else havoc cw g x sts) (st.g, W d))
  | .list [.atom k, d, .atom op, x, y, z] =>
    if k == "arith" || k == "bitw" then do
      let x ← varIdx x; let y ← varIdx y
      let w := wdt x
      let zv : WState → Option Nat := match varIdx z with
        | some zi => fun σ => some (σ.getD zi 0)
        | none => fun _ => z.int?.map (red w)
      pure (st.g, (W d).filterMap (fun σ => do
        let b ← zv σ
        let c ← WIntH.concBin op w (σ.getD y 0) b
        pure (σ.setIfInBounds x c)))
    else none
  | .list [.atom "rename", d, .list f, .list t] => do
    let f ← vars? f; let t ← vars? t
    let e := st.pool.getD (d.nat?.getD 0) WDom.Env.top
    let fresh := fun (y : Nat) => e.isBot || (e.tree.lookup y).isNone
    let okShape := f.length == t.length && f.eraseDups.length == f.length && t.eraseDups.length == t.length
      && t.all (fun y => !f.contains y && fresh y) && (f.zip t).all (fun (x, y) => wdt x == wdt y)
    if okShape then
      let sts := (W d).map (fun σ => (f.zip t).foldl (fun τ (x, y) => τ.setIfInBounds y (σ.getD x 0)) σ)
      pure (f.foldl (fun (g, sts) x => havoc cw g x sts) (st.g, sts))
    else pure (st.g, [])
  | .list [.atom "expand", d, x, y] => do
    let x ← varIdx x; let y ← varIdx y
    if wdt x == wdt y then pure (st.g, (W d).map (fun σ => σ.setIfInBounds y (σ.getD x 0))) else pure (st.g, [])
  | .list [.atom "seti", d, x, l, u] => do
    let x ← varIdx x; let l ← l.int?; let u ← u.int?
    let vals := ([l, u, (l + u) / 2, l + 1].filter (fun k => l ≤ k && k ≤ u)).map (red (wdt x))
    pure (st.g, capW ((W d).flatMap (fun σ => vals.map (fun k => σ.setIfInBounds x k))))
  | .list [.atom k, d, a, b] =>
    if k == "join" || k == "widen" then some (st.g, capW (interleaveW (W a) (W b)))
    else if k == "meet" || k == "narrow" then some (st.g, (W a).filter (fun σ => (W b).contains σ))
    else if k == "setw" then do
      let x ← varIdx a
      let i ← parseWInt b
      let vals := sampleW (wdt x) i
      pure (st.g, capW ((W d).flatMap (fun σ => vals.map (fun k => σ.setIfInBounds x k))))
    else if k == "setn" then do
      let x ← varIdx a
      let n ← b.int?
      pure (st.g, (W d).map (fun σ => σ.setIfInBounds x (red (wdt x) n)))
    else none
  | .list [.atom "joineq", d, a] => some (st.g, capW (interleaveW (W d) (W a)))
  | .list [.atom "meeteq", d, a] => some (st.g, (W d).filter (fun σ => (W a).contains σ))
  | .list [.atom "cast", d, .atom c, x, y] => do
    let x ← varIdx x; let y ← varIdx y
    let wx := wdt x; let wy := wdt y
    match c with
    | "zext" => if wx < wy then pure (st.g, []) else pure (st.g, (W d).map (fun σ => σ.setIfInBounds x (σ.getD y 0)))
    | "sext" => if wx < wy then pure (st.g, []) else pure (st.g, (W d).map (fun σ => σ.setIfInBounds x (red wx (sv wy (σ.getD y 0)))))
    | "trunc" => if wy < wx then pure (st.g, []) else pure (st.g, (W d).map (fun σ => σ.setIfInBounds x (σ.getD y 0 % 2 ^ wx)))
    | _ => none
  | .list [.atom "entails", d, _] => some (st.g, W d)
  | .list [.atom "leq", d, _] => some (st.g, W d)
  | .list [.atom "at", d, _] => some (st.g, W d)
  | _ => none

/-- is the state described by the printed bindings? (first violated fact) -/
def violates (ws : Array Nat) (bot : Bool) (m : List (Nat × WInt)) (σ : WState) : Option String :=
  if bot then some "is_bottom" else
  (m.find? (fun (v, c) => !WIntH.contains c (ws.getD v 0) (σ.getD v 0))).map (fun (v, c) => s!"v{v} -> {showWInt c}")

def violatesEnv (ws : Array Nat) (e : WDom.Env) (σ : WState) : Option String :=
  violates ws e.isBot (XDom.Env.bindings e) σ

/-- one history -/
def handleHist (ws : Array Nat) (ops res : List Sexp) : Verdict :=
  let wd := tyOf ws
  let req := Sexp.list ops
  let cands := candidates req
  let seed := (intsOf req).foldl (fun a k => (a * 31 + k.natAbs) % 2 ^ 61) (ops.length + 7)
  let cw := candTable ws cands
  let (g0, init) := freshStates cw ⟨seed⟩ WCAP
  let st0 : HState := { g := g0, pool := Array.replicate NPOOL WDom.Env.top, w := Array.replicate NPOOL init }
  let fail (st : HState) (m : String) : Verdict :=
    match st.uns with
    | some u => .unsound (u ++ " || later in the same history, DRIFT " ++ m)
    | none => .drift m
  let step (acc : Except Verdict (HState × Bool)) (i : Nat) : Except Verdict (HState × Bool) := do
    let (st, stopped) ← acc
    if stopped then return (st, true)
    let o := ops.getD i (.atom "?")
    let ctx := s!"wdom.hist ws={ws.toList} op#{i} {o}"
    let some r := res[i]? | throw (fail st s!"{ctx}: no result printed (history stopped early)")
    let some ms := modelStep wd st.pool o | throw (.bad s!"{ctx}: unparsable op")
    match r, ms.env with
    | .list [.atom "err"], none => return (st, true)
    | .list [.atom "err"], some e => throw (fail st s!"{ctx}: CRAB_ERROR raised, model gives {showEnv e}")
    | _, none => throw (fail st s!"{ctx}: model expects CRAB_ERROR, implementation printed {r}")
    | _, some e =>
      let some p := parsePrinted r | throw (.bad s!"{ctx}: unparsable result {r}")
      let some pm := p.m.mapM (fun (v, s) => (parseWInt s).map (fun c => (v, c))) | throw (.bad s!"{ctx}: unparsable value in {r}")
      let pre := st.pool.getD ms.d WDom.Env.top
      let printedStr := showBindings p.bot (p.m.map (fun (v, s) => (v, toString s)))
      let some (g, wd0) := concStep ws cw st o | throw (.bad s!"{ctx}: no concrete semantics")
      let mut uns := st.uns
      let note (u : Option String) (m : String) : Option String := match u with | some x => some x | none => some m
      -- bindings against witnesses
      match wd0.findSome? (fun σ => (violates ws p.bot pm σ).map (fun f => (σ, f))) with
      | some (σ, f) =>
        uns := note uns s!"[C13] {ctx}: before {showEnv pre}; witness state {showState ws σ} of the collecting semantics violates {f} of the printed result {printedStr}"
      | none => pure ()
      let wd1 := wd0.filter (fun σ => (violates ws p.bot pm σ).isNone)
      -- exported constraints against witnesses (signed reading)
      match p.cs.mapM parseCst with
      | some cs =>
        match wd1.findSome? (fun σ => (cs.find? (fun c => !cstSat ws c σ)).map (fun _ => σ)) with
        | some σ => uns := note uns s!"[C13] {ctx}: witness state {showState ws σ} violates the exported constraints {p.cs}"
        | none => pure ()
      | none => throw (.bad s!"{ctx}: unparsable exported constraint in {r}")
      -- query answers against witnesses
      match o with
      | .list [.atom "entails", _, c] =>
        if toString p.q == "1" then
          match parseCst c with
          | some c =>
            match wd1.find? (fun σ => !cstSat ws c σ && cstUnambiguous ws c σ) with
            | some σ => uns := note uns s!"[C04] {ctx}: entails answered yes on {showEnv pre} but witness {showState ws σ} violates the constraint (signed reading)"
            | none => pure ()
          | none => pure ()
      | .list [.atom "leq", _, a] =>
        if toString p.q == "1" then
          let ea := st.pool.getD (a.nat?.getD 0) WDom.Env.top
          match wd1.findSome? (fun σ => (violatesEnv ws ea σ).map (fun f => (σ, f))) with
          | some (σ, f) => uns := note uns s!"[C04] {ctx}: {showEnv pre} <= {showEnv ea} answered yes but witness {showState ws σ} violates {f}"
          | none => pure ()
      | .list [.atom "at", _, x] =>
        match parseItv p.q, varIdx x with
        | some iv, some x =>
          match wd1.find? (fun σ => !iv.contains (sv (ws.getD x 0) (σ.getD x 0))) with
          | some σ => uns := note uns s!"[C13] {ctx}: at(v{x}) = {showItv iv} on {showEnv pre} excludes the witness {showState ws σ}"
          | none => pure ()
        | _, _ => throw (.bad s!"{ctx}: unparsable interval {p.q}")
      | _ => pure ()
      let st' : HState := { st with uns := uns }
      -- exact comparison with the model
      let mm := (XDom.Env.bindings e).map (fun q => (q.1, showWInt q.2))
      if p.bot != e.isBot then throw (fail st' s!"{ctx}: before {showEnv pre}; is_bottom={p.bot}, model {showEnv e}")
      if p.m.map (fun (v, s) => (v, toString s)) != mm then
        throw (fail st' s!"{ctx}: before {showEnv pre}; printed {printedStr}, model {showEnv e}")
      if p.top != XDom.Env.isTop e then throw (fail st' s!"{ctx}: is_top={p.top}, model {XDom.Env.isTop e} on {showEnv e}")
      match WDom.Env.toCsts e with
      | some sys =>
        let mcs := sortStrings (sys.map showCst)
        if sortStrings (p.cs.map toString) != mcs then
          throw (fail st' s!"{ctx}: to_linear_constraint_system printed {p.cs}, model {mcs}")
      | none => throw (fail st' s!"{ctx}: to_linear_constraint_system printed {p.cs}, model expects CRAB_ERROR")
      if toString p.q != ms.q then throw (fail st' s!"{ctx}: before {showEnv pre}; query answered {p.q}, model {ms.q}")
      return ({ g := g, pool := st.pool.setIfInBounds ms.d e, w := st.w.setIfInBounds ms.d wd1, uns := uns }, false)
  match (List.range ops.length).foldl step (.ok (st0, false)) with
  | .error v => v
  | .ok (st, _) => match st.uns with | some u => .unsound u | none => .ok

def handleWDom (op : String) (args res : List Sexp) : Verdict :=
  match op, args with
  | "hist", [.list (.atom "ws" :: ws), .list (.atom "ops" :: ops)] =>
    match ws.mapM Sexp.nat? with
    | some ws => if ws.all (fun w => 1 ≤ w && w ≤ 64) then handleHist ws.toArray ops res else .skip "wdom.hist: width outside 1..64"
    | none => .bad "wdom.hist: widths"
  | _, _ => .bad s!"wdom.{op}"

end WDomH

def handleWDom := WDomH.handleWDom

end Driver
