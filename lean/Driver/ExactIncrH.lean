import Driver.ExactH
import CrabModel.Dom.DbmIncr

/-!
  Additional check of `exact.hist` lines of the split-dbm variants (property C12, harness
  `h_exact`): the INCREMENTAL model (`CrabModel/Dom/DbmIncr.lean`: `add_linear_leq`,
  `repair_potential`, `close_over_edge`, `close_after_assign` as coded) is run next to the canonical
  one.  Theorems: `CrabProofs/Props/C12Incr.lean`.

  Per pool value the handler tracks the stored graph + potential of the model
  (`Option (SG n)`, `none` = bottom) as long as the value was produced from top by `assume`,
  `copy` and `top` only (joins, meets, forgets and assignments go through code that is not
  modelled here: the value becomes untracked, counted in the skip reason).  After every `assume`
  on a tracked value it compares with the real code

  * `is_bottom()` with the model's bottom (`repair_potential` failing);
  * the `at(v)` intervals (the const accessor: the two stored bound edges `v → 0`, `0 → v`, no
    normalisation) with the model's stored bound edges, EXACTLY;

  any difference is `.drift` (the canonical comparison of `ExactH.lean` decides soundness /
  precision).  `zones.close_bounds_inline` is taken from the request (`params`, 4th flag).
-/
namespace Driver
namespace ExactIncr
open Crab Crab.Dbm Crab.Zones Crab.DbmIncr Exact

/-- pool entry: `none` = untracked, `some none` = bottom, `some (some s)` = graph and potential -/
abbrev PV (n : Nat) := Option (Option (SG n))

def showB (b : Bound) : String :=
  match b with | .fin k => toString k | .pinf => "+oo" | .ninf => "-oo"

/-- tabulate the potential function (extensionally the same function): the model keeps `pot` as a closure, and
    every step wraps the previous one, so evaluating it un-tabulated costs time exponential in the history -/
def freeze {n : Nat} (v : Option (SG n)) : Option (SG n) :=
  v.map fun s =>
    let a : Array Int := Array.ofFn (n := n + 1) s.pot
    { s with pot := fun i => a.getD i.val 0 }

def assumeAllI {n : Nat} (inl : Bool) (v : Option (SG n)) (cs : List PCst) : Option (Option (SG n)) :=
  cs.foldl (fun acc c => acc.bind fun a =>
    match (zoneCst (n := n) c) with
    | some k => some (freeze (addStep inl (List.finRange (n + 1)) a k))
    | none => none) (some v)

def run (n : Nat) (inl : Bool) (dom : String) (ops res : List Sexp) : Verdict := Id.run do
  let nops := ops.length
  if res.length != nops + 1 then return .bad s!"exact.hist(incr): {res.length} results for {nops} ops"
  let mut pool : Array (PV n) := Array.replicate 3 (some (some SG.top))
  let mut compared : Nat := 0
  for i in [0:nops] do
    let o := ops.getD i (.atom "?")
    let r := res.getD i (.atom "?")
    let ctx := s!"[C12][incr] exact.hist {dom} op#{i} {o}"
    let (d, v) : Nat × PV n :=
      match o with
      | .list [.atom "assume", d, c] =>
        match d.nat?, parsePCst c with
        | some d, some cs =>
          match pool.getD d none with
          | some cur => (d, assumeAllI inl cur cs)
          | none => (d, none)
        | _, _ => (0, none)
      | .list [.atom "copy", d, s] =>
        match d.nat?, s.nat? with
        | some d, some s => (d, pool.getD s none)
        | _, _ => (0, none)
      | .list [.atom "top", d] => (d.nat?.getD 0, some (some SG.top))
      | .list (.atom _ :: d :: _) => (d.nat?.getD 0, none)
      | _ => (0, none)
    pool := pool.setIfInBounds d v
    match v, r with
    | some mv, .list [.atom "s", _, ib, .list (.atom "at" :: ats), _, _] =>
      let some ib := parseBool ib | return .bad s!"{ctx}: result parse (is_bottom)"
      compared := compared + 1
      match mv with
      | none =>
        if !ib then return .drift s!"{ctx}: incremental model is bottom (repair_potential fails), code is not"
      | some s =>
        if ib then return .drift s!"{ctx}: code is bottom, incremental model is not"
        for hx : x in [0:n] do
          let xf : Fin n := ⟨x, hx.2.1⟩
          let M : Crab.Itv := ⟨toLb (edge s.g xf.succ 0), toUb (edge s.g 0 xf.succ)⟩
          match ats.getD x (.atom "?") |> parseItv with
          | some A =>
            if !(A.lb == M.lb && A.ub == M.ub) then
              return .drift s!"{ctx}: stored bounds of v{x}: code at() = [{showB A.lb}, {showB A.ub}], incremental model [{showB M.lb}, {showB M.ub}]"
          | none => return .bad s!"{ctx}: result parse (at)"
    | _, _ => pure ()
  if compared == 0 then return .skip "exact.hist(incr): no step on a value built by assume/copy/top only"
  return .ok

end ExactIncr

/-- the incremental check of an `exact.hist` line (to be run IN ADDITION to `handleExact`) -/
def handleExactIncr (op : String) (args res : List Sexp) : Verdict :=
  match op, args with
  | "hist", [.atom dom, .atom kind, .list (.atom "params" :: ps), .list [.atom "nv", nv], .list [.atom "norm", _],
             .list [.atom "inplace", _], .list [.atom "qseed", _], .list (.atom "qk" :: _), .list (.atom "ops" :: ops)] =>
    if !(dom.startsWith "split-dbm" && kind == "zone") then .skip "exact.hist(incr): not a split-dbm line" else
    match res with
    | [.atom "err"] => .skip s!"exact.hist {dom}: CRAB_ERROR raised during the history"
    | [.atom "abort"] => .skip s!"exact.hist {dom}: abort (reported by the canonical check)"
    | _ =>
      match nv.nat?, (ps.getD 3 (.atom "0")).nat? with
      | some nv, some zcb =>
        -- the model keeps its work tables (dists, heap, potential) as closures: on 6-7 variables a single pathological
        -- line costs tens of seconds in the driver; the incremental comparison is run on lines with at most 5 variables
        if nv > 5 then .skip "exact.hist(incr): more than 5 variables (canonical check only)"
        else ExactIncr.run nv (zcb != 0) dom ops res
      | _, _ => .bad "exact.hist(incr) header"
  | _, _ => .bad s!"exact.{op}"

/-- canonical check first; when it has no finding, the incremental check may add a `.drift` -/
def handleExactBoth (op : String) (args res : List Sexp) : Verdict :=
  match handleExact op args res with
  | .ok =>
    match handleExactIncr op args res with
    | .drift m => .drift m
    | .bad m => .bad m
    | _ => .ok
  | .skip m =>
    match handleExactIncr op args res with
    | .drift m' => .drift m'
    | .bad m' => .bad m'
    | _ => .skip m
  | v => v

end Driver
