import Driver.ItvH
import CrabModel.Scalar.Congruence

/-!
  Handler for component `cg` : `ikos::congruence<z_number>`.
  Operands are expressions over the public API (the `(a,b)` constructor is private):
    E ::= top | bot | dflt | (c n) | (neg E) | (<binop> E E)
  Lines:  (cg.<binop> E1 E2) => V1 V2 R      (cg.<unop> E1) => V1 R
          (cg.leq E1 E2) => V1 V2 0|1|err    `experr` : an operand expression raised CRAB_ERROR
  with V, R ::= bot | (cg a b) | err.
  The handler (1) re-evaluates the operand expressions with the model and compares them with
  the values the implementation built, (2) recomputes the operation on the implementation's
  operand values, (3) ALWAYS tests the implementation's answer against the concrete
  operation on sampled members of the operands (C08), also when model and code agree.
-/
namespace Driver
open Crab

def parseCong : Sexp → Option Cong
  | .atom "bot" => some Cong.bot
  | .list [.atom "cg", a, b] => do
      let a ← a.int?; let b ← b.int?; pure ⟨false, a, b⟩
  | .list [.atom "botx", a, b] => do
      let a ← a.int?; let b ← b.int?; pure ⟨true, a, b⟩
  | _ => none

def parseCongOrErr : Sexp → Option (Option Cong)
  | .atom "err" => some none
  | s => (parseCong s).map some

def showCong (c : Cong) : String :=
  if c.isBot then (if c.a == 1 && c.b == 0 then "bot" else s!"(botx {c.a} {c.b})") else s!"(cg {c.a} {c.b})"
def showOptCong : Option Cong → String
  | none => "err"
  | some c => showCong c

/-- shift amounts the model (and the concrete semantics) are evaluated for -/
def shiftOk (o : Cong) : Bool := o.isBot || (o.a.natAbs ≤ 4096 && o.b.natAbs ≤ 4096)

/-- model of the binary operations; outer `none` = unknown operation, inner `none` = CRAB_ERROR -/
def congBin (op : String) (x o : Cong) : Option (Option Cong) :=
  match op with
  | "join" => some (some (Cong.join x o))
  | "meet" => some (some (Cong.meet x o))
  | "widen" => some (some (Cong.widen x o))
  | "narrow" => some (some (Cong.narrow x o))
  | "add" => some (some (Cong.add x o))
  | "sub" => some (some (Cong.sub x o))
  | "mul" => some (some (Cong.mul x o))
  | "div" => some (some (Cong.div x o))
  | "sdiv" => some (some (Cong.div x o))
  | "srem" => some (some (Cong.srem x o))
  | "rem" => some (some (Cong.srem x o))
  | "udiv" => some (some (Cong.udiv x o))
  | "urem" => some (some (Cong.urem x o))
  | "and" => some (some (Cong.and x o))
  | "or" => some (some (Cong.or x o))
  | "xor" => some (some (Cong.xor x o))
  | "shl" => some (some (Cong.shl x o))
  | "ashr" => some (some (Cong.ashr x o))
  | "lshr" => some (some (Cong.lshr x o))
  | _ => none

def isShift (op : String) : Bool := op == "shl" || op == "ashr" || op == "lshr"

/-- model evaluation of an operand expression (`none` = CRAB_ERROR or outside the grammar) -/
partial def evalCongExpr : Sexp → Option Cong
  | .atom "top" => some Cong.top
  | .atom "bot" => some Cong.bot
  | .atom "dflt" => some Cong.top
  | .list [.atom "c", n] => n.int?.map Cong.ofInt
  | .list [.atom "neg", e] => (evalCongExpr e).map Cong.neg
  | .list [.atom op, e1, e2] =>
    match evalCongExpr e1, evalCongExpr e2 with
    | some x, some o =>
      if isShift op && !shiftOk o then none
      else match congBin op x o with
        | some r => r
        | none => none
    | _, _ => none
  | _ => none

/-- the expression contains a shift whose amount the driver refuses to evaluate -/
partial def exprHasBigShift : Sexp → Bool
  | .list [.atom op, e1, e2] =>
    exprHasBigShift e1 || exprHasBigShift e2 ||
    (isShift op && (match evalCongExpr e2 with | some o => !shiftOk o | none => false))
  | .list [.atom "neg", e] => exprHasBigShift e
  | _ => false

/-- concrete members of `aZ+b`: a window around the residue, plus far members -/
def congSamples (c : Cong) : List Int :=
  if c.isBot then []
  else if c.a = 0 then [c.b]
  else
    let near : List Int := (List.range 17).map (fun (i : Nat) => c.b + c.a * ((i : Int) - 8))
    let r0 := Int.emod c.b c.a
    let far : List Int := [r0, r0 - c.a, r0 + c.a, c.b + c.a * 1000003, c.b - c.a * 1000003,
                           c.b + c.a * (2 ^ 64 + 1), c.b - c.a * (2 ^ 64 + 1)]
    ((near.mergeSort (fun p q => p.natAbs ≤ q.natAbs)) ++ far).eraseDups

def findUnsoundCong (op : String) (x y r : Cong) : Option String :=
  let xs := congSamples x
  let ys := congSamples y
  let rec goY (a : Int) : List Int → Option String
    | [] => none
    | b :: bs =>
      match concBin op a b with
      | some c => if r.contains c then goY a bs
                  else some s!"witness a={a} b={b} conc={c} not-in {showCong r}"
      | none => goY a bs
  let rec goX : List Int → Option String
    | [] => none
    | a :: as => match goY a ys with
      | some w => some w
      | none => goX as
  match op with
  | "join" | "widen" =>
    (xs ++ ys).findSome? (fun a => if r.contains a then none else some s!"witness a={a} in operand not-in {showCong r}")
  | "meet" | "narrow" =>
    (xs ++ ys).findSome? (fun a => if x.contains a && y.contains a && !r.contains a
                                   then some s!"witness a={a} in both not-in {showCong r}" else none)
  | "sdiv" => goX' "div" xs ys r
  | "rem" => goX' "srem" xs ys r
  | _ => goX xs
where
  goX' (op : String) (xs ys : List Int) (r : Cong) : Option String :=
    xs.findSome? (fun a => ys.findSome? (fun b =>
      match concBin op a b with
      | some c => if r.contains c then none else some s!"witness a={a} b={b} conc={c} not-in {showCong r}"
      | none => none))

def congEq (a b : Cong) : Bool := a.isBot == b.isBot && a.a == b.a && a.b == b.b
def optCongEq : Option Cong → Option Cong → Bool
  | some a, some b => congEq a b
  | none, none => true
  | _, _ => false

/-- operand expressions re-evaluated by the model must give the values the code built -/
def checkOperand (e : Sexp) (v : Cong) : Option String :=
  if exprHasBigShift e then none
  else match evalCongExpr e with
    | some m => if congEq m v then none else some s!"operand {e} model={showCong m} impl={showCong v}"
    | none => some s!"operand {e} model=err impl={showCong v}"

def handleCong (op : String) (args : List Sexp) (res : List Sexp) : Verdict :=
  match args, res with
  | _, [.atom "experr"] =>
    -- an operand expression raised CRAB_ERROR in the code: the model must do the same
    if args.any exprHasBigShift then .skip "cg: shift amount outside the evaluated range"
    else if args.all (fun e => (evalCongExpr e).isSome) then .drift s!"cg.{op}: operand expression raised CRAB_ERROR, the model does not: {args}"
    else .ok
  | [e1], [v1, r] =>
    match parseCong v1 with
    | none => .bad s!"cg.{op}: operand value"
    | some x =>
      match checkOperand e1 x with
      | some d => .drift s!"cg.{op} {d}"
      | none =>
        match op with
        | "val" => .ok
        | "neg" =>
          match parseCongOrErr r with
          | some (some ri) =>
            let m := Cong.neg x
            match (congSamples x).find? (fun k => !ri.contains (-k)) with
            | some k => .unsound s!"cg.neg {showCong x} impl={showCong ri} model={showCong m} witness a={k}"
            | none => if congEq m ri then .ok else .drift s!"cg.neg {showCong x} model={showCong m} impl={showCong ri}"
          | some none => .unsound s!"CRAB_ERROR raised by cg.neg {showCong x}"
          | none => .bad "cg.neg result"
        | "isbot" =>
          match parseBool r with
          | some rb => if x.isBottom == rb then .ok else .drift s!"cg.isbot {showCong x} impl={rb}"
          | none => .bad "cg.isbot"
        | "istop" =>
          match parseBool r with
          | some rb => if x.isTop == rb then .ok else .drift s!"cg.istop {showCong x} impl={rb}"
          | none => .bad "cg.istop"
        | "singleton" =>
          let m := match x.singleton? with | some k => toString k | none => "none"
          if some m == r.atom? then .ok else .drift s!"cg.singleton {showCong x} model={m} impl={r}"
        | _ => .bad s!"cg.{op}: unknown unary op"
  | [e1, e2], [v1, v2, r] =>
    match parseCong v1, parseCong v2 with
    | some x, some o =>
      -- a difference on an operand expression is reported only if the operation itself is fine
      let opnd : Verdict := match (checkOperand e1 x).orElse (fun _ => checkOperand e2 o) with
        | some d => .drift s!"cg.{op} {d}"
        | none => .ok
      (
        match op with
        | "leq" =>
          let m := Cong.leq x o
          let ri : Option (Option Bool) := match r with
            | .atom "err" => some none
            | s => (parseBool s).map some
          match ri with
          | none => .bad "cg.leq result"
          | some none =>
            .unsound s!"CRAB_ERROR raised by cg.leq {showCong x} {showCong o} (model={m})"
          | some (some rb) =>
            let ctx := s!"cg.leq {showCong x} {showCong o} model={m} impl={rb}"
            if rb then
              match (congSamples x).find? (fun k => !o.contains k) with
              | some k => .unsound (ctx ++ s!" witness {k} in left not in right")
              | none => if m == rb then opnd else .drift ctx
            else if x.isBot || congEq x o then .unsound (ctx ++ " (must answer yes: bottom/equal operands)")
            else if m == rb then opnd else .drift ctx
        | "eq" =>
          match parseBool r with
          | some rb => if Cong.beq x o == rb then opnd else .drift s!"cg.eq {showCong x} {showCong o} impl={rb}"
          | none => .bad "cg.eq result"
        | _ =>
          if isShift op && !shiftOk o then .skip "cg: shift amount outside the evaluated range"
          else
          match congBin op x o, parseCongOrErr r with
          | some m, some ri =>
            let ctx := s!"cg.{op} {showCong x} {showCong o} model={showOptCong m} impl={showOptCong ri}"
            match ri with
            | none => .unsound ("CRAB_ERROR raised by " ++ ctx)
            | some rv =>
              match findUnsoundCong op x o rv with
              | some w => .unsound (ctx ++ " " ++ w)
              | none => if optCongEq m ri then opnd else .drift ctx
          | none, _ => .bad s!"cg.{op}: unknown op"
          | _, none => .bad s!"cg.{op}: result")
    | _, _ => .bad s!"cg.{op}: operand values"
  | _, _ => .bad s!"cg.{op}: arity"

end Driver
