import Driver.DomH
import CrabModel.Dom.IntervalDomain

/-!
  Handler for component `idom`: exact correspondence between `ikos::interval_domain<z_number>`
  (harness/h_idom.cpp) and the model `Crab.IDom` (CrabModel/Dom/IntervalDomain.lean).

  A line is one operation history over a pool of abstract values.  After every operation the
  harness printed the complete value of the target (bottom flag, top flag, every binding, the
  exported constraint system) and the answer of query operations; the handler replays the history
  with the model and compares everything, operation by operation (`DRIFT` on any difference).
  Independently it replays the history on concrete witness states with the concrete semantics of
  the operations and checks that every witness is described by the value the implementation
  printed (`UNSOUND` otherwise: [C03] transformers, [C04] `<=`, `entails`).
-/
namespace Driver
namespace IDomH
open Crab Crab.IDom Crab.Lin

def NV : Nat := 8
def NPOOL : Nat := 4
def WCAP : Nat := 40

/-- the expression the harness builds: `e = e + linear_expression(k, v)` for every term
    (a term with a zero coefficient is never stored) -/
def mkExpr (l : Driver.Lin) : Expr :=
  l.ts.foldl (fun acc (k, v) => Expr.add acc (if k = 0 then Expr.zero else ⟨[(v, k)], 0⟩)) (Expr.const l.c)

def mkKind : CKind → Kind
  | .le => .leq | .lt => .lt | .eq => .eq | .ne => .neq

def mkCst (c : Driver.Cst) : Lin.Cst := ⟨mkExpr c.e, mkKind c.k⟩

def showExpr (e : Expr) : String :=
  "(lin " ++ toString e.cst ++ String.join (e.terms.map (fun (v, k) => s!" ({k} v{v})")) ++ ")"

def showCst (c : Lin.Cst) : String :=
  let k := match c.kind with | .leq => "le" | .lt => "lt" | .eq => "eq" | .neq => "ne"
  s!"({k} {showExpr c.expr})"

def showEnv (e : Env) : String :=
  if e.bottom then "_|_" else
  "{" ++ "; ".intercalate (e.m.map (fun (v, i) => s!"v{v} -> [{i.lb}, {i.ub}]")) ++ "}"

/-- insertion sort of strings (small lists) -/
def sortStrings (xs : List String) : List String :=
  xs.foldl (fun acc s =>
    let (a, b) := acc.span (fun t => t < s)
    a ++ s :: b) []

def parseArith : String → Option ArithOp
  | "add" => some .add | "sub" => some .sub | "mul" => some .mul | "sdiv" => some .sdiv
  | "udiv" => some .udiv | "srem" => some .srem | "urem" => some .urem | _ => none

def parseBit : String → Option BitOp
  | "and" => some .and | "or" => some .or | "xor" => some .xor | "shl" => some .shl
  | "lshr" => some .lshr | "ashr" => some .ashr | _ => none

/-- result of one operation in the model: `none` = CRAB_ERROR expected -/
structure MStep where
  d : Nat
  env : Option Env
  q : String := "-"

def vars? (xs : List Sexp) : Option (List Nat) := xs.mapM varIdx

/-- the model run of one operation -/
def modelStep (pool : Array Env) (o : Sexp) : Option MStep :=
  let P := fun (s : Sexp) => pool.getD (s.nat?.getD 0) Env.top
  match o with
  | .list [.atom "top", d] => do pure ⟨← d.nat?, some Env.top, "-"⟩
  | .list [.atom "bot", d] => do pure ⟨← d.nat?, some Env.bot, "-"⟩
  | .list [.atom "copy", d, s] => do pure ⟨← d.nat?, some (P s), "-"⟩
  | .list [.atom "assign", d, x, e] => do
    pure ⟨← d.nat?, some ((P d).assign (← varIdx x) (mkExpr (← parseLin e))), "-"⟩
  | .list [.atom "wassign", d, x, e] => do
    pure ⟨← d.nat?, some ((P d).weakAssign (← varIdx x) (mkExpr (← parseLin e))), "-"⟩
  | .list [.atom "arith", d, .atom op, x, y, z] => do
    let op ← parseArith op; let x ← varIdx x; let y ← varIdx y
    match varIdx z with
    | some z => pure ⟨← d.nat?, some ((P d).applyVar op x y z), "-"⟩
    | none => pure ⟨← d.nat?, some ((P d).applyCst op x y (← z.int?)), "-"⟩
  | .list [.atom "bitw", d, .atom op, x, y, z] => do
    let op ← parseBit op; let x ← varIdx x; let y ← varIdx y
    match varIdx z with
    | some z => pure ⟨← d.nat?, some ((P d).applyBitVar op x y z), "-"⟩
    | none => pure ⟨← d.nat?, some ((P d).applyBitCst op x y (← z.int?)), "-"⟩
  | .list (.atom "assume" :: d :: cs) => do
    let cs ← cs.mapM parseCst
    -- `sys += cst` for every constraint (syntactic duplicates are dropped)
    let sys := cs.foldl (fun s c => Sys.addCst s (mkCst c)) []
    pure ⟨← d.nat?, some ((P d).add sys), "-"⟩
  | .list [.atom "forget1", d, x] => do pure ⟨← d.nat?, some ((P d).forget (← varIdx x)), "-"⟩
  | .list (.atom "forget" :: d :: xs) => do pure ⟨← d.nat?, some ((P d).forgetAll (← vars? xs)), "-"⟩
  | .list (.atom "project" :: d :: xs) => do pure ⟨← d.nat?, some ((P d).project (← vars? xs)), "-"⟩
  | .list [.atom "rename", d, .list f, .list t] => do
    pure ⟨← d.nat?, (P d).rename (← vars? f) (← vars? t), "-"⟩
  | .list [.atom "expand", d, x, y] => do pure ⟨← d.nat?, some ((P d).expand (← varIdx x) (← varIdx y)), "-"⟩
  | .list [.atom "join", d, a, b] => do pure ⟨← d.nat?, some (Env.join (P a) (P b)), "-"⟩
  | .list [.atom "meet", d, a, b] => do pure ⟨← d.nat?, some (Env.meet (P a) (P b)), "-"⟩
  | .list [.atom "widen", d, a, b] => do pure ⟨← d.nat?, some (Env.widen (P a) (P b)), "-"⟩
  | .list [.atom "narrow", d, a, b] => do pure ⟨← d.nat?, some (Env.narrow (P a) (P b)), "-"⟩
  | .list [.atom "joineq", d, a] => do pure ⟨← d.nat?, some (Env.join (P d) (P a)), "-"⟩
  | .list [.atom "meeteq", d, a] => do pure ⟨← d.nat?, some (Env.meet (P d) (P a)), "-"⟩
  | .list [.atom "widenth", d, a, b, .list (.atom "ts" :: ks)] => do
    let ks ← ks.mapM Sexp.int?
    let ts := ks.foldl (fun ts k => Thresholds.add ts 4294967295 k) Thresholds.init
    pure ⟨← d.nat?, some (Env.widenTh ts (P a) (P b)), "-"⟩
  | .list [.atom "select", d, x, c, e1, e2] => do
    pure ⟨← d.nat?, some ((P d).select (← varIdx x) (mkCst (← parseCst c)) (mkExpr (← parseLin e1)) (mkExpr (← parseLin e2))), "-"⟩
  | .list [.atom "set", d, x, i] => do pure ⟨← d.nat?, some ((P d).set (← varIdx x) (← parseItv i)), "-"⟩
  | .list [.atom "cast", d, .atom c, x, y] => do
    pure ⟨← d.nat?, some ((P d).intCast (c == "zext") 32 (← varIdx x) (← varIdx y)), "-"⟩
  | .list [.atom "entails", d, c] => do
    let b := (P d).entails (mkCst (← parseCst c))
    pure ⟨← d.nat?, some (P d), if b then "1" else "0"⟩
  | .list [.atom "leq", d, a] => do
    pure ⟨← d.nat?, some (P d), if Env.leq (P d) (P a) then "1" else "0"⟩
  | .list [.atom "at", d, x] => do
    pure ⟨← d.nat?, some (P d), showItv ((P d).get (← varIdx x))⟩
  | _ => none

/-- what the harness printed for one op -/
structure Printed where
  bot : Bool
  top : Bool
  m : List (Nat × Itv)
  cs : List String
  q : String

def parsePrinted : Sexp → Option Printed
  | .list [.atom "s", b, t, .list (.atom "b" :: bs), .list (.atom "cs" :: cs), q] => do
    let b ← parseBool b; let t ← parseBool t
    let bs ← bs.mapM (fun x => match x with
      | .list [v, l, u] => do pure ((← varIdx v), (⟨← parseBound l, ← parseBound u⟩ : Itv))
      | _ => none)
    pure ⟨b, t, bs, cs.map toString, toString q⟩
  | _ => none

/-! ### concrete side -/

def freshStates (cands : Array Int) (g : Gen) (k : Nat) : Gen × List CState := Id.run do
  let mut g := g
  let mut out : List CState := []
  for _ in [0:k] do
    let mut σ : CState := #[]
    for _ in [0:NV] do
      let (g', r) := g.next
      g := g'
      σ := σ.push (cands.getD (r % cands.size) 0)
    out := σ :: out
  return (g, out)

def capW (xs : List CState) : List CState := (xs.eraseDups).take WCAP

def havoc (cands : Array Int) (g : Gen) (x : Nat) (ws : List CState) : Gen × List CState := Id.run do
  let mut g := g
  let mut out : List CState := []
  for σ in ws do
    out := σ :: out
    for _ in [0:2] do
      let (g', r) := g.next
      g := g'
      out := (σ.setIfInBounds x (cands.getD (r % cands.size) 0)) :: out
  return (g, capW out.reverse)

def arithConc : String → String
  | "sdiv" => "div"
  | s => s

/-- is the state described by the environment? (first violated fact) -/
def violates (e : Env) (σ : CState) : Option String :=
  if e.bottom then some "is_bottom" else
  (e.m.find? (fun (v, i) => !i.contains (σ.getD v 0))).map (fun (v, i) => s!"v{v} -> {showItv i}")

structure HState where
  g : Gen
  pool : Array Env
  w : Array (List CState)

/-- concrete run of one operation on the witnesses of the pool (the environment of the target
    before the operation is given for the operations whose concrete meaning needs a
    precondition) -/
def concStep (cands : Array Int) (st : HState) (o : Sexp) : Option (Gen × List CState) :=
  let W := fun (s : Sexp) => st.w.getD (s.nat?.getD 0) []
  let E := fun (s : Sexp) => st.pool.getD (s.nat?.getD 0) Env.top
  match o with
  | .list [.atom "top", _] => some (freshStates cands st.g WCAP)
  | .list [.atom "bot", _] => some (st.g, [])
  | .list [.atom "copy", _, s] => some (st.g, W s)
  | .list [.atom "assign", d, x, e] => do
    let x ← varIdx x; let e ← parseLin e
    pure (st.g, (W d).map (fun σ => σ.setIfInBounds x (e.eval σ)))
  | .list [.atom "wassign", d, x, e] => do
    let x ← varIdx x; let e ← parseLin e
    pure (st.g, capW (interleave (W d) ((W d).map (fun σ => σ.setIfInBounds x (e.eval σ)))))
  | .list (.atom "assume" :: d :: cs) => do
    let cs ← cs.mapM parseCst
    pure (st.g, (W d).filter (fun σ => cs.all (·.sat σ)))
  | .list [.atom "forget1", d, x] => do pure (havoc cands st.g (← varIdx x) (W d))
  | .list (.atom "forget" :: d :: xs) => do
    let xs ← vars? xs
    pure (xs.foldl (fun (g, ws) x => havoc cands g x ws) (st.g, W d))
  | .list (.atom "project" :: d :: xs) => do
    let keep ← vars? xs
    pure ((List.range NV).foldl (fun (g, ws) x => if keep.contains x then (g, ws) else havoc cands g x ws) (st.g, W d))
  | .list [.atom k, d, .atom op, x, y, z] =>
    if k == "arith" || k == "bitw" then do
      let x ← varIdx x; let y ← varIdx y
      let zv : CState → Option Int := match varIdx z with
        | some zi => fun σ => some (σ.getD zi 0)
        | none => fun _ => z.int?
      pure (st.g, (W d).filterMap (fun σ => do
        let b ← zv σ
        let c ← concBin (arithConc op) (σ.getD y 0) b
        pure (σ.setIfInBounds x c)))
    else none   -- `select` (also six items) is handled by `concSelect`
  | .list [.atom "rename", d, .list f, .list t] => do
    let f ← vars? f; let t ← vars? t
    let e := E d
    -- meaningful only for distinct sources and distinct, fresh (unconstrained, not a source) targets
    let okShape := f.length == t.length && f.eraseDups.length == f.length && t.eraseDups.length == t.length
      && t.all (fun y => !f.contains y && (e.bottom || (e.m.find y).isNone))
    if okShape then
      let ws := (W d).map (fun σ => (f.zip t).foldl (fun τ (x, y) => τ.setIfInBounds y (σ.getD x 0)) σ)
      pure (f.foldl (fun (g, ws) x => havoc cands g x ws) (st.g, ws))
    else pure (st.g, [])
  | .list [.atom "expand", d, x, y] => do
    let x ← varIdx x; let y ← varIdx y
    pure (st.g, (W d).map (fun σ => σ.setIfInBounds y (σ.getD x 0)))
  | .list [.atom k, d, a, b] =>
    if k == "join" || k == "widen" then some (st.g, capW (interleave (W a) (W b)))
    else if k == "meet" || k == "narrow" then some (st.g, (W a).filter (fun σ => (W b).contains σ))
    else if k == "set" then do
      -- (set d x itv)
      let x ← varIdx a; let i ← parseItv b
      let vals := (itvSamples i).take 3
      pure (st.g, capW ((W d).flatMap (fun σ => vals.map (fun k => σ.setIfInBounds x k))))
    else none
  | .list [.atom "joineq", d, a] => some (st.g, capW (interleave (W d) (W a)))
  | .list [.atom "meeteq", d, a] => some (st.g, (W d).filter (fun σ => (W a).contains σ))
  | .list [.atom "widenth", _, a, b, _] => some (st.g, capW (interleave (W a) (W b)))
  | .list [.atom "cast", d, .atom c, x, y] => do
    let x ← varIdx x; let y ← varIdx y
    let ws := (W d).map (fun σ => σ.setIfInBounds x (σ.getD y 0))
    pure (st.g, if c == "zext" then ws.filter (fun σ => σ.getD x 0 ≤ 2 ^ 32 - 1) else ws)
  | .list [.atom "entails", d, _] => some (st.g, W d)
  | .list [.atom "leq", d, _] => some (st.g, W d)
  | .list [.atom "at", d, _] => some (st.g, W d)
  | _ => none

/-- `select` has six items and is handled apart -/
def concSelect (st : HState) (o : Sexp) : Option (Gen × List CState) :=
  match o with
  | .list [.atom "select", d, x, c, e1, e2] => do
    let x ← varIdx x; let c ← parseCst c; let e1 ← parseLin e1; let e2 ← parseLin e2
    pure (st.g, (st.w.getD (d.nat?.getD 0) []).map (fun σ => σ.setIfInBounds x (if c.sat σ then e1.eval σ else e2.eval σ)))
  | _ => none

def handleIDom (op : String) (args res : List Sexp) : Verdict :=
  match op, args with
  | "hist", [.list (.atom "ops" :: ops)] =>
    let req := Sexp.list ops
    let cands := candidates req
    let seed := (intsOf req).foldl (fun a k => (a * 31 + k.natAbs) % 2 ^ 61) (ops.length + 7)
    let (g0, init) := freshStates cands ⟨seed⟩ WCAP
    let st0 : HState := { g := g0, pool := Array.replicate NPOOL Env.top, w := Array.replicate NPOOL init }
    let nops := ops.length
    let step (acc : Except Verdict (HState × Bool)) (i : Nat) : Except Verdict (HState × Bool) := do
      let (st, stopped) ← acc
      if stopped then return (st, true)
      let o := ops.getD i (.atom "?")
      let ctx := s!"idom.hist op#{i} {o}"
      let some r := res[i]? | throw (.drift s!"{ctx}: no result printed (history stopped early)")
      let some ms := modelStep st.pool o | throw (.bad s!"{ctx}: unparsable op")
      match r, ms.env with
      | .list [.atom "err"], none => return (st, true)
      | .list [.atom "err"], some e => throw (.drift s!"{ctx}: CRAB_ERROR raised, model gives {showEnv e}")
      | _, none => throw (.drift s!"{ctx}: model expects CRAB_ERROR, implementation printed {r}")
      | _, some e =>
        let some p := parsePrinted r | throw (.bad s!"{ctx}: unparsable result {r}")
        let pre := st.pool.getD ms.d Env.top
        -- concrete side first: a drift that is also a soundness violation is reported as such
        let some (g, wd) := (match concSelect st o with | some x => some x | none => concStep cands st o)
          | throw (.bad s!"{ctx}: no concrete semantics")
        let implEnv : Env := ⟨p.bot, p.m⟩
        match wd.findSome? (fun σ => (violates implEnv σ).map (fun f => (σ, f))) with
        | some (σ, f) =>
          throw (.unsound s!"[C03] {ctx}: before {showEnv pre}; witness state {showState σ} of the collecting semantics violates {f} of the printed result {showEnv implEnv}")
        | none => pure ()
        -- query answers against witnesses
        match o with
        | .list [.atom "entails", _, c] =>
          if p.q == "1" then
            match parseCst c with
            | some c =>
              match wd.find? (fun σ => !c.sat σ) with
              | some σ => throw (.unsound s!"[C04] {ctx}: entails answered yes on {showEnv pre} but witness {showState σ} violates the constraint")
              | none => pure ()
            | none => pure ()
        | .list [.atom "leq", _, a] =>
          if p.q == "1" then
            let ea := st.pool.getD (a.nat?.getD 0) Env.top
            match wd.findSome? (fun σ => (violates ea σ).map (fun f => (σ, f))) with
            | some (σ, f) => throw (.unsound s!"[C04] {ctx}: {showEnv pre} <= {showEnv ea} answered yes but witness {showState σ} violates {f}")
            | none => pure ()
        | _ => pure ()
        -- exact comparison with the model
        if p.bot != e.bottom then throw (.drift s!"{ctx}: before {showEnv pre}; is_bottom={p.bot}, model {showEnv e}")
        if p.m != e.m then throw (.drift s!"{ctx}: before {showEnv pre}; printed {showEnv implEnv}, model {showEnv e}")
        if p.top != e.isTop then throw (.drift s!"{ctx}: is_top={p.top}, model {e.isTop} on {showEnv e}")
        let mcs := sortStrings (e.toCsts.map showCst)
        if sortStrings p.cs != mcs then throw (.drift s!"{ctx}: to_linear_constraint_system printed {p.cs}, model {mcs}")
        if p.q != ms.q then throw (.drift s!"{ctx}: before {showEnv pre}; query answered {p.q}, model {ms.q}")
        return ({ g := g, pool := st.pool.setIfInBounds ms.d e, w := st.w.setIfInBounds ms.d wd }, false)
    match (List.range nops).foldl step (.ok (st0, false)) with
    | .error v => v
    | .ok _ => .ok
  | _, _ => .bad s!"idom.{op}"

end IDomH

def handleIDom := IDomH.handleIDom

end Driver
