import Driver.Common
import CrabModel.Lin.Term

/-!
  Handler for component `lin`: `ikos::linear_expression`, `linear_constraint`,
  `linear_constraint_system` over `z_number`.  A request is a construction history
  (`Crab.Lin.Term` / `CTerm`, see `harness/h_lin.cpp`); the handler
   1. replays the history with the model operators and compares the canonical text, and
   2. whatever the outcome of 1, evaluates the property on the implementation's answer:
      the printed expression must take the value the history denotes under every valuation
      of a fixed family (plus valuations aimed at the boundary of the answer), the printed
      constraint must hold exactly where the history's meaning holds (so a negated constraint is
      false exactly where the original is true), the tautology / contradiction answers must be
      exact for constant constraints, a normalised system must have the solutions of its input.
-/
namespace Driver
namespace LinDrv
open Crab Crab.Lin

/-! ### parsing -/

def parseVarAtom (s : String) : Option Var :=
  if s.startsWith "v" then (s.drop 1).toString.toNat? else none

def parseVarIdx : Sexp → Option Var
  | .atom s => s.toNat?
  | _ => none

def parseMap : Sexp → Option (List (Var × Var))
  | .list xs => xs.mapM (fun p => match p with
      | .list [a, b] => do let a ← parseVarIdx a; let b ← parseVarIdx b; pure (a, b)
      | _ => none)
  | _ => none

partial def parseTerm : Sexp → Option Term
  | .list [.atom "n", k] => k.int?.map .num
  | .list [.atom "v", i] => (parseVarIdx i).map .var
  | .list [.atom "t", k, i] => do let k ← k.int?; let i ← parseVarIdx i; pure (.term k i)
  | .list [.atom "add", a, b] => do let a ← parseTerm a; let b ← parseTerm b; pure (.add a b)
  | .list [.atom "sub", a, b] => do let a ← parseTerm a; let b ← parseTerm b; pure (.sub a b)
  | .list [.atom "neg", a] => (parseTerm a).map .neg
  | .list [.atom "mul", k, a] => do let k ← k.int?; let a ← parseTerm a; pure (.scale k a)
  | .list [.atom "lmul", k, a] => do let k ← k.int?; let a ← parseTerm a; pure (.scale k a)
  | .list [.atom "addn", a, k] => do let a ← parseTerm a; let k ← k.int?; pure (.addn a k)
  | .list [.atom "subn", a, k] => do let a ← parseTerm a; let k ← k.int?; pure (.subn a k)
  | .list [.atom "addv", a, i] => do let a ← parseTerm a; let i ← parseVarIdx i; pure (.addv a i)
  | .list [.atom "subv", a, i] => do let a ← parseTerm a; let i ← parseVarIdx i; pure (.subv a i)
  | .list [.atom "nadd", k, a] => do let k ← k.int?; let a ← parseTerm a; pure (.nadd k a)
  | .list [.atom "nsub", k, a] => do let k ← k.int?; let a ← parseTerm a; pure (.nsub k a)
  | .list [.atom "vadd", i, a] => do let i ← parseVarIdx i; let a ← parseTerm a; pure (.vadd i a)
  | .list [.atom "vsub", i, a] => do let i ← parseVarIdx i; let a ← parseTerm a; pure (.vsub i a)
  | .list [.atom "ren", a, m] => do let a ← parseTerm a; let m ← parseMap m; pure (.ren a m)
  | _ => none

def parseKind : Sexp → Option Kind
  | .atom "eq" => some .eq
  | .atom "neq" => some .neq
  | .atom "leq" => some .leq
  | .atom "lt" => some .lt
  | _ => none

def parseRel : Sexp → Option Rel
  | .atom "le" => some .le
  | .atom "lt" => some .lt
  | .atom "ge" => some .ge
  | .atom "gt" => some .gt
  | .atom "eq" => some .eq
  | .atom "ne" => some .ne
  | _ => none

partial def parseCTerm : Sexp → Option CTerm
  | .list [.atom "mk", k, t] => do let k ← parseKind k; let t ← parseTerm t; pure (.mk k t)
  | .list [.atom "rel", op, a, b] => do
      let op ← parseRel op; let a ← parseTerm a; let b ← parseTerm b; pure (.rel op a b)
  | .list [.atom "negate", c] => (parseCTerm c).map .negate
  | .list [.atom "s2ns", c] => (parseCTerm c).map .s2ns
  | .list [.atom "renc", c, m] => do let c ← parseCTerm c; let m ← parseMap m; pure (.ren c m)
  | _ => none

def parseCTerms : Sexp → Option (List CTerm)
  | .list xs => xs.mapM parseCTerm
  | _ => none

/-- printed expression `(e (c) (k vi) ...)` -/
def parseExpr : Sexp → Option Expr
  | .list (.atom "e" :: .list [c] :: ts) => do
      let c ← c.int?
      let ts ← ts.mapM (fun p => match p with
        | .list [k, .atom v] => do let k ← k.int?; let v ← parseVarAtom v; pure (v, k)
        | _ => none)
      pure ⟨ts, c⟩
  | _ => none

def parseCst : Sexp → Option Cst
  | .list [.atom "cst", k, e] => do let k ← parseKind k; let e ← parseExpr e; pure ⟨e, k⟩
  | _ => none

def parseSys : Sexp → Option Sys
  | .list (.atom "sys" :: cs) => cs.mapM parseCst
  | _ => none

def showExpr (e : Expr) : String :=
  "(e (" ++ toString e.cst ++ ")" ++ String.join (e.terms.map (fun p => s!" ({p.2} v{p.1})")) ++ ")"

def showKind : Kind → String
  | .eq => "eq" | .neq => "neq" | .leq => "leq" | .lt => "lt"

def showCst (c : Cst) : String := s!"(cst {showKind c.kind} {showExpr c.expr})"

def showSys (s : Sys) : String := "(sys" ++ String.join (s.map (fun c => " " ++ showCst c)) ++ ")"

/-! ### valuations -/

def nVars : Nat := 6

def valOf (xs : List Int) : Var → Int := fun v => xs.getD v 0

def updVal (σ : Var → Int) (x : Var) (k : Int) : Var → Int := fun v => if v = x then k else σ v

/-- pseudo-random small valuations (fixed: the driver is a function of the line only) -/
def lcgVals : List (List Int) :=
  let step (s : Nat) : Nat := (s * 6364136223846793005 + 1442695040888963407) % 2 ^ 64
  let rec go (n : Nat) (s : Nat) (acc : List (List Int)) : List (List Int) :=
    match n with
    | 0 => acc
    | n + 1 =>
      let rec row (k : Nat) (s : Nat) (r : List Int) : List Int × Nat :=
        match k with
        | 0 => (r, s)
        | k + 1 => let s' := step s; row k s' ((Int.ofNat ((s' / 2 ^ 33) % 9) - 4) :: r)
      let (r, s') := row nVars s []
      go n s' (r :: acc)
  go 24 88172645463325252 []

def baseVals : List (List Int) :=
  [[0, 0, 0, 0, 0, 0], [1, 1, 1, 1, 1, 1], [-1, -1, -1, -1, -1, -1],
   [1, 0, 0, 0, 0, 0], [0, 1, 0, 0, 0, 0], [0, 0, 1, 0, 0, 0],
   [0, 0, 0, 1, 0, 0], [0, 0, 0, 0, 1, 0], [0, 0, 0, 0, 0, 1],
   [1, -2, 3, -4, 5, -6], [2, 0, -1, 3, -3, 1], [7, -5, 2, -1, 0, 4],
   [100, -37, 12, -1000, 3, 2 ^ 40], [-3, -2, -1, 1, 2, 3],
   [2 ^ 63, -(2 ^ 63), 2 ^ 31, -(2 ^ 31) - 1, 2 ^ 64 + 1, -1]] ++ lcgVals

def vals : List (Var → Int) := baseVals.map valOf

/-- valuations on which `e` takes the values -1, 0, 1, 2 (through a variable of coefficient ±1),
    starting from a few base valuations: the boundary of every constraint on `e` -/
def aimedVals (e : Expr) : List (Var → Int) :=
  match e.terms.find? (fun p => p.2 == 1 || p.2 == -1) with
  | none => []
  | some (x, c) =>
    (baseVals.take 14).foldl (fun acc xs =>
      let σ := valOf xs
      let v := e.eval σ
      acc ++ ([-1, 0, 1, 2] : List Int).map (fun t => updVal σ x (σ x + (t - v) * c))) []

def satB (c : Cst) (σ : Var → Int) : Bool := decide (c.sat σ)
def sysSatB (s : Sys) (σ : Var → Int) : Bool := decide (Sys.sat s σ)

def showVal (σ : Var → Int) : String :=
  "[" ++ ", ".intercalate ((List.range nVars).map (fun v => s!"v{v}={σ v}")) ++ "]"

/-! ### canonical form of an answer -/

def sortedB (e : Expr) : Bool := decide e.Sorted
def hasZero (e : Expr) : Bool := e.terms.any (fun p => p.2 == 0)

/-- `some msg` when the printed expression is not in canonical form -/
def canonIssue (e : Expr) : Option String :=
  if !sortedB e then some "entries not strictly increasing by variable"
  else if hasZero e then some "zero-coefficient entry kept in the map (linear_expression(Number 0, variable) / 0 * x)"
  else none

/-- a linear function is constant iff it takes the same value at 0 and at the unit vectors -/
def semConstantT (t : Term) : Bool :=
  let z := t.den (valOf [])
  (List.range nVars).all (fun i => t.den (updVal (valOf []) i 1) == z)

def semConstantE (e : Expr) : Bool :=
  let z := e.eval (valOf [])
  e.variables.all (fun i => e.eval (updVal (valOf []) i 1) == z)

/-! ### handler -/

def firstSome {α : Type} (xs : List α) (f : α → Option String) : Option String := xs.findSome? f

def handle (op : String) (args res : List Sexp) : Verdict :=
  match op, args, res with
  | "expr", [t], [r] =>
    match parseTerm t, parseExpr r with
    | some t, some r =>
      let m := t.interp
      let ctx := s!"lin.expr impl={showExpr r} model={showExpr m}"
      -- property: value under valuations
      match firstSome vals (fun σ =>
          if r.eval σ == t.den σ then none
          else some s!"value {r.eval σ} instead of {t.den σ} at {showVal σ}") with
      | some w => .unsound (ctx ++ " " ++ w)
      | none =>
        match canonIssue r with
        | some w => .unsound (ctx ++ " non-canonical: " ++ w)
        | none => if m == r then .ok else .drift ctx
    | _, _ => .bad "lin.expr"
  | "coef", [t, i], [r] =>
    match parseTerm t, parseVarIdx i, r.int? with
    | some t, some i, some r =>
      let m := t.interp.coeff i
      let sem := t.den (updVal (valOf []) i 1) - t.den (valOf [])
      if r != sem then .unsound s!"lin.coef v{i} impl={r} model={m}: the history denotes coefficient {sem}"
      else if m == r then .ok else .drift s!"lin.coef v{i} impl={r} model={m}"
    | _, _, _ => .bad "lin.coef"
  | "isconst", [t], [r] =>
    match parseTerm t, parseBool r with
    | some t, some rb =>
      let m := t.interp.isConstant
      let sem := semConstantT t
      if rb && !sem then .unsound s!"lin.isconst impl=1 model={m}: the history depends on a variable"
      else if !rb && sem then
        .unsound s!"lin.isconst impl=0 model={m}: the expression is constant (zero-coefficient entry kept in the map)"
      else if m == rb then .ok else .drift s!"lin.isconst impl={rb} model={m}"
    | _, _ => .bad "lin.isconst"
  | "equal", [a, b], [r] =>
    match parseTerm a, parseTerm b, parseBool r with
    | some a, some b, some rb =>
      let m := a.interp.equal b.interp
      let same := vals.all (fun σ => a.den σ == b.den σ)
      if rb && !same then .unsound s!"lin.equal impl=1 model={m}: the two histories differ at some valuation"
      else if !rb && same then
        .unsound s!"lin.equal impl=0 model={m}: equal linear functions with different representations (non-canonical: zero-coefficient entry)"
      else if m == rb then .ok else .drift s!"lin.equal impl={rb} model={m}"
    | _, _, _ => .bad "lin.equal"
  | "cst", [c], [r] =>
    match parseCTerm c with
    | none => .bad "lin.cst request"
    | some c =>
      match r with
      | .atom "notstrict" => if c.interp.isNone then .skip "s2ns on a non-strict constraint" else .drift "lin.cst impl=notstrict model=some"
      | _ =>
        match parseCst r with
        | none => .bad "lin.cst result"
        | some r =>
          let m := c.interp
          let ctx := s!"lin.cst impl={showCst r} model={match m with | some x => showCst x | none => "notstrict"}"
          match firstSome (vals ++ aimedVals r.expr) (fun σ =>
              if satB r σ == c.denB σ then none
              else some s!"answer is {satB r σ} but the history means {c.denB σ} at {showVal σ}") with
          | some w => .unsound (ctx ++ " " ++ w)
          | none =>
            match canonIssue r.expr with
            | some w => .unsound (ctx ++ " non-canonical: " ++ w)
            | none => if m == some r then .ok else .drift ctx
  | "taut", [c], [r] =>
    match parseCTerm c, parseBool r with
    | some c, some rb =>
      match c.interp with
      | none => .skip "s2ns on a non-strict constraint"
      | some mc =>
        let m := mc.isTautology
        let ctx := s!"lin.taut {showCst mc} impl={rb} model={m}"
        let all := (vals ++ aimedVals mc.expr).all (fun σ => c.denB σ)
        if rb && !all then .unsound (ctx ++ " answered yes but the constraint fails at some valuation")
        else if !rb && semConstantE mc.expr && all then
          .unsound (ctx ++ " constant constraint that always holds answered no" ++
            (if mc.expr.isConstant then "" else " (zero-coefficient entry kept in the map)"))
        else if m == rb then .ok else .drift ctx
    | _, _ => .bad "lin.taut"
  | "contra", [c], [r] =>
    match parseCTerm c, parseBool r with
    | some c, some rb =>
      match c.interp with
      | none => .skip "s2ns on a non-strict constraint"
      | some mc =>
        let m := mc.isContradiction
        let ctx := s!"lin.contra {showCst mc} impl={rb} model={m}"
        let anyv := (vals ++ aimedVals mc.expr).any (fun σ => c.denB σ)
        if rb && anyv then .unsound (ctx ++ " answered yes but the constraint holds at some valuation")
        else if !rb && semConstantE mc.expr && !anyv then
          .unsound (ctx ++ " constant constraint that never holds answered no" ++
            (if mc.expr.isConstant then "" else " (zero-coefficient entry kept in the map)"))
        else if m == rb then .ok else .drift ctx
    | _, _ => .bad "lin.contra"
  | "isfalse", [cs], [r] =>
    match parseCTerms cs, parseBool r with
    | some cs, some rb =>
      match cs.mapM CTerm.interp with
      | none => .skip "s2ns on a non-strict constraint"
      | some ms =>
        let s := ms.foldl Sys.addCst []
        let m := Sys.isFalse s
        if rb && vals.any (fun σ => cs.all (fun c => c.denB σ)) then
          .unsound s!"lin.isfalse impl=1 model={m}: the system has a solution"
        else if m == rb then .ok else .drift s!"lin.isfalse impl={rb} model={m}"
    | _, _ => .bad "lin.isfalse"
  | _, _, [r] =>
    -- sys / union / norm : systems
    let inputs : Option (List CTerm × Option Sys) :=
      match op, args with
      | "sys", [cs] => do
          let cs ← parseCTerms cs
          pure (cs, (cs.mapM CTerm.interp).map (fun ms => ms.foldl Sys.addCst []))
      | "norm", [cs] => do
          let cs ← parseCTerms cs
          pure (cs, (cs.mapM CTerm.interp).map (fun ms => Sys.normalize (ms.foldl Sys.addCst [])))
      | "union", [a, b] => do
          let a ← parseCTerms a; let b ← parseCTerms b
          pure (a ++ b, do
            let ma ← a.mapM CTerm.interp; let mb ← b.mapM CTerm.interp
            pure (Sys.union (ma.foldl Sys.addCst []) (mb.foldl Sys.addCst [])))
      | _, _ => none
    match inputs, parseSys r with
    | some (cs, m), some r =>
      match m with
      | none => .skip "s2ns on a non-strict constraint"
      | some m =>
        let ctx := s!"lin.{op} impl={showSys r} model={showSys m}"
        let extra := r.foldl (fun acc c => acc ++ (aimedVals c.expr).take 16) []
        match firstSome (vals ++ extra) (fun σ =>
            let want := cs.all (fun c => c.denB σ)
            if sysSatB r σ == want then none
            else some s!"answer is {sysSatB r σ} but the input system is {want} at {showVal σ}") with
        | some w => .unsound (ctx ++ " " ++ w)
        | none =>
          match r.findSome? (fun c => canonIssue c.expr) with
          | some w => .unsound (ctx ++ " non-canonical: " ++ w)
          | none => if m == r then .ok else .drift ctx
    | _, _ => .bad s!"lin.{op}"
  | _, _, _ => .bad s!"lin.{op}: arity"

end LinDrv

/-- handler of component `lin` -/
def handleLin (op : String) (args res : List Sexp) : Verdict := LinDrv.handle op args res

end Driver
