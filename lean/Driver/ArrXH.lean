import Driver.ArrH
import CrabModel.Dom.ArraySmashItv

/-!
  Handler for component `arr` with the EXACT correspondence for `array_smashing<interval_domain>`
  (h_arr variant -DVDOM=1, "smash-intervals").

  `handleArrX` first runs the witness replay of `handleArr` (property C14 on the implementation's
  answers).  When that is ok / skip and the domain is smash-intervals it re-computes the history
  with the exact model `Crab.Dom.SmashItv` (CrabModel/Dom/ArraySmashItv.lean: the functor
  transcribed over the exact model `IDom.Env` of the interval domain) and compares after EVERY
  operation, on the value the operation wrote:
    * `is_bottom()`,
    * `at(v)` of the four integer variables (the exported constraints of the interval domain are
      exactly these intervals),
    * when the harness was compiled with -DXDUMP (optional extra items `(x d <itv a0.smashed>
      <itv a1.smashed>)` after each `(s ...)`): the intervals of the two summary variables.
  Any difference is `.drift` with the operation, the variable and both values.
  Other domains pass through `handleArr` unchanged (extra items are dropped first).
-/
namespace Driver
open Crab Crab.Dom Crab.Dom.SmashItv

namespace ArrXImpl

def toSLin (l : Driver.Lin) : SLin := ⟨l.c, l.ts⟩

def toKind : CKind → Crab.Lin.Kind
  | .le => .leq | .lt => .lt | .eq => .eq | .ne => .neq

def toXCst (c : Driver.Cst) : XCst := ⟨toKind c.k, toSLin c.e⟩

/-- the temporary `t<a>` of a load from an array whose elements do not have the width of the
    integer variables (h_arr.cpp `eval`, "aload") -/
def tmpVar (a : Nat) : Nat := ArrImpl.ANVARS + a

/-- the model operations of one request operation -/
def translate (e0 e1 : Nat) (o : Sexp) : Option (List XOp) :=
  let esz := fun (a : Nat) => if a == 0 then e0 else e1
  match o with
  | .list [.atom "top", d] => do pure [.top (← d.nat?)]
  | .list [.atom "copy", d, s] => do pure [.copy (← d.nat?) (← s.nat?)]
  | .list [.atom "join", d, a, b] => do pure [.join (← d.nat?) (← a.nat?) (← b.nat?)]
  | .list [.atom "widen", d, a, b] => do pure [.widen (← d.nat?) (← a.nat?) (← b.nat?)]
  | .list [.atom "meet", d, a, b] => do pure [.meet (← d.nat?) (← a.nat?) (← b.nat?)]
  | .list [.atom "assign", d, x, e] => do pure [.assign (← d.nat?) (← varIdx x) (toSLin (← parseLin e))]
  | .list (.atom "assume" :: d :: cs) => do
    let cs ← cs.mapM parseCst
    pure [.assume (← d.nat?) (cs.map toXCst)]
  | .list [.atom "forget", d, x] => do pure [.forget (← d.nat?) (← varIdx x)]
  | .list [.atom "range", d, x, lo, hi] => do
    -- `pool[d] -= x; sys += (x >= lo); sys += (x <= hi); pool[d] += sys` with
    -- `e >= n` = `n - e <= 0` and `e <= n` = `e - n <= 0`
    let d ← d.nat?; let x ← varIdx x; let lo ← lo.int?; let hi ← hi.int?
    pure [.forget d x, .assume d [⟨.leq, ⟨lo, [(-1, x)]⟩⟩, ⟨.leq, ⟨-hi, [(1, x)]⟩⟩]]
  | .list [.atom "ainit", d, a, lb, ub, v] => do
    pure [.aInit (← d.nat?) (← ArrImpl.arrIdx a) (toSLin (← parseLin lb)) (toSLin (← parseLin ub)) (toSLin (← parseLin v))]
  | .list [.atom "astore", d, a, ix, v, flag] => do
    pure [.aStore (← d.nat?) (← ArrImpl.arrIdx a) (toSLin (← parseLin ix)) (toSLin (← parseLin v)) ((← flag.nat?) != 0)]
  | .list [.atom "arange", d, a, lb, ub, v] => do
    pure [.aStoreRange (← d.nat?) (← ArrImpl.arrIdx a) (toSLin (← parseLin lb)) (toSLin (← parseLin ub)) (toSLin (← parseLin v))]
  | .list (.atom k :: d :: x :: a :: ix :: _) =>
    if k == "aload" || k == "lcheck" then do
      let d ← d.nat?; let x ← varIdx x; let a ← ArrImpl.arrIdx a; let ix := toSLin (← parseLin ix)
      if esz a == esz 0 then pure [.aLoad d x a ix]
      else
        let t := tmpVar a
        pure [.aLoad d t a ix, .assign d x ⟨0, [(1, t)]⟩, .forget d t]
    else none
  | .list [.atom "aassign", d, x, y] => do pure [.aAssign (← d.nat?) (← ArrImpl.arrIdx x) (← ArrImpl.arrIdx y)]
  | _ => none

/-- an optional extra item of the dump -/
def isExtra : Sexp → Bool
  | .list (.atom "x" :: _) => true
  | _ => false

/-- split the result items into the `(s ...)` items and, per operation, the extra item that follows -/
def splitRes : List Sexp → List (Sexp × Option Sexp)
  | [] => []
  | s :: x :: rest => if isExtra x then (s, some x) :: splitRes rest else (s, none) :: splitRes (x :: rest)
  | [s] => [(s, none)]

def showSt (st : St) : String :=
  let b := if st.base.bottom then "_|_" else
    "{" ++ "; ".intercalate (st.base.m.map (fun (v, i) =>
      let nm := match v % 3 with
        | 0 => s!"v{v / 3}" | 1 => s!"a{v / 3}.smashed" | _ => s!"a{v / 3}.smashed.copy"
      s!"{nm} -> {showItv i}")) ++ "}"
  let z := if st.sizes.bottom then "_|_" else toString st.sizes.m
  s!"base={b} sizes={z}"

def compareHist (e0 e1 : Nat) (ops : List Sexp) (res : List (Sexp × Option Sexp)) : Verdict :=
  let esz := fun (a : Nat) => if a == 0 then e0 else e1
  let step (acc : Except Verdict (Array St)) (i : Nat) : Except Verdict (Array St) := do
    let pool ← acc
    let o := ops.getD i (.atom "?")
    let (r, extra) := res.getD i (.atom "?", none)
    let some xs := translate e0 e1 o | throw (.bad s!"arr.hist (exact model) op {i}: {o}")
    let some (d, facts) := ArrImpl.parseArrFacts r | throw (.bad s!"arr.hist (exact model) result {i}")
    let pool := xs.foldl (fun (p : Array St) x => p.setIfInBounds x.dst (x.val esz (fun k => p.getD k St.top))) pool
    let st := pool.getD d St.top
    let ctx := s!"arr.hist smash-intervals esz=({e0} {e1}) op#{i} {o}"
    if st.isBottom != facts.bot then
      throw (.drift s!"{ctx}: is_bottom model={st.isBottom} code={facts.bot}; model state {showSt st}")
    for k in [0:ArrImpl.ANVARS] do
      let mi := showItv (st.atVar k)
      let ci := showItv (facts.ivs.getD k Itv.top)
      if mi != ci then
        throw (.drift s!"{ctx}: at(v{k}) model={mi} code={ci}; model state {showSt st}")
    match extra with
    | some (.list (.atom "x" :: _ :: sums)) =>
      for a in [0:ArrImpl.ANARR] do
        match (sums.getD a (.atom "?")) with
        | .atom "-" => pure ()
        | sx =>
          let some ci := parseItv sx | throw (.bad s!"arr.hist extra item {i}")
          let mi := showItv (st.base.get (enc (.smashed a)))
          if mi != showItv ci then
            throw (.drift s!"{ctx}: at(a{a}.smashed) model={mi} code={showItv ci}; model state {showSt st}")
    | _ => pure ()
    pure pool
  match (List.range ops.length).foldl step (.ok (Array.replicate ArrImpl.ANPOOL St.top)) with
  | .error v => v
  | .ok _ => .ok

end ArrXImpl
open ArrXImpl

def handleArrX (op : String) (args res : List Sexp) : Verdict :=
  let pairs := splitRes res
  let v := handleArr op args (pairs.map (·.1))
  match op, args with
  | "hist", [.atom "smash-intervals", _, .list [.atom "esz", e0, e1], .list (.atom "ops" :: ops)] =>
    match v, res with
    | _, [.atom "err"] => v
    | .ok, _ | .skip _, _ =>
      -- corpus lines are shared by the binaries of all variants and keep the name they were minimised on: only the
      -- smash-intervals binary (built with -DXDUMP) dumps the `(x ..)` items, so their presence identifies it
      if !(pairs.any (fun pr => pr.2.isSome)) then v else
      match e0.nat?, e1.nat? with
      | some e0, some e1 =>
        match compareHist e0 e1 ops pairs with
        | .ok => v
        | w => w
      | _, _ => v
    | _, _ => v
  | _, _ => v

end Driver
