import Driver.ItvH
import CrabModel.Scalar.DisInterval

/-!
  Handler for component `dis` : `crab::domains::dis_interval<z_number>` driven directly
  (harness/h_dis.cpp).  Lines:

    (dis.of I) => V                      (dis.norm V) => V n        (dis.<unop> V) => V | itv | 0/1
    (dis.<binop> V V) => V | 0/1 | err   (dis.widenth V V (ts k ...)) => V

  with V = bot | top | (l I ...), I = (lo hi) | bot : the raw vector of a FINITE value.
  The model (`Crab.Dis`) must give exactly the implementation's answer; independently the
  property predicate (C08: the answer contains every concrete result on members of the
  operands; C04 for `<=`) is evaluated on the implementation's answer on sampled members,
  also when model and implementation agree.
-/
namespace Driver
open Crab

def parseDisElem : Sexp → Option Itv
  | .atom "bot" => some Itv.bot
  | .list [l, u] => do let l ← parseBound l; let u ← parseBound u; pure ⟨l, u⟩
  | _ => none

def parseDis : Sexp → Option Dis
  | .atom "bot" => some Dis.bot
  | .atom "top" => some Dis.top
  | .list (.atom "l" :: es) => do let l ← es.mapM parseDisElem; pure ⟨.fin, l⟩
  | _ => none

def showDisElem (i : Itv) : String := if i.isBottom then "bot" else s!"({i.lb} {i.ub})"

def showDis (x : Dis) : String :=
  match x.st with
  | .bot => "bot"
  | .top => "top"
  | .fin => "(l" ++ String.join (x.l.map (fun i => " " ++ showDisElem i)) ++ ")"

def showOptDis : Option Dis → String
  | none => "err"
  | some d => showDis d

/-- an answer: `err` (CRAB_ERROR) or a value -/
def parseDisOrErr : Sexp → Option (Option Dis)
  | .atom "err" => some none
  | s => (parseDis s).map some

/-- what the harness can observe of a value: the state, and the vector of a FINITE value -/
def sameDis (a b : Dis) : Bool :=
  a.st == b.st && (a.st != .fin || decide (a.l = b.l))

def sameOptDis : Option Dis → Option Dis → Bool
  | none, none => true
  | some a, some b => sameDis a b
  | _, _ => false

/-- a few members of one interval: ends, neighbours inside, middle -/
def elemSamples (i : Itv) : List Int :=
  if i.isBottom then [] else
  let c : List Int := match i.lb, i.ub with
    | .fin l, .fin u => [l, u, l + 1, u - 1, (l + u) / 2]
    | .fin l, _ => [l, l + 1, l + 1000, l + 2 ^ 65]
    | _, .fin u => [u, u - 1, u - 1000, u - 2 ^ 65]
    | _, _ => [0, 1, -1, 2 ^ 64, -(2 ^ 64)]
  c.filter (fun k => i.contains k)

def takeSpread (n : Nat) (l : List Int) : List Int :=
  if l.length ≤ n then l else
  -- both ends and a stride through the middle
  let step := l.length / n + 1
  let idx := (List.range l.length).filter (fun j => j % step == 0 || j + 2 ≥ l.length || j < 2)
  (idx.filterMap (fun j => l[j]?)).take (n + 4)

/-- members of a value (at most about `n`) -/
def disSamples (n : Nat) (x : Dis) : List Int :=
  match x.st with
  | .bot => []
  | .top => [0, 1, -1, 7, -13, 2 ^ 31, -(2 ^ 63) - 1, 2 ^ 64 + 1]
  | .fin =>
    let per := if x.l.length ≤ 3 then elemSamples else fun i => (elemSamples i).take 3
    takeSpread n ((x.l.flatMap per).eraseDups)

def disArith : List String :=
  ["add", "sub", "mul", "div", "udiv", "srem", "urem", "and", "or", "xor", "shl", "lshr", "ashr"]

def modelDisBin (ts : IDom.Thresholds) (op : String) (a b : Dis) : Option (Option Dis) :=
  match op with
  | "join" => some (some (Dis.join a b))
  | "meet" => some (some (Dis.meet a b))
  | "widen" => some (some (Dis.widen a b))
  | "widenth" => some (some (Dis.widenTh ts a b))
  | "narrow" => some (some (Dis.narrow a b))
  | "add" => some (Dis.add a b)
  | "sub" => some (Dis.sub a b)
  | "mul" => some (Dis.mul a b)
  | "div" => some (Dis.div a b)
  | "udiv" => some (Dis.udiv a b)
  | "srem" => some (Dis.srem a b)
  | "urem" => some (Dis.urem a b)
  | "and" => some (Dis.and a b)
  | "or" => some (Dis.or a b)
  | "xor" => some (Dis.xor a b)
  | "shl" => some (Dis.shl a b)
  | "lshr" => some (Dis.lshr a b)
  | "ashr" => some (Dis.ashr a b)
  | "trim" => some (Dis.trim a b)
  | _ => none

/-- the property predicate on the implementation's answer `r`: a witness if it fails -/
def findUnsoundDis (op : String) (x y r : Dis) : Option String :=
  let inR (what : String) (c : Int) : Option String :=
    if r.contains c then none else some s!"witness {what} conc={c} not-in {showDis r}"
  -- hypotheses of the soundness theorems: the widenings need normalised operands ("pre: *this and o
  -- are normalized"), every other operation only intervals with lb /= +oo and ub /= -oo
  let hyp := if op == "widen" || op == "widenth" then decide x.WF && decide y.WF
             else decide x.EWF && decide y.EWF
  if !hyp then none
  else if op == "join" || op == "widen" || op == "widenth" then
    (disSamples 40 x ++ disSamples 40 y).findSome? (fun a => inR s!"a={a} in an operand" a)
  else if op == "meet" || op == "narrow" then
    (disSamples 60 x).findSome? (fun a => if y.contains a then inR s!"a={a} in both" a else none)
  else if op == "trim" then
    match Dis.singleton? y with
    | some (some c) => (disSamples 60 x).findSome? (fun a => if a = c then none else inR s!"a={a} /= {c}" a)
    | some none => (disSamples 60 x).findSome? (fun a => inR s!"a={a}" a)
    | none => none
  else
    let ys := disSamples 12 y
    (disSamples 12 x).findSome? (fun a => ys.findSome? (fun b =>
      match concBin op a b with
      | some c => inR s!"a={a} b={b}" c
      | none => none))

def classifyDis (tag : String) (model impl : Option Dis) (w : Option Dis → Option String) : Verdict :=
  if sameOptDis model impl then
    match w impl with
    | some m => .unsound (s!"{tag} impl={showOptDis impl} (model agrees) " ++ m)
    | none => .ok
  else
    let ctx := s!"{tag} model={showOptDis model} impl={showOptDis impl}"
    match w impl with
    | some m => .unsound (ctx ++ " " ++ m)
    | none => .drift ctx

def parseTs : Sexp → Option IDom.Thresholds
  | .list (.atom "ts" :: ks) => do
    let ks ← ks.mapM Sexp.int?
    pure (ks.foldl (fun ts k => IDom.Thresholds.add ts 4294967295 k) IDom.Thresholds.init)
  | _ => none

def disBoolVerdict (tag : String) (m : Bool) (r : Sexp) : Verdict :=
  match parseBool r with
  | some rb => if rb == m then .ok else .drift s!"{tag} model={m} impl={rb}"
  | none => .bad tag

def handleDisUn (op : String) (as : Sexp) (x : Dis) (res : List Sexp) : Verdict :=
  let tag := s!"dis.{op} {as}"
  let viaOpt (m : Option Dis) (conc : Int → List Int) : Verdict :=
    match res with
    | [r] => match parseDisOrErr r with
      | some impl => classifyDis tag m impl (fun
          | some ri => if !decide x.EWF then none else
            (disSamples 60 x).findSome? (fun a => (conc a).findSome? (fun c =>
              if ri.contains c then none else some s!"witness a={a} conc={c}"))
          | none => none)
      | none => .bad tag
    | _ => .bad tag
  match op, res with
  | "norm", [r, n] =>
    match parseDis r, n.nat? with
    | some impl, some n =>
      let m := Dis.normalize x
      let w : Option String := if !decide x.EWF then none else (disSamples 80 x).findSome? (fun a =>
        if impl.contains a then none else some s!"witness a={a} lost")
      if sameDis m impl && m.l.length == n then
        (match w with | some s => .unsound (s!"{tag} impl={showDis impl} (model agrees) " ++ s) | none => .ok)
      else
        let ctx := s!"{tag} model={showDis m}/{m.l.length} impl={showDis impl}/{n}"
        (match w with | some s => .unsound (ctx ++ " " ++ s) | none => .drift ctx)
    | _, _ => .bad tag
  | "isbot", [r] => disBoolVerdict tag x.isBottom r
  | "istop", [r] => disBoolVerdict tag x.isTop r
  | "isfin", [r] => disBoolVerdict tag x.isFinite r
  | "approx", [r] =>
    match parseItvOrErr r with
    | some impl =>
      let m := Dis.approx x
      let same := match m, impl with
        | some a, some b => Itv.beq a b && Itv.beq b a
        | none, none => true
        | _, _ => false
      let w : Option String := match impl with
        | some ri => if !decide x.WF then none else
          (disSamples 80 x).findSome? (fun a => if ri.contains a then none else some s!"witness a={a}")
        | none => none
      let ctx := s!"{tag} model={showOptItv m} impl={showOptItv impl}"
      (match w with
       | some s => .unsound (ctx ++ " " ++ s)
       | none => if same then .ok else .drift ctx)
    | none => .bad tag
  | "singleton", [r] =>
    let m := match Dis.singleton? x with
      | some (some k) => toString k
      | some none => "none"
      | none => "err"
    if some m == r.atom? then .ok else .drift s!"{tag} model={m} impl={r}"
  | "neg", _ => viaOpt (Dis.neg x) (fun a => [-a])
  | "lhl", _ => viaOpt (Dis.lowerHalfLine x) (fun a => [a, a - 1, a - 2 ^ 70])
  | "uhl", _ => viaOpt (Dis.upperHalfLine x) (fun a => [a, a + 1, a + 2 ^ 70])
  | _, _ => .bad s!"{tag}: unknown op / arity"

def handleDis (op : String) (args res : List Sexp) : Verdict :=
  if res == [.atom "unbuildable"] then .skip "dis: value not buildable through the interface" else
  match op, args, res with
  | "of", [i], [r] =>
    match parseDisElem i, parseDis r with
    | some i, some impl =>
      let m := Dis.ofItv i
      if sameDis m impl then
        (match (elemSamples i).find? (fun a => !impl.contains a) with
         | some a => .unsound s!"dis.of {showDisElem i} impl={showDis impl} witness a={a}"
         | none => .ok)
      else .drift s!"dis.of {showDisElem i} model={showDis m} impl={showDis impl}"
    | _, _ => .bad "dis.of"
  | _, [a], _ =>
    match parseDis a with
    | some x => handleDisUn op a x res
    | none => .bad s!"dis.{op}"
  | "leq", [a, b], [r] =>
    match parseDis a, parseDis b, parseBool r with
    | some x, some y, some rb =>
      let m := Dis.leq x y
      let ctx := s!"dis.leq {a} {b} model={m} impl={rb}"
      if rb then
        match (disSamples 120 x).find? (fun k => !y.contains k) with
        | some k => .unsound (ctx ++ s!" witness {k} in left not in right [C04]")
        | none => if m == rb then .ok else .drift ctx
      else if x.isBottom || y.isTop || (x.st == y.st && decide (x.l = y.l)) then
        .unsound (ctx ++ " (must answer yes: bottom on the left / top on the right / equal operands) [C04]")
      else if m == rb then .ok else .drift ctx
    | _, _, _ => .bad "dis.leq"
  | "eq", [a, b], [r] =>
    match parseDis a, parseDis b with
    | some x, some y => disBoolVerdict s!"dis.eq {a} {b}" (Dis.beq x y) r
    | _, _ => .bad "dis.eq"
  | _, a :: b :: more, [r] =>
    match parseDis a, parseDis b, parseDisOrErr r with
    | some x, some y, some impl =>
      let ts := match more with
        | [t] => parseTs t
        | _ => some IDom.Thresholds.init
      match ts with
      | some ts =>
        match modelDisBin ts op x y with
        | some m =>
          classifyDis s!"dis.{op} {a} {b}{String.join (more.map (fun t => " " ++ toString t))}" m impl (fun
            | some ri => findUnsoundDis op x y ri
            | none => none)
        | none => .bad s!"dis.{op}: unknown op"
      | none => .bad s!"dis.{op}: thresholds"
    | _, _, _ => .bad s!"dis.{op}"
  | _, _, _ => .bad s!"dis.{op}: arity"

end Driver
