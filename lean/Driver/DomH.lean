import Driver.ItvH

/-!
  Handler for component `dom` (mechanism R): replays an operation history on concrete witness
  states with the formal semantics of the operations and checks every fact the real domain
  exported after each operation.

  Messages are tagged with the property they decide:
    [C03] a witness state of the collecting semantics is outside an exported fact
          (is_bottom, interval of a variable, exported linear constraint)
    [C04] inclusion / lattice laws: `x <= x`, `bot <= x`, `x <= top`, is_bottom(bottom),
          is_top(top); `a <= b` answered yes although a witness of `a` violates a fact of `b`;
          a join / meet (also in place) lost a witness of one operand / of both operands (tagged [C03][C04])
    [C16] an operation on one value changed what another value of the pool says
-/
namespace Driver
open Crab

abbrev CState := Array Int

structure Lin where
  c : Int
  ts : List (Int × Nat)
  deriving Inhabited

inductive CKind | le | lt | eq | ne deriving BEq, Inhabited
structure Cst where
  k : CKind
  e : Lin
  deriving Inhabited

def varIdx : Sexp → Option Nat
  | .atom s => if s.startsWith "v" then (s.drop 1).toString.toNat? else none
  | _ => none

def parseLin : Sexp → Option Lin
  | .list (.atom "lin" :: c :: ts) => do
    let c ← c.int?
    let ts ← ts.mapM (fun t => match t with
      | .list [k, v] => do pure ((← k.int?), (← varIdx v))
      | _ => none)
    pure ⟨c, ts⟩
  | _ => none

def parseCst : Sexp → Option Cst
  | .list [.atom k, l] => do
    let l ← parseLin l
    let k ← (match k with
      | "le" => some CKind.le | "lt" => some CKind.lt | "eq" => some CKind.eq | "ne" => some CKind.ne
      | _ => none)
    pure ⟨k, l⟩
  | _ => none

def Lin.eval (l : Lin) (σ : CState) : Int := l.ts.foldl (fun a (k, v) => a + k * σ.getD v 0) l.c
def Cst.sat (c : Cst) (σ : CState) : Bool :=
  let v := c.e.eval σ
  match c.k with
  | .le => v ≤ 0 | .lt => v < 0 | .eq => v == 0 | .ne => v != 0

def showState (σ : CState) : String := toString σ.toList

/-- all integer atoms of an s-expression -/
partial def intsOf : Sexp → List Int
  | .atom s => match s.toInt? with | some k => [k] | none => []
  | .list xs => xs.flatMap intsOf

structure Gen where
  s : Nat
def Gen.next (g : Gen) : Gen × Nat :=
  let s := (g.s * 6364136223846793005 + 1442695040888963407) % 2 ^ 64
  (⟨s⟩, s / 2 ^ 33)

def NVARS : Nat := 5
def CAP : Nat := 40

/-- candidate concrete values: constants of the history, their neighbours, a few fixed ones -/
def candidates (req : Sexp) : Array Int :=
  let cs := (intsOf req).filter (fun k => k.natAbs < 2 ^ 70)
  let base : List Int := [0, 1, -1, 2, -2, 3, 5, -5, 8, -8, 100, -100, 2 ^ 31, -(2 ^ 31)]
  ((cs.flatMap (fun k => [k, k + 1, k - 1, -k])) ++ base).eraseDups.toArray

def freshStates (cands : Array Int) (g : Gen) (k : Nat) : Gen × List CState := Id.run do
  let mut g := g
  let mut out : List CState := []
  for _ in [0:k] do
    let mut σ : CState := #[]
    for _ in [0:NVARS] do
      let (g', r) := g.next
      g := g'
      σ := σ.push (cands.getD (r % cands.size) 0)
    out := σ :: out
  return (g, out)

def capList (xs : List CState) : List CState := (xs.eraseDups).take CAP

/-- interleave so that capping keeps members of both -/
def interleave : List CState → List CState → List CState
  | [], ys => ys
  | xs, [] => xs
  | x :: xs, y :: ys => x :: y :: interleave xs ys

/-- havoc of variable `x`: keep the state and add a few variants -/
def havoc (cands : Array Int) (g : Gen) (x : Nat) (ws : List CState) : Gen × List CState := Id.run do
  let mut g := g
  let mut out : List CState := []
  for σ in ws do
    out := σ :: out
    for _ in [0:2] do
      let (g', r) := g.next
      g := g'
      out := (σ.setIfInBounds x (cands.getD (r % cands.size) 0)) :: out
  return (g, capList out.reverse)

def arithName : String → String
  | "sdiv" => "div"
  | s => s

structure SlotFacts where
  bot : Bool := false
  ivs : List Itv := []
  csts : List Cst := []
  deriving Inhabited

/-- does a witness satisfy every exported fact? returns a description of the first violated one -/
def violates (f : SlotFacts) (σ : CState) : Option String :=
  if f.bot then some "is_bottom" else
  match (List.range f.ivs.length).find? (fun i => !(f.ivs.getD i Itv.top).contains (σ.getD i 0)) with
  | some i => some s!"at(v{i})={showItv (f.ivs.getD i Itv.top)}"
  | none =>
    match f.csts.find? (fun c => !c.sat σ) with
    | some c => some s!"exported constraint lin c={c.e.c} terms={c.e.ts}"
    | none => none

def parseFacts (r : Sexp) : Option (Nat × Bool × Bool × SlotFacts × Bool) :=
  match r with
  | .list [.atom "s", d, b, t, .list (.atom "iv" :: ivs), .list (.atom "cs" :: cs), .list [.atom "oth", o]] => do
    let d ← d.nat?; let b ← parseBool b; let t ← parseBool t; let o ← parseBool o
    let ivs ← ivs.mapM parseItv
    let cs ← cs.mapM parseCst
    pure (d, b, t, { bot := b, ivs := ivs, csts := cs }, o)
  | _ => none

def NPOOL : Nat := 4

structure HState where
  g : Gen
  w : Array (List CState)
  facts : Array SlotFacts
  nontrivialChecks : Nat := 0

def handleDom (op : String) (args res : List Sexp) : Verdict :=
  match op, args with
  | "hist", [.atom dom, .list (.atom "ops" :: ops)] =>
    match res with
    | [.atom "err"] => .skip s!"dom.hist {dom}: CRAB_ERROR raised during the history"
    | _ =>
    let req := Sexp.list ops
    let cands := candidates req
    let seed := (intsOf req).foldl (fun a k => (a * 31 + k.natAbs) % 2 ^ 61) (ops.length + 7)
    let (g0, init) := freshStates cands ⟨seed⟩ CAP
    let st0 : HState := { g := g0, w := Array.replicate NPOOL init, facts := Array.replicate NPOOL {} }
    -- results: one per op, then (leq ...) (lat ...)
    let nops := ops.length
    if res.length != nops + 2 then .bad s!"dom.hist: {res.length} results for {nops} ops" else
    let step (acc : Except Verdict HState) (i : Nat) : Except Verdict HState := do
      let st ← acc
      let o := ops.getD i (.atom "?")
      let r := res.getD i (.atom "?")
      let some (d, isbot, istop, facts, oth) := parseFacts r | throw (.bad s!"dom.hist result {i}")
      let W := fun (k : Nat) => st.w.getD k []
      let (g, wd, kind) ← (match o with
        | .list [.atom "top", _] => let (g, ws) := freshStates cands st.g CAP; pure (g, ws, "top")
        | .list [.atom "bot", _] => pure (st.g, [], "bot")
        | .list [.atom "copy", _, s] => pure (st.g, W (s.nat?.getD 0), "copy")
        | .list [.atom "assign", _, x, e] =>
          match varIdx x, parseLin e with
          | some x, some e => pure (st.g, (W d).map (fun σ => σ.setIfInBounds x (e.eval σ)), "assign")
          | _, _ => throw (.bad "assign")
        | .list [.atom "select", _, x, c, e1, e2] =>
          match varIdx x, parseCst c, parseLin e1, parseLin e2 with
          | some x, some c, some e1, some e2 =>
            pure (st.g, (W d).map (fun σ => σ.setIfInBounds x (if c.sat σ then e1.eval σ else e2.eval σ)), "select")
          | _, _, _, _ => throw (.bad "select")
        | .list [.atom k, _, .atom aop, x, y, z] =>
          if k == "arith" || k == "bitw" then
            match varIdx x, varIdx y with
            | some x, some y =>
              let zv : CState → Option Int := match varIdx z with
                | some zi => fun σ => some (σ.getD zi 0)
                | none => fun _ => z.int?
              pure (st.g, (W d).filterMap (fun σ => do
                let b ← zv σ
                let c ← concBin (arithName aop) (σ.getD y 0) b
                pure (σ.setIfInBounds x c)), k)
            | _, _ => throw (.bad k)
          else throw (.bad s!"op {k}")
        | .list (.atom "assume" :: _ :: cs) =>
          match cs.mapM parseCst with
          | some cs => pure (st.g, (W d).filter (fun σ => cs.all (·.sat σ)), "assume")
          | none => throw (.bad "assume")
        | .list (.atom "forget" :: _ :: xs) =>
          let (g, ws) := xs.foldl (fun (g, ws) x => havoc cands g ((varIdx x).getD 0) ws) (st.g, W d)
          pure (g, ws, "forget")
        | .list (.atom "project" :: _ :: xs) =>
          let keep := xs.filterMap varIdx
          let (g, ws) := (List.range NVARS).foldl (fun (g, ws) x =>
            if keep.contains x then (g, ws) else havoc cands g x ws) (st.g, W d)
          pure (g, ws, "project")
        | .list [.atom "rename", _, .list [x], .list [y]] =>
          match varIdx x, varIdx y with
          | some x, some y =>
            let ws := (W d).map (fun σ => σ.setIfInBounds y (σ.getD x 0))
            let (g, ws) := havoc cands st.g x ws
            pure (g, ws, "rename")
          | _, _ => throw (.bad "rename")
        | .list [.atom "expand", _, x, y] =>
          match varIdx x, varIdx y with
          | some x, some y => pure (st.g, (W d).map (fun σ => σ.setIfInBounds y (σ.getD x 0)), "expand")
          | _, _ => throw (.bad "expand")
        | .list [.atom k, _, a, b] =>
          let a := a.nat?.getD 0; let b := b.nat?.getD 0
          if k == "join" || k == "widen" then pure (st.g, capList (interleave (W a) (W b)), k)
          else if k == "meet" || k == "narrow" then pure (st.g, (W a).filter (fun σ => (W b).contains σ), k)
          else throw (.bad s!"op {k}")
        | .list [.atom "joineq", _, a] => pure (st.g, capList (interleave (W d) (W (a.nat?.getD 0))), "joineq")
        | .list [.atom "meeteq", _, a] => pure (st.g, (W d).filter (fun σ => (W (a.nat?.getD 0)).contains σ), "meeteq")
        | .list [.atom "normalize", _] => pure (st.g, W d, "normalize")
        | .list [.atom "minimize", _] => pure (st.g, W d, "minimize")
        | .list [.atom "query", _] => pure (st.g, W d, "query")
        | _ => throw (.bad s!"dom.hist op {i}: {o}"))
      let ctx := s!"dom.hist {dom} op#{i} {o}"
      -- C16: the other values of the pool must not have changed
      if !oth then throw (.unsound s!"[C16] {ctx}: another value of the pool changed its exported meaning, or the same history with copies made by the other mechanism (copy / move) or on the plain wrapped domain gives a different dump")
      -- C04: is_top / is_bottom right after set_to_top / set_to_bottom
      if kind == "top" && (!istop || isbot) then throw (.unsound s!"[C04] {ctx}: set_to_top then is_top={istop} is_bottom={isbot}")
      if kind == "bot" && !isbot then throw (.unsound s!"[C04] {ctx}: set_to_bottom then is_bottom=false")
      -- C03: every witness of the collecting semantics satisfies every exported fact
      match wd.findSome? (fun σ => (violates facts σ).map (fun f => (σ, f))) with
      | some (σ, f) => throw (.unsound s!"[C03]{if kind == "join" || kind == "meet" || kind == "joineq" || kind == "meeteq" then "[C04]" else ""} {ctx}: witness state {showState σ} of the collecting semantics violates {f}")
      | none => pure ()
      pure { st with g := g, w := st.w.setIfInBounds d wd, facts := st.facts.setIfInBounds d facts,
                     nontrivialChecks := st.nontrivialChecks + wd.length }
    match (List.range nops).foldl step (.ok st0) with
    | .error v => v
    | .ok st =>
      -- pair queries
      match res.getD nops (.atom "?"), res.getD (nops + 1) (.atom "?") with
      | .list (.atom "leq" :: ps), .list (.atom "lat" :: ls) =>
        let bad := ps.findSome? (fun p => match p with
          | .list [i, j, b] =>
            match i.nat?, j.nat?, parseBool b with
            | some i, some j, some b =>
              if i == j && !b then some s!"[C04] dom.hist {dom}: value #{i} is not <= itself"
              else if b then
                ((st.w.getD i []).findSome? (fun σ => (violates (st.facts.getD j {}) σ).map (fun f =>
                  s!"[C04] dom.hist {dom}: #{i} <= #{j} answered yes but witness {showState σ} of #{i} violates {f} of #{j}")))
              else none
            | _, _, _ => some "parse"
          | _ => some "parse")
        match bad with
        | some m => if m == "parse" then .bad "dom.hist leq" else .unsound m
        | none =>
          let badl := ls.findSome? (fun l => match l with
            | .list [a, b, c, e] =>
              if parseBool a == some true && parseBool b == some true && parseBool c == some true && parseBool e == some true then none
              else some s!"[C04] dom.hist {dom}: lattice law failed (bot<=x, x<=top, is_bottom(bot), is_top(top)) = {l}"
            | _ => some "parse")
          match badl with
          | some m => if m == "parse" then .bad "dom.hist lat" else .unsound m
          | none => .ok
      | _, _ => .bad "dom.hist tail"
  | _, _ => .bad s!"dom.{op}"

end Driver
