import Driver.Common
import CrabModel.Scalar.WInterval

/-!
  Handler for component `wint` : `crab::domains::wrapped_interval<z_number>`
  (lines produced by `harness/h_wint.cpp`).

  An interval is `bot`, `top` or `(w s e)`.  For every line the property's own predicate is
  evaluated on the implementation's answer, whether or not the model agrees:
  C13 — every bit-vector result of operands drawn from the argument intervals lies in the result
  interval.  Concrete members are enumerated completely for widths ≤ 6 and sampled otherwise
  (end points and neighbours, middle, poles, evenly spaced points); membership in the answer is
  decided by the mathematical definition `(v - start) mod 2^w ≤ (end - start) mod 2^w` (not by the
  model's `at`).  A member whose concrete result is outside the answer is `.unsound` with the
  witness.  Only then is the answer compared with the model (`.drift` on a difference; `.skip`
  when the model has no value: CRAB_ERROR / C++ undefined behaviour / outside its scope).

  Concrete semantics (`BitVec w`): division by zero has no result; shifts only for amounts `< w`.
-/
namespace Driver
open Crab

namespace WIntH

def b01 (b : Bool) : String := if b then "1" else "0"

/-- `bot` | `top` | `(w s e)` built like the harness does (public wrapint constructor) -/
def parseWInt : Sexp → Option WInt
  | .atom "bot" => some WInt.bottom
  | .atom "top" => some WInt.top
  | .list [w, s, e] =>
    match w.nat?, s.nat?, e.nat? with
    | some w, some s, some e =>
      if 1 ≤ w && w ≤ 64 then some (WInt.mk2 (WrapInt.ofNatT s w) (WrapInt.ofNatT e w)) else none
    | _, _, _ => none
  | _ => none

/-- the width written in the text of an interval (none for `bot` / `top`) -/
def textWidth : Sexp → Option Nat
  | .list [w, _, _] => w.nat?
  | _ => none

def showWInt (x : WInt) : String :=
  if x.isBottom then "bot" else if x.isTop then "top"
  else s!"({x.start.width} {x.start.n} {x.stop.n})"

def showOpt : Option WInt → String
  | none => "err"
  | some x => showWInt x

/-- the answer of the implementation: `err` or an interval -/
def parseRes : Sexp → Option (Option WInt)
  | .atom "err" => some none
  | s => (parseWInt s).map some

/-- mathematical membership of the value `v` (of width `w`) in an answer -/
def contains (r : WInt) (w : Nat) (v : Nat) : Bool :=
  if r.isBottom then false
  else if r.isTop then true
  else if r.start.width != w then false
  else
    let m : Int := 2 ^ w
    decide ((((v : Int) - r.start.n) % m) ≤ (((r.stop.n : Int) - r.start.n) % m))

/-- concrete members of an interval read at width `w`: all of them when `w ≤ 6` -/
def members (x : WInt) (w : Nat) : List Nat :=
  if x.isBottom then []
  else
    let m := 2 ^ w
    if w ≤ 6 then (List.range m).filter (fun v => contains x w v)
    else
      let s := if x.isTop then 0 else x.start.n % m
      let span := if x.isTop then m - 1 else (x.stop.n + m - x.start.n % m) % m
      let offs : List Nat := [0, 1, 2, 3, span, span - 1, span - 2, span / 2, span / 2 + 1, span / 3,
                              span / 7, span / 7 * 2, span / 7 * 3, span / 7 * 5, span / 7 * 6]
      let pts := offs.filterMap (fun o => if o ≤ span then some ((s + o) % m) else none)
      let special : List Nat := [0, 1, 2, m - 1, m - 2, m / 2, m / 2 - 1, m / 2 + 1, 7, m / 4, m / 4 * 3]
      (pts ++ special.filter (fun v => contains x w v)).eraseDups

/-- concrete binary operations on `BitVec w` (none: no result) -/
def concBin (op : String) (w : Nat) (a b : Nat) : Option Nat :=
  let x := BitVec.ofNat w a
  let y := BitVec.ofNat w b
  match op with
  | "add" => some (x + y).toNat
  | "sub" => some (x - y).toNat
  | "mul" => some (x * y).toNat
  | "sdiv" => if b % 2 ^ w = 0 then none else some (x.sdiv y).toNat
  | "udiv" => if b % 2 ^ w = 0 then none else some (x / y).toNat
  | "srem" => if b % 2 ^ w = 0 then none else some (x.srem y).toNat
  | "urem" => if b % 2 ^ w = 0 then none else some (x % y).toNat
  | "and" => some (x &&& y).toNat
  | "or" => some (x ||| y).toNat
  | "xor" => some (x ^^^ y).toNat
  | "shl" => if b < w then some (x <<< b).toNat else none
  | "lshr" => if b < w then some (x >>> b).toNat else none
  | "ashr" => if b < w then some (x.sshiftRight b).toNat else none
  | _ => none

def modelBin (op : String) (x y : WInt) : Option (Option WInt) :=
  match op with
  | "add" => some (some (WInt.add x y))
  | "sub" => some (some (WInt.sub x y))
  | "mul" => some (WInt.mul x y)
  | "sdiv" => some (WInt.sdiv x y)
  | "udiv" => some (WInt.udiv x y)
  | "srem" | "urem" | "and" | "or" | "xor" => some (some (WInt.defaultImpl x y))
  | "shl" => some (WInt.shl x y)
  | "lshr" => some (WInt.lshr x y)
  | "ashr" => some (WInt.ashr x y)
  | "join" => some (some (WInt.join x y))
  | "meet" | "narrow" => some (some (WInt.meet x y))
  | "widen" => some (some (WInt.widen x y))
  | "trim" => some (some (WInt.trim x y))
  | _ => none

/-- first pair of members whose concrete result is outside `r` -/
def findUnsoundBin (op : String) (w : Nat) (x y r : WInt) : Option String :=
  let xs := members x w
  let ys := members y w
  match op with
  | "join" | "widen" =>
    (xs ++ ys).findSome? (fun a => if contains r w a then none else some s!"witness {a} in an operand, not in the result")
  | "meet" | "narrow" =>
    xs.findSome? (fun a => if contains y w a && !contains r w a then some s!"witness {a} in both operands, not in the result" else none)
  | "trim" =>
    let k : Option Nat := if y.isSingleton then some (y.start.n % 2 ^ w) else none
    xs.findSome? (fun a => if some a != k && !contains r w a then some s!"witness {a} in the left operand (not the trimmed value), not in the result" else none)
  | _ =>
    xs.findSome? (fun a =>
      ys.findSome? (fun b =>
        match concBin op w a b with
        | some c => if contains r w c then none else some s!"witness a={a} b={b} conc={c} not in the result"
        | none => none))

/-- the common width of the operands of a line (from the text; 3 when only top/bot occur) -/
def lineWidth (xs : List Sexp) : Nat :=
  match xs.findSome? textWidth with
  | some w => w
  | none => 3

/-- soundness first, then agreement with the model -/
def verdict (ctx : String) (unsound : Option String) (model : Option String) (impl : String) : Verdict :=
  match unsound with
  | some wit => .unsound s!"{ctx} impl={impl} model={model.getD "none"} {wit}"
  | none =>
    match model with
    | none => .skip "model has no value (CRAB_ERROR / undefined behaviour / outside its scope)"
    | some m => if m == impl then .ok else .drift s!"{ctx} impl={impl} model={m}"

def sameWidth (x y : WInt) : Bool :=
  x.isBottom || y.isBottom || x.isTop || y.isTop || x.start.width == y.start.width

end WIntH

open WIntH in
def handleWInt (op : String) (args : List Sexp) (res : List Sexp) : Verdict :=
  match res with
  | [r] =>
    let impl := toString r
    let ctx := s!"wint.{op} " ++ " ".intercalate (args.map toString)
    let w := lineWidth args
    let boolRes (model : Option Bool) (unsound : Option String) : Verdict :=
      verdict ctx unsound (some (match model with | some b => b01 b | none => "err")) impl
    match op, args with
    | "ofz", [wd, z] =>
      match wd.nat?, z.int?, parseRes r with
      | some wd, some z, some ri =>
        let uns : Option String := match ri with
          | some ri =>
            if 1 ≤ wd && wd ≤ 64 && !contains ri wd (z % (2 ^ wd : Int)).toNat
            then some s!"witness {z} mod 2^{wd} not in the result" else none
          | none => none
        verdict ctx uns (some (showOpt (WInt.ofZ z wd))) impl
      | _, _, _ => .bad "wint.ofz"
    | "ofz2", [wd, lb, ub] =>
      match wd.nat?, lb.int?, ub.int?, parseRes r with
      | some wd, some lb, some ub, some ri =>
        let uns : Option String := match ri with
          | some ri =>
            if 1 ≤ wd && wd ≤ 64 && lb ≤ ub then
              [lb, lb + 1, ub, ub - 1, (lb + ub) / 2].findSome? (fun z =>
                if lb ≤ z && z ≤ ub && !contains ri wd (z % (2 ^ wd : Int)).toNat
                then some s!"witness {z} mod 2^{wd} not in the result" else none)
            else none
          | none => none
        verdict ctx uns (some (showOpt (WInt.ofZ2 lb ub wd))) impl
      | _, _, _, _ => .bad "wint.ofz2"
    | "neg", [a] =>
      match parseWInt a, parseRes r with
      | some x, some ri =>
        let uns := match ri with
          | some ri => (members x w).findSome? (fun v =>
              let c := (-(BitVec.ofNat w v)).toNat
              if contains ri w c then none else some s!"witness a={v} conc={c} not in the result")
          | none => none
        verdict ctx uns (some (showWInt (WInt.neg x))) impl
      | _, _ => .bad "wint.neg"
    | "istop", [a] =>
      match parseWInt a with
      | some x => boolRes (some x.isTop) none
      | none => .bad "wint.istop"
    | "isbot", [a] =>
      match parseWInt a with
      | some x => boolRes (some x.isBottom) none
      | none => .bad "wint.isbot"
    | "issingleton", [a] =>
      match parseWInt a with
      | some x =>
        let uns := if impl == "1" && (members x w).length != 1 && w ≤ 6
          then some "answered singleton, the interval has not exactly one member" else none
        boolRes (some x.isSingleton) uns
      | none => .bad "wint.issingleton"
    | "crosss", [a] =>
      match parseWInt a with
      | some x => boolRes (WInt.crossSignedLimit? x) none
      | none => .bad "wint.crosss"
    | "crossu", [a] =>
      match parseWInt a with
      | some x => boolRes (WInt.crossUnsignedLimit? x) none
      | none => .bad "wint.crossu"
    | "at", [a, wd, v] =>
      match parseWInt a, wd.nat?, v.nat? with
      | some x, some wd, some v =>
        -- exact specification of membership
        let spec := contains x wd (v % 2 ^ wd)
        let uns := if impl == "err" || sameWidth x (WInt.single (WrapInt.ofNatT v wd)) == false then none
          else if impl != b01 spec then some s!"membership of {v}: specification says {b01 spec}" else none
        boolRes (some (x.at (WrapInt.ofNatT v wd))) uns
      | _, _, _ => .bad "wint.at"
    | "toitv", [a] =>
      match parseWInt a, parseItv r with
      | some x, some ri =>
        let uns := (members x w).findSome? (fun v =>
          let c := (BitVec.ofNat w v).toInt
          if ri.contains c then none else some s!"witness {v} (signed {c}) not in the result")
        verdict ctx uns ((WInt.toInterval x).map showItv) impl
      | some x, none => verdict ctx none (some (match WInt.toInterval x with | some i => showItv i | none => "err")) impl
      | _, _ => .bad "wint.toitv"
    | "lhl", [a, s] | "uhl", [a, s] =>
      match parseWInt a, parseBool s, parseRes r with
      | some x, some sg, some ri =>
        let lower := op == "lhl"
        let key (v : Nat) : Int := if sg then (BitVec.ofNat w v).toInt else (v : Int)
        let m := 2 ^ w
        let cand : List Nat := if w ≤ 6 then List.range m
          else ([0, 1, 2, m - 1, m - 2, m / 2, m / 2 - 1, m / 2 + 1] ++ (members x w).flatMap (fun v => [v, (v + 1) % m, (v + m - 1) % m])).eraseDups
        let uns := match ri with
          | some ri => (members x w).findSome? (fun mem =>
              cand.findSome? (fun v =>
                if (if lower then key v ≤ key mem else key mem ≤ key v) && !contains ri w v
                then some s!"witness {v} on the half line of member {mem} not in the result" else none))
          | none => none
        verdict ctx uns (some (showWInt (if lower then WInt.lowerHalfLine x sg else WInt.upperHalfLine x sg))) impl
      | _, _, _ => .bad s!"wint.{op}"
    | "zext", [a, k] | "sext", [a, k] | "trunc", [a, k] =>
      match parseWInt a, k.nat?, parseRes r with
      | some x, some k, some ri =>
        let w' := if op == "trunc" then k else w + k
        let conc (v : Nat) : Nat :=
          if op == "zext" then v
          else if op == "sext" then ((BitVec.ofNat w v).signExtend w').toNat
          else v % 2 ^ k
        let uns := match ri with
          | some ri =>
            if 1 ≤ w' && w' ≤ 64 && (op != "trunc" || k ≤ w) && (textWidth a).isSome then
              (members x w).findSome? (fun v =>
                let c := conc v
                if contains ri (if op == "trunc" && k == w then w else w') c then none
                else some s!"witness a={v} conc={c} (width {w'}) not in the result")
            else none
          | none => none
        let model := match op with
          | "zext" => WInt.zext x k
          | "sext" => WInt.sext x k
          | _ => WInt.trunc x k
        verdict ctx uns (model.map showWInt) impl
      | _, _, _ => .bad s!"wint.{op}"
    | "leq", [a, b] | "eq", [a, b] =>
      match parseWInt a, parseWInt b with
      | some x, some y =>
        if !sameWidth x y then .skip "operands of different widths" else
        let sub (p q : WInt) : Option String :=
          (members p w).findSome? (fun v => if contains q w v then none else some s!"witness {v} in one operand only")
        let uns := if impl == "1" then
            (match sub x y with
             | some wit => some wit
             | none => if op == "eq" then sub y x else none)
          else none
        boolRes (some (if op == "leq" then x.leq y else x.eq y)) uns
      | _, _ => .bad s!"wint.{op}"
    | _, [a, b] =>
      match parseWInt a, parseWInt b, parseRes r with
      | some x, some y, some ri =>
        if !sameWidth x y then .skip "operands of different widths" else
        match modelBin op x y with
        | none => .bad s!"wint.{op}: unknown op"
        | some model =>
          let uns := match ri with
            | some ri => findUnsoundBin op w x y ri
            | none => none
          match ri, model with
          | none, some m => .drift s!"{ctx} impl=err model={showWInt m} (implementation raised CRAB_ERROR)"
          | _, _ => verdict ctx uns (model.map showWInt) impl
      | _, _, _ => .bad s!"wint.{op}"
    | _, _ => .bad s!"wint.{op}: arity"
  | _ => .bad s!"wint.{op}: result"

end Driver
