import Driver.Common
import CrabModel.Transform.Dce

/-!
  Handlers for components `xf` (cfg::simplify, dead_code_elimination, lower_safe_assertions;
  property C17) and `live` (liveness_analysis / live_and_dead_analysis; property C18).
  Program text: harness/tprog.hpp.

    (xf.simplify PROG) | (xf.dce PROG) | (xf.lower PROG)
        => (orig PROG) (res PROG | err) (order b..) (safe (b k)..)
    (live.run PROG) => (orig PROG) (order b..) (out (b v..)..) (dead (b v..)..)

  Checks on every `xf` line
   (R) [C17] differential execution with the concrete semantics `TIR.run` (the executable
       version of `TIR.Exec`): the original and the IMPLEMENTATION's output are run on the same
       inputs with the same oracle; whenever one of the two runs completes the exit block the
       other must do so too, with the same event sequence (assume / assert conditions and
       outcomes) and the same values of the function outputs.
       How the two runs are kept in correspondence although the passes change blocks and
       statements: all choices are made by a hash oracle whose keys are invariant under the pass.
         - havoc values: key (variable, #events emitted so far, c) with c = #havocs executed so
           far for `simplify` (the statement sequence along corresponding paths is identical) and
           c = #blocks entered so far for `dce` / `lower` (blocks are identical, a removed dead
           havoc must not shift the values of the later ones);
         - successor choice: the successor `l` with the largest hash of (l, #entries into l so
           far).  Labels that survive `simplify` are entered equally often in corresponding runs,
           merged blocks are only ever the unique successor of their parent (no choice), and the
           successor list of a surviving block is a sublist of the original one in the same
           order, so the maximum is the same whenever the original's choice survives.
           In both programs the choice is restricted to successors from which the exit is
           reachable in the graph (a run that walks into a block that cannot reach the exit is
           not exit-reaching: it neither needs nor is a counterpart); `simplify` deletes exactly
           the other successors.
       Runs in which the original divides by zero are outside the semantics (no successor state
       in crab; DCE may delete a dead division) and are skipped.
   (WF) [C17] the implementation's output is well formed (`Prog.wf`: labels distinct, entry and
       exit present, every edge recorded on both sides, no dangling label) and keeps the entry
       (and the exit when the exit has no successors).
   (E) the output equals the Lean model of the pass (`TIR.simplify`, `TIR.dce`, `TIR.lower`) for
       the current tree (`Variant.cur`).
  Checks on every `live` line
   (R) [C18] paired executions: for every block `l` and variable `x` that the implementation
       reports dead at the end of `l` (`x ∉ get(l)`, in particular `x ∈ dead_exit(l)`), executions
       from the entry are stopped when they reach the end of `l`, `x` is changed, and both are
       continued with the same oracle: the rest of the event sequence, the final status and the
       outputs must coincide.
   (S) implementation-dead ⊆ specification-dead (`TIR.specLiveOut`, proved sound:
       C18.dead_irrelevant); a difference without an execution witness is reported as drift.
   (E) `get` / `dead_exit` equal the model of the code run on the implementation's order.
-/
namespace Driver
namespace Xf
open Crab Crab.TIR

/-! ### parsing -/

def idxOf (pfx : Char) : Sexp → Option Nat
  | .atom s => if s.front == pfx then (s.drop 1).toString.toNat? else none
  | _ => none

def pVar := idxOf 'v'
def pLab := idxOf 'b'

def pLin : Sexp → Option TIR.Lin
  | .list (.atom "lin" :: c :: ts) => do
    let c ← c.int?
    let ts ← ts.mapM (fun t => match t with
      | .list [k, v] => do pure ((← k.int?), (← pVar v))
      | _ => none)
    pure ⟨c, ts⟩
  | _ => none

def pCst : Sexp → Option TIR.Cst
  | .list [.atom k, l] => do
    let l ← pLin l
    let k ← (match k with
      | "le" => some CKind.le | "lt" => some CKind.lt | "eq" => some CKind.eq | "ne" => some CKind.ne
      | _ => none)
    pure ⟨k, l⟩
  | _ => none

def pOpd (s : Sexp) : Option Opd :=
  match pVar s with
  | some v => some (.var v)
  | none => s.int?.map .const

def pStmt : Sexp → Option Stmt
  | .list [.atom "assign", x, e] => do pure (.assign (← pVar x) (← pLin e))
  | .list [.atom "bin", .atom op, x, a, b] => do
    let op ← (match op with
      | "add" => some BinOp.add | "sub" => some BinOp.sub | "mul" => some BinOp.mul | "sdiv" => some BinOp.sdiv
      | _ => none)
    pure (.bin op (← pVar x) (← pOpd a) (← pOpd b))
  | .list [.atom "havoc", x] => do pure (.havoc (← pVar x))
  | .list [.atom "assume", c] => do pure (.assume (← pCst c))
  | .list [.atom "assert", c] => do pure (.assert (← pCst c))
  | .list [.atom "select", x, c, e1, e2] => do pure (.select (← pVar x) (← pCst c) (← pLin e1) (← pLin e2))
  | .list [.atom "unreachable"] => some .unreachable
  | _ => none

def pBlock : Sexp → Option Block
  | .list (.atom "blk" :: l :: .list (.atom "st" :: st) :: .list (.atom "succ" :: sc) :: rest) => do
    let l ← pLab l
    let st ← st.mapM pStmt
    let sc ← sc.mapM pLab
    let pr ← (match rest with
      | [.list (.atom "pred" :: pr)] => pr.mapM pLab
      | [] => some []
      | _ => none)
    pure ⟨l, st, sc, pr⟩
  | _ => none

def pProg : Sexp → Option Prog
  | .list (.atom "prog" :: nv :: entry :: exit :: fd :: blks) => do
    let nv ← nv.nat?
    let entry ← pLab entry
    let exit ← (match exit with
      | .atom "none" => some none
      | e => (pLab e).map some)
    let (hasFd, ins, outs) ← (match fd with
      | .atom "nofd" => some (false, [], [])
      | .list [.atom "fd", .list (.atom "in" :: is), .list (.atom "out" :: os)] => do
        pure (true, (← is.mapM pVar), (← os.mapM pVar))
      | _ => none)
    let blks ← blks.mapM pBlock
    pure { nvars := nv, entry := entry, exit := exit, hasFd := hasFd, ins := ins, outs := outs, blocks := blks }
  | _ => none

def findTag (tag : String) (xs : List Sexp) : Option (List Sexp) :=
  xs.findSome? (fun x => match x with
    | .list (.atom t :: r) => if t == tag then some r else none
    | _ => none)

/-! ### canonical comparison -/

def sortBlocks (bs : List Block) : List Block :=
  (bs.toArray.qsort (fun a b => a.label < b.label)).toList

def canonProg (P : Prog) : Prog := { P with blocks := sortBlocks P.blocks }

def sameProg (a b : Prog) : Bool := canonProg a == canonProg b

/-- equality up to predecessor lists (the request carries none) -/
def sameModuloPreds (a b : Prog) : Bool :=
  let strip := fun (P : Prog) => { P with blocks := (sortBlocks P.blocks).map (fun (b : Block) => { b with pred := [] }) }
  strip a == strip b

def canonSet (s : VarSet) : List Nat := (s.toArray.qsort (· < ·)).toList.eraseDups

def showVars (s : List Nat) : String := "{" ++ " ".intercalate (s.map (fun v => s!"v{v}")) ++ "}"

def showState (nv : Nat) (σ : State) : String :=
  "[" ++ ", ".intercalate ((List.range nv).map (fun v => s!"v{v}={σ v}")) ++ "]"

def showEvent (e : Event) : String :=
  (if e.isAssert then "assert" else "assume") ++ (if e.ok then "+" else "-")

def showOutcome : Outcome → String
  | .exit outs => s!"exit{outs}"
  | .blocked => "blocked"
  | .failed => "failed"
  | .divzero => "divzero"

def showRes : Res → String
  | .done t o => s!"<{" ".intercalate (t.map showEvent)} | {showOutcome o}>"
  | .atEnd t l _ _ => s!"<{" ".intercalate (t.map showEvent)} | at end of b{l}>"
  | .fuel t => s!"<{" ".intercalate (t.map showEvent)} | out of fuel>"

/-! ### oracles -/

def mix (a b : UInt64) : UInt64 :=
  let z := a + 0x9E3779B97f4A7C15 + b * 0xBF58476D1CE4E5B9
  let z := (z ^^^ (z >>> 30)) * 0xBF58476D1CE4E5B9
  let z := (z ^^^ (z >>> 27)) * 0x94D049BB133111EB
  z ^^^ (z >>> 31)

def mixN (a : UInt64) (b : Nat) : UInt64 := mix a (UInt64.ofNat b)

/-- successor with the largest hash of (label, #entries so far); ties: first in the list -/
def pickBest (seed : UInt64) (k : Clk) : List Label → Label
  | [] => 0
  | l :: rest =>
    let score := fun (x : Label) => mixN (mixN seed x) (k.visitsOf x)
    (rest.foldl (fun (best : Label × UInt64) x =>
      let s := score x
      if s > best.2 then (x, s) else best) (l, score l)).1

/-- `blockKey = false`: havoc key uses #havocs so far (simplify); `true`: #blocks entered (dce, lower).
    `allowed`: when non-empty, choices are restricted to these labels where possible -/
def mkOracle (seed : UInt64) (cands : Array Int) (blockKey : Bool) (allowed : List Label) : Oracle where
  hv := fun k x =>
    let c := if blockKey then k.blk else k.hav
    let h := mixN (mixN (mixN (mix seed 77) x) k.ev) c
    cands.getD (h.toNat % cands.size) 0
  pick := fun k _ ss =>
    let ss' := if allowed.isEmpty then ss else
      (let r := ss.filter (fun l => allowed.contains l); if r.isEmpty then ss else r)
    pickBest seed k ss'

partial def intsOfS : Sexp → List Int
  | .atom s => match s.toInt? with | some k => [k] | none => []
  | .list xs => xs.flatMap intsOfS

def progCands (req : Sexp) : Array Int :=
  let cs := (intsOfS req).filter (fun k => k.natAbs < 1000)
  let base : List Int := [0, 1, -1, 2, -2, 3, 7, -7, 10]
  ((cs.flatMap (fun k => [k, k + 1, k - 1, -k])) ++ base).eraseDups.toArray

def inputState (seed : UInt64) (cands : Array Int) : State :=
  fun x => cands.getD ((mixN (mix seed 1234567) x).toNat % cands.size) 0

/-- the only reason to halt an ordinary run: some value became astronomically large
    (repeated squaring in a loop); such runs are discarded like runs out of fuel -/
def huge (nv : Nat) (σ : State) : Bool := (List.range nv).any (fun x => (σ x).natAbs > 2 ^ 192)

def never (nv : Nat) : Clk → Label → State → Bool := fun _ _ σ => huge nv σ

def startClk (P : Prog) : Clk := ({} : Clk).enter P.entry

def runFromEntry (P : Prog) (O : Oracle) (fuel : Nat) (σ : State) : Res :=
  run P O (never P.nvars) fuel (startClk P) (P.stmtsOf P.entry) P.entry σ

/-! ### C17: differential execution -/

/-- compare an exit-reaching run `a` with its counterpart `b` -/
def exitMismatch (lowered : Bool) (a b : Res) : Bool :=
  match a, b with
  | .done ta (.exit oa), .done tb (.exit ob) =>
    !(oa == ob && (if lowered then eraseKinds ta == eraseKinds tb else ta == tb))
  | .done _ (.exit _), .fuel _ => false
  | .done _ (.exit _), .atEnd _ _ _ _ => false
  | .done _ (.exit _), _ => true
  | _, _ => false

def isExitRes : Res → Bool
  | .done _ (.exit _) => true
  | _ => false

def isDivzero : Res → Bool
  | .done _ .divzero => true
  | _ => false

structure XfStats where
  exits : Nat := 0

/-- labels from which the exit can be reached in the graph (choices are restricted to them: a
    run that walks into a block that cannot reach the exit is not exit-reaching, hence neither
    needs nor is a counterpart) -/
def usefulLabels (P : Prog) : List Label :=
  match P.exit with
  | some x => P.coReachable x
  | none => []

/-- returns a violation message, or the number of exit-reaching comparisons made -/
def diffExec (pass : String) (P T : Prog) (cands : Array Int) (nruns fuel : Nat) : Except String Nat := do
  let blockKey := pass != "simplify"
  let lowered := pass == "lower"
  let allowP := usefulLabels P
  let allowT := usefulLabels T
  let mut exits := 0
  for r in [0:nruns] do
    let seed := mixN 0xC0FFEE r
    let σ := inputState seed cands
    let rT := runFromEntry T (mkOracle seed cands blockKey allowT) fuel σ
    let rO := runFromEntry P (mkOracle seed cands blockKey allowP) fuel σ
    if isDivzero rO then continue
    if isExitRes rO || isExitRes rT then exits := exits + 1
    -- original ⇒ transformed
    if exitMismatch lowered rO rT then
      throw s!"[C17] {pass}: input {showState P.nvars σ} oracle-seed {r}: original {showRes rO} but transformed {showRes rT}"
    -- transformed ⇒ original
    if exitMismatch lowered rT rO then
      throw s!"[C17] {pass}: input {showState P.nvars σ} oracle-seed {r}: transformed {showRes rT} but original {showRes rO}"
  return exits

def exitHasSucc (P : Prog) : Bool := !P.exitNoSucc

def handleXf (op : String) (args res : List Sexp) : Verdict :=
  match args with
  | [reqProg] =>
    match pProg reqProg, (findTag "orig" res).bind (·.head?) |>.bind pProg with
    | some R, some P =>
      if !sameModuloPreds R P then .bad s!"xf.{op}: the CFG read back differs from the request" else
      if !P.wf then .bad s!"xf.{op}: generated CFG is not well formed" else
      let order := ((findTag "order" res).getD []).filterMap pLab
      let safe := ((findTag "safe" res).getD []).filterMap (fun p => match p with
        | .list [l, k] => do pure ((← pLab l), (← k.nat?))
        | _ => none)
      let implRes : Option (Option Prog) := match findTag "res" res with
        | some [.atom "err"] => some none
        | some [p] => (pProg p).map some
        | _ => none
      match implRes with
      | none => .bad s!"xf.{op}: result"
      | some impl =>
        -- (E) models
        let models : List (Option Prog) := match op with
          | "simplify" => [simplify Variant.cur P]
          | "dce" => [dce Variant.cur order dceMaxIterations P]
          | "lower" => [some (lower P safe)]
          | _ => []
        if models.isEmpty then .bad s!"xf.{op}" else
        let agrees := models.any (fun m => match m, impl with
          | none, none => true
          | some a, some b => sameProg a b
          | _, _ => false)
        match impl with
        | none =>
          .unsound s!"[C17] {op} raises CRAB_ERROR on a well-formed CFG (entry b{P.entry}): no transformed CFG{if simplify Variant.old P == none && op == "simplify" then " (as before fix 4b61ab6: merge_blocks_rec folds the entry block, then remove(entry))" else ""}"
        | some T =>
          -- (WF)
          if !T.wf then .unsound s!"[C17] {op}: the transformed CFG is not well formed (labels / entry / exit / edge symmetry)" else
          if T.entry != P.entry then .unsound s!"[C17] {op}: entry changed from b{P.entry} to b{T.entry}" else
          if !exitHasSucc P && T.exit != P.exit then .unsound s!"[C17] {op}: exit changed" else
          -- (R)
          let cands := progCands reqProg
          let r : Except String Nat :=
            if P.exit.isNone || exitHasSucc P then .ok 0
            else diffExec op P T cands 120 160
          match r with
          | .error m => .unsound m
          | .ok _ =>
            if agrees then .ok
            else .drift s!"xf.{op}: transformed CFG differs from the model"
    | _, _ => .bad s!"xf.{op}: parse"
  | _ => .bad s!"xf.{op}: args"

/-! ### C18: paired executions -/

/-- first index where the two traces differ (within the common prefix) -/
def traceConflict : List Event → List Event → Bool
  | a :: as, b :: bs => a != b || traceConflict as bs
  | _, _ => false

def resDiffer (a b : Res) : Bool :=
  match a, b with
  | .done ta oa, .done tb ob => !(ta == tb && oa == ob)
  | .done ta _, .fuel tb => traceConflict ta tb || tb.length > ta.length
  | .fuel ta, .done tb _ => traceConflict ta tb || ta.length > tb.length
  | .fuel ta, .fuel tb => traceConflict ta tb
  | _, _ => false

/-- runs from the entry, stopped at every block end; at each stop the variables reported dead
    there are perturbed.  `deadAt l` = variables to test at the end of `l`. -/
def pairedExec (P : Prog) (deadAt : Label → List Var) (cands : Array Int) (nruns fuel : Nat) :
    Except String Nat := do
  let mut tested := 0
  let useful := usefulLabels P
  for r in [0:nruns] do
    let seed := mixN 0xBADC0DE r
    let σ0 := inputState seed cands
    -- every other run only takes successors from which the exit is reachable
    let O := mkOracle seed cands false (if r % 2 == 1 then useful else [])
    -- walk block by block
    let mut cur : Res := run P O (fun _ _ _ => true) fuel (startClk P) (P.stmtsOf P.entry) P.entry σ0
    let mut steps := 0
    let mut seen : List (Label × Nat) := []
    while steps < 24 do
      steps := steps + 1
      match cur with
      | .atEnd _ l σ k =>
        let cnt := (seen.lookup l).getD 0
        seen := (l, cnt + 1) :: seen.filter (fun p => p.1 != l)
        if cnt < 2 then
          let dead := deadAt l
          if !dead.isEmpty then
            let ref := run P O (never P.nvars) fuel k [] l σ
            for x in dead do
              for j in [0:3] do
                let v' := cands.getD ((mixN (mixN (mixN seed x) j) steps).toNat % cands.size) 0
                if v' != σ x then
                  tested := tested + 1
                  let alt := run P O (never P.nvars) fuel k [] l (σ.set x v')
                  if resDiffer ref alt then
                    throw s!"variable v{x} at the end of b{l}: input {showState P.nvars σ0} oracle-seed {r}, state there {showState P.nvars σ}; continuing gives {showRes ref}, with v{x}:={v'} it gives {showRes alt}"
        -- continue to the end of the next block
        let blk := k.blk
        cur := if huge P.nvars σ then .fuel [] else run P O (fun k' _ _ => k'.blk != blk) fuel k [] l σ
      | _ => break
  return tested

def pSets (xs : List Sexp) : Option (List (Label × List Var)) :=
  xs.mapM (fun e => match e with
    | .list (l :: vs) => do pure ((← pLab l), (← vs.mapM pVar))
    | _ => none)

def handleLive (op : String) (args res : List Sexp) : Verdict :=
  match op, args with
  | "run", [reqProg] =>
    match pProg reqProg, (findTag "orig" res).bind (·.head?) |>.bind pProg,
          (findTag "out" res).bind pSets, (findTag "dead" res).bind pSets with
    | some R, some P, some outI, some deadI =>
      if !sameModuloPreds R P then .bad "live.run: the CFG read back differs from the request" else
      if !P.wf then .bad "live.run: generated CFG is not well formed" else
      let order := ((findTag "order" res).getD []).filterMap pLab
      let outOfI := fun (l : Label) => (outI.lookup l).getD []
      let deadOfI := fun (l : Label) => (deadI.lookup l).getD []
      let vars := List.range P.nvars
      -- what the implementation reports dead at the end of l
      let reportedDead := fun (l : Label) => vars.filter (fun x => !(outOfI l).contains x)
      -- dead_exit must be consistent with get
      match P.labels.find? (fun l => (deadOfI l).any (fun x => (outOfI l).contains x)) with
      | some l => .unsound s!"[C18] live.run: dead_exit(b{l}) and get(b{l}) overlap"
      | none =>
      let cands := progCands reqProg
      -- (R) paired executions
      match pairedExec P reportedDead cands 32 120 with
      | .error m => .unsound s!"[C18] reported dead (not in get) but relevant: {m}"
      | .ok _ =>
        -- (E) model of the code
        let agrees :=
          match codedLiveOut Variant.cur P order with
          | none => false
          | some L => P.labels.all (fun l =>
              canonSet (L l) == canonSet (outOfI l) &&
              canonSet (codedDeadExit P L l) == canonSet (deadOfI l))
        -- (S) implementation-dead ⊆ specification-dead
        match specLiveOut P with
        | none => .bad "live.run: specification liveness ran out of fuel"
        | some S =>
          if !isSpecSol P S then .bad "live.run: specification liveness is not a solution" else
          match P.labels.findSome? (fun l =>
            (vars.find? (fun x => (S l).contains x && !(outOfI l).contains x)).map (fun x => (l, x))) with
          | some (l, x) =>
            .drift s!"[C18] live.run: v{x} is live at the end of b{l} by the specification (some path reads it before writing it) but get(b{l}) = {showVars (canonSet (outOfI l))}; no execution witness found"
          | none =>
            if agrees then .ok else .drift "live.run: get / dead_exit differ from the model"
    | _, _, _, _ => .bad "live.run: parse"
  | _, _ => .bad s!"live.{op}"

end Xf
export Xf (handleXf handleLive)
end Driver
