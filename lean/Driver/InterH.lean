import Driver.Common
import CrabModel.Inter.ISemantics

/-!
  Handler for component `inter` (mechanism R, properties C09 / C10): runs many concrete
  executions of the multi-function program from `main` with the call-stack semantics of
  `CrabModel/Inter/ISemantics.lean` and checks everything the real inter-procedural analysis
  reported:

    [C09] (mode td) / [C10] (mode bu)
      * every visited (function, block, frame) satisfies the reported pre invariant, and the
        post invariant at the end of the block (is_bottom, at(v) for every v, exported constraints);
      * every returned concrete call whose input values satisfy a stored precondition has
        (inputs, outputs) satisfying the stored postcondition (`get_summary`);
    [C02] no execution fails an assert all of whose filed verdicts are safe/unreachable, and no
          execution reaches an assert all of whose verdicts are `unreachable`.

  The witness in a message is the choice stream prefix consumed by the failing execution (the
  program is the request line itself): `run prog stream` replays it.

  Shape tags in the messages (used by the known-finding matchers):
    [xshare]            some call site uses a name of the callee's declaration at another position
                        (`IProg.crossShare`; parameters are wired by sequential assignments)
    [rec] [mutual] [scc-multi-entry]   call-graph cycles (`shapeTags`)
    [bounded-contexts-only]   mode td with max_call_contexts < UINT_MAX: the harness also ran the same
                        request with unbounded contexts (result item `alt`) and the same executions
                        satisfy everything reported there: the violation exists only because calling
                        contexts were joined (DESIGN.md §4 #6)
-/
namespace Driver
open Crab Crab.Inter

namespace InterDrv

structure Facts where
  bot : Bool
  ivs : Array Itv
  csts : List ICst
  deriving Inhabited

def varOf : Sexp → Option Nat
  | .atom s => if s.startsWith "v" then (s.drop 1).toString.toNat? else none
  | _ => none

def parseILin : Sexp → Option ILin
  | .list (.atom "lin" :: c :: ts) => do
    let c ← c.int?
    let ts ← ts.mapM (fun t => match t with
      | .list [k, v] => do pure ((← k.int?), (← varOf v))
      | _ => none)
    pure ⟨c, ts⟩
  | _ => none

def parseICst : Sexp → Option ICst
  | .list [.atom k, l] => do
    let l ← parseILin l
    let k ← (match k with
      | "le" => some IRel.le | "lt" => some IRel.lt | "eq" => some IRel.eq | "ne" => some IRel.ne
      | _ => none)
    pure ⟨k, l⟩
  | _ => none

def parseFacts : Sexp → Option Facts
  | .list [.atom "d", b, .list (.atom "iv" :: ivs), .list (.atom "cs" :: cs)] => do
    let b ← parseBool b
    let ivs ← ivs.mapM parseItv
    let cs ← cs.mapM parseICst
    pure ⟨b, ivs.toArray, cs⟩
  | _ => none

def labelIdx (labels : List String) (l : String) : Option Nat := labels.findIdx? (· == l)

def parseStmt (fnames : List String) : Sexp → Option IStmt
  | .list [.atom "assign", x, e] => do pure (.assign (← varOf x) (← parseILin e))
  | .list [.atom "bin", .atom op, x, y, z] => do
    let op ← (match op with | "add" => some IOp.add | "sub" => some IOp.sub | "mul" => some IOp.mul | _ => none)
    let z ← (match varOf z with
      | some v => some (IArg.var v)
      | none => z.int?.map IArg.cst)
    pure (.bin op (← varOf x) (← varOf y) z)
  | .list [.atom "havoc", x] => do pure (.havoc (← varOf x))
  | .list [.atom "assume", c] => do pure (.assume (← parseICst c))
  | .list [.atom "assert", id, c] => do pure (.assert (← id.nat?) (← parseICst c))
  | .list [.atom "call", .atom f, .list (.atom "lhs" :: lhs), .list (.atom "args" :: args)] => do
    let fi ← fnames.findIdx? (· == f)
    pure (.call fi (← lhs.mapM varOf) (← args.mapM varOf))
  | _ => none

def parseFun (fnames : List String) : Sexp → Option (IFun × List String)
  | .list (.atom "fun" :: .atom name :: .list (.atom "in" :: ins) :: .list (.atom "out" :: outs) :: blks) => do
    let labels ← blks.mapM (fun b => match b with
      | .list (.atom "blk" :: .atom l :: _) => some l
      | _ => none)
    let blocks ← blks.mapM (fun b => match b with
      | .list [.atom "blk", _, .list (.atom "st" :: sts), .list (.atom "succ" :: ss)] => do
        let sts ← sts.mapM (parseStmt fnames)
        let ss ← ss.mapM (fun s => s.atom? >>= labelIdx labels)
        pure ({ stmts := sts.toArray, succs := ss.toArray } : IBlock)
      | _ => none)
    pure ({ name := name, ins := (← ins.mapM varOf), outs := (← outs.mapM varOf), blocks := blocks.toArray }, labels)
  | _ => none

def parseProg : Sexp → Option (IProg × List (List String))
  | .list (.atom "prog" :: nv :: funs) => do
    let nv ← nv.nat?
    let fnames ← funs.mapM (fun f => match f with
      | .list (.atom "fun" :: .atom n :: _) => some n
      | _ => none)
    let fs ← funs.mapM (parseFun fnames)
    let main ← fnames.findIdx? (· == "main")
    pure ({ nv := nv, funs := (fs.map (·.1)).toArray, main := main }, fs.map (·.2))
  | _ => none

/-- per function: per block (pre, post); list of (pre, post) summaries -/
structure FunRes where
  blocks : Array (Facts × Facts)
  sums : List (Facts × Facts)
  deriving Inhabited

def parseFunRes (labels : List String) : Sexp → Option FunRes
  | .list (.atom "fun" :: _ :: items) => do
    let mut blocks : Array (Facts × Facts) := Array.replicate labels.length default
    let mut sums : List (Facts × Facts) := []
    for it in items do
      match it with
      | .list [.atom "blk", .atom l, pre, post] =>
        let i ← labelIdx labels l
        blocks := blocks.setIfInBounds i ((← parseFacts pre), (← parseFacts post))
      | .list (.atom "sum" :: pps) =>
        -- `ppi` = the exported facts of the precondition only over-approximate it (non-convex
        -- domain): membership of concrete inputs cannot be decided, the pair is not checked
        let ps ← (pps.filter (fun pp => match pp with | .list (.atom "ppi" :: _) => false | _ => true)).mapM
          (fun pp => match pp with
            | .list [.atom "pp", a, b] => do pure ((← parseFacts a), (← parseFacts b))
            | _ => none)
        sums := ps
      | _ => none
    pure ⟨blocks, sums⟩
  | _ => none

/-- first violated fact of `f` by the frame `σ`; with `only = some vs` only facts over `vs` count -/
def violates (f : Facts) (σ : Env) (only : Option (List Var)) : Option String :=
  if f.bot then some "is_bottom" else
  let inScope : Var → Bool := fun v => match only with | none => true | some vs => vs.contains v
  match (List.range f.ivs.size).find? (fun i => inScope i && !(f.ivs.getD i Itv.top).contains (σ.getD i 0)) with
  | some i => some s!"at(v{i})={showItv (f.ivs.getD i Itv.top)}"
  | none =>
    match f.csts.find? (fun c => c.e.vars.all inScope && !c.sat σ) with
    | some c => some s!"exported constraint c={c.e.c} terms={c.e.ts} rel={repr c.k}"
    | none => none

partial def intsOf : Sexp → List Int
  | .atom s => match s.toInt? with | some k => [k] | none => []
  | .list xs => xs.flatMap intsOf

def lcg (s : Nat) : Nat := (s * 6364136223846793005 + 1442695040888963407) % 2 ^ 64

def STREAM : Nat := 128
def NEXEC : Nat := 120
def FUEL : Nat := 600

/-- a choice stream: `STREAM` values drawn from the candidates (constants of the program, their
    neighbours, a few fixed ones), read cyclically -/
def mkStream (cands : Array Int) (seed : Nat) : Array Int × Nat := Id.run do
  let mut s := seed
  let mut out : Array Int := Array.mkEmpty STREAM
  for _ in [0:STREAM] do
    s := lcg s
    let r := s / 2 ^ 33
    -- one in eight: a small value regardless of the candidates
    let v := if r % 8 == 0 then (Int.ofNat ((r / 8) % 9)) - 2 else cands.getD ((r / 8) % cands.size) 0
    out := out.push v
  return (out, s)

def showStream (a : Array Int) (n : Nat) : String := toString ((a.toList.take (min n STREAM)))

structure Ctx where
  tag : String
  prog : IProg
  labels : List (List String)
  res : Array FunRes
  checks : List (Nat × List String)

def fname (c : Ctx) (f : Nat) : String := (c.prog.funs.getD f default).name
def blabel (c : Ctx) (f b : Nat) : String := ((c.labels.getD f []).getD b "?")

/-- check one finished execution; `none` = nothing wrong -/
def checkRun (c : Ctx) (stream : Array Int) (cfg : Config) : Option String :=
  let wit : Unit → String := fun _ => s!"choices={showStream stream cfg.ci}"
  -- invariants
  match cfg.tr.events.findSome? (fun e =>
      let fr := c.res.getD e.fn default
      let (pre, post) := fr.blocks.getD e.blk default
      (violates (if e.atExit then post else pre) e.env none).map (fun f => (e, f))) with
  | some (e, f) =>
    some s!"{c.tag} invariant: function {fname c e.fn} block {blabel c e.fn e.blk} {if e.atExit then "post" else "pre"}: reachable frame {e.env.toList} violates {f}; {wit ()}"
  | none =>
  -- summaries
  match cfg.tr.calls.findSome? (fun r =>
      let f := c.prog.funs.getD r.fn default
      let σ0 : Env := Array.replicate c.prog.nv 0
      let σ := setMany (setMany σ0 f.ins r.ins) f.outs r.outs
      (c.res.getD r.fn default).sums.findSome? (fun (pre, post) =>
        match violates pre σ (some f.ins) with
        | some _ => none
        | none => (violates post σ (some (f.ins ++ f.outs))).map (fun v => (r, v)))) with
  | some (r, v) =>
    some s!"{c.tag} summary: function {fname c r.fn} call inputs={r.ins} outputs={r.outs} satisfies a stored precondition but violates its postcondition: {v}; {wit ()}"
  | none =>
  -- assertion verdicts
  cfg.tr.asserts.findSome? (fun (id, ok) =>
    match c.checks.find? (·.1 == id) with
    | some (_, ks) =>
      if ks.isEmpty then none
      else if !ok && ks.all (fun k => k == "s" || k == "u") then
        some s!"[C02] {c.tag} assert #{id} reported {ks} fails in an execution; {wit ()}"
      else if ks.all (· == "u") then
        some s!"[C02] {c.tag} assert #{id} reported unreachable {ks} is executed; {wit ()}"
      else none
    | none => none)

/-- callees of each function -/
def calleesOf (p : IProg) : Array (List Nat) :=
  p.funs.map (fun f => (f.blocks.toList.flatMap (fun b => b.stmts.toList.filterMap (fun s =>
    match s with | .call c _ _ => some c | _ => none))).eraseDups)

/-- `reach[f]` = functions reachable from `f` by at least one call -/
def reachOf (p : IProg) : Array (List Nat) :=
  let cs := calleesOf p
  let n := p.funs.size
  let step (r : Array (List Nat)) : Array (List Nat) :=
    r.map (fun xs => (xs ++ xs.flatMap (fun x => cs.getD x [])).eraseDups)
  (List.range n).foldl (fun r _ => step r) cs

/-- shape tags used by the known-finding matchers:
    `[rec]` some call-graph cycle, `[mutual]` a cycle through two functions,
    `[scc-multi-entry]` a cycle of >= 2 functions with two members called from outside it -/
def shapeTags (p : IProg) : String :=
  let cs := calleesOf p
  let r := reachOf p
  let n := p.funs.size
  let fs := List.range n
  let inCyc := fun f => (r.getD f []).contains f
  let same := fun f g => f == g || ((r.getD f []).contains g && (r.getD g []).contains f)
  let isRec := fs.any inCyc
  let isMut := fs.any (fun f => fs.any (fun g => f != g && same f g))
  let enteredFromOutside := fun g => fs.any (fun h => !same h g && (cs.getD h []).contains g)
  let multi := fs.any (fun f => fs.any (fun g => f != g && same f g && enteredFromOutside f && enteredFromOutside g))
  (if isRec then "[rec]" else "") ++ (if isMut then "[mutual]" else "") ++ (if multi then "[scc-multi-entry]" else "")

/-- everything the analysis reported for one parameter setting -/
def parseResult (p : IProg) (labels : List (List String)) (res : List Sexp) :
    Option (Array FunRes × List (Nat × List String)) :=
  let funItems := res.filter (fun r => match r with | .list (.atom "fun" :: _) => true | _ => false)
  let chkItem := res.find? (fun r => match r with | .list (.atom "chk" :: _) => true | _ => false)
  if funItems.length != p.funs.size then none else
  match (List.range funItems.length).mapM (fun i => parseFunRes (labels.getD i []) (funItems.getD i (.atom "?"))) with
  | none => none
  | some frs =>
    let checks : List (Nat × List String) := match chkItem with
      | some (.list (_ :: cs)) => cs.filterMap (fun c => match c with
          | .list (id :: ks) => id.nat?.map (fun i => (i, ks.filterMap Sexp.atom?))
          | _ => none)
      | _ => []
    some (frs.toArray, checks)

end InterDrv

open InterDrv in
def handleInter (op : String) (args res : List Sexp) : Verdict :=
  match op, args with
  | "run", [.atom mode, .atom dom, par, prog] =>
    match res with
    | [.atom "err"] => .skip s!"inter.run {mode} {dom}: CRAB_ERROR raised by the analysis"
    | _ =>
    match parseProg prog with
    | none => .bad "inter.run: program"
    | some (p, labels) =>
    if !p.wf then .skip "inter.run: program not well formed (input redefined / arity)" else
    match parseResult p labels res with
    | none => .bad "inter.run: result"
    | some (frs, checks) =>
    let tag := (if mode == "bu" then "[C10]" else "[C09]") ++ (if p.crossShare then "[xshare]" else "") ++ shapeTags p ++
               s!" inter.run {mode} {dom} {par}"
    let ctx : Ctx := { tag := tag, prog := p, labels := labels, res := frs, checks := checks }
    let cs := (intsOf prog).filter (fun k => k.natAbs < 2 ^ 40)
    let base : List Int := [0, 1, -1, 2, 3, 4, 5, -2, 7, -7, 100, -100]
    let cands := ((cs.flatMap (fun k => [k, k + 1, k - 1])) ++ base).eraseDups.toArray
    let seed0 := (intsOf prog).foldl (fun a k => (a * 31 + k.natAbs) % 2 ^ 61) (p.funs.size + 11)
    let rec go (c : Ctx) (n : Nat) (seed : Nat) : Option String :=
      match n with
      | 0 => none
      | n + 1 =>
        let (stream, seed') := mkStream cands seed
        let cfg := run p (fun i => stream.getD (i % STREAM) 0) FUEL
        match checkRun c stream cfg with
        | some m => some m
        | none => go c n seed'
    match go ctx NEXEC seed0 with
    | some m =>
      -- the same executions against the result for unbounded calling contexts (if present)
      let alt : Option (List Sexp) := res.findSome? (fun (r : Sexp) => match r with
        | Sexp.list (Sexp.atom "alt" :: items) => some items
        | _ => none)
      match alt with
      | none => .unsound m
      | some [Sexp.atom "err"] => .unsound ("[alt-err] " ++ m)
      | some items =>
        match parseResult p labels items with
        | none => .bad "inter.run: alt result"
        | some (frs', checks') =>
          match go { ctx with res := frs', checks := checks' } NEXEC seed0 with
          | none => .unsound ("[bounded-contexts-only] " ++ m)
          | some _ => .unsound m
    | none => .ok
  | _, _ => .bad s!"inter.{op}"

end Driver
