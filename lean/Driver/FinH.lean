import Driver.ItvH
import CrabModel.Scalar.Sign
import CrabModel.Scalar.Constant

/-!
  Handlers for the finite / flat scalar abstractions:
    `sgn`  : crab::domains::sign<z_number>      (model = extracted table, `Sign.binop` …)
    `bool` : crab::domains::boolean_value        (model = extracted table)
    `cst`  : crab::domains::constant<z_number>   (hand model `Crab.Cst`)
  Lines:
    (sgn.<op> x y) => r|err      (sgn.leq x y) => 0|1   (sgn.eq x y) => 0|1
    (sgn.ofnum n) => s           (sgn.toitv x) => I     (sgn.fromitv I) => s
    (bool.<op> x y) => r|err     (bool.neg x) => r      (bool.leq x y) / (bool.eq x y) => 0|1
    (cst.<op> X Y) => R          (cst.leq X Y) / (cst.eq X Y) => 0|1     X ::= bot | top | n
  The implementation's answer is always tested against the concrete operation on sampled
  members of the operands, also when it equals the model's answer.
-/
namespace Driver
open Crab

/-! ### sign -/

def signSamples (s : Sign) : List Int :=
  ([0, 1, -1, 2, -2, 3, -3, 7, -7, 64, -64, 2 ^ 31, -(2 ^ 31), 2 ^ 64 + 1, -(2 ^ 64) - 1] : List Int).filter
    (fun k => s.has (Cls.of k))

def signContains (s : Sign) (k : Int) : Bool := s.has (Cls.of k)

def findUnsoundSign (op : String) (x y r : Sign) : Option String :=
  match op with
  | "join" =>
    (signSamples x ++ signSamples y).findSome? (fun a =>
      if signContains r a then none else some s!"witness a={a} in operand not-in {r.name}")
  | "meet" =>
    (signSamples x).findSome? (fun a =>
      if signContains y a && !signContains r a then some s!"witness a={a} in both not-in {r.name}" else none)
  | _ =>
    (signSamples x).findSome? (fun a => (signSamples y).findSome? (fun b =>
      match concBin op a b with
      | some c => if signContains r c then none else some s!"witness a={a} b={b} conc={c} not-in {r.name}"
      | none => none))

def parseSignOrErr : Sexp → Option (Option Sign)
  | .atom "err" => some none
  | .atom s => (Sign.ofName? s).map some
  | _ => none

def showOptSign : Option Sign → String
  | none => "err"
  | some s => s.name

def handleSgn (op : String) (args res : List Sexp) : Verdict :=
  match op, args, res with
  | "ofnum", [n], [.atom r] =>
    match n.int?, Sign.ofName? r with
    | some n, some r =>
      if !signContains r n then .unsound s!"sgn.ofnum {n} impl={r.name} does not contain {n}"
      else if Sign.ofInt n == r then .ok else .drift s!"sgn.ofnum {n} model={(Sign.ofInt n).name} impl={r.name}"
    | _, _ => .bad "sgn.ofnum"
  | "toitv", [.atom x], [i] =>
    match Sign.ofName? x, parseItv i with
    | some x, some i =>
      match (signSamples x).find? (fun k => !i.contains k) with
      | some k => .unsound s!"sgn.toitv {x.name} impl={showItv i} misses {k}"
      | none =>
        match Sign.toInterval x with
        | some m => if Itv.beq m i && Itv.beq i m then .ok else .drift s!"sgn.toitv {x.name} table={showItv m} impl={showItv i}"
        | none => .drift s!"sgn.toitv {x.name}: no table entry"
    | _, _ => .bad "sgn.toitv"
  | "fromitv", [i], [.atom r] =>
    match parseItv i, Sign.ofName? r with
    | some i, some r =>
      match (itvSamples i).find? (fun k => !signContains r k) with
      | some k => .unsound s!"sgn.fromitv {showItv i} impl={r.name} misses {k}"
      | none =>
        let m := Sign.fromInterval i
        if m == r then .ok else .drift s!"sgn.fromitv {showItv i} model={m.name} impl={r.name}"
    | _, _ => .bad "sgn.fromitv"
  | _, [.atom x, .atom y], [r] =>
    match Sign.ofName? x, Sign.ofName? y with
    | some x, some y =>
      if op == "leq" || op == "eq" then
        match parseBool r with
        | none => .bad s!"sgn.{op} result"
        | some rb =>
          let m := if op == "leq" then Sign.leq x y else Sign.beq x y
          let ctx := s!"sgn.{op} {x.name} {y.name} table={m} impl={rb}"
          if op == "leq" && rb then
            match (signSamples x).find? (fun k => !signContains y k) with
            | some k => .unsound (ctx ++ s!" witness {k} in left not in right")
            | none => if m == some rb then .ok else .drift ctx
          else if op == "leq" && !rb && (x == Sign.bot || x == y) then
            .unsound (ctx ++ " (must answer yes: bottom/equal operands)")
          else if m == some rb then .ok else .drift ctx
      else
        match SOp.ofName? op, parseSignOrErr r with
        | some sop, some ri =>
          let m := Sign.binop sop x y
          let ctx := s!"sgn.{op} {x.name} {y.name} table={showOptSign m} impl={showOptSign ri}"
          match ri with
          | none => .unsound ("CRAB_ERROR raised by " ++ ctx)
          | some rv =>
            match findUnsoundSign op x y rv with
            | some w => .unsound (ctx ++ " " ++ w)
            | none => if m == ri then .ok else .drift (ctx ++ " (generated table is stale)")
        | none, _ => .bad s!"sgn.{op}: unknown op"
        | _, none => .bad s!"sgn.{op}: result"
    | _, _ => .bad s!"sgn.{op}: operands"
  | _, _, _ => .bad s!"sgn.{op}: shape"

/-! ### boolean_value -/

def boolSamples (v : BoolV) : List Bool := [false, true].filter v.has

def parseBoolVOrErr : Sexp → Option (Option BoolV)
  | .atom "err" => some none
  | .atom s => (BoolV.ofName? s).map some
  | _ => none
def showOptBoolV : Option BoolV → String
  | none => "err"
  | some s => s.name

def handleBoolV (op : String) (args res : List Sexp) : Verdict :=
  match op, args, res with
  | "neg", [.atom x], [r] =>
    match BoolV.ofName? x, parseBoolVOrErr r with
    | some x, some ri =>
      let m := BoolV.neg x
      let ctx := s!"bool.neg {x.name} table={showOptBoolV m} impl={showOptBoolV ri}"
      match ri with
      | none => .unsound ("CRAB_ERROR raised by " ++ ctx)
      | some rv =>
        match (boolSamples x).find? (fun a => !rv.has (!a)) with
        | some a => .unsound (ctx ++ s!" witness a={a}")
        | none => if m == ri then .ok else .drift (ctx ++ " (generated table is stale)")
    | _, _ => .bad "bool.neg"
  | _, [.atom x, .atom y], [r] =>
    match BoolV.ofName? x, BoolV.ofName? y with
    | some x, some y =>
      if op == "leq" || op == "eq" then
        match parseBool r with
        | none => .bad s!"bool.{op} result"
        | some rb =>
          let m := if op == "leq" then BoolV.leq x y else BoolV.beq x y
          let ctx := s!"bool.{op} {x.name} {y.name} table={m} impl={rb}"
          if op == "leq" && rb then
            match (boolSamples x).find? (fun k => !y.has k) with
            | some k => .unsound (ctx ++ s!" witness {k} in left not in right")
            | none => if m == some rb then .ok else .drift ctx
          else if op == "leq" && !rb && (x == BoolV.bot || x == y) then
            .unsound (ctx ++ " (must answer yes: bottom/equal operands)")
          else if m == some rb then .ok else .drift ctx
      else
        match BOp.ofName? op, parseBoolVOrErr r with
        | some bop, some ri =>
          let m := BoolV.binop bop x y
          let ctx := s!"bool.{op} {x.name} {y.name} table={showOptBoolV m} impl={showOptBoolV ri}"
          match ri with
          | none => .unsound ("CRAB_ERROR raised by " ++ ctx)
          | some rv =>
            let bad : Option String :=
              match bop with
              | .join | .widen =>
                (boolSamples x ++ boolSamples y).findSome? (fun a => if rv.has a then none else some s!"witness {a} in operand")
              | .meet | .narrow =>
                (boolSamples x).findSome? (fun a => if y.has a && !rv.has a then some s!"witness {a} in both" else none)
              | _ =>
                (boolSamples x).findSome? (fun a => (boolSamples y).findSome? (fun b =>
                  match bop.conc a b with
                  | some c => if rv.has c then none else some s!"witness a={a} b={b} conc={c}"
                  | none => none))
            match bad with
            | some w => .unsound (ctx ++ " " ++ w)
            | none => if m == ri then .ok else .drift (ctx ++ " (generated table is stale)")
        | none, _ => .bad s!"bool.{op}: unknown op"
        | _, none => .bad s!"bool.{op}: result"
    | _, _ => .bad s!"bool.{op}: operands"
  | _, _, _ => .bad s!"bool.{op}: shape"

/-! ### constant -/

def parseCstV : Sexp → Option Crab.Cst
  | .atom "bot" => some .bot
  | .atom "top" => some .top
  | .atom s => s.toInt?.map .val
  | _ => none

def cstVSamples : Crab.Cst → List Int
  | .bot => []
  | .top => [0, 1, -1, 2, -2, 3, -7, 64, 2 ^ 31, -(2 ^ 63), 2 ^ 64 + 1]
  | .val n => [n]

def cstVBin (op : String) (x o : Crab.Cst) : Option Crab.Cst :=
  match op with
  | "join" => some (Crab.Cst.join x o) | "meet" => some (Crab.Cst.meet x o)
  | "widen" => some (Crab.Cst.widen x o) | "narrow" => some (Crab.Cst.narrow x o)
  | "add" => some (Crab.Cst.add x o) | "sub" => some (Crab.Cst.sub x o) | "mul" => some (Crab.Cst.mul x o)
  | "div" => some (Crab.Cst.sdiv x o) | "srem" => some (Crab.Cst.srem x o)
  | "udiv" => some (Crab.Cst.udiv x o) | "urem" => some (Crab.Cst.urem x o)
  | "and" => some (Crab.Cst.and x o) | "or" => some (Crab.Cst.or x o) | "xor" => some (Crab.Cst.xor x o)
  | "shl" => some (Crab.Cst.shl x o) | "lshr" => some (Crab.Cst.lshr x o) | "ashr" => some (Crab.Cst.ashr x o)
  | _ => none

def handleCst (op : String) (args res : List Sexp) : Verdict :=
  match args, res with
  | [a, b], [r] =>
    match parseCstV a, parseCstV b with
    | some x, some o =>
      if op == "leq" || op == "eq" then
        match parseBool r with
        | none => .bad s!"cst.{op} result"
        | some rb =>
          let m := if op == "leq" then Crab.Cst.leq x o else Crab.Cst.beq x o
          let ctx := s!"cst.{op} {x} {o} model={m} impl={rb}"
          if op == "leq" && rb then
            match (cstVSamples x).find? (fun k => !o.contains k) with
            | some k => .unsound (ctx ++ s!" witness {k} in left not in right")
            | none => if m == rb then .ok else .drift ctx
          else if op == "leq" && !rb && (x == Crab.Cst.bot || x == o) then
            .unsound (ctx ++ " (must answer yes: bottom/equal operands)")
          else if m == rb then .ok else .drift ctx
      else
        -- the model (like the code) computes 2^amount for shifts: keep amounts small
        let bigShift := (op == "shl" || op == "lshr" || op == "ashr") &&
          (match o with | .val n => n.natAbs > 4096 | _ => false)
        if bigShift then .skip "cst: shift amount outside the evaluated range"
        else
        match cstVBin op x o with
        | none => .bad s!"cst.{op}: unknown op"
        | some m =>
          match r with
          | .atom "err" => .unsound s!"CRAB_ERROR raised by cst.{op} {x} {o} model={m}"
          | _ =>
            match parseCstV r with
            | none => .bad s!"cst.{op}: result"
            | some rv =>
              let ctx := s!"cst.{op} {x} {o} model={m} impl={rv}"
              let xs := cstVSamples x
              let ys := cstVSamples o
              let bad : Option String :=
                match op with
                | "join" | "widen" =>
                  (xs ++ ys).findSome? (fun k => if rv.contains k then none else some s!"witness {k} in operand")
                | "meet" | "narrow" =>
                  (xs ++ ys).findSome? (fun k => if x.contains k && o.contains k && !rv.contains k then some s!"witness {k} in both" else none)
                | _ =>
                  xs.findSome? (fun a => ys.findSome? (fun b =>
                    match concBin op a b with
                    | some c => if rv.contains c then none else some s!"witness a={a} b={b} conc={c}"
                    | none => none))
              match bad with
              | some w => .unsound (ctx ++ " " ++ w)
              | none => if m == rv then .ok else .drift ctx
    | _, _ => .bad s!"cst.{op}: operands"
  | _, _ => .bad s!"cst.{op}: shape"

end Driver
