import Driver.XformH
import CrabModel.Transform.Crawler

/-!
  Handler for component `crawl` (assertion_crawler; property C18, second half).
  Program text: harness/tprog.hpp, line format: harness/h_crawl.cpp.

    (crawl.run PROG)
      => (orig PROG) (order b..) (cdg (b c..)..) (data (b FACT*)..) (ctrl (b FACT*)..)
         (sdata (b (k FACT*)..)..) (sctrl (b (k FACT*)..)..)          FACT = ((bA kA) v..)

  Checks on every line
   (R) [C18] paired executions.  Forward executions from the entry (inputs and havoc values from
       the program's constants +-1, deterministic scheduler `schedChooser`: at the end of a block
       the successor with the largest hash priority among those whose leading `assume`s hold)
       give states `σ` at block entries (and, for the per-statement answers, in front of
       statements).  For every such point `p`, assertion `A` and variable `x` that the
       implementation does NOT report for `A` at `p`, the execution is continued from `σ` and from
       `σ[x := v]` (two values `v`) with the same havoc values and the same priorities, and the
       outcome sequences of `A` (one boolean per execution of the statement) are compared:
         * runs that end at a false `assume` / `unreachable` are not executions (crab gives them
           no meaning): no judgement for the pair;
         * a run is COMPLETE when it ends at the exit, at a block without successors, or because
           `A` itself failed; it is CUT when another assertion failed, on a division by zero or
           at the bound (40 blocks);
         * data+control answers (`ctrl`, `sctrl`): the second run follows its own path; two
           complete runs must have equal sequences; a cut run must not contradict the other at a
           common position nor be longer than a complete one  (`TIR.differCtrl`).  The pair is
           judged only when the two paths part at a DETERMINISTIC branch (`TIR.detDivergence`):
           at the end of the last common block exactly one successor is feasible in each run.
           Then the scheduler's priorities play no role, and both branch targets carry a leading
           `assume` that is false in the other run -- the way crab encodes a conditional branch.
           (At a branch that is only partly guarded, e.g. `assume` on one successor only, the
           choice is partly non-deterministic and the condition is not on the paths to the
           assertion; the crawler reads branch conditions from the `assume`s it walks through.)
         * data-only answers (`data`, `sdata`; also `ctrl` / `sctrl` when the CFG has no exit
           block and the implementation's control-dependence graph is empty): the second run is FORCED
           along the path (successor list) of the first one, so the k-th outcomes belong to the
           same path position; only a contradiction at a common position counts
           (`TIR.differData`).  A difference that needs another branch is a control dependence
           and outside the claim of this mode.
       A difference is `.unsound "[C18] crawler ..."` with the witness.
   (X) every forward execution is replayed with `TIR.run` (same havoc values, same successors):
       the events and the final status must coincide (ties the executor used here to TIR.run).
   (S) both answers satisfy the data-dependence inequations `TIR.isDataSol` (the hypothesis of
       `C18.crawler_data_sound`); a failure without an execution witness is drift.
   (E) `data`, `ctrl`, `sdata`, `sctrl` equal the model of the code (`TIR.crawl`,
       `TIR.stmtFacts`) run on the implementation's block order and control-dependence graph.
   (G) when every block reaches the exit: the implementation's control-dependence graph is
       compared with the definition (`Prog.specCdg`); a missing pair is drift.
-/
namespace Driver
namespace Crawl
open Crab Crab.TIR Driver.Xf

/-! ### parsing -/

def pFact : Sexp → Option (AId × VarSet)
  | .list (.list [b, k] :: vs) => do pure (((← pLab b), (← k.nat?)), (← vs.mapM pVar))
  | _ => none

/-- `top` anywhere makes the whole line unusable (never produced) -/
def pFacts (xs : List Sexp) : Option Facts := xs.mapM pFact

def pBlockFacts (xs : List Sexp) : Option (List (Label × Facts)) :=
  xs.mapM (fun e => match e with
    | .list (l :: fs) => do pure ((← pLab l), (← pFacts fs))
    | _ => none)

def pStmtFacts (xs : List Sexp) : Option (List (Label × List (Nat × Facts))) :=
  xs.mapM (fun e => match e with
    | .list (l :: ks) => do
      let ks ← ks.mapM (fun k => match k with
        | .list (i :: fs) => do pure ((← i.nat?), (← pFacts fs))
        | _ => none)
      pure ((← pLab l), ks)
    | _ => none)

def pCdg (xs : List Sexp) : Option Cdg :=
  xs.mapM (fun e => match e with
    | .list (l :: cs) => do pure ((← pLab l), (← cs.mapM pLab))
    | _ => none)

/-! ### canonical comparison -/

def canonVars (s : VarSet) : List Nat := (s.toArray.qsort (· < ·)).toList.eraseDups

def aidLt (a b : AId) : Bool := a.1 < b.1 || (a.1 == b.1 && a.2 < b.2)

def canonFacts (F : Facts) : List (AId × List Nat) :=
  ((F.map (fun p => (p.1, canonVars p.2))).toArray.qsort (fun a b => aidLt a.1 b.1)).toList

def sameFacts (a b : Facts) : Bool := canonFacts a == canonFacts b

def showAId (a : AId) : String := s!"(b{a.1} {a.2})"

def showFacts (F : Facts) : String :=
  "{" ++ "; ".intercalate ((canonFacts F).map (fun p => s!"{showAId p.1}->{showVars p.2}")) ++ "}"

def showSeq (s : List Bool) : String := "[" ++ "".intercalate (s.map (fun b => if b then "+" else "-")) ++ "]"

def showPath (l : Label) (p : List Label) : String := " ".intercalate ((l :: p).map (fun x => s!"b{x}"))

def showEnd : End → String
  | .exit => "exit"
  | .sink => "sink"
  | .infeasible => "infeasible"
  | .failed b i => s!"failed(b{b} {i})"
  | .divzero => "divzero"
  | .fuel => "bound"

/-! ### oracles -/

def hvOf (seed : UInt64) (cands : Array Int) : Nat → Var → Int := fun n x =>
  cands.getD ((mixN (mixN (mix seed 77) x) n).toNat % cands.size) 0

def prioOf (seed : UInt64) : Label → Nat → Label → Nat := fun l n l' => (mixN (mixN (mixN (mix seed 99) l) n) l').toNat

def blockFuel : Nat := 40

/-- replay of a trace with `TIR.run` -/
def replayOk (P : Prog) (hv : Nat → Var → Int) (σ0 : State) (t : Trace) : Bool :=
  if t.fin == End.fuel then true else
  let O : Oracle := { hv := fun k x => hv k.hav x, pick := fun k _ sc => t.path.getD (k.blk - 1) (sc.headD 0) }
  match run P O (fun _ _ _ => false) (blockFuel * 64 + 64) (startClk P) (P.stmtsOf P.entry) P.entry σ0 with
  | .done evs o =>
    evs == t.evs.map (·.ev) &&
    (match t.fin, o with
     | .exit, .exit _ => true
     | .sink, .blocked => true
     | .infeasible, .blocked => true
     | .failed _ _, .failed => true
     | .divzero, .divzero => true
     | _, _ => false)
  | _ => false

/-! ### (R) paired executions -/

structure Answers where
  data : Label → Facts
  ctrl : Label → Facts
  sdata : Label → Option (List (Nat × Facts))
  sctrl : Label → Option (List (Nat × Facts))

/-- the assertions for which `x` is not reported -/
def unreported (asserts : List AId) (F : Facts) (x : Var) : List AId :=
  asserts.filter (fun a => !(F.get a).contains x)

/-- attribution of a finding to one of the known defects: which repair (model variant /
    completed control-dependence graph) would have listed `x` for `a` at the point -/
def causeOf (P : Prog) (order : List Label) (cdg : Cdg) (perStmt dataMode : Bool)
    (a : AId) (l : Label) (i : Nat) (x : Var) : String :=
  let listed := fun (cv : CrawlVariant) (g : Cdg) =>
    match crawl cv P (if dataMode then [] else g) order with
    | none => false
    | some M =>
      if perStmt then
        match (stmtFacts cv P (if dataMode then [] else g) l M.get).lookup i with
        | some F => (F.get a).contains x
        | none => false
      else ((M.get l).get a).contains x
  let self := match P.exit with
    | some e => if P.labels.all (fun b => (P.coReachable e).contains b) then P.cdgSpec e else []
    | none => []
  let esc := P.cdgEscape
  let cands : List (String × CrawlVariant × Cdg) :=
    if perStmt then
      [("per-stmt-from-entry", ⟨false, true⟩, cdg),
       ("per-stmt-from-entry+ctrl-def", ⟨true, true⟩, cdg),
       ("per-stmt-from-entry+cdg-self", ⟨false, true⟩, cdg.merge self),
       ("per-stmt-from-entry+cdg-sink", ⟨false, true⟩, cdg.merge esc),
       ("per-stmt-from-entry+several", ⟨true, true⟩, (cdg.merge self).merge esc)]
    else
      [("cdg-self", ⟨false, false⟩, cdg.merge self),
       ("ctrl-def", ⟨true, false⟩, cdg),
       ("cdg-sink", ⟨false, false⟩, cdg.merge esc),
       ("several", ⟨true, false⟩, (cdg.merge self).merge esc)]
  match cands.find? (fun c => listed c.2.1 c.2.2) with
  | some c => c.1
  | none => "unexplained"

/-- the block where the two paths part, and whether each of its successors starts with an `assume` -/
def divergence : Label → List Label → List Label → Option Label
  | l, a :: as, b :: bs => if a == b then divergence a as bs else some l
  | _, _, _ => none

def guardTag (P : Prog) (l : Label) (p1 p2 : List Label) : String :=
  match divergence l p1 p2 with
  | none => "none"
  | some d =>
    let n := ((P.succsOf d).filter (fun s => match (P.stmtsOf s).head? with
      | some (.assume _) => true
      | _ => false)).length
    if n == (P.succsOf d).length then s!"all@b{d}" else if n == 0 then s!"no@b{d}" else s!"some@b{d}"

/-- judge one point: `v` = the visit, `i` = statement index, `fd` / `fc` = the reported facts
    (data-only, data+control) there, when the implementation answered for the point -/
def checkPoint (P : Prog) (order : List Label) (cdg : Cdg) (asserts : List AId) (cands : Array Int) (seed : UInt64) (r : Nat)
    (σ0 : State) (hv : Nat → Var → Int) (ch : Chooser) (ctrlAsData : Bool)
    (v : Visit) (i : Nat) (fd fc : Option Facts) (what : String) : Except String Nat := do
  let cfgTag := match P.exit with
    | none => "no-exit"
    | some x => if P.labels.all (fun l => (P.coReachable x).contains l) then "all-reach-exit" else "some-block-cannot-reach-exit"
  let t1 := runFrom P hv ch blockFuel v i
  if t1.fin == End.infeasible then return 0
  let mut tested := 0
  for x in List.range P.nvars do
    let needD := match fd with | some F => unreported asserts F x | none => []
    let needC := match fc with | some F => unreported asserts F x | none => []
    if needD.isEmpty && needC.isEmpty then continue
    for j in [0:2] do
      let w := cands.getD ((mixN (mixN (mixN (mixN seed x) j) v.step) i).toNat % cands.size) 0
      if w == v.σ x then continue
      let v' : Visit := { v with σ := v.σ.set x w }
      let tForced := runFrom P hv (pathChooser v.step t1.path) blockFuel v' i
      let tSched := runFrom P hv ch blockFuel v' i
      let report := fun (mode : String) (a : AId) (t2 : Trace) =>
        s!"[C18] crawler ({mode}): v{x} is not reported for assert {showAId a} {what}, but from the state {showState P.nvars v.σ} there (input {showState P.nvars σ0}, oracle-seed {r}) the run along {showPath v.l t1.path} ends {showEnd t1.fin} with outcomes {showSeq (aSeq a t1.evs)} of the assertion; with v{x}:={w} the run along {showPath v.l t2.path} ends {showEnd t2.fin} with outcomes {showSeq (aSeq a t2.evs)}; kind={if t1.path == t2.path then "same-path" else "other-path"} diff={if conflict (aSeq a t1.evs) (aSeq a t2.evs) then "value" else "count"} ends={if t1.fin == End.fuel || t2.fin == End.fuel then "bound" else "finite"} guards={guardTag P v.l t1.path t2.path} cfg={cfgTag} cause={causeOf P order cdg (what.endsWith "(per-statement answer)") (mode.startsWith "data-only" || ctrlAsData) a v.l i x}"
      for a in needD do
        tested := tested + 1
        if differData a t1 tForced then throw (report "data-only" a tForced)
      for a in needC do
        tested := tested + 1
        if ctrlAsData then
          if differData a t1 tForced then throw (report "data+control, no exit block" a tForced)
        else
          if detDivergence P v.l t1 tSched && differCtrl a t1 tSched then throw (report "data+control" a tSched)
  return tested

def pairedExec (P : Prog) (order : List Label) (cdg : Cdg) (A : Answers) (cands : Array Int) (nruns : Nat) (perStmt : Bool) : Except String Nat := do
  let asserts := P.asserts.map (·.1)
  if asserts.isEmpty then return 0
  let ctrlAsData := P.exit.isNone && cdg.isEmpty
  let mut tested := 0
  for r in [0:nruns] do
    let seed := mixN 0xC4A37E4 r
    let σ0 := inputState seed cands
    let hv := hvOf seed cands
    let ch := schedChooser P (prioOf seed)
    let t0 := runWith P hv ch blockFuel 0 [] P.entry 0 (P.stmtsOf P.entry) σ0 0
    if r < 4 && !replayOk P hv σ0 t0 then
      throw s!"BAD executor mismatch with TIR.run: input {showState P.nvars σ0} oracle-seed {r}"
    let visits : List Visit := ⟨P.entry, σ0, 0, 0, []⟩ :: t0.visits
    let mut seen : List (Label × Nat) := []
    for v in visits do
      let cnt := (seen.lookup v.l).getD 0
      seen := (v.l, cnt + 1) :: seen.filter (fun p => p.1 != v.l)
      if cnt ≥ 2 then continue
      if !perStmt then
        tested := tested + (← checkPoint P order cdg asserts cands seed r σ0 hv ch ctrlAsData v 0
          (some (A.data v.l)) (some (A.ctrl v.l)) s!"at the entry of b{v.l}")
      if perStmt && cnt == 0 then
        -- the per-statement answers: walk through the block
        let sd := A.sdata v.l
        let sc := A.sctrl v.l
        let mut cur : Option Visit := some v
        let mut k := 0
        for s in P.stmtsOf v.l do
          match cur with
          | none => break
          | some c =>
            let fd := sd.bind (fun m => m.lookup k)
            let fc := sc.bind (fun m => m.lookup k)
            if fd.isSome || fc.isSome then
              tested := tested + (← checkPoint P order cdg asserts cands seed r σ0 hv ch ctrlAsData c k fd fc
                s!"in front of statement {k} of b{v.l} (per-statement answer)")
            match runStmts hv v.l k [s] c.σ c.nh with
            | (_, .fall σ' nh') => cur := some { c with σ := σ', nh := nh' }
            | _ => cur := none
            k := k + 1
  return tested

/-! ### the handler -/

def lookupFacts (m : List (Label × Facts)) (l : Label) : Facts := (m.lookup l).getD []

def handleCrawl (op : String) (args res : List Sexp) : Verdict :=
  match op, args with
  | "run", [reqProg] =>
    match pProg reqProg, (findTag "orig" res).bind (·.head?) |>.bind pProg,
          (findTag "cdg" res).bind pCdg,
          (findTag "data" res).bind pBlockFacts, (findTag "ctrl" res).bind pBlockFacts,
          (findTag "sdata" res).bind pStmtFacts, (findTag "sctrl" res).bind pStmtFacts with
    | some R, some P, some cdg, some dataI, some ctrlI, some sdataI, some sctrlI =>
      if !sameModuloPreds R P then .bad "crawl.run: the CFG read back differs from the request" else
      if !P.wf then .bad "crawl.run: generated CFG is not well formed" else
      let order := ((findTag "order" res).getD []).filterMap pLab
      let A : Answers := {
        data := lookupFacts dataI, ctrl := lookupFacts ctrlI,
        sdata := fun l => (sdataI.lookup l).bind (fun m => if m.isEmpty then none else some m),
        sctrl := fun l => (sctrlI.lookup l).bind (fun m => if m.isEmpty then none else some m) }
      let cands := progCands reqProg
      -- (R)
      match (do let a ← pairedExec P order cdg A cands 10 false; let b ← pairedExec P order cdg A cands 3 true; pure (a + b)) with
      | .error m => if m.startsWith "BAD" then .bad s!"crawl.run: {m}" else .unsound m
      | .ok _ =>
        -- (S)
        if !isDataSol P A.data then
          .drift "[C18] crawl.run: the data-only answer does not satisfy the data-dependence inequations (no execution witness found)" else
        if !isDataSol P A.ctrl then
          .drift "[C18] crawl.run: the data+control answer does not satisfy the data-dependence inequations (no execution witness found)" else
        -- (E)
        let cmpBlocks1 := fun (cv : CrawlVariant) (g : Cdg) (I : Label → Facts) =>
          match crawl cv P g order with
          | none => some "model fixpoint ran out of fuel"
          | some M =>
            match P.labels.find? (fun l => !sameFacts (M.get l) (I l)) with
            | some l => some s!"entry of b{l}: model {showFacts (M.get l)} implementation {showFacts (I l)}"
            | none => none
        let cmpStmts1 := fun (cv : CrawlVariant) (g : Cdg) (I : Label → Facts) (S : Label → Option (List (Nat × Facts))) =>
          P.labels.findSome? (fun l =>
            let m := stmtFacts cv P g l I
            let s := (S l).getD []
            if m.length != s.length then some s!"per-statement answers of b{l}: {s.length} entries, model {m.length}"
            else (m.zip s).findSome? (fun p =>
              if p.1.1 == p.2.1 && sameFacts p.1.2 p.2.2 then none
              else some s!"statement {p.1.1} of b{l}: model {showFacts p.1.2} implementation {showFacts p.2.2}"))
        -- the model of the tree as it is, or with any of the two proposed repairs of
        -- assertion_crawler.hpp applied (one variant has to explain all four answers)
        let cmpAll := fun (cv : CrawlVariant) =>
          match cmpBlocks1 cv [] A.data with
          | some m => some s!"crawl.run data-only: {m}"
          | none =>
          match cmpBlocks1 cv cdg A.ctrl with
          | some m => some s!"crawl.run data+control: {m}"
          | none =>
          match cmpStmts1 cv [] A.data A.sdata with
          | some m => some s!"crawl.run data-only: {m}"
          | none =>
          match cmpStmts1 cv cdg A.ctrl A.sctrl with
          | some m => some s!"crawl.run data+control: {m}"
          | none => none
        let variants : List CrawlVariant := [⟨true, false⟩, ⟨false, true⟩, ⟨true, true⟩]
        let explained := (cmpAll CrawlVariant.cur).isNone || variants.any (fun cv => (cmpAll cv).isNone)
        if !explained then .drift ((cmpAll CrawlVariant.cur).getD "") else
        -- (G)
        match P.exit with
        | none => .ok
        | some x =>
          let co := P.coReachable x
          if !P.labels.all (fun l => co.contains l) then .ok else
          let spec := P.specCdg x
          match spec.find? (fun p => !((cdg.lookup p.1).getD []).contains p.2) with
          | some p => .drift s!"[C18] [cdg] crawl.run: b{p.2} is control dependent on b{p.1} by the definition, but not in the implementation's graph"
          | none => .ok
    | _, _, _, _, _, _, _ => .bad "crawl.run: parse"
  | _, _ => .bad s!"crawl.{op}"

end Crawl
export Crawl (handleCrawl)
end Driver
